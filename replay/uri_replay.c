/* Native replay driver for violations reported by the C13 units (source/uri.c).
 *
 *   replay <op> key=value ...
 *
 * tools/verif.py extracts the verifier's counterexample from the trace (fields of the parameter objects as
 * <param>.<field>, scalar arguments as arg.<name>, ghost / replay scalars g_* and r_*) and passes it as key=value pairs.
 * The input is rebuilt natively from those values, the REAL code of /repo/source/uri.c (included below, so that its static
 * functions can be called directly) is run under ASan+UBSan and the property's postcondition is evaluated in plain C
 * against references written from RFC 3986 / the property statement (not from the code).
 *   exit 0: property held on this input     exit 1: violated (reason printed; a sanitizer report is a non-zero exit too)
 *   exit 3: input not constructible natively (sizes beyond what a process can back)
 * A key that is missing (the trace pass gave no value) falls back to a default that covers the interesting cases.
 *
 *   op                      keys
 *   to_upper_hex            arg.value                                   (absent: all 16 values)
 *   path_char | param_char  buffer.len buffer.capacity arg.value         (arg.value absent: all 256 bytes)
 *   encode_path | encode_param   buffer.len buffer.capacity cursor.len   (input bytes: pattern over every character class)
 *   decode                  buffer.len buffer.capacity cursor.len        (input bytes: pattern of literals and escapes)
 *   decode_bounded          r_n r_pre r_in       (r_in: the input bytes, little endian in one 64-bit word)
 *   encode_decode_bounded   r_n r_pre r_path r_in
 *   char_roundtrip          r_v r_path
 *   query_bounded           r_n r_q              (r_q: the query bytes, little endian in one 64-bit word)
 *   query_next_param        -                     (unit query_next_param: the query bytes are contents of an is_fresh object and
 *                                                  cannot be recovered from the trace; instead every query string over
 *                                                  {a,=,&} of length 0..7 is iterated with the real code and compared with the
 *                                                  reference splitter, stopping at the first difference - a native check of
 *                                                  the same property clause, NOT the verifier's input)
 *   parse_text              r_tn r_tw0 r_tw1 r_tw2   (the text, little endian in three 64-bit words; absent: built-in corpus)
 *   parse_authority_exact   r_n + the logged delimiter searches r_mcn r_mcc<k> r_mcr<k> (character, index found), r_pu_ok r_pu_val
 *   parse_corpus            -                     (units parse_scheme/_path/_query/_authority, init_*: the text bytes of their
 *                                                  counterexamples are contents of is_fresh objects and cannot be recovered from
 *                                                  the trace; instead a built-in list of texts is run through the real parser
 *                                                  and compared with the reference parser - a native check of the same
 *                                                  postcondition, NOT the verifier's input)
 *   builder                 options.scheme.len options.host_name.len options.port options.path.len options.query_string.len g_port_digits
 */
#include <inttypes.h>
#include <stdio.h>
#include <stdlib.h>
#include <string.h>
#include <unistd.h>

#include "source/uri.c"

/* environment stubs: the driver links uri.c (above), byte_buf.c, array_list.c, allocator.c, error.c, math.c only */
void aws_fatal_assert(const char *cond, const char *file, int line) {
    printf("VIOLATED: aws_fatal_assert(%s) at %s:%d\n", cond, file, line);
    fflush(stdout);
    _exit(1);
}
void aws_secure_zero(void *p, size_t n) {
    volatile unsigned char *v = p;
    while (n--) *v++ = 0;
}

/* the driver itself never frees its test inputs */
const char *__asan_default_options(void) { return "detect_leaks=0"; }

#define REAL_MAX ((size_t)1 << 16)
static int s_argc;
static char **s_argv;
static int s_fail;
#define FAIL(...) do { printf("VIOLATED: "); printf(__VA_ARGS__); printf("\n"); s_fail = 1; } while (0)

static int has(const char *key) {
    size_t n = strlen(key);
    for (int i = 2; i < s_argc; ++i)
        if (!strncmp(s_argv[i], key, n) && s_argv[i][n] == '=') return 1;
    return 0;
}
static uint64_t get(const char *key, uint64_t dflt) {
    size_t n = strlen(key);
    for (int i = 2; i < s_argc; ++i)
        if (!strncmp(s_argv[i], key, n) && s_argv[i][n] == '=') {
            const char *v = s_argv[i] + n + 1;
            if (!strcmp(v, "TRUE")) return 1;
            if (!strcmp(v, "FALSE")) return 0;
            if (v[0] == '-') return (uint64_t)strtoll(v, NULL, 10);
            return strtoull(v, NULL, 10);
        }
    return dflt;
}
static uint64_t get2(const char *k1, const char *k2, uint64_t dflt) { return has(k1) ? get(k1, dflt) : get(k2, dflt); }
static uint64_t getk(const char *fmt, unsigned k, uint64_t dflt) {
    char key[48];
    snprintf(key, sizeof key, fmt, k);
    return get(key, dflt);
}
static void show(const uint8_t *p, size_t n) {
    putchar('"');
    for (size_t i = 0; i < n; ++i) {
        if (p[i] >= 32 && p[i] < 127 && p[i] != '"' && p[i] != '\\') putchar(p[i]);
        else printf("\\x%02x", p[i]);
    }
    putchar('"');
}

/* ------------------------------------------------------------------ references (RFC 3986 2.1, 2.3) */
static int ref_unreserved(uint8_t c) {
    return (c >= 'a' && c <= 'z') || (c >= 'A' && c <= 'Z') || (c >= '0' && c <= '9') || c == '-' || c == '_' || c == '.' || c == '~';
}
static int ref_keep(uint8_t c, int path) { return ref_unreserved(c) || (path && c == '/'); }
static const char REF_HEX[] = "0123456789ABCDEF";
static size_t ref_encode(const uint8_t *in, size_t n, int path, uint8_t *out) {
    size_t m = 0;
    for (size_t i = 0; i < n; ++i) {
        if (ref_keep(in[i], path)) out[m++] = in[i];
        else { out[m++] = '%'; out[m++] = (uint8_t)REF_HEX[in[i] >> 4]; out[m++] = (uint8_t)REF_HEX[in[i] & 15]; }
    }
    return m;
}
static int ref_hexval(uint8_t c) { return c >= '0' && c <= '9' ? c - '0' : c >= 'a' && c <= 'f' ? c - 'a' + 10 : c >= 'A' && c <= 'F' ? c - 'A' + 10 : -1; }
/* returns 0 and the decoded bytes, or -1 when some '%' is not followed by two hex digits */
static int ref_decode(const uint8_t *in, size_t n, uint8_t *out, size_t *m) {
    *m = 0;
    for (size_t i = 0; i < n;) {
        if (in[i] != '%') { out[(*m)++] = in[i++]; continue; }
        if (i + 2 >= n) return -1;
        int h = ref_hexval(in[i + 1]), l = ref_hexval(in[i + 2]);
        if (h < 0 || l < 0) return -1;
        out[(*m)++] = (uint8_t)(h * 16 + l);
        i += 3;
    }
    return 0;
}

/* a buffer with the claimed len/capacity whose storage comes from the real allocator (exact size: ASan sees any overrun) */
static struct aws_byte_buf mkbuf(size_t len, size_t cap, uint8_t seed) {
    struct aws_byte_buf b;
    if (len > cap) { printf("input not constructible: len > capacity\n"); exit(3); }
    if (cap > REAL_MAX) { printf("input not constructible natively: capacity %zu\n", cap); exit(3); }
    b.allocator = aws_default_allocator();
    b.capacity = cap;
    b.len = len;
    b.buffer = cap ? aws_mem_acquire(b.allocator, cap) : NULL;
    for (size_t i = 0; i < cap; ++i) b.buffer[i] = (uint8_t)(seed + 13 * i);
    return b;
}
static uint8_t *dup_bytes(const uint8_t *p, size_t n) {
    uint8_t *s = malloc(n ? n : 1);
    if (n) memcpy(s, p, n);
    return s;
}
/* exact-size heap copy of n bytes taken from a 64-bit little-endian word */
static uint8_t *from_word(uint64_t w, size_t n) {
    uint8_t *p = malloc(n ? n : 1);
    for (size_t i = 0; i < n && i < 8; ++i) p[i] = (uint8_t)(w >> (8 * i));
    return p;
}

/* ------------------------------------------------------------------ per-byte encoders */
static void one_char(int path, size_t len, size_t cap, uint8_t v) {
    /* precondition of the contract: three spare bytes */
    if (cap < 3) { printf("input outside the precondition (fewer than 3 spare bytes)\n"); exit(3); }
    /* the trace gives the LAST value of a field: buffer.len may be the length after the call (up to 3 more) */
    if (cap - len < 3) len = cap - 3;
    size_t shift = 0;
    if (cap > REAL_MAX) { /* a process cannot back 2^50 bytes: keep the spare room, move the window down */
        if (len > REAL_MAX - 3) { shift = len - (REAL_MAX - 3); len -= shift; }
        cap = REAL_MAX;
    }
    struct aws_byte_buf b = mkbuf(len, cap, 5), old = b;
    uint8_t *snap = dup_bytes(b.buffer, cap);
    if (path) s_unchecked_append_canonicalized_path_character(&b, v); else s_raw_append_canonicalized_param_character(&b, v);
    uint8_t want[3];
    size_t w = ref_encode(&v, 1, path, want);
    if (b.buffer != old.buffer || b.capacity != old.capacity || b.allocator != old.allocator) FAIL("%s_char(0x%02x): buffer shape changed", path ? "path" : "param", v);
    if (b.len != old.len + w) FAIL("%s_char(0x%02x): length advanced by %zu, the encoding has %zu byte(s)", path ? "path" : "param", v, b.len - old.len, w);
    if (memcmp(b.buffer + old.len, want, w)) {
        printf("VIOLATED: %s_char(0x%02x) wrote ", path ? "path" : "param", v); show(b.buffer + old.len, w); printf(", specified encoding is "); show(want, w); printf("\n");
        s_fail = 1;
    }
    for (size_t i = 0; i < cap; ++i)
        if ((i < old.len || i >= old.len + w) && b.buffer[i] != snap[i]) { FAIL("%s_char(0x%02x): byte %zu outside the %zu encoded byte(s) changed", path ? "path" : "param", v, i + shift, w); break; }
    aws_byte_buf_clean_up(&b);
    free(snap);
}

/* ------------------------------------------------------------------ whole-string encoders / decoder on pattern input */
static const uint8_t ENC_PATTERN[] = {'a', '/', ' ', 'Z', '%', '~', 0xff, '0', '&', '-', 0x00, '_', '=', '.', '+', '9', ':', '?', '#', '[', 0x7f, ']', '@', 0x80, 'z'};
/* one call on the given input bytes (in[] holds min(n, what is backed) bytes) */
static void encode_case(int path, size_t len, size_t cap, size_t n, const uint8_t *src, size_t nreal, int fits) {
    struct aws_byte_buf b = mkbuf(len, cap, 9), old = b;
    uint8_t *snap = dup_bytes(b.buffer, len);
    uint8_t *in = dup_bytes(src, nreal); /* exact size: an over-read is a sanitizer report */
    struct aws_byte_cursor c = {.len = n, .ptr = in};
    int r = path ? aws_byte_buf_append_encoding_uri_path(&b, &c) : aws_byte_buf_append_encoding_uri_param(&b, &c);
    const char *fn = path ? "append_encoding_uri_path" : "append_encoding_uri_param";
    if ((r == AWS_OP_SUCCESS) != fits) FAIL("%s returned %d for %zu input bytes at length %zu; 3n %s", fn, r, n, len, fits ? "fits" : "does not fit in size_t");
    if (r != AWS_OP_SUCCESS && r != AWS_OP_ERR) FAIL("%s returned %d", fn, r);
    if (r != AWS_OP_SUCCESS) {
        if (b.len != old.len || b.capacity != old.capacity || b.buffer != old.buffer) FAIL("%s failed but changed the buffer", fn);
    } else if (fits) {
        uint8_t *want = malloc(3 * n + 1);
        size_t m = ref_encode(in, n, path, want);
        if (b.len > b.capacity) FAIL("%s: len %zu > capacity %zu", fn, b.len, b.capacity);
        if (b.len != old.len + m) { printf("VIOLATED: %s(", fn); show(in, n > 40 ? 40 : n); printf("): new length %zu, expected %zu + %zu\n", b.len, old.len, m); s_fail = 1; }
        else {
            for (size_t i = 0; i < old.len; ++i) if (b.buffer[i] != snap[i]) { FAIL("%s: byte %zu below the old length changed", fn, i); break; }
            for (size_t i = 0; i < m; ++i)
                if (b.buffer[old.len + i] != want[i]) { printf("VIOLATED: %s(", fn); show(in, n > 40 ? 40 : n); printf("): output byte %zu is 0x%02x, specified encoding has 0x%02x\n", i, b.buffer[old.len + i], want[i]); s_fail = 1; break; }
        }
        free(want);
    }
    aws_byte_buf_clean_up(&b);
    free(snap); free(in);
}
static void encode_op(int path) {
    size_t len = get2("buffer.len", "r_len", 5), cap = get2("buffer.capacity", "r_cap", 8), n = get2("cursor.len", "r_n", 11);
    int fits = n <= SIZE_MAX / 3 && 3 * n <= SIZE_MAX - len;
    if (fits && (n > REAL_MAX / 4 || len > REAL_MAX)) {
        /* a process cannot back the verifier's 2^50-byte views; the function treats every length alike */
        printf("input of %zu bytes at length %zu reduced to %zu bytes at length %zu\n", n, len, n % 4096 + 64, len ? len % 4096 + 8 : 0);
        n = n % 4096 + 64; len = len ? len % 4096 + 8 : 0;
    }
    if (!fits && len > REAL_MAX) len = REAL_MAX;
    if (cap > REAL_MAX) cap = cap % 4096;
    if (cap < len) cap = len;
    if (!fits) { /* a length whose triple overflows must be refused before a byte is read */
        encode_case(path, len, cap, n, ENC_PATTERN, 16, 0);
    } else {
        uint8_t *in = malloc(n ? n : 1);
        /* the pattern over every character class, started at every position; then the worst case (every byte escaped: 3n
         * output bytes) and the best case (every byte kept) */
        size_t rots = n <= 256 ? sizeof ENC_PATTERN : 3;
        for (size_t rot = 0; rot < rots && !s_fail; ++rot) {
            for (size_t i = 0; i < n; ++i) in[i] = ENC_PATTERN[(i + rot) % sizeof ENC_PATTERN];
            encode_case(path, len, cap, n, in, n, 1);
        }
        memset(in, 0xFF, n);
        if (!s_fail) encode_case(path, len, cap, n, in, n, 1);
        memset(in, 'k', n);
        if (!s_fail) encode_case(path, len, cap, n, in, n, 1);
        free(in);
    }
    /* the NULL/0 view (excluded from the contract units, see contracts/uri.h) */
    struct aws_byte_buf e = mkbuf(2, 4, 1);
    struct aws_byte_cursor z = {0, NULL};
    int rz = path ? aws_byte_buf_append_encoding_uri_path(&e, &z) : aws_byte_buf_append_encoding_uri_param(&e, &z);
    if (rz != AWS_OP_SUCCESS || e.len != 2) FAIL("%s on the empty view: rc %d len %zu", path ? "append_encoding_uri_path" : "append_encoding_uri_param", rz, e.len);
}
static void fill_decodable(uint8_t *in, size_t n) {
    static const char *unit[] = {"a", "%41", "b", "%2f", "/", "%7E", "%00", "c", "%fF", "+"};
    size_t i = 0, k = 0;
    while (i < n) {
        const char *u = unit[k++ % 10];
        size_t l = strlen(u);
        if (l > n - i) { in[i++] = 'x'; continue; }
        memcpy(in + i, u, l);
        i += l;
    }
}
static void check_decode(struct aws_byte_buf *b, const uint8_t *in, size_t n, const char *what) {
    struct aws_byte_buf old = *b;
    uint8_t *snap = dup_bytes(b->buffer, b->len);
    uint8_t *in_copy = dup_bytes(in, n); /* exact size: over-reads are visible */
    struct aws_byte_cursor c = {.len = n, .ptr = n ? in_copy : NULL};
    uint8_t *want = malloc(n + 1);
    size_t m = 0;
    int ok = ref_decode(in, n, want, &m) == 0;
    int r = aws_byte_buf_append_decoding_uri(b, &c);
    printf("%s: decoding ", what); show(in, n > 64 ? 64 : n); printf("%s at length %zu (capacity %zu) -> rc %d, length %zu\n", n > 64 ? "..." : "", old.len, old.capacity, r, b->len);
    if ((r == AWS_OP_SUCCESS) != ok) FAIL("decode returned %d, but %s '%%' is followed by two hex digits", r, ok ? "every" : "not every");
    if (b->len > b->capacity || b->len < old.len || b->len - old.len > n) FAIL("decode: length %zu outside [old length %zu, old length + %zu] or above capacity %zu", b->len, old.len, n, b->capacity);
    for (size_t i = 0; i < old.len && i < b->len; ++i) if (b->buffer[i] != snap[i]) { FAIL("decode: byte %zu below the old length changed (0x%02x -> 0x%02x)", i, snap[i], b->buffer[i]); break; }
    if (ok && r == AWS_OP_SUCCESS) {
        if (b->len != old.len + m) FAIL("decode: new length %zu, expected %zu + %zu", b->len, old.len, m);
        else for (size_t i = 0; i < m; ++i) if (b->buffer[old.len + i] != want[i]) { FAIL("decode: decoded byte %zu is 0x%02x, reference has 0x%02x", i, b->buffer[old.len + i], want[i]); break; }
    }
    free(snap); free(in_copy); free(want);
}

/* ------------------------------------------------------------------ reference URI parser (RFC 3986 3, with the documented
 * extensions of this library: scheme-less texts, "user:password", bracketed hosts, empty port = 0) */
struct ref_uri {
    int ok, host_known;
    size_t scheme_off, scheme_len, auth_off, auth_len, ui_off, ui_len, user_len, pw_off, pw_len, has_ui, has_pw, host_off, host_len;
    size_t path_off, path_len, q_off, q_len, has_q, pq_off, pq_len;
    uint64_t port;
};
static size_t first_of(const uint8_t *t, size_t from, size_t to, uint8_t c) {
    for (size_t i = from; i < to; ++i) if (t[i] == c) return i;
    return SIZE_MAX;
}
static void ref_parse(const uint8_t *t, size_t n, struct ref_uri *u) {
    memset(u, 0, sizeof *u);
    u->host_known = 1;
    size_t pos = 0;
    size_t colon = first_of(t, 0, n, ':');
    if (colon != SIZE_MAX && colon + 1 < n && t[colon + 1] == '/') {
        if (!(colon + 2 < n && t[colon + 2] == '/')) return; /* "x:/y" : malformed scheme delimiter */
        u->scheme_off = 0; u->scheme_len = colon; pos = colon + 3;
    }
    if (pos == n) return; /* nothing after the scheme: malformed */
    size_t sl = first_of(t, pos, n, '/'), qm = first_of(t, pos, n, '?');
    size_t aend = sl < qm ? sl : qm; /* SIZE_MAX when neither */
    if (aend == SIZE_MAX) aend = n;
    u->auth_off = pos; u->auth_len = aend - pos;
    if (u->auth_len) {
        size_t h0 = pos;
        size_t at = first_of(t, pos, aend, '@');
        if (at != SIZE_MAX) {
            u->has_ui = 1; u->ui_off = pos; u->ui_len = at - pos;
            size_t uc = first_of(t, pos, at, ':');
            if (uc == SIZE_MAX) u->user_len = u->ui_len;
            else { u->user_len = uc - pos; u->has_pw = 1; u->pw_off = uc + 1; u->pw_len = at - uc - 1; }
            h0 = at + 1;
        }
        size_t ps = h0, br = SIZE_MAX;
        int v6 = h0 < aend && t[h0] == '[';
        if (v6) {
            br = first_of(t, h0, aend, ']');
            if (br == SIZE_MAX) return; /* unclosed bracket */
            ps = br;
        }
        size_t pc = first_of(t, ps, aend, ':');
        size_t hend = pc == SIZE_MAX ? aend : pc;
        if (!v6) { u->host_off = h0; u->host_len = hend - h0; }
        else if (br + 1 == hend) { u->host_off = h0 + 1; u->host_len = br - h0 - 1; }
        else u->host_known = 0; /* bytes between ']' and the port delimiter: only "inside the text" is claimed */
        if (pc != SIZE_MAX && pc + 1 < aend) {
            __uint128_t v = 0;
            for (size_t i = pc + 1; i < aend; ++i) {
                if (t[i] < '0' || t[i] > '9') return;
                v = v * 10 + (t[i] - '0');
                if (v > UINT64_MAX) return;
            }
            if (v > UINT32_MAX) return;
            u->port = (uint64_t)v;
        }
    }
    pos = aend;
    if (pos < n) {
        u->pq_off = pos; u->pq_len = n - pos;
        if (t[pos] == '/') {
            size_t q = first_of(t, pos, n, '?');
            u->path_off = pos; u->path_len = (q == SIZE_MAX ? n : q) - pos;
            pos += u->path_len;
        }
        if (pos < n) { u->has_q = 1; u->q_off = pos + 1; u->q_len = n - pos - 1; }
    }
    u->ok = 1;
}
static int view_is(const struct aws_uri *u, const struct aws_byte_cursor *v, size_t off, size_t len) {
    if (v->len != len) return 0;
    if (len == 0) return v->ptr == NULL || (v->ptr >= u->uri_str.buffer && v->ptr <= u->uri_str.buffer + u->uri_str.len);
    return v->ptr == u->uri_str.buffer + off;
}
#define CHECK_VIEW(field, o_, l_, name)                                                                                \
    do {                                                                                                               \
        if (!view_is(&u, &u.field, (o_), (l_))) {                                                                      \
            printf("VIOLATED: parse("); show(t, n);                                                                    \
            printf("): %s is [%td,+%zu), expected [%zu,+%zu)\n", name, u.field.ptr ? u.field.ptr - u.uri_str.buffer : (ptrdiff_t)-1, u.field.len, (size_t)(o_), (size_t)(l_)); \
            s_fail = 1;                                                                                                \
        }                                                                                                              \
    } while (0)
static void check_parse(const uint8_t *t, size_t n) {
    struct ref_uri e;
    ref_parse(t, n, &e);
    uint8_t *copy = dup_bytes(t, n);
    struct aws_byte_cursor c = {.len = n, .ptr = n ? copy : NULL};
    struct aws_uri u;
    memset(&u, 0xA5, sizeof u);
    aws_reset_error();
    int r = aws_uri_init_parse(&u, aws_default_allocator(), &c);
    if ((r == AWS_OP_SUCCESS) != e.ok) {
        printf("VIOLATED: parse("); show(t, n); printf(") %s, the reference parser %s it\n", r == AWS_OP_SUCCESS ? "accepted" : "refused", e.ok ? "accepts" : "refuses");
        s_fail = 1;
    }
    if (r != AWS_OP_SUCCESS) {
        if (aws_last_error() != AWS_ERROR_MALFORMED_INPUT_STRING) FAIL("refusal does not raise MALFORMED_INPUT_STRING (last error %d)", aws_last_error());
        static const struct aws_uri zero;
        if (memcmp(&u, &zero, sizeof u)) FAIL("object not zeroed after a refusal");
        free(copy);
        return;
    }
    if (!e.ok) { aws_uri_clean_up(&u); free(copy); return; }
    if (u.uri_str.len != n || (n && memcmp(u.uri_str.buffer, t, n))) FAIL("uri_str is not a copy of the text");
    if (u.self_size != sizeof(struct aws_uri) || u.allocator != aws_default_allocator()) FAIL("self_size %zu / allocator not as initialised (sizeof(struct aws_uri) is %zu)", u.self_size, sizeof(struct aws_uri));
    CHECK_VIEW(scheme, e.scheme_off, e.scheme_len, "scheme");
    CHECK_VIEW(authority, e.auth_off, e.auth_len, "authority");
    if (e.has_ui) { CHECK_VIEW(userinfo, e.ui_off, e.ui_len, "user-info"); CHECK_VIEW(user, e.ui_off, e.user_len, "user"); }
    else if (u.userinfo.len || u.user.len || u.password.len) FAIL("user-info reported but the authority has no '@'");
    if (e.has_pw) CHECK_VIEW(password, e.pw_off, e.pw_len, "password"); else if (u.password.len) FAIL("password reported but the user-info has no ':'");
    if (e.host_known) CHECK_VIEW(host_name, e.host_off, e.host_len, "host");
    if (u.port != e.port) { printf("VIOLATED: parse("); show(t, n); printf("): port %u, expected %" PRIu64 "\n", u.port, e.port); s_fail = 1; }
    CHECK_VIEW(path, e.path_off, e.path_len, "path");
    CHECK_VIEW(query_string, e.q_off, e.q_len, "query");
    CHECK_VIEW(path_and_query, e.pq_off, e.pq_len, "path_and_query");
    const struct aws_byte_cursor *vs[] = {&u.scheme, &u.authority, &u.userinfo, &u.user, &u.password, &u.host_name, &u.path, &u.query_string, &u.path_and_query};
    for (unsigned i = 0; i < 9; ++i)
        if (vs[i]->ptr ? (vs[i]->ptr < u.uri_str.buffer || vs[i]->len > u.uri_str.len || vs[i]->ptr + vs[i]->len > u.uri_str.buffer + u.uri_str.len) : vs[i]->len != 0) {
            printf("VIOLATED: parse("); show(t, n); printf("): view %u lies outside uri_str\n", i); s_fail = 1;
        }
    aws_uri_clean_up(&u);
    free(copy);
}
static void parse_corpus(void) {
    static const char *texts[] = {
        "https://www.test.com:8443/path/to/resource?test1=value1&test2=value2", "www.test.com", "www.test.com:8443", "http://h", "h/p", "h?q", "h?a/b",
        "s://u@h", "s://u:p@h:1/p?q", "u@[::1]", "s://u@[::1]:443/a", "bob:pw@[2001:db8::1]", "[::1]", "[::1]:80", "s://[v6]:65536/x?y=/", "h:", "h:0", "h:4294967295",
        "h:4294967296", "h:12a", "h:99999999999999999999", "s://", "s:/x", "s:/", "ab:/", "/", "?", "/p?", "h/", "s://h?", "s://:80", "s://@h", "s://u:@h", "s://:p@h", "[::1", "a@b@c", "a:b:c@h:7",
        "s://h:80?x=1/2", "s://h/p/q/r?x=1&y=2&z", "h/a:b", "1.2.3.4:5", "s://[::]", "s://u@[::]:", "x://y:1?z",
    };
    for (size_t i = 0; i < sizeof texts / sizeof *texts; ++i) check_parse((const uint8_t *)texts[i], strlen(texts[i]));
}

/* ------------------------------------------------------------------ query strings: iterator and list form against a reference splitter */
static int s_quiet;
static void check_query(const uint8_t *q, size_t n) {
    size_t ko[64], kl[64], vo[64], vl[64], m = 0;
    if (n > 60) exit(3);
    for (size_t start = 0, j = 0; j <= n; ++j) {
        if (j == n || q[j] == '&') {
            if (j > start) {
                size_t e = first_of(q, start, j, '=');
                ko[m] = start; kl[m] = (e == SIZE_MAX ? j : e) - start; vo[m] = e == SIZE_MAX ? j : e + 1; vl[m] = e == SIZE_MAX ? 0 : j - e - 1; m++;
            }
            start = j + 1;
        }
    }
    uint8_t *buf = malloc(n + 1); /* one addressable byte behind the view, as in a C string (and in the unit) */
    memcpy(buf, q, n); buf[n] = '&';
    struct aws_byte_cursor qc = {.len = n, .ptr = buf};
    struct aws_uri_param p;
    memset(&p, 0, sizeof p);
    size_t k = 0;
    if (!s_quiet) { printf("query "); show(q, n); printf(": reference has %zu pair(s)\n", m); }
    while (aws_query_string_next_param(qc, &p)) {
        if (k >= m) { FAIL("the iterator yields more than the %zu non-empty piece(s)", m); break; }
        if (p.key.ptr != buf + ko[k] || p.key.len != kl[k] || p.value.ptr != buf + vo[k] || p.value.len != vl[k]) {
            FAIL("pair %zu is key [%td,+%zu) value [%td,+%zu), the %zu-th non-empty piece split at its first '=' is key [%zu,+%zu) value [%zu,+%zu)", k, p.key.ptr - buf, p.key.len,
                 p.value.ptr - buf, p.value.len, k, ko[k], kl[k], vo[k], vl[k]);
            break;
        }
        if (++k > n + 1) { FAIL("the iterator does not terminate"); break; }
    }
    if (!s_fail && k != m) FAIL("the iterator yields %zu pair(s), there are %zu non-empty piece(s)", k, m);
    struct aws_array_list l;
    aws_array_list_init_dynamic(&l, aws_default_allocator(), 4, sizeof(struct aws_uri_param));
    int r = aws_query_string_params(qc, &l);
    if (r != AWS_OP_SUCCESS || aws_array_list_length(&l) != m) FAIL("list form: rc %d, %zu element(s), expected %zu", r, aws_array_list_length(&l), m);
    else for (size_t i = 0; i < m; ++i) {
        struct aws_uri_param e;
        aws_array_list_get_at(&l, &e, i);
        if (e.key.ptr != buf + ko[i] || e.key.len != kl[i] || e.value.ptr != buf + vo[i] || e.value.len != vl[i]) { FAIL("list element %zu differs from pair %zu", i, i); break; }
    }
    aws_array_list_clean_up(&l);
    free(buf);
}

int main(int argc, char **argv) {
    s_argc = argc;
    s_argv = argv;
    if (argc < 2) return 2;
    const char *op = argv[1];

    if (!strcmp(op, "to_upper_hex")) {
        unsigned lo = 0, hi = 15;
        if (has("arg.value")) lo = hi = (unsigned)get("arg.value", 0);
        if (hi > 15) { printf("input outside the precondition (value < 16)\n"); return 3; }
        for (unsigned v = lo; v <= hi; ++v) {
            uint8_t r = s_to_uppercase_hex((uint8_t)v);
            if (r != (uint8_t)REF_HEX[v]) FAIL("s_to_uppercase_hex(%u) == '%c', upper-case hex digit is '%c'", v, r, REF_HEX[v]);
        }
    } else if (!strcmp(op, "path_char") || !strcmp(op, "param_char")) {
        int path = !strcmp(op, "path_char");
        size_t len = get("buffer.len", 4), cap = get("buffer.capacity", 16);
        unsigned lo = 0, hi = 255;
        if (has("arg.value")) lo = hi = (unsigned)get("arg.value", 0) & 255;
        for (unsigned v = lo; v <= hi; ++v) one_char(path, len, cap, (uint8_t)v);
    } else if (!strcmp(op, "encode_path") || !strcmp(op, "encode_param")) {
        encode_op(!strcmp(op, "encode_path"));
    } else if (!strcmp(op, "decode")) {
        size_t len = get2("buffer.len", "r_len", 5), cap = get2("buffer.capacity", "r_cap", 8), n = get2("cursor.len", "r_n", 14);
        if (n > SIZE_MAX - len) { /* must be refused before anything is touched */
            struct aws_byte_buf b = mkbuf(len > REAL_MAX ? REAL_MAX : len, REAL_MAX, 3), old = b;
            uint8_t in[4] = "abc";
            b.len = len; /* claimed */
            struct aws_byte_cursor c = {.len = n, .ptr = in};
            old.len = len;
            int r = aws_byte_buf_append_decoding_uri(&b, &c);
            if (r != AWS_OP_ERR || b.len != old.len || b.capacity != old.capacity || b.buffer != old.buffer) FAIL("decode of %zu bytes at length %zu: rc %d, must be refused with the buffer unchanged", n, len, r);
        } else {
            if (n > REAL_MAX || len > REAL_MAX) {
                /* a process cannot back the verifier's 2^50-byte views; the function treats every length alike */
                printf("input of %zu bytes at length %zu reduced to %zu bytes at length %zu\n", n, len, n % 4096 + 64, len ? len % 4096 + 8 : 0);
                n = n % 4096 + 64; len = len ? len % 4096 + 8 : 0;
            }
            if (cap > REAL_MAX) cap = cap % 4096;
            if (cap < len) cap = len;
            uint8_t *in = malloc(n + 1);
            fill_decodable(in, n);
            struct aws_byte_buf b = mkbuf(len, cap, 3);
            check_decode(&b, in, n, "well-formed pattern");
            /* and a malformed variant of the same length: last escape cut short */
            if (n >= 2) {
                struct aws_byte_buf b2 = mkbuf(len, cap, 3);
                in[n - 2] = '%';
                in[n - 1] = '4';
                check_decode(&b2, in, n, "pattern ending in a cut escape");
            }
        }
    } else if (!strcmp(op, "decode_bounded")) {
        size_t n = get("r_n", 4), pre = get("r_pre", 2);
        if (n > 8) return 3;
        uint8_t *in = from_word(get("r_in", 0x3134256261ull /* "ab%41" */), n);
        struct aws_byte_buf b = mkbuf(pre, pre + n > 8 ? pre + n : 8, 0x41);
        check_decode(&b, in, n, "counterexample");
    } else if (!strcmp(op, "encode_decode_bounded") || !strcmp(op, "char_roundtrip")) {
        int one = !strcmp(op, "char_roundtrip");
        size_t n = one ? 1 : get("r_n", 4), pre = one ? 0 : get("r_pre", 1);
        if (n > 8) return 3;
        unsigned plo = 0, phi = 1;
        if (has("r_path")) plo = phi = (unsigned)get("r_path", 0);
        unsigned vlo = 0, vhi = 0;
        if (one && !has("r_v")) vhi = 255; /* no witness: every byte */
        for (unsigned path = plo; path <= phi; ++path) for (unsigned vv = vlo; vv <= vhi; ++vv) {
            uint8_t *in = one ? from_word(has("r_v") ? get("r_v", 0) : vv, 1) : from_word(get("r_in", 0xff2f2061ull), n);
            struct aws_byte_buf b = mkbuf(pre, pre + 3 * n, 0x61), old = b;
            uint8_t *snap = dup_bytes(b.buffer, pre);
            struct aws_byte_cursor c = {.len = n, .ptr = n ? in : NULL};
            int r = path ? aws_byte_buf_append_encoding_uri_path(&b, &c) : aws_byte_buf_append_encoding_uri_param(&b, &c);
            uint8_t want[24];
            size_t m = ref_encode(in, n, (int)path, want);
            if (!one || has("r_v")) { printf("%s encoding of ", path ? "path" : "param"); show(in, n); printf(" at length %zu -> rc %d, ", pre, r); show(b.buffer + (pre < b.len ? pre : b.len), b.len >= pre ? b.len - pre : 0); printf("\n"); }
            if (r != AWS_OP_SUCCESS || b.buffer != old.buffer || b.capacity != old.capacity) FAIL("encoder does not succeed in place although 3n bytes are free (rc %d)", r);
            else if (b.len != pre + m || memcmp(b.buffer + pre, want, m)) { printf("VIOLATED: encoding differs from the specification "); show(want, m); printf("\n"); s_fail = 1; }
            else if (pre && memcmp(b.buffer, snap, pre)) FAIL("bytes below the old length changed");
            else {
                for (size_t i = 0; i < m; ++i) if (!(ref_keep(want[i], (int)path) || want[i] == '%')) FAIL("output byte 0x%02x is outside the allowed class", b.buffer[pre + i]);
                struct aws_byte_buf o = mkbuf(0, 3 * n + 1, 0);
                struct aws_byte_cursor e = {.len = b.len - pre, .ptr = b.buffer + pre};
                int r2 = aws_byte_buf_append_decoding_uri(&o, &e);
                if (r2 != AWS_OP_SUCCESS || o.len != n || (n && memcmp(o.buffer, in, n))) { printf("VIOLATED: decode(encode(x)) != x: rc %d, decoded ", r2); show(o.buffer, o.len); printf("\n"); s_fail = 1; }
            }
        }
    } else if (!strcmp(op, "query_bounded")) {
        size_t n = get("r_n", 3);
        if (n > 8) return 3;
        uint8_t *q = from_word(get("r_q", 0x612661ull /* "a&a" */), n);
        check_query(q, n);
        if (!has("r_q")) { check_query((const uint8_t *)"x&y&zz", 6); check_query((const uint8_t *)"flag&b=2", 8); check_query((const uint8_t *)"a=1&&b==&=c&", 12); }
    } else if (!strcmp(op, "query_next_param")) {
        static const uint8_t alpha[3] = {'a', '=', '&'};
        size_t cases = 0;
        s_quiet = 1;
        for (size_t n = 0; n <= 7 && !s_fail; ++n) {
            size_t total = 1;
            for (size_t i = 0; i < n; ++i) total *= 3;
            for (size_t c = 0; c < total && !s_fail; ++c) {
                uint8_t q[8];
                size_t x = c;
                for (size_t i = 0; i < n; ++i) { q[i] = alpha[x % 3]; x /= 3; }
                check_query(q, n);
                cases++;
                if (s_fail) { printf("  (query string: "); show(q, n); printf(")\n"); }
            }
        }
        printf("%zu query strings over {a,=,&} of length 0..7 iterated\n", cases);
    } else if (!strcmp(op, "parse_text")) {
        if (!has("r_tn")) parse_corpus();
        else {
            size_t n = get("r_tn", 0);
            if (n > 24) return 3;
            uint8_t t[24];
            for (size_t i = 0; i < 24; ++i) t[i] = (uint8_t)(getk("r_tw%u", (unsigned)(i / 8), 0) >> (8 * (i % 8)));
            printf("text "); show(t, n); printf("\n");
            check_parse(t, n);
        }
    } else if (!strcmp(op, "parse_corpus")) {
        parse_corpus();
    } else if (!strcmp(op, "parse_authority_exact")) {
        /* the text is rebuilt from the logged first-occurrence searches: every search that found its character puts that
         * character at the found position, the port text gets decimal digits, everything else is a neutral letter */
        if (!has("r_n")) { parse_corpus(); goto done; }
        size_t n0 = get("r_n", 0), k = get("r_mcn", 0);
        if (k > 6) k = 6;
        uint8_t ch[6];
        size_t rs[6];
        for (unsigned i = 0; i < 6; ++i) { ch[i] = (uint8_t)getk("r_mcc%u", i, 0); rs[i] = getk("r_mcr%u", i, SIZE_MAX); }
        /* the searches in the order of RFC 3986 3.2: '/', '?' over the text; '@' over the authority; ':' over the user-info;
         * ']' from the '[' of a bracketed host; ':' (port delimiter) over host[:port] resp. from the ']' on.  Marks = the
         * characters these searches found, at their absolute positions */
        struct mark { size_t pos; uint8_t c; } mk[8], tmp;
        unsigned nm = 0;
#define MARK(p_, c_) do { mk[nm].pos = (p_); mk[nm].c = (c_); nm++; } while (0)
        size_t idx = 0, SL = SIZE_MAX, QM = SIZE_MAX, AT = SIZE_MAX, UC = SIZE_MAX, BR = SIZE_MAX, PC = SIZE_MAX, port_from = SIZE_MAX;
        if (idx < k && ch[idx] == '/') SL = rs[idx++];
        if (idx < k && ch[idx] == '?') QM = rs[idx++];
        if (SL != SIZE_MAX && SL >= n0) SL = SIZE_MAX;
        if (QM != SIZE_MAX && QM >= n0) QM = SIZE_MAX;
        size_t A = SL < QM ? SL : QM;
        if (A > n0) A = n0;
        if (idx < k && ch[idx] == '@') {
            AT = rs[idx++];
            if (AT != SIZE_MAX && AT < A) MARK(AT, '@'); else AT = SIZE_MAX;
            if (AT != SIZE_MAX && idx < k && ch[idx] == ':') { UC = rs[idx++]; if (UC != SIZE_MAX && UC < AT) MARK(UC, ':'); }
        }
        size_t R0 = AT == SIZE_MAX ? 0 : AT + 1, PS = R0;
        if (idx < k && ch[idx] == ']') {
            if (R0 < A) MARK(R0, '[');
            BR = rs[idx++];
            if (BR != SIZE_MAX && BR > 0 && BR < A - R0) { MARK(R0 + BR, ']'); PS = R0 + BR; }
        }
        if (idx < k && ch[idx] == ':') {
            PC = rs[idx++];
            /* (a bracketed host is searched from its ']' on, so the ':' cannot be at relative index 0 there) */
            if (PC != SIZE_MAX && PS <= A && PC < A - PS && !(BR != SIZE_MAX && PC == 0)) { MARK(PS + PC, ':'); port_from = PS + PC + 1; }
        }
        if (SL != SIZE_MAX) MARK(SL, '/');
        if (QM != SIZE_MAX) MARK(QM, '?');
        for (unsigned i = 1; i < nm; ++i) for (unsigned j = i; j > 0 && mk[j].pos < mk[j - 1].pos; --j) { tmp = mk[j]; mk[j] = mk[j - 1]; mk[j - 1] = tmp; }
        /* emit: neutral letters between the marks (a gap longer than 6 bytes is shortened to 6: a process cannot back the 2^55-byte
         * texts the verifier likes, and only the order of the delimiters matters); the port text is the decimal text of the
         * value the abstract number parser returned (or not a number) */
        uint64_t pu_val = get("r_pu_val", 80);
        for (int variant = 0; variant < 2 && !s_fail; ++variant) {
            /* second variant: the same delimiters with a port value that is in range (the unit's number parser is abstract: any
             * outcome goes with any port text, so the counterexample stands for both) */
            if (variant == 1) { if (!(get("r_pu_ok", 1) && pu_val > 65535 && port_from != SIZE_MAX && A > port_from)) break; pu_val %= 65536; }
            uint8_t *t = malloc(8 * 8 + 64);
            size_t n = 0, prev = 0;
            int port_done = 0;
            for (unsigned i = 0; i <= nm; ++i) {
                size_t upto = i < nm ? mk[i].pos : n0;
                if (!port_done && port_from != SIZE_MAX && prev == port_from && upto >= port_from) { /* the segment [port_from, A) */
                    size_t pl = A - port_from;
                    if (pl > 0) {
                        if (get("r_pu_ok", 1)) n += (size_t)sprintf((char *)t + n, "%" PRIu64, pu_val);
                        else { memcpy(t + n, "8x", 2); n += 2; }
                    }
                    port_done = 1;
                } else {
                    size_t gap = upto > prev ? upto - prev : 0;
                    for (size_t g = 0; g < (gap > 6 ? 6 : gap); ++g) t[n++] = 'a';
                }
                if (i < nm) { t[n++] = mk[i].c; prev = mk[i].pos + 1; }
            }
            printf("remaining text rebuilt from the search log: "); show(t, n); printf(" (%zu bytes)\n", n);
            /* as the text after a scheme, so that the state machine reaches s_parse_authority with exactly this text */
            uint8_t *full = malloc(n + 4);
            memcpy(full, "s://", 4);
            memcpy(full + 4, t, n);
            check_parse(full, n + 4);
            /* and on its own (the empty text is left out: aws_uri_init_parse hands a NULL/0 view to memchr, which UBSan reports on
             * the unchanged tree; so is a text in which the first ':' is followed by '/': that is a scheme) */
            size_t fc = first_of(t, 0, n, ':');
            if (n > 0 && (fc == SIZE_MAX || !(fc + 1 < n && t[fc + 1] == '/'))) check_parse(t, n);
            free(full); free(t);
        }
        (void)UC; (void)PC;
    } else if (!strcmp(op, "builder")) {
        const char *pre = has("o.port") || has("o.scheme.len") ? "o" : "options";
        char key[64];
#define OPT(f, d) (snprintf(key, sizeof key, "%s.%s", pre, f), get(key, d))
        size_t sl = OPT("scheme.len", 5), hl = OPT("host_name.len", 9), pl = OPT("path.len", 4), ql = OPT("query_string.len", 3);
        uint64_t port = OPT("port", 4294967295u);
        size_t digits = get("g_port_digits", 0);
        /* the verifier's part lengths can be 2^38 bytes (its tool limit is 2^40): a process cannot back that.  Which parts are
         * present and how many digits the port has is kept, a length beyond 64 KiB is reduced to (length mod 4096) + 1 */
        size_t *lens[4] = {&sl, &hl, &pl, &ql};
        for (int i = 0; i < 4; ++i)
            if (*lens[i] > REAL_MAX) { printf("part length %zu reduced to %zu\n", *lens[i], *lens[i] % 4096 + 1); *lens[i] = *lens[i] % 4096 + 1; }
        uint64_t ports[12];
        unsigned np = 0;
        if (port == 0) ports[np++] = 0;
        else if (digits >= 1 && digits <= 10) { uint64_t p = 1; for (size_t i = 1; i < digits; ++i) p *= 10; ports[np++] = p; ports[np++] = digits == 10 ? 4294967295u : p * 10 - 1; }
        else { ports[np++] = port; ports[np++] = 1; ports[np++] = 65535; ports[np++] = 1000000000u; ports[np++] = 4294967295u; }
        for (unsigned pi = 0; pi < np; ++pi) {
            uint8_t *sc = malloc(sl + 1), *ho = malloc(hl + 1), *pa = malloc(pl + 1), *qu = malloc(ql + 1);
            for (size_t i = 0; i < sl; ++i) sc[i] = (uint8_t)('a' + i % 26);
            for (size_t i = 0; i < hl; ++i) ho[i] = (uint8_t)(i % 5 == 4 ? '.' : 'h' + i % 7);
            for (size_t i = 0; i < pl; ++i) pa[i] = (uint8_t)(i % 6 == 0 ? '/' : 'p' + i % 5);
            for (size_t i = 0; i < ql; ++i) qu[i] = (uint8_t)(i % 4 == 1 ? '=' : i % 4 == 3 ? '&' : 'k' + i % 3);
            struct aws_uri_builder_options o;
            memset(&o, 0, sizeof o);
            o.scheme = aws_byte_cursor_from_array(sl ? sc : NULL, sl);
            o.host_name = aws_byte_cursor_from_array(hl ? ho : NULL, hl);
            o.path = aws_byte_cursor_from_array(pl ? pa : NULL, pl);
            o.query_string = aws_byte_cursor_from_array(ql ? qu : NULL, ql);
            o.port = (uint32_t)ports[pi];
            char ptxt[16] = "";
            if (o.port) snprintf(ptxt, sizeof ptxt, ":%" PRIu32, o.port);
            size_t total = (sl ? sl + 3 : 0) + hl + strlen(ptxt) + pl + (ql ? ql + 1 : 0);
            struct aws_uri u;
            int r = aws_uri_init_from_builder_options(&u, aws_default_allocator(), &o);
            printf("builder scheme %zu host %zu port %" PRIu32 " path %zu query %zu -> rc %d", sl, hl, o.port, pl, ql, r);
            if (r == AWS_OP_SUCCESS) { printf(", text "); show(u.uri_str.buffer, u.uri_str.len > 80 ? 80 : u.uri_str.len); }
            printf("\n");
            if (total == 0 || (hl == 0 && !o.port && !pl && !ql)) { if (r == AWS_OP_SUCCESS && u.uri_str.len != total) FAIL("built text has %zu bytes, the parts add up to %zu", u.uri_str.len, total); continue; }
            if (r != AWS_OP_SUCCESS) { FAIL("builder refused well-formed parts (error %d)", aws_last_error()); continue; }
            if (u.uri_str.len != total) FAIL("built text has %zu bytes, the parts add up to %zu: an append was refused silently", u.uri_str.len, total);
            if (!aws_byte_cursor_eq(&u.scheme, &o.scheme)) FAIL("scheme does not parse back");
            if (!aws_byte_cursor_eq(&u.host_name, &o.host_name)) FAIL("host does not parse back");
            if (u.port != o.port) FAIL("port parses back as %u, built from %u", u.port, o.port);
            if (!aws_byte_cursor_eq(&u.path, &o.path)) FAIL("path does not parse back (%zu bytes, built from %zu)", u.path.len, pl);
            if (!aws_byte_cursor_eq(&u.query_string, &o.query_string)) FAIL("query does not parse back (%zu bytes, built from %zu)", u.query_string.len, ql);
            aws_uri_clean_up(&u);
        }
    } else {
        printf("no native replay for op %s\n", op);
        return 3;
    }
done:
    if (s_fail) return 1;
    printf("held natively on this input\n");
    return 0;
}
