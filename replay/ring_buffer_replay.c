/* Native replay driver for violations reported by the C15 contract units (source/ring_buffer.c).
 *
 *   replay <op> key=value ...
 *
 * The driver of tools/verif.py extracts the verifier's counterexample from the trace: ring size g_S, head/tail offsets
 * at entry r_h / r_t, requested and minimum size r_n / r_mn, the witness byte offset g_x, for the *_interleaved units
 * the schedule g_tobs / g_tobs2 / g_tfin (tail observed by the first load of tail, by any further load, the releaser's
 * tail when the call returns), for release the buffer r_boff / r_bcap and the acquirer's final head g_hfin, e.g.
 *     acquire_up_to g_S=16 r_h=15 r_t=4 r_mn=4 r_n=7 g_x=0
 *     acquire_interleaved g_S=16 r_h=8 r_t=16 r_n=9 g_tobs=16 g_tobs2=8 g_tfin=8 g_x=0
 * The ring is rebuilt natively in exactly that state, the REAL function from the tree under test is called and the
 * postconditions of contracts/ring_buffer.h are evaluated in plain C on the result (the pure offset predicates OUT,
 * INSIDE, ADV, HADV, ACQ_*, UPTO_*, REL_IN are copied from there); every "for all bytes x" clause is evaluated for
 * the witness g_x and for the offsets next to every boundary involved (for all offsets when the ring is small).
 *
 * Storage.  source/ring_buffer.c computes with pointers into the storage but never dereferences them.  A ring of up
 * to 64 MiB is created by the real aws_ring_buffer_init; verifier counterexamples usually use sizes near 2^55, which no
 * process can map, so for larger rings the storage is an UNBACKED address range [2^16, 2^16 + S) (stated in the output);
 * offsets, sizes and every comparison the code makes are exactly those of the counterexample.
 *
 * Interleavings.  The sequential ops call the library's functions as linked.  For the *_interleaved ops and release,
 * source/ring_buffer.c is compiled a second time into this driver (textual #include of the file in the tree under
 * test, functions renamed il_*) with aws_atomic_{load,store}_ptr_explicit routed through hooks: immediately before the
 * k-th atomic load of tail the releaser "publishes" the tail the schedule prescribes (a real atomic store), then the
 * real atomic load runs - i.e. the interleaving of the counterexample is executed deterministically.  The hooks also
 * check the call-site obligations of the rely stubs (memory orders, release performs no load, nobody but an acquire
 * that saw an empty ring writes tail).
 *
 * op interleavings_bounded (unit of the same name, a bounded model of "every interleaving" whose counterexample is a
 * whole schedule, not a tuple of scalars): the verifier's schedule is NOT extracted.  Instead the unit's bounded domain
 * (ring of 1..4 bytes, calls of either acquire form with sizes 0..5, FIFO releases at every atomic operation of the
 * acquirer) is searched natively with the same hooks and the same "sched:" checks: exhaustively for 1, 2 and 3 calls
 * (depth-first over the choice sequence), then 500000 seeded pseudo-random schedules of 4 calls.  The first failing
 * schedule is printed.  exit 0 then means "no failing schedule in the part of the domain that was searched".
 *
 * exit 0: property held on this input; exit 1: violated (reason printed); exit 3: input not constructible.
 * Built with -fsanitize=address,undefined: a sanitizer report (e.g. pointer overflow) is a non-zero exit as well.
 */
#include <aws/common/atomics.h>
#include <aws/common/byte_buf.h>
#include <aws/common/common.h>
#include <aws/common/error.h>
#include <aws/common/ring_buffer.h>
#include <inttypes.h>
#include <stdio.h>
#include <stdlib.h>
#include <string.h>

const char *__asan_default_options(void) { return "detect_leaks=0"; }

/* ---- second copy of the real source with scheduler hooks ---- */
static void *il_load(volatile const struct aws_atomic_var *var, enum aws_memory_order mo);
static void il_store(volatile struct aws_atomic_var *var, void *p, enum aws_memory_order mo);
#define aws_atomic_load_ptr_explicit il_load
#define aws_atomic_store_ptr_explicit il_store
#define aws_ring_buffer_init il_aws_ring_buffer_init
#define aws_ring_buffer_clean_up il_aws_ring_buffer_clean_up
#define aws_ring_buffer_acquire il_aws_ring_buffer_acquire
#define aws_ring_buffer_acquire_up_to il_aws_ring_buffer_acquire_up_to
#define aws_ring_buffer_release il_aws_ring_buffer_release
#define aws_ring_buffer_buf_belongs_to_pool il_aws_ring_buffer_buf_belongs_to_pool
#include "source/ring_buffer.c"
#undef aws_atomic_load_ptr_explicit
#undef aws_atomic_store_ptr_explicit
#undef aws_ring_buffer_init
#undef aws_ring_buffer_clean_up
#undef aws_ring_buffer_acquire
#undef aws_ring_buffer_acquire_up_to
#undef aws_ring_buffer_release
#undef aws_ring_buffer_buf_belongs_to_pool

/* ---- pure offset predicates, copied from contracts/ring_buffer.h ---- */
#define OUT(x, h, t) ((t) <= (h) ? ((t) <= (x) && (x) < (h)) : ((x) >= (t) || (x) < (h)))
#define INSIDE(x, d, n) ((d) <= (x) && (x) - (d) < (n))
#define ADV(t, t2, h, S)                                                                                               \
    ((t2) == (t) || ((t) < (h) && (t) < (t2) && (t2) <= (h)) ||                                                        \
     ((t) > (h) && (((t) < (t2) && (t2) <= (S)) || (1 <= (t2) && (t2) <= (h)))))
#define HADV(h, h2, t, S)                                                                                              \
    ((h2) == (h) || ((t) < (h) && (((h) < (h2) && (h2) <= (S)) || (1 <= (h2) && (h2) < (t)))) ||                       \
     ((t) > (h) && (h) < (h2) && (h2) < (t)))
#define ACQ_OK(h, t, S, n)                                                                                             \
    ((n) != 0 && ((h) == (t) ? (n) <= (S) : (t) > (h) ? (n) <= (t) - (h)-1 : ((n) <= (S) - (h) || (n) < (t))))
#define ACQ_AT(h, t, S, n) ((h) == (t) ? 0 : (t) > (h) ? (h) : ((n) <= (S) - (h) ? (h) : 0))
#define MIN2(a, b) ((a) < (b) ? (a) : (b))
#define UPTO_SIZE(h, t, S, mn, n)                                                                                      \
    ((h) == (t)  ? MIN2((S), (n))                                                                                      \
     : (t) > (h) ? MIN2((t) - (h)-1, (n))                                                                              \
     : ((S) - (h) >= (n) || (t) > (n))                     ? (n)                                                       \
     : ((S) - (h) >= (mn) && (S) - (h) >= (t))             ? (S) - (h)                                                 \
     : (t) > (mn)                                          ? (t)-1                                                     \
                                                           : 0)
#define UPTO_AT(h, t, S, mn, n)                                                                                        \
    ((h) == (t)  ? 0                                                                                                   \
     : (t) > (h) ? (h)                                                                                                 \
     : (S) - (h) >= (n)                                    ? (h)                                                       \
     : (t) > (n)                                           ? 0                                                         \
     : ((S) - (h) >= (mn) && (S) - (h) >= (t))             ? (h)                                                       \
                                                           : 0)
#define UPTO_OK(h, t, S, mn, n) ((mn) != 0 && (n) != 0 && UPTO_SIZE(h, t, S, mn, n) >= (mn))
#define REL_IN(b, c, h, t) (((t) < (h) && (t) <= (b) && (b) <= (h) && (c) <= (h) - (b)) || ((t) > (h) && ((t) <= (b) || ((b) <= (h) && (c) <= (h) - (b)))))

#define REAL_MAX ((size_t)64 << 20)
#define FAKE_BASE ((uint8_t *)(uintptr_t)0x10000)
#define ALL_X_MAX 4096

static int s_argc;
static char **s_argv;
static int s_fail;
#define FAIL(...) do { printf("VIOLATED: "); printf(__VA_ARGS__); printf("\n"); s_fail = 1; } while (0)

static const char *raw(const char *key) {
    size_t n = strlen(key);
    for (int i = 2; i < s_argc; ++i)
        if (!strncmp(s_argv[i], key, n) && s_argv[i][n] == '=') return s_argv[i] + n + 1;
    return NULL;
}
static bool has(const char *key) { return raw(key) != NULL; }
/* first of the given keys that is present; the input is not constructible without it */
static size_t need(const char *k1, const char *k2, const char *k3) {
    const char *v = raw(k1);
    if (!v && k2) v = raw(k2);
    if (!v && k3) v = raw(k3);
    if (!v) { printf("input not constructible: the counterexample carries no value for %s\n", k1); exit(3); }
    return (size_t)strtoull(v, NULL, 10);
}
static void not_constructible(const char *why) { printf("input not constructible: %s\n", why); exit(3); }

/* ---- the ring under replay ---- */
static struct aws_ring_buffer s_rb;
static uint8_t *s_base;
static size_t s_S;
static bool s_backed;

static size_t off(const void *p) { return (size_t)((const uint8_t *)p - s_base); }

static void make_ring(size_t S, size_t h, size_t t) {
    if (S == 0) not_constructible("ring size 0");
    if (S >= ((size_t)1 << 55)) not_constructible("ring size beyond the verifier's object-size limit 2^55 (outside the contract's domain)");
    if (h > S || t > S) not_constructible("head or tail offset beyond the end of the storage");
    if (h == 0 && t != 0) not_constructible("head at the start of the storage but tail not (ring invariant)");
    if (S <= REAL_MAX) {
        if (aws_ring_buffer_init(&s_rb, aws_default_allocator(), S) != AWS_OP_SUCCESS) not_constructible("aws_ring_buffer_init failed");
        s_backed = true;
    } else {
        AWS_ZERO_STRUCT(s_rb);
        s_rb.allocator = aws_default_allocator();
        s_rb.allocation = FAKE_BASE;
        s_rb.allocation_end = FAKE_BASE + S;
        aws_atomic_init_ptr(&s_rb.head, FAKE_BASE);
        aws_atomic_init_ptr(&s_rb.tail, FAKE_BASE);
        printf("note: ring of %zu bytes: storage is an unbacked address range (ring_buffer.c never dereferences the storage)\n", S);
    }
    s_base = s_rb.allocation;
    s_S = S;
    aws_atomic_store_ptr(&s_rb.head, s_base + h);
    aws_atomic_store_ptr(&s_rb.tail, s_base + t);
}

/* ---- scheduler hooks (only the il_* copy calls them) ---- */
static bool s_sched_on;     /* a releaser runs concurrently with the acquire call       */
static bool s_in_release;   /* the call under replay is aws_ring_buffer_release         */
static size_t s_tobs, s_tobs2;
static size_t s_last_pub;   /* the tail offset the releaser published last              */
static int s_tail_loads, s_head_loads, s_tail_stores, s_head_stores;

static bool order_at_least_acquire(enum aws_memory_order mo) { return mo == aws_memory_order_acquire || mo == aws_memory_order_acq_rel || mo == aws_memory_order_seq_cst; }
static bool order_at_least_release(enum aws_memory_order mo) { return mo == aws_memory_order_release || mo == aws_memory_order_acq_rel || mo == aws_memory_order_seq_cst; }

static bool s_search; /* op interleavings_bounded: the hooks let the releaser run (see below) */
static void releaser_runs(void);
static int n_rel, n_rel_at_load;

static void *il_load(volatile const struct aws_atomic_var *var, enum aws_memory_order mo) {
    if (s_search) {
        releaser_runs();
        if (var == &s_rb.tail) { n_rel_at_load = n_rel; s_tail_loads++; }
        return aws_atomic_load_ptr_explicit(var, mo);
    }
    if (s_in_release) FAIL("aws_ring_buffer_release performed an atomic load (it must neither read head nor tail)");
    if (var == &s_rb.tail) {
        if (!order_at_least_acquire(mo)) FAIL("tail is loaded with memory order %d, weaker than acquire", (int)mo);
        if (s_sched_on) { /* the releaser publishes the scheduled tail just before this load */
            s_last_pub = s_tail_loads == 0 ? s_tobs : s_tobs2;
            aws_atomic_store_ptr_explicit(&s_rb.tail, s_base + s_last_pub, aws_memory_order_release);
        }
        s_tail_loads++;
    } else if (var == &s_rb.head) {
        s_head_loads++;
    } else {
        FAIL("atomic load of something that is neither head nor tail of the ring");
    }
    return aws_atomic_load_ptr_explicit(var, mo);
}
static void il_store(volatile struct aws_atomic_var *var, void *p, enum aws_memory_order mo) {
    if (s_search) {
        releaser_runs();
        aws_atomic_store_ptr_explicit(var, p, mo);
        return;
    }
    if (var == &s_rb.tail) {
        if (!order_at_least_release(mo)) FAIL("tail is stored with memory order %d, weaker than release", (int)mo);
        s_tail_stores++;
    } else if (var == &s_rb.head) {
        if (s_in_release) FAIL("aws_ring_buffer_release wrote head");
        s_head_stores++;
    } else {
        FAIL("atomic store to something that is neither head nor tail of the ring");
    }
    aws_atomic_store_ptr_explicit(var, p, mo);
}

/* ---- witness offsets for the "for all bytes" clauses ---- */
static size_t s_xs[64 + ALL_X_MAX];
static size_t s_nx;
static void add_x(size_t x) { if (x < s_S && s_nx < sizeof s_xs / sizeof *s_xs) s_xs[s_nx++] = x; }
static void add_near(size_t p) { add_x(p - 1); add_x(p); add_x(p + 1); }

/* ---- acquire / acquire_up_to, sequential and against a scheduled releaser ---- */
static int replay_acquire(bool up_to, bool interleaved) {
    size_t S = need("g_S", "r_S", NULL), h0 = need("r_h", NULL, NULL), t0 = need("r_t", NULL, NULL);
    size_t n = need("r_n", "arg.requested_size", "arg.requested_size_wrapper");
    size_t mn = up_to ? need("r_mn", "arg.minimum_size", "arg.minimum_size_wrapper") : 0;
    size_t tobs = t0, tobs2 = t0, tfin = t0;
    if (interleaved) {
        tobs = need("g_tobs", NULL, NULL); tobs2 = need("g_tobs2", NULL, NULL); tfin = need("g_tfin", NULL, NULL);
    }
    if (up_to && n < mn) not_constructible("requested_size < minimum_size (outside the contract's domain)");
    make_ring(S, h0, t0);
    if (!(ADV(t0, tobs, h0, S) && ADV(tobs, tobs2, h0, S) && ADV(tobs2, tfin, h0, S)))
        not_constructible("the schedule is not one a FIFO releaser can produce");

    struct aws_byte_buf dest, dest0;
    memset(&dest, 0xAB, sizeof dest);
    dest0 = dest;
    struct aws_ring_buffer rb0 = s_rb;
    aws_reset_error();
    int rc;
    if (interleaved) {
        s_sched_on = true; s_tobs = tobs; s_tobs2 = tobs2; s_last_pub = t0;
        rc = up_to ? il_aws_ring_buffer_acquire_up_to(&s_rb, mn, n, &dest) : il_aws_ring_buffer_acquire(&s_rb, n, &dest);
        s_sched_on = false;
    } else {
        rc = up_to ? aws_ring_buffer_acquire_up_to(&s_rb, mn, n, &dest) : aws_ring_buffer_acquire(&s_rb, n, &dest);
    }
    int err = aws_last_error();
    size_t h1 = off(aws_atomic_load_ptr(&s_rb.head)), t1mem = off(aws_atomic_load_ptr(&s_rb.tail));
    bool saw_empty = h0 == tobs;
    bool ok = up_to ? UPTO_OK(h0, tobs, S, mn, n) : ACQ_OK(h0, tobs, S, n);
    size_t want_sz = up_to ? UPTO_SIZE(h0, tobs, S, mn, n) : n;
    size_t want_at = up_to ? UPTO_AT(h0, tobs, S, mn, n) : ACQ_AT(h0, tobs, S, n);
    const char *fn = up_to ? "acquire_up_to" : "acquire";

    printf("%s%s: S=%zu head=%zu tail=%zu", fn, interleaved ? " (interleaved)" : "", S, h0, t0);
    if (up_to) printf(" min=%zu", mn);
    printf(" requested=%zu", n);
    if (interleaved) printf(" | tail observed: 1st load %zu, later loads %zu, at return %zu | tail loads performed: %d", tobs, tobs2, tfin, s_tail_loads);
    printf(" -> rc=%d", rc);
    if (rc == AWS_OP_SUCCESS) printf(" buffer=[%zu,+%zu) head=%zu tail=%zu", off(dest.buffer), dest.capacity, h1, t1mem);
    printf("\n");

    if (rc != AWS_OP_SUCCESS && rc != AWS_OP_ERR) FAIL("%s returned %d", fn, rc);
    if ((rc == AWS_OP_SUCCESS) != ok) FAIL("%s returned %d, the exact success condition says %s", fn, rc, ok ? "success" : "failure");
    if (interleaved) {
        /* the releaser stands at tfin when the call returns - unless the call saw an empty ring and reset it (releaser idle) */
        if (s_tail_stores && !(rc == AWS_OP_SUCCESS && saw_empty)) FAIL("%s wrote tail although it did not observe an empty ring (tail belongs to the releaser)", fn);
        if (!s_tail_stores && t1mem != s_last_pub) FAIL("tail in memory is %zu, the releaser published %zu", t1mem, s_last_pub);
    }
    size_t tnow = (rc == AWS_OP_SUCCESS && saw_empty) ? t1mem : tfin;
    if (s_rb.allocation != rb0.allocation || s_rb.allocation_end != rb0.allocation_end || s_rb.allocator != rb0.allocator)
        FAIL("%s changed allocation / allocation_end / allocator", fn);

    if (rc == AWS_OP_SUCCESS) {
        size_t d = off(dest.buffer), c = dest.capacity;
        if (dest.len != 0 || dest.allocator != NULL) FAIL("buffer handed out is not empty / has an allocator (len=%zu)", dest.len);
        if (c != want_sz) FAIL("buffer capacity %zu, expected %zu", c, want_sz);
        if (up_to && !(mn <= c && c <= n)) FAIL("granted size %zu outside [minimum %zu, requested %zu]", c, mn, n);
        if (c == 0) FAIL("a buffer of 0 bytes was handed out (buffer pointer %p)", (void *)dest.buffer);
        if (dest.buffer == NULL || dest.buffer < s_base || d > S || c > S - d) FAIL("buffer [%zu,+%zu) lies outside the ring's storage [0,%zu)", d, c, S);
        else if (d != want_at) FAIL("buffer starts at offset %zu, expected %zu", d, want_at);
        if (h1 != d + c) FAIL("head is %zu, expected the end of the new buffer %zu", h1, d + c);
        if (saw_empty && t1mem != 0) FAIL("empty ring: tail is %zu after the reset, expected 0", t1mem);
        if (!(h1 >= 1 && h1 <= S && h1 != tnow)) FAIL("ring invariant broken afterwards: head=%zu tail=%zu S=%zu", h1, tnow, S);
        if (!ADV(tfin, h0, h1, S)) FAIL("the releaser (at %zu) can no longer reach the old head %zu in the new state (head %zu)", tfin, h0, h1);
        if (h0 != tobs && h0 != tfin && !HADV(h0, h1, tfin, S)) FAIL("head moved from %zu to %zu, not into the free region (tail %zu)", h0, h1, tfin);
        /* for all bytes x */
        if (has("g_x")) add_x(need("g_x", NULL, NULL));
        add_x(0); add_x(S - 1); add_near(h0); add_near(t0); add_near(tobs); add_near(tfin); add_near(d); add_near(d + c); add_near(h1);
        if (S <= ALL_X_MAX) for (size_t x = 0; x < S; ++x) add_x(x);
        for (size_t i = 0; i < s_nx && !s_fail; ++i) {
            size_t x = s_xs[i];
            if (OUT(x, h0, tobs) && INSIDE(x, d, c)) FAIL("OVERLAP: byte %zu was outstanding when tail was observed (head %zu, tail %zu) and lies in the new buffer [%zu,+%zu)", x, h0, tobs, d, c);
            if (OUT(x, h0, tfin) && !OUT(x, h1, tnow)) FAIL("byte %zu is still unreleased (head %zu, tail %zu) but no longer outstanding afterwards (head %zu, tail %zu)", x, h0, tfin, h1, tnow);
            if (INSIDE(x, d, c) && !OUT(x, h1, tnow)) FAIL("byte %zu of the new buffer [%zu,+%zu) is not outstanding afterwards (head %zu, tail %zu)", x, d, c, h1, tnow);
        }
    } else {
        if (h1 != h0) FAIL("%s failed but moved head from %zu to %zu", fn, h0, h1);
        if (!interleaved && t1mem != t0) FAIL("%s failed but moved tail from %zu to %zu", fn, t0, t1mem);
        if (memcmp(&dest, &dest0, sizeof dest)) FAIL("%s failed but wrote *dest", fn);
        int want_err = (n == 0 || (up_to && mn == 0)) ? AWS_ERROR_INVALID_ARGUMENT : AWS_ERROR_OOM;
        if (err != want_err) FAIL("%s failed with error %d, expected %d", fn, err, want_err);
    }
    if (!interleaved && !s_fail) {
        /* call-site obligations of the sequential contract's frame, which have no effect on the result of a lone call:
         * the same call once more on the same state through the hooked copy - tail may be written only by the reset of
         * an empty ring (it belongs to the releaser), tail is loaded/stored with acquire/release ordering */
        struct aws_byte_buf d2;
        memset(&d2, 0xAB, sizeof d2);
        aws_atomic_store_ptr(&s_rb.head, s_base + h0);
        aws_atomic_store_ptr(&s_rb.tail, s_base + t0);
        s_tail_loads = s_tail_stores = 0;
        int rc2 = up_to ? il_aws_ring_buffer_acquire_up_to(&s_rb, mn, n, &d2) : il_aws_ring_buffer_acquire(&s_rb, n, &d2);
        if (rc2 != rc) FAIL("%s is not deterministic: %d, then %d on the same state", fn, rc, rc2);
        if (s_tail_stores && !(rc2 == AWS_OP_SUCCESS && saw_empty)) FAIL("%s wrote tail although the ring was not empty (tail belongs to the releaser; head %zu, tail %zu)", fn, h0, t0);
    }
    /* nothing outstanding: every request that fits succeeds */
    if (!up_to && saw_empty && n >= 1 && n <= S && rc != AWS_OP_SUCCESS) FAIL("nothing outstanding and %zu <= ring size %zu, but acquire failed", n, S);
    if (up_to && saw_empty && mn >= 1 && mn <= S && !(rc == AWS_OP_SUCCESS && dest.capacity == MIN2(S, n)))
        FAIL("nothing outstanding and minimum %zu <= ring size %zu, but acquire_up_to did not grant min(S, requested) = %zu", mn, S, MIN2(S, n));
    return 0;
}

/* ---- release (the FIFO-oldest... any outstanding buffer that was handed out), against an acquirer that moves on ---- */
static int replay_release(void) {
    size_t S = need("g_S", "r_S", NULL), h0 = need("r_h", NULL, NULL), t0 = need("r_t", NULL, NULL);
    size_t b = need("r_boff", NULL, NULL), c = need("r_bcap", "buf.capacity", NULL);
    size_t hfin = has("g_hfin") ? need("g_hfin", NULL, NULL) : h0;
    make_ring(S, h0, t0);
    if (b > S || c < 1 || c > S - b) not_constructible("buffer not inside the storage");
    if (!REL_IN(b, c, h0, t0)) not_constructible("buffer not inside the outstanding region (release's precondition)");
    if (!HADV(h0, hfin, t0, S)) not_constructible("final head is not one the acquirer can have published");
    struct aws_byte_buf buf = aws_byte_buf_from_empty_array(s_base + b, c);
    s_in_release = true;
    il_aws_ring_buffer_release(&s_rb, &buf);
    s_in_release = false;
    size_t h1 = off(aws_atomic_load_ptr(&s_rb.head)), t1 = off(aws_atomic_load_ptr(&s_rb.tail));
    printf("release: S=%zu head=%zu tail=%zu buffer=[%zu,+%zu) acquirer's head at return=%zu -> tail=%zu\n", S, h0, t0, b, c, hfin, t1);
    if (t1 != b + c) FAIL("tail is %zu after the release, expected the end of the buffer %zu", t1, b + c);
    if (h1 != h0) FAIL("release moved head from %zu to %zu", h0, h1);
    if (buf.buffer != NULL || buf.len != 0 || buf.capacity != 0 || buf.allocator != NULL) FAIL("the released byte_buf is not zeroed");
    if (!(t1 >= 1 && t1 <= S && ADV(t0, t1, h0, S))) FAIL("published tail %zu is not a FIFO releaser step from %zu (head %zu)", t1, t0, h0);
    if (!ADV(t0, t1, hfin, S)) FAIL("published tail %zu is not a FIFO releaser step from %zu w.r.t. the acquirer's head %zu", t1, t0, hfin);
    if (has("g_x")) add_x(need("g_x", NULL, NULL));
    add_x(0); add_x(S - 1); add_near(h0); add_near(t0); add_near(hfin); add_near(b); add_near(b + c); add_near(t1);
    if (S <= ALL_X_MAX) for (size_t x = 0; x < S; ++x) add_x(x);
    for (size_t i = 0; i < s_nx && !s_fail; ++i) {
        size_t x = s_xs[i];
        if (INSIDE(x, b, c) && OUT(x, hfin, t1)) FAIL("byte %zu of the released buffer is still outstanding (head %zu, tail %zu)", x, hfin, t1);
        if (OUT(x, hfin, t1) != (OUT(x, hfin, t0) && !OUT(x, b + c, t0)))
            FAIL("byte %zu: outstanding afterwards = %d, expected outstanding before (%d) minus the FIFO prefix ending with the buffer (%d)", x, OUT(x, hfin, t1), OUT(x, hfin, t0), OUT(x, b + c, t0));
    }
    return 0;
}

/* allocator for rings no process can back: hands out the unbacked address range (the init unit likewise cuts
 * aws_mem_acquire off by its contract); aws_ring_buffer_init never touches the storage */
static void *stub_acquire(struct aws_allocator *a, size_t size) { (void)a; (void)size; return FAKE_BASE; }
static void stub_release(struct aws_allocator *a, void *p) { (void)a; (void)p; }
static struct aws_allocator s_stub_allocator = {.mem_acquire = stub_acquire, .mem_release = stub_release};

static int replay_init(void) {
    size_t size = need("arg.size", "arg.size_wrapper", "r_size");
    if (size == 0) not_constructible("size 0 (outside the contract's domain)");
    if (size >= ((size_t)1 << 55)) not_constructible("ring size beyond the verifier's object-size limit 2^55");
    struct aws_ring_buffer rb;
    memset(&rb, 0xAB, sizeof rb);
    bool real = size <= REAL_MAX;
    struct aws_allocator *a = real ? aws_default_allocator() : &s_stub_allocator;
    if (!real) printf("note: ring of %zu bytes: the allocator hands out an unbacked address range (aws_ring_buffer_init never touches the storage)\n", size);
    int rc = aws_ring_buffer_init(&rb, a, size);
    if (rc != AWS_OP_SUCCESS) { FAIL("aws_ring_buffer_init(%zu) returned %d", size, rc); return 0; }
    if (rb.allocation == NULL || rb.allocation_end != rb.allocation + size) FAIL("allocation_end - allocation is %td, expected %zu", rb.allocation_end - rb.allocation, size);
    if (aws_atomic_load_ptr(&rb.head) != rb.allocation || aws_atomic_load_ptr(&rb.tail) != rb.allocation)
        FAIL("a new ring does not have head == tail == allocation (head offset %td, tail offset %td)", (uint8_t *)aws_atomic_load_ptr(&rb.head) - rb.allocation, (uint8_t *)aws_atomic_load_ptr(&rb.tail) - rb.allocation);
    if (rb.allocator != a) FAIL("allocator not recorded");
    if (!s_fail && real) { rb.allocation[0] = 1; rb.allocation[size - 1] = 2; } /* ASan: the storage really has `size` bytes */
    return 0;
}

/* ---- op interleavings_bounded: native search of the bounded domain of units/C15/ring_buffer_sched.c ---- */
#define SK_MAX 4   /* calls per schedule      */
#define SS_MAX 4   /* ring size               */
static int ch_val[512], ch_ar[512], ch_len, ch_pos;
static bool ch_random;
static uint64_t ch_rng = 0x9E3779B97F4A7C15ull;
static int choose(int arity) {
    if (arity <= 1) return 0;
    if (ch_random) { ch_rng ^= ch_rng << 13; ch_rng ^= ch_rng >> 7; ch_rng ^= ch_rng << 17; return (int)(ch_rng % (uint64_t)arity); }
    if (ch_pos < ch_len) return ch_val[ch_pos++];
    if (ch_len >= (int)(sizeof ch_val / sizeof *ch_val)) { printf("schedule too long\n"); exit(3); }
    ch_val[ch_len] = 0; ch_ar[ch_len] = arity; ch_len++; ch_pos++;
    return 0;
}
static bool next_choice(void) { /* odometer over the choice sequence of the last run */
    while (ch_len > 0) { if (++ch_val[ch_len - 1] < ch_ar[ch_len - 1]) return true; ch_len--; }
    return false;
}
static char s_log[4096];
static size_t s_loglen;
#define LOG(...) do { if (s_loglen < sizeof s_log - 200) s_loglen += (size_t)snprintf(s_log + s_loglen, sizeof s_log - s_loglen, __VA_ARGS__); } while (0)

static struct aws_ring_buffer s_rings[SS_MAX + 1];
static struct aws_byte_buf chan[SK_MAX];
static size_t c_off[SK_MAX], c_cap[SK_MAX];
static int n_sent;
static bool in_releaser;

static void releaser_runs(void) {
    if (in_releaser) return;
    in_releaser = true;
    while (n_rel < n_sent && choose(2)) {
        LOG("    releaser: release [%zu,+%zu)\n", c_off[n_rel], c_cap[n_rel]);
        il_aws_ring_buffer_release(&s_rb, &chan[n_rel]);
        n_rel++;
    }
    in_releaser = false;
}
#define SFAIL(...) do { printf("VIOLATED: "); printf(__VA_ARGS__); printf("\n"); return true; } while (0)
/* one schedule; returns true when a check failed (the schedule is in s_log) */
static bool sched_run(int K) {
    s_loglen = 0; s_log[0] = 0; ch_pos = 0;
    size_t S = 1 + (size_t)choose(SS_MAX);
    s_rb = s_rings[S]; s_base = s_rb.allocation; s_S = S;
    aws_atomic_store_ptr(&s_rb.head, s_base); aws_atomic_store_ptr(&s_rb.tail, s_base); /* as left by aws_ring_buffer_init */
    n_sent = 0; n_rel = 0; in_releaser = false;
    LOG("  ring of %zu bytes\n", S);
    for (int i = 0; i < K; ++i) {
        size_t n = (size_t)choose(SS_MAX + 2), mn = (size_t)choose((int)n + 1);
        bool exact = choose(2) == 0;
        releaser_runs();
        bool all_released = n_rel == n_sent;
        struct aws_byte_buf b;
        memset(&b, 0xAB, sizeof b);
        s_tail_loads = 0; n_rel_at_load = n_rel;
        if (exact) LOG("  acquirer: acquire(%zu)\n", n); else LOG("  acquirer: acquire_up_to(min %zu, requested %zu)\n", mn, n);
        int r = exact ? il_aws_ring_buffer_acquire(&s_rb, n, &b) : il_aws_ring_buffer_acquire_up_to(&s_rb, mn, n, &b);
        releaser_runs();
        if (r == AWS_OP_SUCCESS) {
            size_t o = off(b.buffer), cap = b.capacity;
            if (b.buffer == NULL) LOG("    -> NULL buffer of capacity %zu", cap); else LOG("    -> buffer [%zu,+%zu)", o, cap);
            LOG(", head=%zu tail=%zu, %d of %d earlier buffers were released when tail was read\n",
                off(aws_atomic_load_ptr(&s_rb.head)), off(aws_atomic_load_ptr(&s_rb.tail)), n_rel_at_load, n_sent);
            if (b.buffer == NULL && cap != 0) SFAIL("sched: NULL buffer of capacity %zu handed out", cap);
            if (b.buffer != NULL && (b.buffer < s_base || o > S || cap > S - o)) SFAIL("sched: buffer [%zu,+%zu) lies outside the ring's storage [0,%zu)", o, cap, S);
            if (!(cap >= 1 && (exact ? cap == n : (cap >= mn && cap <= n)))) SFAIL("sched: buffer of %zu bytes: not the requested size / not in [min, requested]", cap);
            for (int j = n_rel_at_load; j < n_sent; ++j)
                if (!(o + cap <= c_off[j] || c_off[j] + c_cap[j] <= o))
                    SFAIL("sched: OVERLAP: new buffer [%zu,+%zu) overlaps [%zu,+%zu), which was not released when tail was read", o, cap, c_off[j], c_cap[j]);
            c_off[n_sent] = o; c_cap[n_sent] = cap; chan[n_sent] = b;
            n_sent++;
            if (!(n_sent == n_rel || aws_atomic_load_ptr(&s_rb.head) != aws_atomic_load_ptr(&s_rb.tail))) SFAIL("sched: the ring looks empty while a buffer is outstanding");
        } else {
            LOG("    -> refused\n");
            if (exact && all_released && n >= 1 && n <= S) SFAIL("sched: nothing outstanding and %zu <= ring size %zu, but acquire was refused", n, S);
            if (!exact && all_released && mn >= 1 && mn <= S) SFAIL("sched: nothing outstanding and minimum %zu <= ring size %zu, but acquire_up_to was refused", mn, S);
        }
    }
    releaser_runs();
    return false;
}
static int replay_search(void) {
    for (size_t S = 1; S <= SS_MAX; ++S)
        if (aws_ring_buffer_init(&s_rings[S], aws_default_allocator(), S) != AWS_OP_SUCCESS) not_constructible("aws_ring_buffer_init failed");
    s_search = true;
    static const long budget[SK_MAX + 1] = {0, -1, -1, -1, 0}; /* depth-first runs per number of calls; -1 = all */
    for (int K = 1; K <= 3; ++K) {
        long runs = 0;
        bool exhausted = false;
        ch_len = 0; ch_random = false;
        do {
            ++runs;
            if (sched_run(K)) { printf("failing schedule (%d call(s), found by depth-first search, run %ld):\n%s", K, runs, s_log); s_fail = 1; return 0; }
            if (!next_choice()) { exhausted = true; break; }
        } while (budget[K] < 0 || runs < budget[K]);
        printf("%d call(s): %ld schedules searched depth-first%s, no check failed\n", K, runs, exhausted ? " (all)" : " (budget)");
    }
    ch_random = true;
    for (int K = SK_MAX; K <= SK_MAX; ++K) {
        for (long runs = 1; runs <= 500000; ++runs)
            if (sched_run(K)) { printf("failing schedule (%d call(s), pseudo-random search, run %ld):\n%s", K, runs, s_log); s_fail = 1; return 0; }
        printf("%d call(s): 500000 pseudo-random schedules, no check failed\n", K);
    }
    return 0;
}

int main(int argc, char **argv) {
    s_argc = argc;
    s_argv = argv;
    if (argc < 2) return 2;
    const char *op = argv[1];
    if (!strcmp(op, "acquire")) replay_acquire(false, false);
    else if (!strcmp(op, "acquire_up_to")) replay_acquire(true, false);
    else if (!strcmp(op, "acquire_interleaved")) replay_acquire(false, true);
    else if (!strcmp(op, "acquire_up_to_interleaved")) replay_acquire(true, true);
    else if (!strcmp(op, "release")) replay_release();
    else if (!strcmp(op, "init")) replay_init();
    else if (!strcmp(op, "interleavings_bounded")) replay_search();
    else {
        printf("no native replay for op %s\n", op);
        return 3;
    }
    if (s_fail) return 1;
    printf("held natively on this input\n");
    return 0;
}
