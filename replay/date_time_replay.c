/* Native replay for C19 violations: rebuilds the input from the replay variables of the counterexample (r_*), runs the REAL
 * library (whole library linked, ASan/UBSan) and evaluates the violated clause in plain C.
 *   usage: replay <op> k=v ...     exit 0 = clause held natively, 1 = clause violated (reproduced), 3 = cannot build input
 *   ops:   as_nanos_to_9999    r_timestamp r_ms                 (seconds since the epoch, milliseconds field)
 *          rfc822_no_weekday   r_ndig r_d0 r_d1 r_mon           (day of month as 1 or 2 digits, month index 0..11)
 *          rfc822_offsets      r_neg r_z0 r_z1 r_z2 r_z3        (zone +-hhmm: sign and the four digits)
 *          init_epoch_secs     r_whole r_frac_e7                (x = r_whole + r_frac_e7 / 10^7 seconds)
 */
#include <math.h>
#include <aws/common/byte_buf.h>
#include <aws/common/date_time.h>
#include <inttypes.h>
#include <stdio.h>
#include <stdlib.h>
#include <string.h>

static int has(int argc, char **argv, const char *k) { size_t l = strlen(k); for (int i = 2; i < argc; ++i) if (!strncmp(argv[i], k, l) && argv[i][l] == '=') return 1; return 0; }
static unsigned long long get(int argc, char **argv, const char *k, unsigned long long dflt) {
    size_t l = strlen(k);
    for (int i = 2; i < argc; ++i) if (!strncmp(argv[i], k, l) && argv[i][l] == '=') return strtoull(argv[i] + l + 1, NULL, 10);
    return dflt;
}

int main(int argc, char **argv) {
    if (argc < 2) return 3;
    const char *op = argv[1];
    setenv("TZ", "UTC", 1);
    if (!strcmp(op, "as_nanos_to_9999")) {
        if (!has(argc, argv, "r_timestamp")) return 3;
        uint64_t t = get(argc, argv, "r_timestamp", 0), ms = get(argc, argv, "r_ms", 0);
        if (t > 253402300799ull || ms > 1000) return 3;
        struct aws_date_time dt;
        aws_date_time_init_epoch_millis(&dt, t * 1000u);
        dt.milliseconds = (uint16_t)ms;
        unsigned __int128 exact = (unsigned __int128)t * 1000000000u + (unsigned __int128)ms * 1000000u;
        uint64_t want = exact > UINT64_MAX ? UINT64_MAX : (uint64_t)exact;
        uint64_t got = aws_date_time_as_nanos(&dt);
        printf("timestamp=%" PRIu64 " (year %u) milliseconds=%" PRIu64 ": as_millis=%" PRIu64 " as_nanos=%" PRIu64 ", expected %" PRIu64 "%s\n", t,
               aws_date_time_year(&dt, false), ms, aws_date_time_as_millis(&dt), got, want, exact > UINT64_MAX ? " (saturated)" : "");
        if (got != want) { printf("VIOLATED: the nanosecond view is neither the exact value nor the saturated value\n"); return 1; }
        return 0;
    }
    if (!strcmp(op, "rfc822_no_weekday")) {
        if (!has(argc, argv, "r_ndig")) return 3;
        unsigned nd = (unsigned)get(argc, argv, "r_ndig", 2), d0 = (unsigned)get(argc, argv, "r_d0", 1), d1 = (unsigned)get(argc, argv, "r_d1", 5), mon = (unsigned)get(argc, argv, "r_mon", 0);
        static const char *names[12] = {"Jan", "Feb", "Mar", "Apr", "May", "Jun", "Jul", "Aug", "Sep", "Oct", "Nov", "Dec"};
        if (nd < 1 || nd > 2 || d0 > 9 || d1 > 9 || mon > 11) return 3;
        char txt[64];
        unsigned day = nd == 1 ? d0 : 10 * d0 + d1;
        if (nd == 1) snprintf(txt, sizeof txt, "%u %s 2000 10:00:00 GMT", d0, names[mon]);
        else snprintf(txt, sizeof txt, "%u%u %s 2000 10:00:00 GMT", d0, d1, names[mon]);
        struct aws_byte_cursor c = aws_byte_cursor_from_c_str(txt);
        struct aws_date_time dt;
        int rc = aws_date_time_init_from_str_cursor(&dt, &c, AWS_DATE_FORMAT_RFC822);
        printf("text=\"%s\" -> rc=%d", txt, rc);
        if (rc == AWS_OP_SUCCESS) {
            char out[64]; struct aws_byte_buf b = aws_byte_buf_from_empty_array(out, sizeof out - 1);
            aws_date_time_to_utc_time_str(&dt, AWS_DATE_FORMAT_RFC822, &b); out[b.len] = 0;
            printf(" timestamp=%" PRId64 " = \"%s\" (day of month %u, month %d)\n", (int64_t)dt.timestamp, out, aws_date_time_month_day(&dt, false), (int)aws_date_time_month(&dt, false));
            /* only days that exist in every month are judged (timegm would normalise 31 Feb) */
            if (day >= 1 && day <= 28 && (aws_date_time_month_day(&dt, false) != day || (unsigned)aws_date_time_month(&dt, false) != mon)) {
                printf("VIOLATED: the text was accepted but denotes day %u, the parser produced day %u\n", day, aws_date_time_month_day(&dt, false));
                return 1;
            }
            return 0;
        }
        printf("\n");
        return 0;
    }
    if (!strcmp(op, "rfc822_offsets")) {
        if (!has(argc, argv, "r_z0")) return 3;
        unsigned z0[4] = {(unsigned)get(argc, argv, "r_z0", 0), (unsigned)get(argc, argv, "r_z1", 0), (unsigned)get(argc, argv, "r_z2", 0), (unsigned)get(argc, argv, "r_z3", 0)};
        int neg0 = (int)get(argc, argv, "r_neg", 0);
        if (z0[0] > 9 || z0[1] > 9 || z0[2] > 9 || z0[3] > 9) return 3;
        /* first the zone of the counterexample, then (the verifier's counterexample may lean on an unmodelled libc call whose
         * result it chose freely) every zone +-0000 .. +-9999 */
        for (int k = -1; k < 20000; ++k) {
            unsigned z[4] = {z0[0], z0[1], z0[2], z0[3]};
            int neg = neg0;
            if (k >= 0) { neg = k >= 10000; unsigned v = (unsigned)(k % 10000); z[0] = v / 1000; z[1] = v / 100 % 10; z[2] = v / 10 % 10; z[3] = v % 10; }
            char txt[64];
            snprintf(txt, sizeof txt, "Sat, 15 Jan 2000 10:00:00 %c%u%u%u%u", neg ? '-' : '+', z[0], z[1], z[2], z[3]);
            long off = (long)((10 * z[0] + z[1]) * 3600 + (10 * z[2] + z[3]) * 60) * (neg ? -1 : 1);
            long want = 947930400L - off; /* 2000-01-15T10:00:00Z minus the offset */
            struct aws_byte_cursor c = aws_byte_cursor_from_c_str(txt);
            struct aws_date_time dt;
            int rc = aws_date_time_init_from_str_cursor(&dt, &c, AWS_DATE_FORMAT_RFC822);
            if (k < 0) printf("text=\"%s\" -> rc=%d timestamp=%" PRId64 ", expected %ld\n", txt, rc, (int64_t)dt.timestamp, want);
            if (rc != AWS_OP_SUCCESS || (long)dt.timestamp != want) {
                printf("text=\"%s\" -> rc=%d timestamp=%" PRId64 ", expected %ld\nVIOLATED: the numeric zone is not honoured\n", txt, rc, (int64_t)dt.timestamp, want);
                return 1;
            }
        }
        return 0;
    }
    if (!strcmp(op, "init_epoch_secs")) {
        if (!has(argc, argv, "r_whole")) return 3;
        uint64_t whole = get(argc, argv, "r_whole", 0), f7 = get(argc, argv, "r_frac_e7", 0);
        if (whole > 253402300799ull || f7 > 9999999) return 3;
        double x = (double)whole + (double)f7 / 1e7;
        struct aws_date_time dt;
        aws_date_time_init_epoch_secs(&dt, x);
        long double exact = (long double)x * 1000.0L, got = (long double)aws_date_time_as_millis(&dt);
        printf("x=%.7f -> timestamp=%" PRId64 " milliseconds=%u as_millis=%" PRIu64 "\n", x, (int64_t)dt.timestamp, dt.milliseconds, aws_date_time_as_millis(&dt));
        if (fabsl(got - exact) > 0.5L + 1e-4L) { printf("VIOLATED: not the nearest millisecond of x\n"); return 1; }
        return 0;
    }
    return 3;
}
