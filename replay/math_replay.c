/* Native replay driver for violations reported by the C16 contract units (include/aws/common/math*.inl, clock.inl).
 *
 *   replay <op> key=value ...
 *
 * The driver of tools/verif.py extracts the verifier's counterexample from the trace - for these units the scalar call
 * arguments (arg.a, arg.b, arg.n, arg.ticks, arg.old_frequency, ...) - and passes it as key=value pairs, e.g.
 *     mul_u32_checked arg.a=268435456 arg.b=16
 *     convert_u64 arg.ticks=18446744073727 arg.old_frequency=1000 arg.new_frequency=1000000000
 * The REAL inline function from the tree under test (the headers are taken from $VERIF_REPO/include, so a changed
 * .inl file is what gets compiled) is called on exactly these operands and the property's postcondition is evaluated
 * in plain C against an independent reference (128-bit arithmetic, bit loops).  The portable variant
 * math.fallback.inl is compiled next to the build's variant under fb_* names, exactly as units/C16/math.c does.
 *
 * op                                              inputs
 *   [fb_]{add,mul,sub}_{u32,u64,size}_checked      arg.a arg.b      exact success condition, *r, error code
 *   [fb_]{add,mul,sub}_{u32,u64,size}_saturating   arg.a arg.b      exact or MAX (0 for sub)
 *   [fb_]{clz,ctz}_{u32,i32,u64,i64,size}          arg.n            bit-level definition
 *   is_power_of_two                                arg.x
 *   round_up_to_power_of_two                       arg.n
 *   {min,max}_{u8,...,size,int,float,double}       arg.a arg.b      (float/double: exact bit patterns r_a_bits r_b_bits)
 *   convert_u64                                    arg.ticks arg.old_frequency arg.new_frequency
 *   convert_enum                                   arg.timestamp arg.convert_from arg.convert_to
 * exit 0: property held on this input; exit 1: violated (reason printed); exit 3: input not constructible / op unknown.
 * Built with -fsanitize=address,undefined: a sanitizer report (e.g. __builtin_ctz(0)) is a non-zero exit as well.
 */
#include <aws/common/clock.h>
#include <aws/common/common.h>
#include <aws/common/error.h>
#include <aws/common/math.h>
#include <inttypes.h>
#include <math.h>
#include <stdio.h>
#include <stdlib.h>
#include <string.h>

/* ---- portable variant under renamed symbols (same trick as units/C16/math.c) ---- */
#define aws_mul_u64_saturating fb_aws_mul_u64_saturating
#define aws_mul_u64_checked fb_aws_mul_u64_checked
#define aws_mul_u32_saturating fb_aws_mul_u32_saturating
#define aws_mul_u32_checked fb_aws_mul_u32_checked
#define aws_add_u64_saturating fb_aws_add_u64_saturating
#define aws_add_u64_checked fb_aws_add_u64_checked
#define aws_add_u32_saturating fb_aws_add_u32_saturating
#define aws_add_u32_checked fb_aws_add_u32_checked
#define aws_clz_u32 fb_aws_clz_u32
#define aws_clz_i32 fb_aws_clz_i32
#define aws_clz_u64 fb_aws_clz_u64
#define aws_clz_i64 fb_aws_clz_i64
#define aws_clz_size fb_aws_clz_size
#define aws_ctz_u32 fb_aws_ctz_u32
#define aws_ctz_i32 fb_aws_ctz_i32
#define aws_ctz_u64 fb_aws_ctz_u64
#define aws_ctz_i64 fb_aws_ctz_i64
#define aws_ctz_size fb_aws_ctz_size
AWS_STATIC_IMPL uint64_t aws_mul_u64_saturating(uint64_t a, uint64_t b);
AWS_STATIC_IMPL int aws_mul_u64_checked(uint64_t a, uint64_t b, uint64_t *r);
AWS_STATIC_IMPL uint32_t aws_mul_u32_saturating(uint32_t a, uint32_t b);
AWS_STATIC_IMPL int aws_mul_u32_checked(uint32_t a, uint32_t b, uint32_t *r);
AWS_STATIC_IMPL uint64_t aws_add_u64_saturating(uint64_t a, uint64_t b);
AWS_STATIC_IMPL int aws_add_u64_checked(uint64_t a, uint64_t b, uint64_t *r);
AWS_STATIC_IMPL uint32_t aws_add_u32_saturating(uint32_t a, uint32_t b);
AWS_STATIC_IMPL int aws_add_u32_checked(uint32_t a, uint32_t b, uint32_t *r);
AWS_STATIC_IMPL size_t aws_clz_u32(uint32_t n);
AWS_STATIC_IMPL size_t aws_clz_i32(int32_t n);
AWS_STATIC_IMPL size_t aws_clz_u64(uint64_t n);
AWS_STATIC_IMPL size_t aws_clz_i64(int64_t n);
AWS_STATIC_IMPL size_t aws_clz_size(size_t n);
AWS_STATIC_IMPL size_t aws_ctz_u32(uint32_t n);
AWS_STATIC_IMPL size_t aws_ctz_i32(int32_t n);
AWS_STATIC_IMPL size_t aws_ctz_u64(uint64_t n);
AWS_STATIC_IMPL size_t aws_ctz_i64(int64_t n);
AWS_STATIC_IMPL size_t aws_ctz_size(size_t n);
#include <aws/common/math.fallback.inl>
#undef aws_mul_u64_saturating
#undef aws_mul_u64_checked
#undef aws_mul_u32_saturating
#undef aws_mul_u32_checked
#undef aws_add_u64_saturating
#undef aws_add_u64_checked
#undef aws_add_u32_saturating
#undef aws_add_u32_checked
#undef aws_clz_u32
#undef aws_clz_i32
#undef aws_clz_u64
#undef aws_clz_i64
#undef aws_clz_size
#undef aws_ctz_u32
#undef aws_ctz_i32
#undef aws_ctz_u64
#undef aws_ctz_i64
#undef aws_ctz_size

typedef unsigned __int128 u128;

const char *__asan_default_options(void) { return "detect_leaks=0"; }

static int s_argc;
static char **s_argv;
static int s_fail;

#define FAIL(...) do { printf("VIOLATED: "); printf(__VA_ARGS__); printf("\n"); s_fail = 1; } while (0)

static const char *raw(const char *key) {
    size_t n = strlen(key);
    for (int i = 2; i < s_argc; ++i)
        if (!strncmp(s_argv[i], key, n) && s_argv[i][n] == '=') return s_argv[i] + n + 1;
    return NULL;
}
/* the scalar argument <name> of the call: arg.<name> (first call in the trace), its DFCC wrapper twin, or a harness ghost r_<name> */
static const char *arg_raw(const char *name) {
    char k[96];
    const char *v;
    snprintf(k, sizeof k, "arg.%s", name);
    if ((v = raw(k))) return v;
    snprintf(k, sizeof k, "arg.%s_wrapper", name);
    if ((v = raw(k))) return v;
    snprintf(k, sizeof k, "r_%s", name);
    if ((v = raw(k))) return v;
    if ((v = raw(name))) return v;
    printf("input not constructible: the counterexample carries no value for '%s'\n", name);
    exit(3);
}
static uint64_t arg_u64(const char *name) {
    const char *v = arg_raw(name);
    if (!strcmp(v, "TRUE")) return 1;
    if (!strcmp(v, "FALSE")) return 0;
    const char *p = v;
    while (*p == ' ' || *p == '+') ++p;
    if (!((*p >= '0' && *p <= '9') || *p == '-')) { printf("input not constructible: '%s=%s' is not an integer\n", name, v); exit(3); }
    return *p == '-' ? (uint64_t)strtoll(p, NULL, 10) : strtoull(p, NULL, 10);
}
static double arg_f64(const char *name) {
    const char *v = arg_raw(name);
    int neg = v[0] == '-';
    if (strstr(v, "NaN") || strstr(v, "nan") || strstr(v, "NAN")) return neg ? -NAN : NAN;
    if (strstr(v, "inf") || strstr(v, "INF") || strstr(v, "Inf")) return neg ? -INFINITY : INFINITY;
    return strtod(v, NULL);
}
static uint64_t arg_unit(const char *name) {
    const char *v = arg_raw(name);
    if (strstr(v, "AWS_TIMESTAMP_SECS")) return AWS_TIMESTAMP_SECS;
    if (strstr(v, "AWS_TIMESTAMP_MILLIS")) return AWS_TIMESTAMP_MILLIS;
    if (strstr(v, "AWS_TIMESTAMP_MICROS")) return AWS_TIMESTAMP_MICROS;
    if (strstr(v, "AWS_TIMESTAMP_NANOS")) return AWS_TIMESTAMP_NANOS;
    return arg_u64(name);
}

/* ---- reference: exact result in 128-bit arithmetic ---- */
static bool exact(char kind, u128 a, u128 b, u128 max, u128 *e) {
    if (kind == '+') *e = a + b;
    else if (kind == '*') *e = a * b; /* operands < 2^64: the product fits 128 bits */
    else { if (a < b) { *e = 0; return false; } *e = a - b; }
    return *e <= max;
}
static const char *hex(u128 v) { /* small ring of buffers so that several values can appear in one printf */
    static char buf[4][40];
    static int k;
    char *p = buf[k++ & 3];
    if (v >> 64) snprintf(p, 40, "0x%" PRIx64 "%016" PRIx64, (uint64_t)(v >> 64), (uint64_t)v);
    else snprintf(p, 40, "0x%" PRIx64, (uint64_t)v);
    return p;
}
#define SENTINEL 0xA5A5A5A5A5A5A5A5ull

#define CHECKED(NAME, FN, T, KIND, MAX)                                                                                \
    if (!strcmp(op, NAME)) {                                                                                           \
        T a = (T)arg_u64("a"), b = (T)arg_u64("b"), r = (T)SENTINEL;                                                   \
        u128 e;                                                                                                        \
        bool fits = exact(KIND, a, b, MAX, &e);                                                                        \
        aws_reset_error();                                                                                             \
        int rc = FN(a, b, &r);                                                                                         \
        int err = aws_last_error();                                                                                    \
        if (rc != AWS_OP_SUCCESS && rc != AWS_OP_ERR) FAIL(#FN "(%s, %s) returned %d", hex(a), hex(b), rc);            \
        if ((rc == AWS_OP_SUCCESS) != fits)                                                                            \
            FAIL(#FN "(%s, %s) returned %d but the exact result %s %s", hex(a), hex(b), rc, hex(e), fits ? "fits" : "does not fit (or is negative)"); \
        if (rc == AWS_OP_SUCCESS && fits && (u128)r != e) FAIL(#FN "(%s, %s) stored %s, exact result is %s", hex(a), hex(b), hex(r), hex(e)); \
        if (rc != AWS_OP_SUCCESS && err != AWS_ERROR_OVERFLOW_DETECTED) FAIL(#FN " failed with error %d, expected AWS_ERROR_OVERFLOW_DETECTED", err); \
        if (rc == AWS_OP_SUCCESS && err != 0) FAIL(#FN " succeeded but raised error %d", err);                         \
        known = 1;                                                                                                     \
    }
#define SATURATING(NAME, FN, T, KIND, MAX, SAT)                                                                        \
    if (!strcmp(op, NAME)) {                                                                                           \
        T a = (T)arg_u64("a"), b = (T)arg_u64("b");                                                                    \
        u128 e;                                                                                                        \
        bool fits = exact(KIND, a, b, MAX, &e);                                                                        \
        T want = fits ? (T)e : (T)(SAT);                                                                               \
        T got = FN(a, b);                                                                                              \
        if (got != want) FAIL(#FN "(%s, %s) returned %s, expected %s (exact result %s)", hex(a), hex(b), hex(got), hex(want), fits ? "fits" : "does not fit"); \
        known = 1;                                                                                                     \
    }

static size_t ref_clz(uint64_t n, unsigned bits) {
    size_t c = 0;
    for (unsigned i = bits; i-- > 0;) { if ((n >> i) & 1) break; ++c; }
    return c;
}
static size_t ref_ctz(uint64_t n, unsigned bits) {
    size_t c = 0;
    for (unsigned i = 0; i < bits; ++i) { if ((n >> i) & 1) break; ++c; }
    return c;
}
#define BITS(NAME, FN, T, U, W, REF)                                                                                   \
    if (!strcmp(op, NAME)) {                                                                                           \
        T n = (T)arg_u64("n");                                                                                         \
        size_t want = REF((uint64_t)(U)n, W);                                                                          \
        size_t got = FN(n);                                                                                            \
        if (got != want) FAIL(#FN "(%s) returned %zu, the bit pattern has %zu", hex((uint64_t)(U)n), got, want);       \
        known = 1;                                                                                                     \
    }

#define MINMAX_INT(SUF, T)                                                                                             \
    if (!strcmp(op, "min_" #SUF) || !strcmp(op, "max_" #SUF)) {                                                        \
        T a = (T)arg_u64("a"), b = (T)arg_u64("b");                                                                    \
        bool is_min = op[1] == 'i';                                                                                    \
        T got = is_min ? aws_min_##SUF(a, b) : aws_max_##SUF(a, b);                                                    \
        T want = is_min ? (a < b ? a : b) : (a > b ? a : b);                                                           \
        if (got != want) FAIL("%s(%lld, %lld) returned %lld, expected %lld", op, (long long)a, (long long)b, (long long)got, (long long)want); \
        known = 1;                                                                                                     \
    }
#define MINMAX_FP(SUF, T, U)                                                                                              \
    if (!strcmp(op, "min_" #SUF) || !strcmp(op, "max_" #SUF)) {                                                        \
        T a, b;                                                                                                        \
        if (raw("r_a_bits") && raw("r_b_bits")) { /* exact operands (the decimal text of the trace is rounded) */     \
            U ua = (U)strtoull(raw("r_a_bits"), NULL, 10), ub = (U)strtoull(raw("r_b_bits"), NULL, 10);                \
            memcpy(&a, &ua, sizeof a); memcpy(&b, &ub, sizeof b);                                                      \
        } else { a = (T)arg_f64("a"); b = (T)arg_f64("b"); }                                                           \
        bool is_min = op[1] == 'i';                                                                                    \
        T got = is_min ? aws_min_##SUF(a, b) : aws_max_##SUF(a, b);                                                    \
        if (a == a && b == b) { /* NaN has no order: the property speaks about ordered operands */                     \
            bool ok = is_min ? (got <= a && got <= b) : (got >= a && got >= b);                                        \
            if (!ok || !(got == a || got == b)) FAIL("%s(%.17g, %.17g) returned %.17g", op, (double)a, (double)b, (double)got); \
        } else printf("an operand is NaN: nothing is claimed\n");                                                      \
        known = 1;                                                                                                     \
    }

/* ---- time-unit conversion: RET == min(UINT64_MAX, floor(ticks*new/old)); remainder rule of clock.inl ---- */
static void check_convert(const char *what, uint64_t got, bool have_rem, uint64_t rem, uint64_t ticks, uint64_t oldf, uint64_t newf) {
    u128 q = ((u128)ticks * newf) / oldf;
    uint64_t want = q > UINT64_MAX ? UINT64_MAX : (uint64_t)q;
    if (got != want) FAIL("%s(ticks=%" PRIu64 ", old=%" PRIu64 ", new=%" PRIu64 ") returned %" PRIu64 ", expected %" PRIu64 "%s", what, ticks, oldf, newf, got, want,
                          q > UINT64_MAX ? " (the exact quotient does not fit 64 bits)" : "");
    if (have_rem) {
        uint64_t want_rem = (newf < oldf && oldf % newf == 0) ? ticks % (oldf / newf) : 0;
        if (rem != want_rem) FAIL("%s(ticks=%" PRIu64 ", old=%" PRIu64 ", new=%" PRIu64 ") stored remainder %" PRIu64 ", expected %" PRIu64, what, ticks, oldf, newf, rem, want_rem);
    }
}
static void run_convert_u64(uint64_t ticks, uint64_t oldf, uint64_t newf) {
    uint64_t rem = SENTINEL;
    uint64_t r1 = aws_timestamp_convert_u64(ticks, oldf, newf, &rem);
    check_convert("aws_timestamp_convert_u64", r1, true, rem, ticks, oldf, newf);
    uint64_t r2 = aws_timestamp_convert_u64(ticks, oldf, newf, NULL);
    check_convert("aws_timestamp_convert_u64[remainder=NULL]", r2, false, 0, ticks, oldf, newf);
}
static void run_convert_enum(uint64_t ts, uint64_t from, uint64_t to) {
    uint64_t rem = SENTINEL;
    uint64_t r1 = aws_timestamp_convert(ts, (enum aws_timestamp_unit)from, (enum aws_timestamp_unit)to, &rem);
    check_convert("aws_timestamp_convert", r1, true, rem, ts, from, to);
    uint64_t r2 = aws_timestamp_convert(ts, (enum aws_timestamp_unit)from, (enum aws_timestamp_unit)to, NULL);
    check_convert("aws_timestamp_convert[remainder=NULL]", r2, false, 0, ts, from, to);
}

int main(int argc, char **argv) {
    s_argc = argc;
    s_argv = argv;
    if (argc < 2) return 2;
    const char *op = argv[1];
    int known = 0;

    /* the build's variant (math.gcc_overflow.inl / math.gcc_builtin.inl via math.inl) and math.inl itself */
    CHECKED("add_u32_checked", aws_add_u32_checked, uint32_t, '+', UINT32_MAX)
    CHECKED("add_u64_checked", aws_add_u64_checked, uint64_t, '+', UINT64_MAX)
    CHECKED("add_size_checked", aws_add_size_checked, size_t, '+', SIZE_MAX)
    CHECKED("mul_u32_checked", aws_mul_u32_checked, uint32_t, '*', UINT32_MAX)
    CHECKED("mul_u64_checked", aws_mul_u64_checked, uint64_t, '*', UINT64_MAX)
    CHECKED("mul_size_checked", aws_mul_size_checked, size_t, '*', SIZE_MAX)
    CHECKED("sub_u32_checked", aws_sub_u32_checked, uint32_t, '-', UINT32_MAX)
    CHECKED("sub_u64_checked", aws_sub_u64_checked, uint64_t, '-', UINT64_MAX)
    CHECKED("sub_size_checked", aws_sub_size_checked, size_t, '-', SIZE_MAX)
    SATURATING("add_u32_saturating", aws_add_u32_saturating, uint32_t, '+', UINT32_MAX, UINT32_MAX)
    SATURATING("add_u64_saturating", aws_add_u64_saturating, uint64_t, '+', UINT64_MAX, UINT64_MAX)
    SATURATING("add_size_saturating", aws_add_size_saturating, size_t, '+', SIZE_MAX, SIZE_MAX)
    SATURATING("mul_u32_saturating", aws_mul_u32_saturating, uint32_t, '*', UINT32_MAX, UINT32_MAX)
    SATURATING("mul_u64_saturating", aws_mul_u64_saturating, uint64_t, '*', UINT64_MAX, UINT64_MAX)
    SATURATING("mul_size_saturating", aws_mul_size_saturating, size_t, '*', SIZE_MAX, SIZE_MAX)
    SATURATING("sub_u32_saturating", aws_sub_u32_saturating, uint32_t, '-', UINT32_MAX, 0)
    SATURATING("sub_u64_saturating", aws_sub_u64_saturating, uint64_t, '-', UINT64_MAX, 0)
    SATURATING("sub_size_saturating", aws_sub_size_saturating, size_t, '-', SIZE_MAX, 0)
    /* the portable variant (math.fallback.inl) */
    CHECKED("fb_add_u32_checked", fb_aws_add_u32_checked, uint32_t, '+', UINT32_MAX)
    CHECKED("fb_add_u64_checked", fb_aws_add_u64_checked, uint64_t, '+', UINT64_MAX)
    CHECKED("fb_mul_u32_checked", fb_aws_mul_u32_checked, uint32_t, '*', UINT32_MAX)
    CHECKED("fb_mul_u64_checked", fb_aws_mul_u64_checked, uint64_t, '*', UINT64_MAX)
    SATURATING("fb_add_u32_saturating", fb_aws_add_u32_saturating, uint32_t, '+', UINT32_MAX, UINT32_MAX)
    SATURATING("fb_add_u64_saturating", fb_aws_add_u64_saturating, uint64_t, '+', UINT64_MAX, UINT64_MAX)
    SATURATING("fb_mul_u32_saturating", fb_aws_mul_u32_saturating, uint32_t, '*', UINT32_MAX, UINT32_MAX)
    SATURATING("fb_mul_u64_saturating", fb_aws_mul_u64_saturating, uint64_t, '*', UINT64_MAX, UINT64_MAX)

    BITS("clz_u32", aws_clz_u32, uint32_t, uint32_t, 32, ref_clz)
    BITS("clz_i32", aws_clz_i32, int32_t, uint32_t, 32, ref_clz)
    BITS("clz_u64", aws_clz_u64, uint64_t, uint64_t, 64, ref_clz)
    BITS("clz_i64", aws_clz_i64, int64_t, uint64_t, 64, ref_clz)
    BITS("clz_size", aws_clz_size, size_t, size_t, 64, ref_clz)
    BITS("ctz_u32", aws_ctz_u32, uint32_t, uint32_t, 32, ref_ctz)
    BITS("ctz_i32", aws_ctz_i32, int32_t, uint32_t, 32, ref_ctz)
    BITS("ctz_u64", aws_ctz_u64, uint64_t, uint64_t, 64, ref_ctz)
    BITS("ctz_i64", aws_ctz_i64, int64_t, uint64_t, 64, ref_ctz)
    BITS("ctz_size", aws_ctz_size, size_t, size_t, 64, ref_ctz)
    BITS("fb_clz_u32", fb_aws_clz_u32, uint32_t, uint32_t, 32, ref_clz)
    BITS("fb_clz_i32", fb_aws_clz_i32, int32_t, uint32_t, 32, ref_clz)
    BITS("fb_clz_u64", fb_aws_clz_u64, uint64_t, uint64_t, 64, ref_clz)
    BITS("fb_clz_i64", fb_aws_clz_i64, int64_t, uint64_t, 64, ref_clz)
    BITS("fb_clz_size", fb_aws_clz_size, size_t, size_t, 64, ref_clz)
    BITS("fb_ctz_u32", fb_aws_ctz_u32, uint32_t, uint32_t, 32, ref_ctz)
    BITS("fb_ctz_i32", fb_aws_ctz_i32, int32_t, uint32_t, 32, ref_ctz)
    BITS("fb_ctz_u64", fb_aws_ctz_u64, uint64_t, uint64_t, 64, ref_ctz)
    BITS("fb_ctz_i64", fb_aws_ctz_i64, int64_t, uint64_t, 64, ref_ctz)
    BITS("fb_ctz_size", fb_aws_ctz_size, size_t, size_t, 64, ref_ctz)

    if (!strcmp(op, "is_power_of_two")) {
        size_t x = (size_t)arg_u64("x");
        bool want = false;
        for (unsigned k = 0; k < 64; ++k) want = want || x == ((size_t)1 << k);
        bool got = aws_is_power_of_two(x);
        if (got != want) FAIL("aws_is_power_of_two(%s) returned %d, expected %d", hex(x), got, want);
        known = 1;
    }
    if (!strcmp(op, "round_up_to_power_of_two")) {
        size_t n = (size_t)arg_u64("n"), res = (size_t)SENTINEL;
        bool ok = n <= ((size_t)1 << 63);
        size_t want = 1;
        while (ok && want < n) want <<= 1; /* smallest power of two >= n (1 for n == 0) */
        aws_reset_error();
        int rc = aws_round_up_to_power_of_two(n, &res);
        int err = aws_last_error();
        if ((rc == AWS_OP_SUCCESS) != ok) FAIL("aws_round_up_to_power_of_two(%s) returned %d, representable=%d", hex(n), rc, ok);
        if (rc == AWS_OP_SUCCESS && ok && res != want) FAIL("aws_round_up_to_power_of_two(%s) stored %s, expected %s", hex(n), hex(res), hex(want));
        if (rc != AWS_OP_SUCCESS && res != (size_t)SENTINEL) FAIL("aws_round_up_to_power_of_two(%s) failed but wrote *result", hex(n));
        if (rc != AWS_OP_SUCCESS && err != AWS_ERROR_OVERFLOW_DETECTED) FAIL("aws_round_up_to_power_of_two failed with error %d, expected AWS_ERROR_OVERFLOW_DETECTED", err);
        if (rc == AWS_OP_SUCCESS && err != 0) FAIL("aws_round_up_to_power_of_two succeeded but raised error %d", err);
        known = 1;
    }

    MINMAX_INT(u8, uint8_t)
    MINMAX_INT(i8, int8_t)
    MINMAX_INT(u16, uint16_t)
    MINMAX_INT(i16, int16_t)
    MINMAX_INT(u32, uint32_t)
    MINMAX_INT(i32, int32_t)
    MINMAX_INT(i64, int64_t)
    MINMAX_INT(int, int)
    if (!strcmp(op, "min_u64") || !strcmp(op, "max_u64") || !strcmp(op, "min_size") || !strcmp(op, "max_size")) {
        uint64_t a = arg_u64("a"), b = arg_u64("b");
        bool is_min = op[1] == 'i', sz = op[4] == 's';
        uint64_t got = is_min ? (sz ? aws_min_size(a, b) : aws_min_u64(a, b)) : (sz ? aws_max_size(a, b) : aws_max_u64(a, b));
        uint64_t want = is_min ? (a < b ? a : b) : (a > b ? a : b);
        if (got != want) FAIL("%s(%s, %s) returned %s, expected %s", op, hex(a), hex(b), hex(got), hex(want));
        known = 1;
    }
    MINMAX_FP(float, float, uint32_t)
    MINMAX_FP(double, double, uint64_t)

    if (!strcmp(op, "convert_u64")) {
        uint64_t ticks = arg_u64("ticks"), oldf = arg_u64("old_frequency"), newf = arg_u64("new_frequency");
        if (oldf == 0 || newf == 0 || oldf > 1000000000ull || newf > 1000000000ull) {
            printf("input not constructible: frequencies outside [1, 10^9] are outside the property's domain\n");
            return 3;
        }
        run_convert_u64(ticks, oldf, newf);
        known = 1;
    }
    if (!strcmp(op, "convert_enum")) {
        static const uint64_t units[4] = {AWS_TIMESTAMP_SECS, AWS_TIMESTAMP_MILLIS, AWS_TIMESTAMP_MICROS, AWS_TIMESTAMP_NANOS};
        uint64_t ts = arg_u64("timestamp"), from = arg_unit("convert_from"), to = arg_unit("convert_to");
        bool from_ok = false, to_ok = false;
        for (int i = 0; i < 4; ++i) { from_ok = from_ok || from == units[i]; to_ok = to_ok || to == units[i]; }
        if (!from_ok || !to_ok) { printf("input not constructible: not one of the four time units\n"); return 3; }
        run_convert_enum(ts, from, to);
        if (!s_fail) {
            /* The unit's obligation is "the call is forwarded unchanged to the general conversion for EVERY unit pair"; a
             * counterexample to it fixes the timestamp, the unit pair in it is an arbitrary choice of the solver and the
             * result may happen to coincide there (e.g. from == to).  Same timestamp, the other unit pairs: */
            printf("held for the reported unit pair (%" PRIu64 " -> %" PRIu64 "); trying the same timestamp with the other unit pairs\n", from, to);
            for (int i = 0; i < 4 && !s_fail; ++i)
                for (int j = 0; j < 4 && !s_fail; ++j)
                    run_convert_enum(ts, units[i], units[j]);
        }
        known = 1;
    }

    if (!known) {
        printf("no native replay for op %s\n", op);
        return 3;
    }
    if (s_fail) return 1;
    printf("held natively on this input\n");
    return 0;
}
