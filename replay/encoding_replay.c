/* Native replay for C05 violations: rebuilds the input from the replay variables of the counterexample (r_* / arg.*),
 * runs the REAL portable code of source/encoding.c (compiled without USE_SIMD_ENCODING, i.e. the code a CPU without
 * AVX2 executes) under ASan/UBSan and evaluates the violated clause in plain C.
 *   usage: replay <op> k=v ...        exit 0 = clause held natively, 1 = clause violated (reproduced), 3 = cannot build input
 *   ops:   b64_decode_small | b64_decode   r_n r_w0 r_w1 r_w2 [r_cap]      (text of up to 12 characters, little endian words)
 *          b64_char | tables               arg.to_decode | r_c             (one character)
 */
#include <stdint.h>
#include <stdio.h>
#include <stdlib.h>
#include <string.h>
#include "source/encoding.c"

void aws_raise_error_private(int err) { (void)err; }
void *aws_mem_calloc(struct aws_allocator *a, size_t n, size_t s) { (void)a; return calloc(n, s); }
void aws_mem_release(struct aws_allocator *a, void *p) { (void)a; free(p); }
int aws_byte_buf_reserve_relative(struct aws_byte_buf *b, size_t n) { (void)b; (void)n; abort(); }

static int has(int argc, char **argv, const char *k) { size_t l = strlen(k); for (int i = 2; i < argc; ++i) if (!strncmp(argv[i], k, l) && argv[i][l] == '=') return 1; return 0; }
static unsigned long long get(int argc, char **argv, const char *k, unsigned long long dflt) {
    size_t l = strlen(k);
    for (int i = 2; i < argc; ++i) if (!strncmp(argv[i], k, l) && argv[i][l] == '=') return strtoull(argv[i] + l + 1, NULL, 10);
    return dflt;
}
static int is_alpha(uint8_t c) { return (c >= 'A' && c <= 'Z') || (c >= 'a' && c <= 'z') || (c >= '0' && c <= '9') || c == '+' || c == '/'; }
static int val(uint8_t c) { return c >= 'A' && c <= 'Z' ? c - 'A' : c >= 'a' && c <= 'z' ? c - 'a' + 26 : c >= '0' && c <= '9' ? c - '0' + 52 : c == '+' ? 62 : 63; }
/* RFC 4648: well-formed and canonical */
static int wellformed(const uint8_t *t, size_t n) {
    if (n % 4) return 0;
    if (n == 0) return 1;
    for (size_t j = 0; j + 2 < n; ++j) if (!is_alpha(t[j])) return 0;
    uint8_t c2 = t[n - 2], c3 = t[n - 1];
    if (!(is_alpha(c2) || (c2 == '=' && c3 == '='))) return 0;
    if (!(is_alpha(c3) || c3 == '=')) return 0;
    if (c3 == '=' && c2 != '=' && (val(c2) & 3)) return 0;
    if (c3 == '=' && c2 == '=' && (val(t[n - 3]) & 15)) return 0;
    return 1;
}
static void show(const uint8_t *p, size_t n) { for (size_t i = 0; i < n; ++i) { if (p[i] >= 32 && p[i] < 127) putchar(p[i]); else printf("\\x%02x", p[i]); } }

int main(int argc, char **argv) {
    if (argc < 2) return 3;
    const char *op = argv[1];
    if (!strcmp(op, "b64_decode_small") || !strcmp(op, "b64_decode")) {
        if (!has(argc, argv, "r_n")) return 3;
        size_t n = (size_t)get(argc, argv, "r_n", 0);
        if (n > 12) return 3;
        uint32_t w[3] = {(uint32_t)get(argc, argv, "r_w0", 0), (uint32_t)get(argc, argv, "r_w1", 0), (uint32_t)get(argc, argv, "r_w2", 0)};
        uint8_t *t = malloc(n ? n : 1); /* exact-size heap block: ASan sees any over-read */
        for (size_t i = 0; i < n; ++i) t[i] = (uint8_t)(w[i / 4] >> (8 * (i % 4)));
        size_t cap = (size_t)get(argc, argv, "r_cap", 16);
        uint8_t *o1 = malloc(cap ? cap : 1), *o2 = malloc(cap ? cap : 1);
        memset(o1, 0x00, cap ? cap : 1); memset(o2, 0xFF, cap ? cap : 1);
        struct aws_byte_cursor c = {.len = n, .ptr = t};
        struct aws_byte_buf b1 = {.len = 0, .buffer = o1, .capacity = cap, .allocator = NULL}, b2 = {.len = 0, .buffer = o2, .capacity = cap, .allocator = NULL};
        int r1 = aws_base64_decode(&c, &b1), r2 = aws_base64_decode(&c, &b2);
        int wf = wellformed(t, n), bad = 0;
        printf("text=\""); show(t, n); printf("\" (%zu chars) capacity=%zu -> rc=%d len=%zu, well-formed per RFC 4648: %s\n", n, cap, r1, b1.len, wf ? "yes" : "no");
        if (r1 == AWS_OP_SUCCESS && !wf) { printf("VIOLATED: decoder accepted a text that is not well-formed canonical base64\n"); bad = 1; }
        if (r1 == AWS_OP_SUCCESS && r2 == AWS_OP_SUCCESS)
            for (size_t k = 0; k < b1.len && k < cap; ++k)
                if (o1[k] != o2[k]) { printf("VIOLATED: byte %zu below the reported length %zu was never written (keeps the fill pattern)\n", k, b1.len); bad = 1; break; }
        free(t); free(o1); free(o2);
        return bad;
    }
    if (!strcmp(op, "b64_char") || !strcmp(op, "tables")) {
        unsigned long long c;
        if (has(argc, argv, "arg.to_decode")) c = get(argc, argv, "arg.to_decode", 0); else if (has(argc, argv, "r_c")) c = get(argc, argv, "r_c", 0); else return 3;
        uint8_t v = 0xEE;
        int r = s_base64_get_decoded_value((unsigned char)c, &v, 0);
        printf("character 0x%02llx: s_base64_get_decoded_value rc=%d value=%u table entry=%u; in the RFC 4648 alphabet: %s\n", c, r, v, BASE64_DECODING_TABLE[c & 0xff], is_alpha((uint8_t)c) ? "yes" : "no");
        if (r == AWS_OP_SUCCESS && !is_alpha((uint8_t)c)) { printf("VIOLATED: a byte outside the alphabet is accepted as a base64 character\n"); return 1; }
        return 0;
    }
    return 3;
}
