/* Native replay driver for violations reported by the C01 units (source/byte_buf.c).
 *
 *   replay <op> key=value ...
 *
 * The driver of tools/verif.py extracts the verifier's counterexample (sizes, lengths, scalar arguments, ghost
 * witnesses) from the trace and passes it as key=value pairs, e.g.  buf_advance buffer.len=8 buffer.capacity=16 arg.len=18446744073709551612
 * The input is rebuilt natively: the claimed field values are used as they are, the backing storage is real for
 * min(claimed, 64 KiB) bytes (a process cannot back 2^50 bytes either; ASan then flags any access beyond it),
 * the real function from /repo is called and the property's postcondition is evaluated in plain C.
 * exit 0: property held on this input; exit 1: violated (reason printed); exit 3: input not constructible.
 * Built with -fsanitize=address,undefined: a sanitizer report is a non-zero exit as well.
 */
#include <aws/common/byte_buf.h>
#include <aws/common/common.h>
#include <aws/common/array_list.h>
#include <stdio.h>
#include <stdlib.h>
#include <string.h>

#define REAL_MAX ((size_t)1 << 16)

/* the driver itself never frees its test inputs: leak reports would turn every run into a non-zero exit */
const char *__asan_default_options(void) { return "detect_leaks=0"; }

static int s_argc;
static char **s_argv;
static int s_fail;

static int has(const char *key) {
    size_t n = strlen(key);
    for (int i = 2; i < s_argc; ++i)
        if (!strncmp(s_argv[i], key, n) && s_argv[i][n] == '=') return 1;
    return 0;
}
static uint64_t get(const char *key, uint64_t dflt) {
    size_t n = strlen(key);
    for (int i = 2; i < s_argc; ++i)
        if (!strncmp(s_argv[i], key, n) && s_argv[i][n] == '=') {
            const char *v = s_argv[i] + n + 1;
            if (!strcmp(v, "TRUE")) return 1;
            if (!strcmp(v, "FALSE")) return 0;
            return strtoull(v, NULL, 10);
        }
    return dflt;
}
/* first key that is present */
static uint64_t get2(const char *k1, const char *k2, uint64_t dflt) { return has(k1) ? get(k1, dflt) : get(k2, dflt); }

#define FAIL(...) do { printf("VIOLATED: "); printf(__VA_ARGS__); printf("\n"); s_fail = 1; } while (0)

static size_t real(size_t claimed) { return claimed < REAL_MAX ? claimed : REAL_MAX; }

static uint8_t *backing(size_t claimed, uint8_t seed) {
    size_t n = real(claimed);
    uint8_t *p = malloc(n ? n : 1);
    for (size_t i = 0; i < n; ++i) p[i] = (uint8_t)(seed + i * 7);
    return claimed ? p : (free(p), NULL);
}

static struct aws_byte_buf mkbuf(const char *name, uint8_t seed, struct aws_allocator *alloc) {
    char k[64];
    struct aws_byte_buf b;
    char k2[64];
    snprintf(k, sizeof k, "%s.capacity", name);
    snprintf(k2, sizeof k2, "r_%s_capacity", name);
    b.capacity = get2(k, k2, 16);
    snprintf(k, sizeof k, "%s.len", name);
    snprintf(k2, sizeof k2, "r_%s_len", name);
    b.len = get2(k, k2, 8);
    if (b.len > b.capacity) { printf("input not constructible: len > capacity\n"); exit(3); }
    b.allocator = alloc;
    if (alloc) {
        if (b.capacity > REAL_MAX) { printf("input not constructible natively: owned capacity too large\n"); exit(3); }
        b.buffer = b.capacity ? aws_mem_acquire(alloc, b.capacity) : NULL;
        for (size_t i = 0; i < b.capacity; ++i) b.buffer[i] = (uint8_t)(seed + i * 7);
    } else {
        b.buffer = backing(b.capacity, seed);
    }
    return b;
}
static struct aws_byte_cursor mkcur(const char *name, uint8_t seed) {
    char k[64];
    struct aws_byte_cursor c;
    snprintf(k, sizeof k, "%s.len", name);
    c.len = get(k, 4);
    c.ptr = backing(c.len, seed);
    return c;
}
static void check_prefix(const struct aws_byte_buf *b, const uint8_t *snap, size_t old_len, const char *what) {
    size_t n = real(old_len);
    if (b->buffer == NULL && n) { FAIL("%s: buffer vanished", what); return; }
    for (size_t i = 0; i < n; ++i)
        if (b->buffer[i] != snap[i]) { FAIL("%s: previously written byte %zu changed (%u -> %u)", what, i, snap[i], b->buffer[i]); return; }
}
static uint8_t *snapshot(const struct aws_byte_buf *b) {
    size_t n = real(b->capacity);
    uint8_t *s = malloc(n ? n : 1);
    if (n) memcpy(s, b->buffer, n);
    return s;
}
static void check_unchanged(const struct aws_byte_buf *b, const struct aws_byte_buf *old, const uint8_t *snap, const char *what) {
    if (b->len != old->len || b->capacity != old->capacity || b->buffer != old->buffer || b->allocator != old->allocator)
        FAIL("%s reported failure but changed the buffer (len %zu->%zu, capacity %zu->%zu)", what, old->len, b->len, old->capacity, b->capacity);
    else if (real(old->capacity) && memcmp(b->buffer, snap, real(old->capacity)))
        FAIL("%s reported failure but changed buffer bytes", what);
}

int main(int argc, char **argv) {
    s_argc = argc;
    s_argv = argv;
    if (argc < 2) return 2;
    const char *op = argv[1];
    struct aws_allocator *alloc = aws_default_allocator();

    if (!strcmp(op, "buf_advance")) {
        struct aws_byte_buf b = mkbuf("buffer", 1, NULL), old = b, out;
        uint8_t *snap = snapshot(&b);
        size_t n = get2("arg.len", "arg.len_wrapper", 4);
        memset(&out, 0xAB, sizeof out);
        bool r = aws_byte_buf_advance(&b, &out, n);
        bool fits = old.capacity - old.len >= n;
        if (r != fits) FAIL("advance(%zu) on len=%zu cap=%zu returned %d, space check says %d", n, old.len, old.capacity, r, fits);
        if (b.len > b.capacity) FAIL("len %zu > capacity %zu afterwards", b.len, b.capacity);
        if (!r) check_unchanged(&b, &old, snap, "advance");
        if (r && (b.len != old.len + n || out.capacity != n || out.len != 0)) FAIL("advance result wrong: len=%zu out.capacity=%zu", b.len, out.capacity);
        if (r && n && (out.buffer < old.buffer || out.buffer + out.capacity > old.buffer + old.capacity || out.buffer + out.capacity < out.buffer))
            FAIL("output buffer [%p,+%zu) lies outside the source capacity", (void *)out.buffer, out.capacity);
    } else if (!strcmp(op, "append") || !strcmp(op, "append_with_lookup") || !strcmp(op, "append_and_update")) {
        struct aws_byte_buf b = mkbuf("to", 1, NULL), old = b;
        struct aws_byte_cursor from = mkcur(!strcmp(op, "append_and_update") ? "from_and_update" : "from", 100), from0 = from;
        uint8_t *snap = snapshot(&b);
        uint8_t table[256];
        for (int i = 0; i < 256; ++i) table[i] = (uint8_t)(255 - i);
        bool fits = old.capacity - old.len >= from.len;
        if (fits && from.len > REAL_MAX) { printf("input not constructible natively\n"); return 3; }
        int r = !strcmp(op, "append") ? aws_byte_buf_append(&b, &from)
              : !strcmp(op, "append_with_lookup") ? aws_byte_buf_append_with_lookup(&b, &from, table)
              : aws_byte_buf_append_and_update(&b, &from);
        if ((r == AWS_OP_SUCCESS) != fits) FAIL("%s returned %d but fit=%d (len=%zu cap=%zu from=%zu)", op, r, fits, old.len, old.capacity, from.len);
        if (b.len > b.capacity) FAIL("len %zu > capacity %zu afterwards", b.len, b.capacity);
        if (r != AWS_OP_SUCCESS) check_unchanged(&b, &old, snap, op);
        else {
            if (b.len != old.len + from0.len) FAIL("len %zu, expected %zu", b.len, old.len + from0.len);
            check_prefix(&b, snap, old.len, op);
            for (size_t i = 0; i < from0.len && old.len + i < REAL_MAX; ++i) {
                uint8_t want = !strcmp(op, "append_with_lookup") ? table[from0.ptr[i]] : from0.ptr[i];
                if (b.buffer[old.len + i] != want) { FAIL("appended byte %zu is %u, expected %u", i, b.buffer[old.len + i], want); break; }
            }
        }
    } else if (!strncmp(op, "write", 5) && strcmp(op, "write_to_capacity")) {
        struct aws_byte_buf b = mkbuf("buf", 1, NULL), old = b;
        uint8_t *snap = snapshot(&b);
        bool r = false, want = false;
        size_t n = 0;
        if (!strcmp(op, "write")) {
            n = get2("arg.len", "arg.len_wrapper", 4);
            uint8_t *src = backing(n, 50);
            want = n == 0 || (old.len <= SIZE_MAX / 2 && n <= SIZE_MAX / 2 && old.len + n <= old.capacity);
            if (want && n > REAL_MAX) return 3;
            r = aws_byte_buf_write(&b, src, n);
        } else if (!strcmp(op, "write_u8_n")) {
            n = get2("arg.count", "arg.count_wrapper", 4);
            want = old.len <= SIZE_MAX / 2 && n <= SIZE_MAX / 2 && old.len + n <= old.capacity;
            if (want && n > REAL_MAX) return 3;
            r = aws_byte_buf_write_u8_n(&b, (uint8_t)get2("arg.c", "arg.c_wrapper", 7), n);
        } else if (!strcmp(op, "write_u8")) { n = 1; want = old.len + 1 <= old.capacity; r = aws_byte_buf_write_u8(&b, (uint8_t)get2("arg.c", "arg.c_wrapper", 7)); }
        else if (!strcmp(op, "write_be16")) { n = 2; want = old.len + 2 <= old.capacity; r = aws_byte_buf_write_be16(&b, (uint16_t)get2("arg.x", "arg.x_wrapper", 0x1234)); }
        else if (!strcmp(op, "write_be24")) { n = 3; uint32_t x = (uint32_t)get2("arg.x", "arg.x_wrapper", 0x123456); want = x <= 0xFFFFFF && old.len + 3 <= old.capacity; r = aws_byte_buf_write_be24(&b, x); }
        else if (!strcmp(op, "write_be32")) { n = 4; want = old.len + 4 <= old.capacity; r = aws_byte_buf_write_be32(&b, (uint32_t)get2("arg.x", "arg.x_wrapper", 0x12345678)); }
        else if (!strcmp(op, "write_be64")) { n = 8; want = old.len + 8 <= old.capacity; r = aws_byte_buf_write_be64(&b, get2("arg.x", "arg.x_wrapper", 0x1122334455667788ull)); }
        else { printf("unknown write op\n"); return 3; }
        if (r != want) FAIL("%s returned %d, expected %d (len=%zu cap=%zu n=%zu)", op, r, want, old.len, old.capacity, n);
        if (b.len > b.capacity) FAIL("len %zu > capacity %zu afterwards", b.len, b.capacity);
        if (!r) check_unchanged(&b, &old, snap, op);
        else { if (b.len != old.len + n) FAIL("len %zu, expected %zu", b.len, old.len + n); check_prefix(&b, snap, old.len, op); }
    } else if (!strcmp(op, "cursor_advance") || !strcmp(op, "cursor_advance_nospec")) {
        struct aws_byte_cursor c = mkcur("cursor", 9), old = c;
        size_t n = get2("arg.len", "arg.len_wrapper", 2);
        struct aws_byte_cursor rv = !strcmp(op, "cursor_advance") ? aws_byte_cursor_advance(&c, n) : aws_byte_cursor_advance_nospec(&c, n);
        bool ok = old.len <= SIZE_MAX / 2 && n <= SIZE_MAX / 2 && n <= old.len;
        if (ok && (rv.ptr != old.ptr || rv.len != n || c.len != old.len - n || (old.ptr && c.ptr != old.ptr + n)))
            FAIL("advance(%zu) on len %zu: wrong result (rv.len=%zu cursor.len=%zu)", n, old.len, rv.len, c.len);
        if (!ok && (rv.ptr != NULL || rv.len != 0 || c.len != old.len || c.ptr != old.ptr))
            FAIL("advance(%zu) on len %zu must fail and change nothing (rv.len=%zu cursor.len=%zu)", n, old.len, rv.len, c.len);
    } else if (!strncmp(op, "cursor_read", 11)) {
        struct aws_byte_cursor c = mkcur("cur", 9), old = c;
        size_t n = !strcmp(op, "cursor_read") ? get2("arg.len", "arg.len_wrapper", 2) : !strcmp(op, "cursor_read_u8") ? 1 : !strcmp(op, "cursor_read_be16") ? 2
                 : !strcmp(op, "cursor_read_be24") ? 3 : !strcmp(op, "cursor_read_be32") || !strcmp(op, "cursor_read_float_be32") ? 4 : 8;
        uint8_t dest[8] = {0};
        uint8_t *big = NULL;
        bool ok = n == 0 || (old.len <= SIZE_MAX / 2 && n <= SIZE_MAX / 2 && n <= old.len);
        if (!strcmp(op, "cursor_read") && ok && n > REAL_MAX) return 3;
        bool r;
        uint16_t v16 = 0; uint32_t v32 = 0; uint64_t v64 = 0; float f32 = 0; double f64 = 0;
        if (!strcmp(op, "cursor_read")) { big = malloc(real(n) + 1); r = aws_byte_cursor_read(&c, big, n); }
        else if (!strcmp(op, "cursor_read_u8")) r = aws_byte_cursor_read_u8(&c, dest);
        else if (!strcmp(op, "cursor_read_be16")) r = aws_byte_cursor_read_be16(&c, &v16);
        else if (!strcmp(op, "cursor_read_be24")) r = aws_byte_cursor_read_be24(&c, &v32);
        else if (!strcmp(op, "cursor_read_be32")) r = aws_byte_cursor_read_be32(&c, &v32);
        else if (!strcmp(op, "cursor_read_be64")) r = aws_byte_cursor_read_be64(&c, &v64);
        else if (!strcmp(op, "cursor_read_float_be32")) r = aws_byte_cursor_read_float_be32(&c, &f32);
        else r = aws_byte_cursor_read_float_be64(&c, &f64);
        if (r != ok) FAIL("%s(%zu) on len %zu returned %d, expected %d", op, n, old.len, r, ok);
        if (!r && (c.len != old.len || c.ptr != old.ptr)) FAIL("short read changed the cursor");
        if (r && (c.len != old.len - n || (n && c.ptr != old.ptr + n))) FAIL("read did not advance by %zu", n);
        if (r && !strcmp(op, "cursor_read_be16") && v16 != (uint16_t)((old.ptr[0] << 8) | old.ptr[1])) FAIL("be16 value wrong");
        if (r && !strcmp(op, "cursor_read_be32") && v32 != (((uint32_t)old.ptr[0] << 24) | ((uint32_t)old.ptr[1] << 16) | ((uint32_t)old.ptr[2] << 8) | old.ptr[3])) FAIL("be32 value wrong");
        if (r && big && n && memcmp(big, old.ptr, real(n))) FAIL("bytes read differ from the source");
    } else if (!strncmp(op, "append_dynamic", 14) || !strcmp(op, "s_append_dynamic") || !strcmp(op, "s_append_dynamic_aliased")) {
        int secure = strstr(op, "secure") != NULL || get2("arg.clear_released_memory", "arg.clear_released_memory_wrapper", 0) || get("r_secure", 0);
        struct aws_byte_buf b = mkbuf("to", 1, alloc), old = b;
        struct aws_byte_cursor from;
        if (!strcmp(op, "s_append_dynamic_aliased")) {
            size_t off = get2("g_aoff", "r_from_off", 0);
            from.len = get2("from.len", "r_from_len", 1);
            if (off > old.len || from.len > old.len - off) { printf("input not constructible\n"); return 3; }
            from.ptr = old.buffer + off;
        } else from = mkcur("from", 100);
        uint8_t *snap = snapshot(&b);
        uint8_t *src = malloc(real(from.len) + 1);
        if (from.len) memcpy(src, from.ptr, real(from.len));
        bool ok = from.len <= SIZE_MAX - old.len;
        if (ok && old.len + from.len > REAL_MAX) { printf("input not constructible natively\n"); return 3; }
        int r = secure ? aws_byte_buf_append_dynamic_secure(&b, &from) : aws_byte_buf_append_dynamic(&b, &from);
        if ((r == AWS_OP_SUCCESS) != ok) FAIL("%s returned %d, expected success=%d", op, r, ok);
        if (r == AWS_OP_SUCCESS) {
            if (b.len != old.len + from.len || b.len > b.capacity) FAIL("len=%zu capacity=%zu after appending %zu to %zu", b.len, b.capacity, from.len, old.len);
            for (size_t i = 0; i < old.len; ++i) if (b.buffer[i] != snap[i]) { FAIL("existing byte %zu lost across growth", i); break; }
            for (size_t i = 0; i < from.len; ++i) if (b.buffer[old.len + i] != src[i]) { FAIL("appended byte %zu is %u, expected %u", i, b.buffer[old.len + i], src[i]); break; }
        }
    } else if (!strncmp(op, "reserve", 7)) {
        struct aws_byte_buf b = mkbuf("buffer", 1, alloc), old = b;
        uint8_t *snap = snapshot(&b);
        size_t n = has("arg.requested_capacity") || has("arg.requested_capacity_wrapper") ? get2("arg.requested_capacity", "arg.requested_capacity_wrapper", 0)
                                                                                         : get2("arg.additional_length", "arg.additional_length_wrapper", 0);
        bool rel = strstr(op, "relative") != NULL;
        bool ok = !rel || n <= SIZE_MAX - old.len;
        size_t need = rel ? old.len + n : n;
        if (ok && need > REAL_MAX) { printf("input not constructible natively\n"); return 3; }
        int r = !strcmp(op, "reserve") ? aws_byte_buf_reserve(&b, n) : !strcmp(op, "reserve_relative") ? aws_byte_buf_reserve_relative(&b, n)
              : !strcmp(op, "reserve_smart") ? aws_byte_buf_reserve_smart(&b, n) : aws_byte_buf_reserve_smart_relative(&b, n);
        if ((r == AWS_OP_SUCCESS) != ok) FAIL("%s(%zu) returned %d, expected success=%d", op, n, r, ok);
        if (r == AWS_OP_SUCCESS && (b.capacity < need || b.len != old.len)) FAIL("capacity %zu < %zu or len changed", b.capacity, need);
        if (r == AWS_OP_SUCCESS) for (size_t i = 0; i < old.len; ++i) if (b.buffer[i] != snap[i]) { FAIL("byte %zu lost across reserve", i); break; }
    } else if (!strcmp(op, "from_array") || !strcmp(op, "from_empty_array") || !strcmp(op, "cursor_from_array")) {
        size_t n = get2("arg.len", "arg.capacity", 5);
        n = get2("arg.len_wrapper", "arg.capacity_wrapper", n);
        uint8_t *p = backing(n, 3);
        if (!strcmp(op, "cursor_from_array")) {
            struct aws_byte_cursor c = aws_byte_cursor_from_array(p, n);
            if (c.len != n || c.ptr != p) FAIL("cursor_from_array: wrong view");
        } else {
            struct aws_byte_buf b = !strcmp(op, "from_array") ? aws_byte_buf_from_array(p, n) : aws_byte_buf_from_empty_array(p, n);
            size_t want_len = !strcmp(op, "from_array") ? n : 0;
            if (b.len != want_len || b.capacity != n || b.allocator != NULL || b.buffer != (n ? p : NULL)) FAIL("%s(%zu): wrong buffer (len=%zu capacity=%zu)", op, n, b.len, b.capacity);
        }
    } else if (!strcmp(op, "read_and_fill_buffer")) {
        struct aws_byte_cursor c = mkcur("cur", 9), old = c;
        struct aws_byte_buf d = mkbuf("dest", 1, NULL), dold = d;
        uint8_t *snap = snapshot(&d);
        bool ok = d.capacity == 0 || (old.len <= SIZE_MAX / 2 && d.capacity <= SIZE_MAX / 2 && d.capacity <= old.len);
        if (ok && d.capacity > REAL_MAX) return 3;
        bool r = aws_byte_cursor_read_and_fill_buffer(&c, &d);
        if (r != ok) FAIL("read_and_fill_buffer returned %d, expected %d (cursor %zu, capacity %zu)", r, ok, old.len, d.capacity);
        if (d.len > d.capacity) FAIL("len %zu > capacity %zu afterwards", d.len, d.capacity);
        if (!r) { check_unchanged(&d, &dold, snap, op); if (c.len != old.len || c.ptr != old.ptr) FAIL("short read changed the cursor"); }
        else { if (d.len != d.capacity || c.len != old.len - d.capacity) FAIL("lengths wrong after fill"); if (d.capacity && memcmp(d.buffer, old.ptr, d.capacity)) FAIL("filled bytes differ from the source"); }
    } else if (!strcmp(op, "read_hex_u8")) {
        static const char *samples[] = {"4f", "A0", "zz", "4", "", "g1", "1g", "ffzz"};
        size_t want_len = get("cur.len", 2);
        for (size_t k = 0; k < sizeof samples / sizeof *samples; ++k) {
            size_t sl = strlen(samples[k]);
            (void)want_len;
            uint8_t *p = malloc(sl ? sl : 1); memcpy(p, samples[k], sl);
            struct aws_byte_cursor c = {.len = sl, .ptr = sl ? p : NULL}, old = c;
            uint8_t v = 0xEE;
            bool r = aws_byte_cursor_read_hex_u8(&c, &v);
            unsigned hv; bool ok = sl >= 2 && sscanf((char[]){samples[k][0], samples[k][1], 0}, "%2x", &hv) == 1 && strspn(samples[k], "0123456789abcdefABCDEF") >= 2;
            if (r != ok) FAIL("read_hex_u8(\"%s\") returned %d, expected %d", samples[k], r, ok);
            if (r && (v != hv || c.len != old.len - 2 || c.ptr != old.ptr + 2)) FAIL("read_hex_u8(\"%s\"): value %u / cursor wrong", samples[k], v);
            if (!r && (v != 0xEE || c.len != old.len || c.ptr != old.ptr)) FAIL("read_hex_u8(\"%s\") failed but changed something", samples[k]);
            free(p);
        }
    } else if (!strcmp(op, "write_to_capacity")) {
        struct aws_byte_buf b = mkbuf("buf", 1, NULL), old = b;
        struct aws_byte_cursor c = mkcur("advancing_cursor", 100), cold = c;
        uint8_t *snap = snapshot(&b);
        size_t space = old.capacity - old.len, n = space < cold.len ? space : cold.len;
        if (n > REAL_MAX) return 3;
        struct aws_byte_cursor w = aws_byte_buf_write_to_capacity(&b, &c);
        if (w.len != n || w.ptr != cold.ptr) FAIL("write_to_capacity wrote %zu, expected %zu", w.len, n);
        if (b.len != old.len + n || b.len > b.capacity || b.capacity != old.capacity || b.buffer != old.buffer) FAIL("buffer shape wrong afterwards (len=%zu capacity=%zu)", b.len, b.capacity);
        if (c.len != cold.len - n || (cold.ptr && c.ptr != cold.ptr + n)) FAIL("cursor not advanced by %zu", n);
        check_prefix(&b, snap, old.len, op);
        if (n && memcmp(b.buffer + old.len, cold.ptr, n)) FAIL("written bytes differ from the source");
    } else if (!strncmp(op, "next_split", 10) || !strncmp(op, "split_on_char", 13)) {
        size_t n = get("input_str.len", 9);
        if (n > REAL_MAX) return 3;
        char sp = (char)get2("arg.split_on", "arg.split_on_wrapper", ';');
        uint8_t *p = backing(n, 0);
        for (size_t i = 0; i < n; ++i) p[i] = (i % 3 == 2 || i + 1 == n) ? (uint8_t)sp : (uint8_t)(sp + 1 + i % 5);
        struct aws_byte_cursor in = {.len = n, .ptr = p}, sub = {0};
        size_t pos = 0, pieces = 0;
        while (aws_byte_cursor_next_split(&in, sp, &sub)) {
            ++pieces;
            if (n == 0) { if (sub.len != 0) FAIL("piece of an empty input is not empty"); if (pieces > 1) { FAIL("more than one piece of an empty input"); break; } continue; }
            if (sub.ptr != p + pos) { FAIL("piece %zu starts at %td, expected %zu", pieces, sub.ptr - p, pos); break; }
            if (sub.len > n - pos) { FAIL("piece %zu runs past the input", pieces); break; }
            if (sub.len && memchr(sub.ptr, sp, sub.len)) FAIL("piece %zu contains the split character", pieces);
            if (pos + sub.len < n && p[pos + sub.len] != (uint8_t)sp) FAIL("piece %zu is not followed by the split character", pieces);
            pos += sub.len + 1;
            if (pieces > n + 2) { FAIL("too many pieces"); break; }
        }
        if (sub.ptr != NULL || sub.len != 0) FAIL("substr not zeroed after the last piece");
        if (n && pos != n + 1) FAIL("pieces cover %zu bytes of %zu", pos, n + 1);
        if (!strncmp(op, "split_on_char", 13)) {
            struct aws_array_list l; struct aws_byte_cursor store[4];
            aws_array_list_init_static(&l, store, 4, sizeof(struct aws_byte_cursor));
            int r = aws_byte_cursor_split_on_char_n(&in, sp, get2("arg.n", "arg.n_wrapper", 0), &l);
            if (aws_array_list_length(&l) > 4) FAIL("static list over-filled");
            if (r == AWS_OP_SUCCESS && aws_array_list_length(&l) == 0) FAIL("successful split produced no piece");
        }
    } else if (strstr(op, "trim_pred") || !strcmp(op, "satisfies_pred")) {
        size_t n = get("source.len", 7);
        if (n > REAL_MAX) return 3;
        uint8_t *p = backing(n, 0);
        for (size_t i = 0; i < n; ++i) p[i] = (i < n / 3 || i >= n - n / 4) ? ' ' : (uint8_t)('a' + i % 7);
        struct aws_byte_cursor src = {.len = n, .ptr = p};
        struct aws_byte_cursor l = aws_byte_cursor_left_trim_pred(&src, aws_isspace), r = aws_byte_cursor_right_trim_pred(&src, aws_isspace), t = aws_byte_cursor_trim_pred(&src, aws_isspace);
        if (n && (l.ptr + l.len != p + n || l.ptr < p)) FAIL("left_trim result is not a suffix of the source");
        if (r.ptr != p || r.len > n) FAIL("right_trim result is not a prefix of the source");
        if (n && (t.ptr < p || t.ptr + t.len > p + n)) FAIL("trim result outside the source");
        if (l.len && aws_isspace(l.ptr[0])) FAIL("left_trim left a leading space");
        if (r.len && aws_isspace(r.ptr[r.len - 1])) FAIL("right_trim left a trailing space");
        if (t.len && (aws_isspace(t.ptr[0]) || aws_isspace(t.ptr[t.len - 1]))) FAIL("trim left a space at an end");
        for (size_t i = 0; n && i < (size_t)(l.ptr - p); ++i) if (!aws_isspace(p[i])) { FAIL("left_trim removed a non-space"); break; }
        for (size_t i = r.len; i < n; ++i) if (!aws_isspace(p[i])) { FAIL("right_trim removed a non-space"); break; }
        bool all = true; for (size_t i = 0; i < n; ++i) all = all && aws_isspace(p[i]);
        if (aws_byte_cursor_satisfies_pred(&src, aws_isspace) != all) FAIL("satisfies_pred disagrees with a direct scan");
    } else if (strstr(op, "eq") || strstr(op, "starts_with") || !strncmp(op, "compare", 7)) {
        /* equality / comparison family: two arrays of the claimed lengths, equal up to position g_mm (if inside) */
        size_t la = has("arg.len_a") ? get("arg.len_a", 4) : has("a.len") ? get("a.len", 4) : has("lhs.len") ? get("lhs.len", 4) : has("input.len") ? get("input.len", 4) : get("arg.array_len", 4);
        size_t lb = has("arg.len_b") ? get("arg.len_b", la) : has("b.len") ? get("b.len", la) : has("rhs.len") ? get("rhs.len", la) : has("prefix.len") ? get("prefix.len", la) : get("g_slen", la);
        size_t mm = get("g_mm", SIZE_MAX);
        if (la > REAL_MAX || lb > REAL_MAX) return 3;
        uint8_t *a = malloc(la + 1), *b = malloc(lb + 1);
        for (size_t i = 0; i <= la; ++i) a[i] = (uint8_t)('A' + i % 26);
        for (size_t i = 0; i <= lb; ++i) b[i] = (uint8_t)((i == mm ? 'a' : 'A') + (i + (i == mm)) % 26);
        a[la] = 0; b[lb] = 0;
        struct aws_byte_cursor ca = {.len = la, .ptr = a}, cb = {.len = lb, .ptr = b};
        bool same = la == lb && !memcmp(a, b, la);
        bool same_nocase = la == lb; for (size_t i = 0; same_nocase && i < la; ++i) same_nocase = (a[i] | 0x20) == (b[i] | 0x20);
        if (aws_array_eq(a, la, b, lb) != same || aws_byte_cursor_eq(&ca, &cb) != same) FAIL("array_eq/cursor_eq disagree with memcmp (len %zu/%zu, differ at %zu)", la, lb, mm);
        if (aws_array_eq_ignore_case(a, la, b, lb) != same_nocase || aws_byte_cursor_eq_ignore_case(&ca, &cb) != same_nocase) FAIL("eq_ignore_case disagrees with a direct scan");
        if (aws_array_eq_c_str(a, la, (const char *)b) != same || aws_byte_cursor_eq_c_str(&ca, (const char *)b) != same) FAIL("eq_c_str disagrees with memcmp");
        if (aws_array_eq_c_str_ignore_case(a, la, (const char *)b) != same_nocase) FAIL("eq_c_str_ignore_case disagrees with a direct scan");
        bool pre = lb <= la && !memcmp(a, b, lb);
        if (aws_byte_cursor_starts_with(&ca, &cb) != pre) FAIL("starts_with disagrees with memcmp");
        int c = aws_byte_cursor_compare_lexical(&ca, &cb);
        size_t m = la < lb ? la : lb; int want = memcmp(a, b, m); if (!want) want = la < lb ? -1 : la > lb ? 1 : 0;
        if ((c < 0) != (want < 0) || (c > 0) != (want > 0)) FAIL("compare_lexical sign %d, expected %d", c, want);
        int c2 = aws_byte_cursor_compare_lookup(&ca, &cb, aws_lookup_table_to_lower_get());
        int want2 = 0; for (size_t i = 0; i < m && !want2; ++i) { int x = a[i] | 0x20, y = b[i] | 0x20; want2 = x < y ? -1 : x > y ? 1 : 0; } if (!want2) want2 = la < lb ? -1 : la > lb ? 1 : 0;
        if (c2 != want2) FAIL("compare_lookup returned %d, expected %d", c2, want2);
    } else if (!strncmp(op, "parse_u64", 9) || !strcmp(op, "s_read_unsigned")) {
        static const char *samples[] = {"0", "00004", "18446744073709551615", "18446744073709551616", "99999999999999999999", "", "-1", "1,000", " 0", "ff", "FFFFFFFFFFFFFFFF", "10000000000000000", "0x0", "000000000000000000000000ff"};
        for (size_t k = 0; k < sizeof samples / sizeof *samples; ++k) {
            for (int hex = 0; hex < 2; ++hex) {
                const char *sv = samples[k]; size_t sl = strlen(sv);
                __uint128_t ref = 0; bool ok = sl > 0;
                for (size_t i = 0; i < sl && ok; ++i) {
                    int d = sv[i] >= '0' && sv[i] <= '9' ? sv[i] - '0' : sv[i] >= 'a' && sv[i] <= 'f' ? sv[i] - 'a' + 10 : sv[i] >= 'A' && sv[i] <= 'F' ? sv[i] - 'A' + 10 : 99;
                    if (d >= (hex ? 16 : 10)) ok = false; else { ref = ref * (hex ? 16 : 10) + d; if (ref > UINT64_MAX) ok = false; }
                }
                uint8_t *p = malloc(sl ? sl : 1); memcpy(p, sv, sl);
                struct aws_byte_cursor c = {.len = sl, .ptr = sl ? p : NULL};
                uint64_t v = 77;
                int r = hex ? aws_byte_cursor_utf8_parse_u64_hex(c, &v) : aws_byte_cursor_utf8_parse_u64(c, &v);
                if ((r == AWS_OP_SUCCESS) != ok) FAIL("parse(\"%s\", base %d) returned %d, expected success=%d", sv, hex ? 16 : 10, r, ok);
                if (r == AWS_OP_SUCCESS && v != (uint64_t)ref) FAIL("parse(\"%s\") value wrong", sv);
                if (r != AWS_OP_SUCCESS && v != 0) FAIL("parse(\"%s\") failed but left %llu in *dst", sv, (unsigned long long)v);
                free(p);
            }
        }
    } else if (!strcmp(op, "find_exact")) {
        size_t n = get("input_str.len", 12), fl = get("to_find.len", 3);
        if (n > REAL_MAX || fl > REAL_MAX) return 3;
        uint8_t *p = malloc(n + 1), *f = malloc(fl + 1);
        for (size_t i = 0; i < n; ++i) p[i] = (uint8_t)('a' + i % 2);
        for (size_t i = 0; i < fl; ++i) f[i] = (uint8_t)(i + 1 == fl ? 'c' : 'a' + i % 2);
        if (n >= fl && fl) memcpy(p + (n - fl), f, fl); /* the only occurrence: at the very end */
        struct aws_byte_cursor in = {.len = n, .ptr = p}, tf = {.len = fl, .ptr = f}, out = {.len = 99, .ptr = p}, out0 = out;
        int r = aws_byte_cursor_find_exact(&in, &tf, &out);
        bool ok = fl >= 1 && fl <= n;
        if ((r == AWS_OP_SUCCESS) != ok) FAIL("find_exact returned %d, expected success=%d", r, ok);
        if (r == AWS_OP_SUCCESS && (out.ptr != p + (n - fl) || out.len != fl)) FAIL("find_exact reports offset %td len %zu, expected %zu/%zu", out.ptr - p, out.len, n - fl, fl);
        if (r != AWS_OP_SUCCESS && (out.ptr != out0.ptr || out.len != out0.len)) FAIL("find_exact failed but wrote *first_find");
    } else if (!strcmp(op, "cat") || !strcmp(op, "init_cache")) {
        struct aws_byte_buf s1 = mkbuf("s1", 10, NULL), s2 = mkbuf("s2", 60, NULL), s3 = mkbuf("s3", 110, NULL);
        if (!strcmp(op, "cat")) {
            struct aws_byte_buf d = mkbuf("dest", 1, NULL), old = d;
            uint8_t *snap = snapshot(&d);
            int r = aws_byte_buf_cat(&d, 3, &s1, &s2, &s3);
            size_t total = 0, room = old.capacity - old.len; bool all = true;
            if (s1.len <= room - total) total += s1.len; else all = false;
            if (all && s2.len <= room - total) total += s2.len; else all = false;
            if (all && s3.len <= room - total) total += s3.len; else all = false;
            if ((r == AWS_OP_SUCCESS) != all) FAIL("cat returned %d, expected success=%d", r, all);
            if (d.len != old.len + total || d.len > d.capacity || d.capacity != old.capacity || d.buffer != old.buffer) FAIL("cat: buffer shape wrong (len %zu, expected %zu)", d.len, old.len + total);
            check_prefix(&d, snap, old.len, op);
        } else {
            struct aws_byte_buf d;
            struct aws_byte_cursor c1 = aws_byte_cursor_from_buf(&s1), c2 = aws_byte_cursor_from_buf(&s2), o1 = c1, o2 = c2;
            if (s1.len + s2.len > REAL_MAX) return 3;
            int r = aws_byte_buf_init_cache_and_update_cursors(&d, alloc, &c1, &c2, NULL);
            if (r != AWS_OP_SUCCESS) FAIL("init_cache failed");
            else {
                if (d.len != o1.len + o2.len || d.capacity != d.len) FAIL("init_cache: not an exact-fit buffer");
                if (d.len && (c1.ptr != d.buffer || c2.ptr != d.buffer + o1.len)) FAIL("init_cache: cursors not re-pointed into the cache");
                if (o1.len && memcmp(c1.ptr, o1.ptr, o1.len)) FAIL("init_cache: first copy differs");
                if (o2.len && memcmp(c2.ptr, o2.ptr, o2.len)) FAIL("init_cache: second copy differs");
            }
        }
    } else if (!strcmp(op, "append_null_terminator")) {
        struct aws_byte_buf b = mkbuf("buf", 1, alloc), old = b;
        uint8_t *snap = snapshot(&b);
        int r = aws_byte_buf_append_null_terminator(&b);
        if (r != AWS_OP_SUCCESS) FAIL("append_null_terminator failed");
        else { if (b.len != old.len + 1 || b.len > b.capacity || b.buffer[old.len] != 0) FAIL("terminator missing or length wrong"); for (size_t i = 0; i < old.len; ++i) if (b.buffer[i] != snap[i]) { FAIL("existing byte %zu lost", i); break; } }
    } else {
        printf("no native replay for op %s\n", op);
        return 3;
    }
    if (s_fail) return 1;
    printf("held natively on this input\n");
    return 0;
}
