/* Native replay driver for violations reported by the C01 units (source/byte_buf.c).
 *
 *   replay <op> key=value ...
 *
 * The driver of tools/verif.py extracts the verifier's counterexample (sizes, lengths, scalar arguments, ghost
 * witnesses) from the trace and passes it as key=value pairs, e.g.  buf_advance buffer.len=8 buffer.capacity=16 arg.len=18446744073709551612
 * The input is rebuilt natively: the claimed field values are used as they are, the backing storage is real for
 * min(claimed, 64 KiB) bytes (a process cannot back 2^50 bytes either; ASan then flags any access beyond it),
 * the real function from /repo is called and the property's postcondition is evaluated in plain C.
 * exit 0: property held on this input; exit 1: violated (reason printed); exit 3: input not constructible.
 * Built with -fsanitize=address,undefined: a sanitizer report is a non-zero exit as well.
 */
#include <aws/common/byte_buf.h>
#include <aws/common/common.h>
#include <stdio.h>
#include <stdlib.h>
#include <string.h>

#define REAL_MAX ((size_t)1 << 16)

static int s_argc;
static char **s_argv;
static int s_fail;

static int has(const char *key) {
    size_t n = strlen(key);
    for (int i = 2; i < s_argc; ++i)
        if (!strncmp(s_argv[i], key, n) && s_argv[i][n] == '=') return 1;
    return 0;
}
static uint64_t get(const char *key, uint64_t dflt) {
    size_t n = strlen(key);
    for (int i = 2; i < s_argc; ++i)
        if (!strncmp(s_argv[i], key, n) && s_argv[i][n] == '=') {
            const char *v = s_argv[i] + n + 1;
            if (!strcmp(v, "TRUE")) return 1;
            if (!strcmp(v, "FALSE")) return 0;
            return strtoull(v, NULL, 10);
        }
    return dflt;
}
/* first key that is present */
static uint64_t get2(const char *k1, const char *k2, uint64_t dflt) { return has(k1) ? get(k1, dflt) : get(k2, dflt); }

#define FAIL(...) do { printf("VIOLATED: "); printf(__VA_ARGS__); printf("\n"); s_fail = 1; } while (0)

static size_t real(size_t claimed) { return claimed < REAL_MAX ? claimed : REAL_MAX; }

static uint8_t *backing(size_t claimed, uint8_t seed) {
    size_t n = real(claimed);
    uint8_t *p = malloc(n ? n : 1);
    for (size_t i = 0; i < n; ++i) p[i] = (uint8_t)(seed + i * 7);
    return claimed ? p : (free(p), NULL);
}

static struct aws_byte_buf mkbuf(const char *name, uint8_t seed, struct aws_allocator *alloc) {
    char k[64];
    struct aws_byte_buf b;
    char k2[64];
    snprintf(k, sizeof k, "%s.capacity", name);
    snprintf(k2, sizeof k2, "r_%s_capacity", name);
    b.capacity = get2(k, k2, 16);
    snprintf(k, sizeof k, "%s.len", name);
    snprintf(k2, sizeof k2, "r_%s_len", name);
    b.len = get2(k, k2, 8);
    if (b.len > b.capacity) { printf("input not constructible: len > capacity\n"); exit(3); }
    b.allocator = alloc;
    if (alloc) {
        if (b.capacity > REAL_MAX) { printf("input not constructible natively: owned capacity too large\n"); exit(3); }
        b.buffer = b.capacity ? aws_mem_acquire(alloc, b.capacity) : NULL;
        for (size_t i = 0; i < b.capacity; ++i) b.buffer[i] = (uint8_t)(seed + i * 7);
    } else {
        b.buffer = backing(b.capacity, seed);
    }
    return b;
}
static struct aws_byte_cursor mkcur(const char *name, uint8_t seed) {
    char k[64];
    struct aws_byte_cursor c;
    snprintf(k, sizeof k, "%s.len", name);
    c.len = get(k, 4);
    c.ptr = backing(c.len, seed);
    return c;
}
static void check_prefix(const struct aws_byte_buf *b, const uint8_t *snap, size_t old_len, const char *what) {
    size_t n = real(old_len);
    if (b->buffer == NULL && n) { FAIL("%s: buffer vanished", what); return; }
    for (size_t i = 0; i < n; ++i)
        if (b->buffer[i] != snap[i]) { FAIL("%s: previously written byte %zu changed (%u -> %u)", what, i, snap[i], b->buffer[i]); return; }
}
static uint8_t *snapshot(const struct aws_byte_buf *b) {
    size_t n = real(b->capacity);
    uint8_t *s = malloc(n ? n : 1);
    if (n) memcpy(s, b->buffer, n);
    return s;
}
static void check_unchanged(const struct aws_byte_buf *b, const struct aws_byte_buf *old, const uint8_t *snap, const char *what) {
    if (b->len != old->len || b->capacity != old->capacity || b->buffer != old->buffer || b->allocator != old->allocator)
        FAIL("%s reported failure but changed the buffer (len %zu->%zu, capacity %zu->%zu)", what, old->len, b->len, old->capacity, b->capacity);
    else if (real(old->capacity) && memcmp(b->buffer, snap, real(old->capacity)))
        FAIL("%s reported failure but changed buffer bytes", what);
}

int main(int argc, char **argv) {
    s_argc = argc;
    s_argv = argv;
    if (argc < 2) return 2;
    const char *op = argv[1];
    struct aws_allocator *alloc = aws_default_allocator();

    if (!strcmp(op, "buf_advance")) {
        struct aws_byte_buf b = mkbuf("buffer", 1, NULL), old = b, out;
        uint8_t *snap = snapshot(&b);
        size_t n = get2("arg.len", "arg.len_wrapper", 4);
        memset(&out, 0xAB, sizeof out);
        bool r = aws_byte_buf_advance(&b, &out, n);
        bool fits = old.capacity - old.len >= n;
        if (r != fits) FAIL("advance(%zu) on len=%zu cap=%zu returned %d, space check says %d", n, old.len, old.capacity, r, fits);
        if (b.len > b.capacity) FAIL("len %zu > capacity %zu afterwards", b.len, b.capacity);
        if (!r) check_unchanged(&b, &old, snap, "advance");
        if (r && (b.len != old.len + n || out.capacity != n || out.len != 0)) FAIL("advance result wrong: len=%zu out.capacity=%zu", b.len, out.capacity);
        if (r && n && (out.buffer < old.buffer || out.buffer + out.capacity > old.buffer + old.capacity || out.buffer + out.capacity < out.buffer))
            FAIL("output buffer [%p,+%zu) lies outside the source capacity", (void *)out.buffer, out.capacity);
    } else if (!strcmp(op, "append") || !strcmp(op, "append_with_lookup") || !strcmp(op, "append_and_update")) {
        struct aws_byte_buf b = mkbuf("to", 1, NULL), old = b;
        struct aws_byte_cursor from = mkcur(!strcmp(op, "append_and_update") ? "from_and_update" : "from", 100), from0 = from;
        uint8_t *snap = snapshot(&b);
        uint8_t table[256];
        for (int i = 0; i < 256; ++i) table[i] = (uint8_t)(255 - i);
        bool fits = old.capacity - old.len >= from.len;
        if (fits && from.len > REAL_MAX) { printf("input not constructible natively\n"); return 3; }
        int r = !strcmp(op, "append") ? aws_byte_buf_append(&b, &from)
              : !strcmp(op, "append_with_lookup") ? aws_byte_buf_append_with_lookup(&b, &from, table)
              : aws_byte_buf_append_and_update(&b, &from);
        if ((r == AWS_OP_SUCCESS) != fits) FAIL("%s returned %d but fit=%d (len=%zu cap=%zu from=%zu)", op, r, fits, old.len, old.capacity, from.len);
        if (b.len > b.capacity) FAIL("len %zu > capacity %zu afterwards", b.len, b.capacity);
        if (r != AWS_OP_SUCCESS) check_unchanged(&b, &old, snap, op);
        else {
            if (b.len != old.len + from0.len) FAIL("len %zu, expected %zu", b.len, old.len + from0.len);
            check_prefix(&b, snap, old.len, op);
            for (size_t i = 0; i < from0.len && old.len + i < REAL_MAX; ++i) {
                uint8_t want = !strcmp(op, "append_with_lookup") ? table[from0.ptr[i]] : from0.ptr[i];
                if (b.buffer[old.len + i] != want) { FAIL("appended byte %zu is %u, expected %u", i, b.buffer[old.len + i], want); break; }
            }
        }
    } else if (!strncmp(op, "write", 5)) {
        struct aws_byte_buf b = mkbuf("buf", 1, NULL), old = b;
        uint8_t *snap = snapshot(&b);
        bool r = false, want = false;
        size_t n = 0;
        if (!strcmp(op, "write")) {
            n = get2("arg.len", "arg.len_wrapper", 4);
            uint8_t *src = backing(n, 50);
            want = n == 0 || (old.len <= SIZE_MAX / 2 && n <= SIZE_MAX / 2 && old.len + n <= old.capacity);
            if (want && n > REAL_MAX) return 3;
            r = aws_byte_buf_write(&b, src, n);
        } else if (!strcmp(op, "write_u8_n")) {
            n = get2("arg.count", "arg.count_wrapper", 4);
            want = old.len <= SIZE_MAX / 2 && n <= SIZE_MAX / 2 && old.len + n <= old.capacity;
            if (want && n > REAL_MAX) return 3;
            r = aws_byte_buf_write_u8_n(&b, (uint8_t)get2("arg.c", "arg.c_wrapper", 7), n);
        } else if (!strcmp(op, "write_u8")) { n = 1; want = old.len + 1 <= old.capacity; r = aws_byte_buf_write_u8(&b, (uint8_t)get2("arg.c", "arg.c_wrapper", 7)); }
        else if (!strcmp(op, "write_be16")) { n = 2; want = old.len + 2 <= old.capacity; r = aws_byte_buf_write_be16(&b, (uint16_t)get2("arg.x", "arg.x_wrapper", 0x1234)); }
        else if (!strcmp(op, "write_be24")) { n = 3; uint32_t x = (uint32_t)get2("arg.x", "arg.x_wrapper", 0x123456); want = x <= 0xFFFFFF && old.len + 3 <= old.capacity; r = aws_byte_buf_write_be24(&b, x); }
        else if (!strcmp(op, "write_be32")) { n = 4; want = old.len + 4 <= old.capacity; r = aws_byte_buf_write_be32(&b, (uint32_t)get2("arg.x", "arg.x_wrapper", 0x12345678)); }
        else if (!strcmp(op, "write_be64")) { n = 8; want = old.len + 8 <= old.capacity; r = aws_byte_buf_write_be64(&b, get2("arg.x", "arg.x_wrapper", 0x1122334455667788ull)); }
        else { printf("unknown write op\n"); return 3; }
        if (r != want) FAIL("%s returned %d, expected %d (len=%zu cap=%zu n=%zu)", op, r, want, old.len, old.capacity, n);
        if (b.len > b.capacity) FAIL("len %zu > capacity %zu afterwards", b.len, b.capacity);
        if (!r) check_unchanged(&b, &old, snap, op);
        else { if (b.len != old.len + n) FAIL("len %zu, expected %zu", b.len, old.len + n); check_prefix(&b, snap, old.len, op); }
    } else if (!strcmp(op, "cursor_advance") || !strcmp(op, "cursor_advance_nospec")) {
        struct aws_byte_cursor c = mkcur("cursor", 9), old = c;
        size_t n = get2("arg.len", "arg.len_wrapper", 2);
        struct aws_byte_cursor rv = !strcmp(op, "cursor_advance") ? aws_byte_cursor_advance(&c, n) : aws_byte_cursor_advance_nospec(&c, n);
        bool ok = old.len <= SIZE_MAX / 2 && n <= SIZE_MAX / 2 && n <= old.len;
        if (ok && (rv.ptr != old.ptr || rv.len != n || c.len != old.len - n || (old.ptr && c.ptr != old.ptr + n)))
            FAIL("advance(%zu) on len %zu: wrong result (rv.len=%zu cursor.len=%zu)", n, old.len, rv.len, c.len);
        if (!ok && (rv.ptr != NULL || rv.len != 0 || c.len != old.len || c.ptr != old.ptr))
            FAIL("advance(%zu) on len %zu must fail and change nothing (rv.len=%zu cursor.len=%zu)", n, old.len, rv.len, c.len);
    } else if (!strncmp(op, "cursor_read", 11)) {
        struct aws_byte_cursor c = mkcur("cur", 9), old = c;
        size_t n = !strcmp(op, "cursor_read") ? get2("arg.len", "arg.len_wrapper", 2) : !strcmp(op, "cursor_read_u8") ? 1 : !strcmp(op, "cursor_read_be16") ? 2
                 : !strcmp(op, "cursor_read_be24") ? 3 : !strcmp(op, "cursor_read_be32") || !strcmp(op, "cursor_read_float_be32") ? 4 : 8;
        uint8_t dest[8] = {0};
        uint8_t *big = NULL;
        bool ok = n == 0 || (old.len <= SIZE_MAX / 2 && n <= SIZE_MAX / 2 && n <= old.len);
        if (!strcmp(op, "cursor_read") && ok && n > REAL_MAX) return 3;
        bool r;
        uint16_t v16 = 0; uint32_t v32 = 0; uint64_t v64 = 0; float f32 = 0; double f64 = 0;
        if (!strcmp(op, "cursor_read")) { big = malloc(real(n) + 1); r = aws_byte_cursor_read(&c, big, n); }
        else if (!strcmp(op, "cursor_read_u8")) r = aws_byte_cursor_read_u8(&c, dest);
        else if (!strcmp(op, "cursor_read_be16")) r = aws_byte_cursor_read_be16(&c, &v16);
        else if (!strcmp(op, "cursor_read_be24")) r = aws_byte_cursor_read_be24(&c, &v32);
        else if (!strcmp(op, "cursor_read_be32")) r = aws_byte_cursor_read_be32(&c, &v32);
        else if (!strcmp(op, "cursor_read_be64")) r = aws_byte_cursor_read_be64(&c, &v64);
        else if (!strcmp(op, "cursor_read_float_be32")) r = aws_byte_cursor_read_float_be32(&c, &f32);
        else r = aws_byte_cursor_read_float_be64(&c, &f64);
        if (r != ok) FAIL("%s(%zu) on len %zu returned %d, expected %d", op, n, old.len, r, ok);
        if (!r && (c.len != old.len || c.ptr != old.ptr)) FAIL("short read changed the cursor");
        if (r && (c.len != old.len - n || (n && c.ptr != old.ptr + n))) FAIL("read did not advance by %zu", n);
        if (r && !strcmp(op, "cursor_read_be16") && v16 != (uint16_t)((old.ptr[0] << 8) | old.ptr[1])) FAIL("be16 value wrong");
        if (r && !strcmp(op, "cursor_read_be32") && v32 != (((uint32_t)old.ptr[0] << 24) | ((uint32_t)old.ptr[1] << 16) | ((uint32_t)old.ptr[2] << 8) | old.ptr[3])) FAIL("be32 value wrong");
        if (r && big && n && memcmp(big, old.ptr, real(n))) FAIL("bytes read differ from the source");
    } else if (!strncmp(op, "append_dynamic", 14) || !strcmp(op, "s_append_dynamic") || !strcmp(op, "s_append_dynamic_aliased")) {
        int secure = strstr(op, "secure") != NULL || get2("arg.clear_released_memory", "arg.clear_released_memory_wrapper", 0) || get("r_secure", 0);
        struct aws_byte_buf b = mkbuf("to", 1, alloc), old = b;
        struct aws_byte_cursor from;
        if (!strcmp(op, "s_append_dynamic_aliased")) {
            size_t off = get2("g_aoff", "r_from_off", 0);
            from.len = get2("from.len", "r_from_len", 1);
            if (off > old.len || from.len > old.len - off) { printf("input not constructible\n"); return 3; }
            from.ptr = old.buffer + off;
        } else from = mkcur("from", 100);
        uint8_t *snap = snapshot(&b);
        uint8_t *src = malloc(real(from.len) + 1);
        if (from.len) memcpy(src, from.ptr, real(from.len));
        bool ok = from.len <= SIZE_MAX - old.len;
        if (ok && old.len + from.len > REAL_MAX) { printf("input not constructible natively\n"); return 3; }
        int r = secure ? aws_byte_buf_append_dynamic_secure(&b, &from) : aws_byte_buf_append_dynamic(&b, &from);
        if ((r == AWS_OP_SUCCESS) != ok) FAIL("%s returned %d, expected success=%d", op, r, ok);
        if (r == AWS_OP_SUCCESS) {
            if (b.len != old.len + from.len || b.len > b.capacity) FAIL("len=%zu capacity=%zu after appending %zu to %zu", b.len, b.capacity, from.len, old.len);
            for (size_t i = 0; i < old.len; ++i) if (b.buffer[i] != snap[i]) { FAIL("existing byte %zu lost across growth", i); break; }
            for (size_t i = 0; i < from.len; ++i) if (b.buffer[old.len + i] != src[i]) { FAIL("appended byte %zu is %u, expected %u", i, b.buffer[old.len + i], src[i]); break; }
        }
    } else if (!strncmp(op, "reserve", 7)) {
        struct aws_byte_buf b = mkbuf("buffer", 1, alloc), old = b;
        uint8_t *snap = snapshot(&b);
        size_t n = has("arg.requested_capacity") || has("arg.requested_capacity_wrapper") ? get2("arg.requested_capacity", "arg.requested_capacity_wrapper", 0)
                                                                                         : get2("arg.additional_length", "arg.additional_length_wrapper", 0);
        bool rel = strstr(op, "relative") != NULL;
        bool ok = !rel || n <= SIZE_MAX - old.len;
        size_t need = rel ? old.len + n : n;
        if (ok && need > REAL_MAX) { printf("input not constructible natively\n"); return 3; }
        int r = !strcmp(op, "reserve") ? aws_byte_buf_reserve(&b, n) : !strcmp(op, "reserve_relative") ? aws_byte_buf_reserve_relative(&b, n)
              : !strcmp(op, "reserve_smart") ? aws_byte_buf_reserve_smart(&b, n) : aws_byte_buf_reserve_smart_relative(&b, n);
        if ((r == AWS_OP_SUCCESS) != ok) FAIL("%s(%zu) returned %d, expected success=%d", op, n, r, ok);
        if (r == AWS_OP_SUCCESS && (b.capacity < need || b.len != old.len)) FAIL("capacity %zu < %zu or len changed", b.capacity, need);
        if (r == AWS_OP_SUCCESS) for (size_t i = 0; i < old.len; ++i) if (b.buffer[i] != snap[i]) { FAIL("byte %zu lost across reserve", i); break; }
    } else {
        printf("no native replay for op %s\n", op);
        return 3;
    }
    if (s_fail) return 1;
    printf("held natively on this input\n");
    return 0;
}
