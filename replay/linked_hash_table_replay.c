/* Native replay for C18 violations.  The counterexamples of the C18 proof units are window descriptions (which slots of an
 * arbitrarily long list are materialised), not inputs of a public function, so the replay does not rebuild that state;
 * it searches for a concrete failing input instead: the real linked hash table / caches on the real hash table (current
 * sources, ASan+UBSan) are driven through seeded operation histories and compared with a reference ordered map after
 * every operation (the driver of the bounded unit history_native).  A disagreement prints the history and step and
 * yields exit code 1 = "reproduced natively"; exit code 0 = no failing input found.
 * argv: <unit name> [name=value ...]   (the values are recorded in the replay file, not used) */
#define main lht_native_main
#include "units/C18/lht_native.c"
#undef main

int main(int argc, char **argv) {
    (void)argc;
    (void)argv;
    char *a_quick[] = {"replay", "1", "quick", NULL};
    char *a_more[] = {"replay", "7", "quick", NULL};
    int rc = lht_native_main(3, a_quick);
    if (rc == 0) rc = lht_native_main(3, a_more);
    return rc ? 1 : 0;
}
