/* F3 (C04): aws_xml_parse / aws_xml_node_traverse read outside the document when '>' occurs before '<'
 * or '<' is the last byte.  Exact-size heap copies so that ASan sees the over-read. */
#include <aws/common/xml_parser.h>
#include <aws/common/byte_buf.h>
#include <stdio.h>
#include <stdlib.h>
#include <string.h>
static int on_child(struct aws_xml_node *node, void *ud) { (void)ud; (void)node; return 0; }
static int on_root(struct aws_xml_node *node, void *ud) { (void)ud; return aws_xml_node_traverse(node, on_child, NULL); }
static void run(const char *s) {
    size_t n = strlen(s);
    char *heap = malloc(n); memcpy(heap, s, n);
    struct aws_xml_parser_options o = {.doc = aws_byte_cursor_from_array(heap, n), .on_root_encountered = on_root};
    int r = aws_xml_parse(aws_default_allocator(), &o);
    printf("doc=[%s] rc=%d\n", s, r);
    free(heap);
}
int main(void) {
    aws_common_library_init(aws_default_allocator());
    run("<a></a>");
    run("><");       /* preamble loop: reads one past the end */
    run("<a>> <");   /* traverse: '>' before '<', then '<' is the last byte */
    run("<a>x> <b></b></a>");
    run("<a><");
    return 0;
}
