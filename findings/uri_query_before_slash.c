/* C13 finding: s_parse_authority ended the authority at the first '/' even when a '?' came before it, so a URI with an
 * empty path and a query containing '/' was mis-parsed (host "example.com?redirect=", path "/home", empty query). */
#include <aws/common/uri.h>
#include <stdio.h>
#include <string.h>
static int check(const char *s, const char *host, const char *path, const char *query) {
    struct aws_uri uri;
    struct aws_byte_cursor c = aws_byte_cursor_from_c_str(s);
    if (aws_uri_init_parse(&uri, aws_default_allocator(), &c)) { printf("FAIL %s: parse error\n", s); return 1; }
    int bad = !aws_byte_cursor_eq_c_str(aws_uri_host_name(&uri), host) || !aws_byte_cursor_eq_c_str(aws_uri_path(&uri), path) ||
              !aws_byte_cursor_eq_c_str(aws_uri_query_string(&uri), query);
    printf("%s %s: host=%.*s path=%.*s query=%.*s\n", bad ? "FAIL" : "ok  ", s, (int)aws_uri_host_name(&uri)->len, aws_uri_host_name(&uri)->ptr,
           (int)aws_uri_path(&uri)->len, aws_uri_path(&uri)->ptr, (int)aws_uri_query_string(&uri)->len, aws_uri_query_string(&uri)->ptr);
    aws_uri_clean_up(&uri);
    return bad;
}
int main(void) {
    int bad = 0;
    bad |= check("https://example.com/p?x=1", "example.com", "/p", "x=1");
    bad |= check("https://example.com?redirect=/home", "example.com", "", "redirect=/home");
    bad |= check("http://h:80?x=/", "h", "", "x=/");
    return bad;
}
