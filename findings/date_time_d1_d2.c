/* C19 probes: (1) RFC 822 text without week day and a two-digit day of month; (2) as_nanos past year 2554 */
#include <aws/common/date_time.h>
#include <aws/common/byte_buf.h>
#include <stdio.h>
#include <inttypes.h>
void aws_raise_error_private(int err) { (void)err; }
void aws_fatal_assert(const char *c, const char *f, int l) { (void)c; (void)f; (void)l; __builtin_trap(); }
int aws_sys_clock_get_ticks(uint64_t *t) { *t = 0; return 0; }
#include "source/date_time.c"
#include "source/posix/time.c"
static void p(const char *s, enum aws_date_format f) {
    struct aws_date_time dt; struct aws_byte_cursor c = aws_byte_cursor_from_c_str(s);
    int rc = aws_date_time_init_from_str_cursor(&dt, &c, f);
    printf("\"%s\" fmt=%d rc=%d ts=%" PRId64 " mday=%d\n", s, f, rc, (int64_t)dt.timestamp, dt.gmt_time.tm_mday);
}
int main(void) {
    p("Sat, 15 Jan 2000 10:00:00 GMT", AWS_DATE_FORMAT_RFC822);
    p("15 Jan 2000 10:00:00 GMT", AWS_DATE_FORMAT_RFC822);
    p("15 Jan 2000 10:00:00 GMT", AWS_DATE_FORMAT_AUTO_DETECT);
    p("05 Jan 2000 10:00:00 GMT", AWS_DATE_FORMAT_RFC822);
    p("5 Jan 2000 10:00:00 GMT", AWS_DATE_FORMAT_RFC822);
    p("Sat, 15 Jan 2000 10:00:00 +0830", AWS_DATE_FORMAT_RFC822);
    p("Sat, 15 Jan 00 10:00:00 GMT", AWS_DATE_FORMAT_RFC822);
    p("Sat, 15 Jan 2000 10:00:00 ", AWS_DATE_FORMAT_RFC822);
    p("Sat, 15 Jan 2000 10:00:00", AWS_DATE_FORMAT_RFC822);
    struct aws_date_time dt;
    aws_date_time_init_epoch_millis(&dt, 32503680000005ull); /* 3000-01-01T00:00:00.005Z */
    printf("year 3000 +5ms: as_millis=%" PRIu64 " as_nanos=%" PRIu64 "\n", aws_date_time_as_millis(&dt), aws_date_time_as_nanos(&dt));
    aws_date_time_init_epoch_millis(&dt, 32503680000000ull);
    printf("year 3000 +0ms: as_millis=%" PRIu64 " as_nanos=%" PRIu64 "\n", aws_date_time_as_millis(&dt), aws_date_time_as_nanos(&dt));
    return 0;
}
