/* F4 (C12): s_advance_to_closing_tag counts "<name" as a nested opening of <name> also when it is only the PREFIX of a
 * longer element name ("<ab" inside <a>) or a self-closing "<a/>": well-formed documents are rejected with
 * AWS_ERROR_INVALID_XML when the outer element is read as body or skipped.
 * Exit code 1 = defect reproduced.   Usage: findings/run.sh findings/xml_f4_closing_tag.c [repo dir] */
#include <aws/common/xml_parser.h>
#include <aws/common/byte_buf.h>
#include <stdio.h>
#include <string.h>
static int mode; /* 0: read the root as body, 1: skip the root (return without touching it) */
static int on_root(struct aws_xml_node *node, void *ud) {
    (void)ud;
    if (mode == 1) return AWS_OP_SUCCESS;
    struct aws_byte_cursor body;
    int r = aws_xml_node_as_body(node, &body);
    if (!r) printf("    body=[%.*s]\n", (int)body.len, body.ptr);
    return r;
}
static int run(const char *s) {
    int bad = 0;
    for (mode = 0; mode < 2; ++mode) {
        struct aws_xml_parser_options o = {.doc = aws_byte_cursor_from_c_str(s), .on_root_encountered = on_root};
        int r = aws_xml_parse(aws_default_allocator(), &o);
        printf("doc=[%s] %s rc=%d %s\n", s, mode ? "skip root   " : "root as body", r, r ? aws_error_name(aws_last_error()) : "");
        bad |= r != 0;
    }
    return bad;
}
int main(void) {
    aws_common_library_init(aws_default_allocator());
    int bad = 0;
    run("<a><b></b></a>");          /* accepted (control) */
    run("<a><a>x</a></a>");         /* accepted (control: real nesting of the same name) */
    bad |= run("<a><ab></ab></a>"); /* rejected on the pinned tree */
    bad |= run("<b>x<ba>y</ba></b>");
    run("<a><a/></a>");             /* self-closing child of the same name: also rejected (outside the stated dialect) */
    return bad;
}
