/* F5 (C10): aws_cbor_encoder_write_float(2^63) converts an out-of-range double to int64_t (cbor.c:152): undefined behaviour.
 * Build with -fsanitize=float-cast-overflow: UBSan reports "9.22337e+18 is outside the range of representable values of type long int".
 * On x86-64 the conversion yields INT64_MIN, the equality test fails and the value is still written correctly as the single 0xFA 5F000000. */
#include <stdio.h>
#include <aws/common/cbor.h>
#include <aws/common/byte_buf.h>
int main(void) {
    struct aws_allocator *a = aws_default_allocator();
    struct aws_cbor_encoder *e = aws_cbor_encoder_new(a);
    aws_cbor_encoder_write_float(e, 9223372036854775808.0);
    struct aws_byte_cursor c = aws_cbor_encoder_get_encoded_data(e);
    for (size_t i = 0; i < c.len; ++i) printf("%02x ", c.ptr[i]);
    printf("\n");
    aws_cbor_encoder_destroy(e);
    return 0;
}
