#include <aws/common/byte_buf.h>
#include <stdio.h>
int main(void) {
    uint8_t b[4] = {1,2,3,4};
    struct aws_byte_cursor c = {.len = SIZE_MAX >> 1, .ptr = b};
    struct aws_byte_cursor r = aws_byte_cursor_advance_nospec(&c, 2);
    printf("nospec: rv.ptr=%p rv.len=%zu cursor.ptr=%p cursor.len=%zu\n", (void*)r.ptr, r.len, (void*)c.ptr, c.len);
    struct aws_byte_cursor c2 = {.len = SIZE_MAX >> 1, .ptr = b};
    struct aws_byte_cursor r2 = aws_byte_cursor_advance(&c2, 2);
    printf("plain : rv.ptr=%p rv.len=%zu cursor.ptr=%p cursor.len=%zu\n", (void*)r2.ptr, r2.len, (void*)c2.ptr, c2.len);
    return 0;
}
