/* C17 finding candidate: s_alloc_tracer_track with frames_per_stack == 1 and a backtrace of exactly 2 frames
 * (the "pathological case" stack_depth <= FRAMES_TO_SKIP, memtrace.c:166-169) copies 2 frame pointers into a
 * stack_trace allocated for 1 frame: heap-buffer-overflow (8 bytes).
 * Build: cc -g -fsanitize=address,undefined -D_POSIX_C_SOURCE=200809L -D_XOPEN_SOURCE=500 -Daws_backtrace=fake_backtrace \
 *   -I/repo/include -I/repo/_build/generated/include memtrace_fps1.c /repo/source/memtrace.c /repo/_build/libaws-c-common.a -lpthread -ldl -lm
 * (memtrace.c is compiled with aws_backtrace renamed so that the test controls the number of frames) */
#include <aws/common/allocator.h>
#include <stdio.h>
#include <stddef.h>

static size_t s_depth = 2;
size_t fake_backtrace(void **frames, size_t num) {
    size_t n = s_depth < num ? s_depth : num;
    for (size_t i = 0; i < n; i++) frames[i] = (void *)(0x1000 + i);
    return n;
}

int main(void) {
    struct aws_allocator *t = aws_mem_tracer_new(aws_default_allocator(), NULL, AWS_MEMTRACE_STACKS, 1);
    void *p = aws_mem_acquire(t, 10);
    printf("bytes=%zu count=%zu\n", aws_mem_tracer_bytes(t), aws_mem_tracer_count(t));
    aws_mem_release(t, p);
    aws_mem_tracer_destroy(t);
    return 0;
}
