#!/bin/bash
# run.sh <repro.c> [repo dir] [args...] : build a native reproduction against the sources of the given tree (default /repo)
# with ASan+UBSan and run it.  Exit code of the program (non-zero = defect reproduced).
SRC=$1; R=${2:-/repo}; shift 2 2>/dev/null
D=$(mktemp -d /tmp/finding-XXXX)
cc -std=gnu99 -O1 -g -w -fsanitize=address,undefined -fno-sanitize-recover=undefined -D_POSIX_C_SOURCE=200809L -D_XOPEN_SOURCE=500 -DHAVE_SYSCONF \
  -DAWS_AFFINITY_METHOD=AWS_AFFINITY_METHOD_PTHREAD_ATTR -DAWS_PTHREAD_GETNAME_TAKES_3ARGS -DAWS_PTHREAD_SETNAME_TAKES_2ARGS -DCJSON_HIDE_SYMBOLS -DINTEL_NO_ITTNOTIFY_API ${FINDING_DEFS:--DUSE_SIMD_ENCODING} \
  -I$R/include -I/repo/_build/generated/include -I/verif/build/config -I$R/source/external/libcbor $SRC $R/source/*.c $R/source/posix/*.c $R/source/linux/*.c $R/source/external/*.c \
  $R/source/external/libcbor/*.c $R/source/external/libcbor/cbor/*.c $R/source/external/libcbor/cbor/internal/*.c $R/source/arch/intel/*.c $R/source/arch/intel/asm/*.c \
  -mavx2 -lpthread -ldl -lm -o $D/repro || { rm -rf $D; exit 99; }
$D/repro "$@"; RC=$?
rm -rf $D
exit $RC
