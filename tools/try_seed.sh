#!/bin/bash
# try_seed.sh <seed-name e.g. C01-a> <PID> [verif.py args...] : run a property's check against a scratch worktree of /repo
# with the seeded change applied (VERIF_REPO), leaving /repo, evidence/ and replay/out untouched.
S=$1; PID=$2; shift 2
V=$(cd $(dirname $0)/.. && pwd)
WT=$(mktemp -d /tmp/seedtry-$S-XXXX); rmdir $WT
git -C /repo worktree add --detach $WT HEAD >/dev/null 2>&1 || exit 2
git -C $WT apply $V/seeded/$S/patch.diff || { git -C /repo worktree remove --force $WT; exit 2; }
mkdir -p $WT/.verif_out
VERIF_REPO=$WT VERIF_EVIDENCE_DIR=$WT/.verif_out VERIF_REPLAY_DIR=$WT/.verif_out python3 $V/tools/verif.py check $PID "$@" 2>&1 | grep -E "violation|undecided|^VIOLATION|^UNDECIDED|^KNOWN|^SUMMARY" | cut -c1-330
RC=${PIPESTATUS[0]}
git -C /repo worktree remove --force $WT
echo "try_seed $S on $PID: exit $RC"
