#!/usr/bin/env python3
"""import_seed.py <PID> <k> : copy a confirmed seeded change from /tmp/seed_out/<PID>/<k> to /verif/seeded/<PID>-<k>/"""
import sys, os, json, shutil
pid, k = sys.argv[1], sys.argv[2]
src = "/tmp/seed_out/%s/%s" % (pid, k)
dst = os.path.join(os.path.dirname(os.path.dirname(os.path.abspath(__file__))), "seeded", "%s-%s" % (pid, k))
conf = open(os.path.join(src, "confirm.txt")).read().strip()
assert "0 tests failed" in conf and "demo_exit_changed=0" not in conf and "demo_exit_clean=0" in conf, conf
os.makedirs(dst, exist_ok=True)
for f in ("patch.diff", "demo.c", "run_demo.sh"):
    shutil.copy(os.path.join(src, f), dst)
meta = json.load(open(os.path.join(src, "meta.json")))
meta["property"] = pid
meta["confirmed"] = conf
meta["what_was_run"] = "tools/confirm_seed.sh %s %s: git apply patch.diff in a scratch worktree of /repo; cmake --build; ctest -j8 (451 tests); run_demo.sh on the changed tree (must exit != 0); git checkout; run_demo.sh on the clean tree (must exit 0)" % (pid, k)
meta.setdefault("detected_by", "not yet evaluated")
json.dump(meta, open(os.path.join(dst, "meta.json"), "w"), indent=1)
print("imported", dst)
