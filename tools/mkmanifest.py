#!/usr/bin/env python3
"""Regenerates MANIFEST.json from the table below + the unit directories that exist."""
import json, os
V = os.path.dirname(os.path.dirname(os.path.abspath(__file__)))
TB = "Trusted: CBMC 6.11 (goto-cc front end, DFCC contract instrumentation, built-in memcpy/memset/malloc models, SAT back end), the loop-contract overlay scanner and driver in tools/verif.py, bit-precise x86-64 LP64 arithmetic model. "
DESIGN_REF = "DESIGN.md section 5 (per-property plan) and section 10 (what was built)"
def claim_from_units(pid):
    """level text, note and technique come from units/<PID>/units.json (explanation / assumptions / not_decided / level)."""
    u = json.load(open(os.path.join(V, "units", pid, "units.json")))
    if not u.get("claim", False):   # set by the coordinator once the property check has been validated
        return None
    modes = sorted(set((dict(u.get("defaults", {}), **x)).get("mode", "proof") for x in u["units"]))
    cat = "proof" if u.get("level", "proof") == "proof" else "other"
    text = u.get("explanation") or "see evidence"
    nd = u.get("not_decided", [])
    note = TB + "Assumed: " + "; ".join(u.get("assumptions", []) or ["see evidence"]) + (". Not decided: " + "; ".join(nd) if nd else "")
    tech = u.get("technique") or ("CBMC function contracts (goto-instrument --dfcc) + loop contracts on the real sources; unit modes: " + ", ".join(modes))
    return dict(cat=cat, text=text, note=note, tech=tech, ref=DESIGN_REF)
CLAIMS = {}
for _pid in sorted(os.listdir(os.path.join(V, "units"))) if os.path.isdir(os.path.join(V, "units")) else []:
    if os.path.exists(os.path.join(V, "units", _pid, "units.json")):
        c = claim_from_units(_pid)
        if c:
            CLAIMS[_pid] = c
NA_REASON = {
 "C08": "quantifies over interleavings of client threads with the scheduler thread (locks, condition variable, atomics); CBMC function contracts have no thread semantics; the sequential core is covered under C07",
 "C11": "property lives in vendored cJSON.c (recursive printer/parser over unbounded trees) and libc number formatting; any contract for them would be an assumption equal to the property",
 "C20": "pthread create/join, at-exit callbacks and managed-thread join are interleaving properties over OS primitives; no function contract can express 'returns only after the thread has finished'",
}
props = [json.loads(l) for l in open(os.path.join(V, "properties.jsonl"))]
checks, na = [], []
for p in props:
    pid = p["id"]
    if pid in CLAIMS and os.path.exists(os.path.join(V, "units", pid, "units.json")):
        c = CLAIMS[pid]
        checks.append({"property_id": pid,
                       "quick_cmd": "python3 tools/verif.py check %s --tier quick" % pid,
                       "thorough_cmd": "python3 tools/verif.py check %s --tier thorough" % pid,
                       "evidence_file": "evidence/%s.json" % pid,
                       "replay_cmd_template": "python3 tools/verif.py replay {path}",
                       "engine": "cbmc-contracts",
                       "level_claimed": {"category": c["cat"], "text": c["text"], "design_ref": c["ref"]},
                       "level_note": c["note"], "technique": c["tech"]})
    else:
        na.append({"property_id": pid, "reason": NA_REASON.get(pid, "no check built yet in this session (planned, see DESIGN.md §5); not claimed")})
m = {"version": 1,
     "setup_cmd": "python3 tools/verif.py setup",
     "hooks": {"guard": "AWS_C_COMMON_VERIF", "enable": "-DAWS_C_COMMON_VERIF is passed to every goto-cc unit build; no guarded hook exists in /repo (contracts are re-declarations in /verif/contracts, loop contracts are inserted into a scratch copy on every run)",
               "baseline_off_cmd": "cmake --build /repo/_build -j8 >/dev/null && ctest --test-dir /repo/_build -j8 --timeout 900", "source_commits": [], "add_only": True},
     "engines": [{"name": "cbmc-contracts", "path": "tools/verif.py", "serves_properties": [c["property_id"] for c in checks],
                  "kind_free_text": "contract-based deductive verification: goto-cc + goto-instrument --dfcc (function and loop contracts) + cbmc 6.11 on the real sources of /repo"}],
     "checks": checks, "not_applicable": na,
     "notes": "Exit codes of every check: 0 held (KNOWN-FINDING lines possible), 1 VIOLATION, 2 UNDECIDED (time-out/build/overlay anchor lost; never reported as a violation). See DESIGN.md."}
json.dump(m, open(os.path.join(V, "MANIFEST.json"), "w"), indent=1)
print("checks:", [c["property_id"] for c in checks])
