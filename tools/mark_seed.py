#!/usr/bin/env python3
import sys, json, os
p = os.path.join(os.path.dirname(os.path.dirname(os.path.abspath(__file__))), "seeded", sys.argv[1], "meta.json")
m = json.load(open(p)); m["detected_by"] = sys.argv[2]; json.dump(m, open(p, "w"), indent=1)
