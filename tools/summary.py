#!/usr/bin/env python3
"""Prints a markdown table summarising evidence/*.json (for DESIGN.md section 10.3)."""
import json, glob, os
V = os.path.dirname(os.path.dirname(os.path.abspath(__file__)))
print("| property | level | units (proof / complete / bounded / native) | functions under contract | obligations proved | bounded obligations | mutants killed | wall (s) |")
print("|---|---|---|---|---|---|---|---|")
for f in sorted(glob.glob(os.path.join(V, "evidence", "C*.json"))):
    e = json.load(open(f)); c = e["coverage"]
    modes = {}
    for u in c["units"]:
        modes[u["mode"]] = modes.get(u["mode"], 0) + 1
    print("| %s | %s | %d (%d / %d / %d / %d) | %d | %d | %d | %s | %s |" % (
        e["property_id"], e["level"], len(c["units"]), modes.get("proof", 0), modes.get("complete", 0), modes.get("bounded", 0), modes.get("native", 0),
        len(c["functions_under_contract"]), c["discharged"], c["bounded_discharged"],
        ("%d/%d" % (c["mutants_killed"], len(c["mutants"]))) if c["mutants"] else "(thorough tier)", e["wall_s"]))
