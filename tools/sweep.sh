#!/bin/bash
# sweep.sh [tier] : run every claimed check once (sequentially) and print one line per property
cd $(dirname $0)/..
TIER=${1:-quick}
for p in $(python3 -c "import json;print(' '.join(c['property_id'] for c in json.load(open('MANIFEST.json'))['checks']))"); do
  python3 tools/verif.py check $p --tier $TIER > /tmp/sweep_$p.log 2>&1; rc=$?
  echo "$p exit=$rc $(grep -E '^SUMMARY' /tmp/sweep_$p.log | cut -c1-200)"
  grep -E "^(VIOLATION|UNDECIDED|KNOWN-FINDING)" /tmp/sweep_$p.log | cut -c1-220
done
