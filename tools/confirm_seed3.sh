#!/bin/bash
# confirm_seed2.sh <PID> <k> <newk> : like confirm_seed.sh for round-2 seeds (/tmp/wt3_<PID>, /tmp/seed_out3/<PID>/<k>), then import as <PID>-<newk>
PID=$1; K=$2; NK=$3; WT=/tmp/wt3_$PID; D=/tmp/seed_out3/$PID/$K
[ -d "$WT" ] || { echo "no worktree $WT"; exit 2; }
git -C $WT checkout -q -- . ; git -C $WT apply $D/patch.diff || { echo "patch does not apply" > $D/confirm.txt; exit 1; }
{ cmake -G Ninja -S $WT -B $WT/_build -DCMAKE_BUILD_TYPE=RelWithDebInfo -DBUILD_TESTING=ON >/dev/null && cmake --build $WT/_build -j6 2>&1 | tail -1; } > $D/build.log 2>&1
T=$(ctest --test-dir $WT/_build -j8 --timeout 900 2>&1 | grep -E "tests passed|tests failed" | tail -1)
bash $D/run_demo.sh $WT > $D/demo_changed.log 2>&1; RC1=$?
git -C $WT checkout -q -- .
bash $D/run_demo.sh $WT > $D/demo_clean.log 2>&1; RC0=$?
echo "tests_with_change: $T | demo_exit_changed=$RC1 | demo_exit_clean=$RC0" | tee $D/confirm.txt
mkdir -p /tmp/seed_out/$PID/$NK && cp $D/patch.diff $D/demo.c $D/run_demo.sh $D/meta.json $D/confirm.txt /tmp/seed_out/$PID/$NK/ && sed -i "s|/tmp/seed_out3/$PID/$K|/tmp/seed_out/$PID/$NK|g" /tmp/seed_out/$PID/$NK/run_demo.sh
python3 $(dirname $0)/import_seed.py $PID $NK
