#!/usr/bin/env python3
"""showfail.py <PID> <unit> : print failed obligations of the last run (from replay/out) with the clause text."""
import json, sys, os
V = os.path.dirname(os.path.dirname(os.path.abspath(__file__)))
d = json.load(open(os.path.join(V, "replay", "out", "%s-%s.json" % (sys.argv[1], sys.argv[2]))))
seen = set()
for x in d["failed_obligations"][: int(sys.argv[3]) if len(sys.argv) > 3 else 8]:
    f, ln = x.get("file"), x.get("line")
    txt = ""
    if f and ln and os.path.exists(f):
        L = open(f, errors="replace").read().split("\n")
        txt = L[int(ln) - 1].strip()[:230]
    tv = {k: v for k, v in (x.get("trace_vars") or {}).items() if not k.startswith("g_last") and not k.startswith("g_raise")}
    print("%s | %s | %s:%s\n    %s\n    %s" % (x["property"], x["description"][:110], os.path.basename(f or "?"), ln, txt, json.dumps(tv)[:600]))
