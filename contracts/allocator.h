/* Contracts for the allocator entry points of source/allocator.c.
 *
 * Two requires-flavours share the same assigns/ensures text:
 *   client  (default)            : what callers must establish at a replaced call site
 *   enforce (VERIF_ALLOC_ENFORCE): the shape assumed when the real body is checked against the
 *                                  contracts of the vtable function pointers (units/C01/allocator.c)
 * In this version of the library aws_mem_acquire/calloc/realloc abort on OOM (AWS_PANIC_OOM), so the
 * public entry points never return NULL / never fail; abort() is assume(false) in CBMC.
 *
 * `__CPROVER_was_freed` is not used: in CBMC 6.11 its assume-side precondition check fails for every replaced call
 * (even `frees(p) ensures(was_freed(p))`), so release is expressed by the frees clause alone: a replaced release MAY
 * free the block.  Use-after-release and double release in callers are still caught; "released exactly once" and
 * leak freedom are not claimed.
 */
#ifndef VERIF_CONTRACTS_ALLOCATOR_H
#define VERIF_CONTRACTS_ALLOCATOR_H
#include "contracts/common.h"
#include <aws/common/allocator.h>

/* ghost: secure-release witness.  When g_zero_on is set, every released block must have a zero at g_rz
 * (if g_rz is below g_rsize, the size of the block the harness is watching). */
bool g_zero_on;
size_t g_rz;
size_t g_rsize;
#define GHOST_RESET_ALLOC() do { g_zero_on = false; } while (0) /* g_vt_moves, g_has_* stay arbitrary */
/* ghost for the reachability canaries of the enforcing units (units/C01/allocator.c): which optional vtable entries exist */
bool g_has_calloc;
bool g_has_realloc;

/* ---- contracts every allocator vtable function is assumed to obey ---- */
void *vt_mem_acquire_contract(struct aws_allocator *allocator, size_t size)
__CPROVER_requires(size > 0)
__CPROVER_assigns()
__CPROVER_ensures(__CPROVER_return_value == NULL || __CPROVER_is_fresh(__CPROVER_return_value, size))
;
void vt_mem_release_contract(struct aws_allocator *allocator, void *ptr)
__CPROVER_requires(ptr != NULL && __CPROVER_is_freeable(ptr))
__CPROVER_assigns()
__CPROVER_frees(ptr)
__CPROVER_ensures(1)
;
void *vt_mem_calloc_contract(struct aws_allocator *allocator, size_t num, size_t size)
__CPROVER_requires(num > 0 && size > 0 && !__CPROVER_overflow_mult(num, size))
__CPROVER_assigns()
__CPROVER_ensures(__CPROVER_return_value == NULL || __CPROVER_is_fresh(__CPROVER_return_value, num * size))
__CPROVER_ensures(__CPROVER_return_value != NULL && g_j < num * size ==> ((uint8_t *)__CPROVER_return_value)[g_j] == 0)
;

/* realloc: either the same block (only when it does not have to grow) or a fresh block holding the old contents.
 * Which of the two happens is the allocator's choice: ghost g_vt_moves, left arbitrary.  The frees clause is conditional
 * on that choice because a replaced contract MAY free its frees targets, which must not happen when the same block is
 * handed back. */
bool g_vt_moves;
#define VT_REALLOC_MOVES (newsize > oldsize || g_vt_moves)
void *vt_mem_realloc_contract(struct aws_allocator *allocator, void *ptr, size_t oldsize, size_t newsize)
__CPROVER_requires(newsize > 0)
__CPROVER_requires(ptr == NULL || __CPROVER_is_freeable(ptr))
__CPROVER_requires(g_on ==> (ptr != NULL && g_k < oldsize ==> g_old == ((const uint8_t *)ptr)[g_k]))
__CPROVER_assigns()
__CPROVER_frees(VT_REALLOC_MOVES : ptr)
__CPROVER_ensures(__CPROVER_return_value == NULL ||
                  ((!VT_REALLOC_MOVES && ptr != NULL) ? __CPROVER_pointer_equals(__CPROVER_return_value, ptr)
                                                      : __CPROVER_is_fresh(__CPROVER_return_value, newsize)))
__CPROVER_ensures(g_on && __CPROVER_return_value != NULL && ptr != NULL && g_k < oldsize && g_k < newsize ==>
                  ((const uint8_t *)__CPROVER_return_value)[g_k] == g_old)
;

#ifdef VERIF_ALLOC_ENFORCE
#    define ALLOC_REQ(a)                                                                                               \
        __CPROVER_requires(__CPROVER_is_fresh(a, sizeof(*(a))))                                                        \
        __CPROVER_requires(__CPROVER_obeys_contract((a)->mem_acquire, vt_mem_acquire_contract))                        \
        __CPROVER_requires(__CPROVER_obeys_contract((a)->mem_release, vt_mem_release_contract))                        \
        __CPROVER_requires((a)->mem_calloc == NULL || __CPROVER_obeys_contract((a)->mem_calloc, vt_mem_calloc_contract))      \
        __CPROVER_requires((a)->mem_realloc == NULL || __CPROVER_obeys_contract((a)->mem_realloc, vt_mem_realloc_contract)) \
        __CPROVER_requires(g_has_calloc == ((a)->mem_calloc != NULL) && g_has_realloc == ((a)->mem_realloc != NULL))
#else
#    define ALLOC_REQ(a) __CPROVER_requires((a) != NULL)
#endif

void *aws_mem_acquire(struct aws_allocator *allocator, size_t size)
ALLOC_REQ(allocator)
__CPROVER_requires(size > 0)
__CPROVER_assigns()
__CPROVER_ensures(__CPROVER_is_fresh(__CPROVER_return_value, size))
;

/* symbolic num * symbolic size does not come back from the SAT solver: the enforcing units fix one factor each */
#if defined(VERIF_ALLOC_ENFORCE) && defined(VERIF_CALLOC_SIZE)
#    define CALLOC_CASE __CPROVER_requires(size == VERIF_CALLOC_SIZE)
#elif defined(VERIF_ALLOC_ENFORCE) && defined(VERIF_CALLOC_NUM)
#    define CALLOC_CASE __CPROVER_requires(num == VERIF_CALLOC_NUM)
#else
#    define CALLOC_CASE
#endif
void *aws_mem_calloc(struct aws_allocator *allocator, size_t num, size_t size)
ALLOC_REQ(allocator)
CALLOC_CASE
__CPROVER_requires(num > 0 && size > 0 && !__CPROVER_overflow_mult(num, size))
__CPROVER_assigns()
__CPROVER_ensures(__CPROVER_is_fresh(__CPROVER_return_value, num * size))
__CPROVER_ensures(g_j < num * size ==> ((uint8_t *)__CPROVER_return_value)[g_j] == 0)
;

#ifdef VERIF_ALLOC_ENFORCE
#    define RELEASE_PTR_REQ __CPROVER_requires(ptr == NULL || __CPROVER_is_fresh(ptr, g_rsize))
#else
#    define RELEASE_PTR_REQ __CPROVER_requires(ptr == NULL || __CPROVER_is_freeable(ptr))
#endif
void aws_mem_release(struct aws_allocator *allocator, void *ptr)
ALLOC_REQ(allocator)
RELEASE_PTR_REQ
__CPROVER_requires(g_zero_on ==> (ptr != NULL && g_rz < g_rsize ==> ((const uint8_t *)ptr)[g_rz] == 0))
__CPROVER_assigns()
__CPROVER_frees(ptr)
__CPROVER_ensures(1)
;


/* a block that does not exist has size 0 (with *ptr == NULL and oldsize > 0 the emulation path of aws_mem_realloc would
 * report success for newsize <= oldsize and leave *ptr == NULL) */
#ifdef VERIF_ALLOC_ENFORCE
#    define REALLOC_PTR_REQ __CPROVER_requires(__CPROVER_is_fresh(ptr, sizeof(*ptr)))                                  \
                            __CPROVER_requires(*ptr == NULL ? oldsize == 0 : __CPROVER_is_fresh(*ptr, oldsize))        \
                            REALLOC_ENFORCE_CASE
#else
#    define REALLOC_PTR_REQ __CPROVER_requires(ptr != NULL) __CPROVER_requires(*ptr == NULL ? oldsize == 0 : __CPROVER_is_freeable(*ptr))
#endif
/* The emulation path (allocator without mem_realloc) calls memcpy(newptr, *ptr, oldsize) also when *ptr == NULL and
 * oldsize == 0: no byte is touched, but memcpy's pointer arguments must not be NULL even for n == 0 (CBMC's model and
 * UBSan's nonnull check both flag it).  That corner is excluded from the enforcing unit mem_realloc and checked by the
 * unit mem_realloc_null_emulated, where this single obligation is listed as ignored with the reason. */
#if defined(VERIF_REALLOC_NULL_EMULATED)
#    define REALLOC_ENFORCE_CASE __CPROVER_requires(*ptr == NULL && allocator->mem_realloc == NULL && newsize > 0)
#else
#    define REALLOC_ENFORCE_CASE __CPROVER_requires(!(*ptr == NULL && allocator->mem_realloc == NULL && newsize > 0))
#endif

/* never fails in this version of the library (OOM aborts).  newsize == 0 releases. */
int aws_mem_realloc(struct aws_allocator *allocator, void **ptr, size_t oldsize, size_t newsize)
ALLOC_REQ(allocator)
REALLOC_PTR_REQ
__CPROVER_requires(g_on ==> (*ptr != NULL && g_k < oldsize ==> g_old == ((const uint8_t *)*ptr)[g_k]))
__CPROVER_assigns(*ptr)
__CPROVER_frees(newsize == 0 || VT_REALLOC_MOVES : *ptr)
__CPROVER_ensures(__CPROVER_return_value == AWS_OP_SUCCESS)
__CPROVER_ensures(newsize == 0 ==> *ptr == NULL)
__CPROVER_ensures(newsize > 0 ==> (__CPROVER_is_fresh(*ptr, newsize) ||
                                  (newsize <= oldsize && __CPROVER_old(*ptr) != NULL && __CPROVER_pointer_equals(*ptr, __CPROVER_old(*ptr)))))
__CPROVER_ensures(g_on && newsize > 0 && __CPROVER_old(*ptr) != NULL && g_k < oldsize && g_k < newsize ==>
                  ((const uint8_t *)*ptr)[g_k] == g_old)
;

/* common.c: memset + asm barrier.  Every byte is zero afterwards (witness g_rz). */
#ifdef VERIF_ALLOC_ENFORCE
#    define SECURE_ZERO_REQ __CPROVER_requires(pBuf == NULL || __CPROVER_is_fresh(pBuf, bufsize))
#else
#    define SECURE_ZERO_REQ __CPROVER_requires(bufsize == 0 || pBuf == NULL || __CPROVER_w_ok(pBuf, bufsize))
#endif
void aws_secure_zero(void *pBuf, size_t bufsize)
SECURE_ZERO_REQ
__CPROVER_assigns(bufsize > 0 && pBuf != NULL : __CPROVER_object_upto(pBuf, bufsize))
__CPROVER_ensures(pBuf != NULL && g_rz < bufsize ==> ((const uint8_t *)pBuf)[g_rz] == 0)
;

#endif
