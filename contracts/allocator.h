/* Contracts for the allocator entry points of source/allocator.c.
 *
 * Two requires-flavours share the same assigns/ensures text:
 *   client  (default)            : what callers must establish at a replaced call site
 *   enforce (VERIF_ALLOC_ENFORCE): the shape assumed when the real body is checked against the
 *                                  contracts of the vtable function pointers (units/C01/allocator.c)
 * In this version of the library aws_mem_acquire/calloc/realloc abort on OOM (AWS_PANIC_OOM), so the
 * public entry points never return NULL / never fail; abort() is assume(false) in CBMC.
 */
#ifndef VERIF_CONTRACTS_ALLOCATOR_H
#define VERIF_CONTRACTS_ALLOCATOR_H
#include "contracts/common.h"
#include <aws/common/allocator.h>

/* ghost: secure-release witness.  When g_zero_on is set, every released block must have a zero at g_rz
 * (if g_rz is below g_rsize, the size of the block the harness is watching). */
bool g_zero_on;
size_t g_rz;
size_t g_rsize;

/* ---- contracts every allocator vtable function is assumed to obey ---- */
void *vt_mem_acquire_contract(struct aws_allocator *allocator, size_t size)
__CPROVER_requires(size > 0)
__CPROVER_assigns()
__CPROVER_ensures(__CPROVER_return_value == NULL || __CPROVER_is_fresh(__CPROVER_return_value, size))
;
void vt_mem_release_contract(struct aws_allocator *allocator, void *ptr)
__CPROVER_requires(ptr != NULL && __CPROVER_is_freeable(ptr))
__CPROVER_assigns()
__CPROVER_frees(ptr)
__CPROVER_ensures(__CPROVER_was_freed(ptr))
;
void *vt_mem_calloc_contract(struct aws_allocator *allocator, size_t num, size_t size)
__CPROVER_requires(num > 0 && size > 0 && !__CPROVER_overflow_mult(num, size))
__CPROVER_assigns()
__CPROVER_ensures(__CPROVER_return_value == NULL || __CPROVER_is_fresh(__CPROVER_return_value, num * size))
__CPROVER_ensures(__CPROVER_return_value != NULL && g_j < num * size ==> ((uint8_t *)__CPROVER_return_value)[g_j] == 0)
;

#ifdef VERIF_ALLOC_ENFORCE
#    define ALLOC_REQ(a)                                                                                               \
        __CPROVER_requires(__CPROVER_is_fresh(a, sizeof(*(a))))                                                        \
        __CPROVER_requires(__CPROVER_obeys_contract((a)->mem_acquire, vt_mem_acquire_contract))                        \
        __CPROVER_requires(__CPROVER_obeys_contract((a)->mem_release, vt_mem_release_contract))                        \
        __CPROVER_requires((a)->mem_calloc == NULL || __CPROVER_obeys_contract((a)->mem_calloc, vt_mem_calloc_contract))
#else
#    define ALLOC_REQ(a) __CPROVER_requires((a) != NULL)
#endif

void *aws_mem_acquire(struct aws_allocator *allocator, size_t size)
ALLOC_REQ(allocator)
__CPROVER_requires(size > 0)
__CPROVER_assigns()
__CPROVER_ensures(__CPROVER_is_fresh(__CPROVER_return_value, size))
;

void *aws_mem_calloc(struct aws_allocator *allocator, size_t num, size_t size)
ALLOC_REQ(allocator)
__CPROVER_requires(num > 0 && size > 0 && !__CPROVER_overflow_mult(num, size))
__CPROVER_assigns()
__CPROVER_ensures(__CPROVER_is_fresh(__CPROVER_return_value, num * size))
__CPROVER_ensures(g_j < num * size ==> ((uint8_t *)__CPROVER_return_value)[g_j] == 0)
;

void aws_mem_release(struct aws_allocator *allocator, void *ptr)
ALLOC_REQ(allocator)
__CPROVER_requires(ptr == NULL || __CPROVER_is_freeable(ptr))
__CPROVER_requires(g_zero_on ==> (ptr != NULL && g_rz < g_rsize ==> ((const uint8_t *)ptr)[g_rz] == 0))
__CPROVER_assigns()
__CPROVER_frees(ptr)
__CPROVER_ensures(ptr != NULL ==> __CPROVER_was_freed(ptr))
;

#endif
