/* Contracts for source/memtrace.c (property C17), part 2: included AFTER `#include "source/memtrace.c"` because the
 * clauses mention the private types struct alloc_tracer / struct alloc_info.  See contracts/memtrace.h for the ghost
 * view. */
#ifndef VERIF_CONTRACTS_MEMTRACE_IMPL_H
#define VERIF_CONTRACTS_MEMTRACE_IMPL_H
#include "contracts/memtrace.h"

#define MT_ALLOCATED(t) (*(size_t *)&(t)->allocated)
#define MT_INFO(p) ((struct alloc_info *)(p))
#define MT_TRACED(t) ((t)->level != AWS_MEMTRACE_NONE)

/* frames_per_stack == 1 is a case of its own: before /repo commit e61ae68, with a backtrace of exactly 2 frames
 * s_alloc_tracer_track wrote 2 frame pointers into a stack_trace sized for 1 (memtrace.c:167, findings/memtrace_fps1.c).
 * The enforcing unit `track` covers 2..128, `track_fps1` covers 1 (its built-in mutant restores the defect); the callers
 * rely on the contract for 1..128. */
#ifndef MT_FPS_MIN
#    define MT_FPS_MIN 1
#endif
#ifndef MT_FPS_MAX
#    define MT_FPS_MAX 128
#endif
/* shape of a tracer + identification of its parts for the stubs */
#define MT_TRACER_OK(t)                                                                                                \
    (((t)->level == AWS_MEMTRACE_NONE || (t)->level == AWS_MEMTRACE_BYTES || (t)->level == AWS_MEMTRACE_STACKS) &&     \
     ((t)->level == AWS_MEMTRACE_STACKS ==> ((t)->frames_per_stack >= MT_FPS_MIN && (t)->frames_per_stack <= MT_FPS_MAX && g_mt_bt_avail)) && \
     (MT_TRACED(t) ==> (g_mt_allocs == &(t)->allocs && g_mt_mutex == &(t)->mutex)) &&                                 \
     ((t)->level == AWS_MEMTRACE_STACKS ==> g_mt_stacks == &(t)->stacks) && !g_mt_locked)

/* coupling of the view with memory: the info object of the watched entry is a live heap block owned by the table and
 * holds the recorded size */
#define MT_VIEW_OK (g_mt_present ==> (__CPROVER_is_fresh(g_mt_val, sizeof(struct alloc_info)) && MT_INFO(g_mt_val)->size == g_mt_size))

/* the accounting invariant: reported bytes == SUM of recorded sizes (count is read from the table itself) */
#define MT_INV(t) (MT_TRACED(t) ==> MT_ALLOCATED(t) == g_mt_sum)

/* ------------------------------------------------------------------ client contracts of the hash table: allocs */

/* lookup.  The element handed out is modelled as an object of its own (the code only reads it and hands it back to
 * remove_element). */
int aws_hash_table_find(const struct aws_hash_table *map, const void *key, struct aws_hash_element **p_elem)
__CPROVER_requires(map == g_mt_allocs)
__CPROVER_requires(g_mt_locked)
__CPROVER_requires(__CPROVER_w_ok(p_elem, sizeof(*p_elem)))
__CPROVER_assigns(*p_elem, g_mt_oth_present, g_mt_oth_size, g_mt_found_key, g_mt_found)
__CPROVER_ensures(__CPROVER_return_value == AWS_OP_SUCCESS)
__CPROVER_ensures(g_mt_found_key == key)
__CPROVER_ensures(key == g_mt_key ==>
    (g_mt_present ? (__CPROVER_is_fresh(*p_elem, sizeof(struct aws_hash_element)) && (*p_elem)->key == key &&
                     __CPROVER_pointer_equals((*p_elem)->value, g_mt_val))
                  : *p_elem == NULL))
__CPROVER_ensures(key != g_mt_key ==>
    (g_mt_oth_present ? (__CPROVER_is_fresh(*p_elem, sizeof(struct aws_hash_element)) && (*p_elem)->key == key &&
                         __CPROVER_is_fresh((*p_elem)->value, sizeof(struct alloc_info)) &&
                         MT_INFO((*p_elem)->value)->size == g_mt_oth_size)
                      : *p_elem == NULL))
__CPROVER_ensures(__CPROVER_pointer_equals(g_mt_found, *p_elem))
;

/* removal of the element found last; does NOT call the destructors (hash_table.h) */
int aws_hash_table_remove_element(struct aws_hash_table *map, struct aws_hash_element *p_value)
__CPROVER_requires(map == g_mt_allocs)
__CPROVER_requires(g_mt_locked)
__CPROVER_requires(p_value != NULL && p_value == g_mt_found)
__CPROVER_assigns(g_mt_count, g_mt_sum, g_mt_found; g_mt_found_key == g_mt_key : g_mt_present; g_mt_found_key != g_mt_key : g_mt_oth_present)
__CPROVER_ensures(__CPROVER_return_value == AWS_OP_SUCCESS)
__CPROVER_ensures(__CPROVER_pointer_equals(g_mt_found, NULL))
__CPROVER_ensures(g_mt_count == __CPROVER_old(g_mt_count) - 1)
__CPROVER_ensures(g_mt_found_key == g_mt_key
    ? (!g_mt_present && g_mt_sum == __CPROVER_old(g_mt_sum) - g_mt_size && g_mt_oth_present == __CPROVER_old(g_mt_oth_present))
    : (g_mt_present == __CPROVER_old(g_mt_present) && g_mt_sum == __CPROVER_old(g_mt_sum) - g_mt_oth_size && !g_mt_oth_present))
;

/* insertion of a key that is NOT in the table (obligation at the call site, checkable for the watched key: every
 * harness leaves g_mt_key arbitrary, so "key == g_mt_key ==> !g_mt_present" is "key is absent") */
int aws_hash_table_put(struct aws_hash_table *map, const void *key, void *value, int *was_created)
__CPROVER_requires(map == g_mt_allocs)
__CPROVER_requires(g_mt_locked)
__CPROVER_requires(was_created == NULL)
__CPROVER_requires(key == g_mt_key ==> !g_mt_present)
__CPROVER_requires(__CPROVER_r_ok(value, sizeof(struct alloc_info)))
/* frame: the entry of the watched key is assignable only when the watched key is the one inserted */
__CPROVER_assigns(g_mt_count, g_mt_sum; key == g_mt_key : g_mt_present, g_mt_val, g_mt_size)
__CPROVER_ensures(__CPROVER_return_value == AWS_OP_SUCCESS)
__CPROVER_ensures(g_mt_count == __CPROVER_old(g_mt_count) + 1)
__CPROVER_ensures(g_mt_sum == __CPROVER_old(g_mt_sum) + MT_INFO(value)->size)
__CPROVER_ensures(key == g_mt_key ==>
    (g_mt_present && __CPROVER_pointer_equals(g_mt_val, value) && g_mt_size == MT_INFO(value)->size))
;

/* (the dump also asks its local table of per-stack totals: any answer) */
size_t aws_hash_table_get_entry_count(const struct aws_hash_table *map)
__CPROVER_requires(map == g_mt_allocs || (g_mt_stack_info != NULL && map == g_mt_stack_info))
__CPROVER_requires(g_mt_locked)
__CPROVER_assigns()
__CPROVER_ensures(map == g_mt_allocs ==> __CPROVER_return_value == g_mt_count)
;

/* ------------------------------------------------------------------ client contract of the hash table: stacks */
int aws_hash_table_create(struct aws_hash_table *map, const void *key, struct aws_hash_element **p_elem, int *was_created)
__CPROVER_requires(map == g_mt_stacks)
__CPROVER_requires(g_mt_locked)
__CPROVER_requires(__CPROVER_w_ok(p_elem, sizeof(*p_elem)) && __CPROVER_w_ok(was_created, sizeof(*was_created)))
__CPROVER_assigns(*p_elem, *was_created, g_mt_stack_entries, g_mt_stack_elem, g_mt_stack_created)
__CPROVER_ensures(__CPROVER_return_value == AWS_OP_SUCCESS)
__CPROVER_ensures(__CPROVER_is_fresh(*p_elem, sizeof(struct aws_hash_element)) && (*p_elem)->key == key)
__CPROVER_ensures(*was_created ? (*p_elem)->value == NULL : __CPROVER_is_fresh((*p_elem)->value, sizeof(struct stack_trace)))
__CPROVER_ensures((*was_created == 0 || *was_created == 1) && g_mt_stack_entries == __CPROVER_old(g_mt_stack_entries) + (size_t)*was_created)
__CPROVER_ensures(__CPROVER_pointer_equals(g_mt_stack_elem, *p_elem) && g_mt_stack_created == *was_created)
;

/* ------------------------------------------------------------------ set-up and tear-down of the two tables
 * init registers the table with the ghost view: allocs is the table whose values are destroyed by s_destroy_alloc,
 * stacks the one with s_destroy_stacktrace.  Obligations at the call site: the bookkeeping allocator, keys hashed and
 * compared BY ADDRESS (this is what makes the view "address -> info"), no key destructor. */
int aws_hash_table_init(
    struct aws_hash_table *map,
    struct aws_allocator *alloc,
    size_t size,
    aws_hash_fn *hash_fn,
    aws_hash_callback_eq_fn *equals_fn,
    aws_hash_callback_destroy_fn *destroy_key_fn,
    aws_hash_callback_destroy_fn *destroy_value_fn)
__CPROVER_requires(__CPROVER_w_ok(map, sizeof(*map)))
__CPROVER_requires(alloc == &g_mt_default_allocator)
__CPROVER_requires(hash_fn == aws_hash_ptr && equals_fn == aws_ptr_eq && destroy_key_fn == NULL)
__CPROVER_requires(destroy_value_fn == s_destroy_alloc || destroy_value_fn == s_destroy_stacktrace)
__CPROVER_assigns(*map;
                  destroy_value_fn == s_destroy_alloc : g_mt_allocs, g_mt_present, g_mt_count, g_mt_sum;
                  destroy_value_fn == s_destroy_stacktrace : g_mt_stacks, g_mt_stack_entries)
__CPROVER_ensures(__CPROVER_return_value == AWS_OP_SUCCESS)
__CPROVER_ensures(destroy_value_fn == s_destroy_alloc ==> (__CPROVER_pointer_equals(g_mt_allocs, map) && !g_mt_present && g_mt_count == 0 && g_mt_sum == 0))
__CPROVER_ensures(destroy_value_fn == s_destroy_stacktrace ==> (__CPROVER_pointer_equals(g_mt_stacks, map) && g_mt_stack_entries == 0))
;

/* clean_up: every entry is removed and its value handed to the value destructor once.  (Called by destroy on
 * tracer->stacks also when that table was never initialised: a zeroed table is accepted by the real function.) */
void aws_hash_table_clean_up(struct aws_hash_table *map)
__CPROVER_requires(g_mt_locked)
__CPROVER_requires(map == g_mt_allocs || map == g_mt_stacks)
__CPROVER_assigns(*map; map == g_mt_allocs : g_mt_present, g_mt_count, g_mt_sum; map == g_mt_stacks : g_mt_stack_entries)
__CPROVER_frees(map == g_mt_allocs && g_mt_present : g_mt_val)
__CPROVER_ensures(map == g_mt_allocs ==> (!g_mt_present && g_mt_count == 0 && g_mt_sum == 0))
__CPROVER_ensures(map == g_mt_stacks ==> g_mt_stack_entries == 0)
;

/* effective level: STACKS is clamped to BYTES when the platform has no backtrace */
#define MT_EFF_STACKS(level) ((level) == AWS_MEMTRACE_STACKS && g_mt_bt_avail)
#define MT_EFF_TRACED(level) ((level) == AWS_MEMTRACE_BYTES || (level) == AWS_MEMTRACE_STACKS)
static void s_alloc_tracer_init(
    struct alloc_tracer *tracer,
    struct aws_allocator *traced_allocator,
    enum aws_mem_trace_level level,
    size_t frames_per_stack)
__CPROVER_requires(__CPROVER_is_fresh(tracer, sizeof(*tracer)))
__CPROVER_requires(level == AWS_MEMTRACE_NONE || level == AWS_MEMTRACE_BYTES || level == AWS_MEMTRACE_STACKS)
__CPROVER_assigns(tracer->traced_allocator, tracer->level;
                  MT_EFF_TRACED(level) : tracer->allocated, tracer->mutex, tracer->allocs, g_mt_mutex, g_mt_allocs, g_mt_present,
                                         g_mt_count, g_mt_sum;
                  MT_EFF_STACKS(level) : tracer->frames_per_stack, tracer->stacks, g_mt_stacks, g_mt_stack_entries)
__CPROVER_ensures(tracer->traced_allocator == traced_allocator)
__CPROVER_ensures(tracer->level == ((level == AWS_MEMTRACE_STACKS && !g_mt_bt_avail) ? AWS_MEMTRACE_BYTES : level))
__CPROVER_ensures(MT_EFF_TRACED(level) ==>
    (MT_ALLOCATED(tracer) == 0 && g_mt_sum == 0 && g_mt_count == 0 && !g_mt_present &&
     g_mt_allocs == &tracer->allocs && g_mt_mutex == &tracer->mutex))
__CPROVER_ensures(MT_EFF_STACKS(level) ==>
    (g_mt_stacks == &tracer->stacks && g_mt_stack_entries == 0 &&
     tracer->frames_per_stack == (frames_per_stack == 0 ? 8 : (frames_per_stack > 128 ? 128 : frames_per_stack))))
;

/* ------------------------------------------------------------------ the tracer's bookkeeping steps */

/* track: a NEW address (not in the table) gets an entry recording `size`; bytes += size; nothing else changes.
 * Level NONE: nothing at all happens (empty frame). */
static void s_alloc_tracer_track(struct alloc_tracer *tracer, void *ptr, size_t size)
__CPROVER_requires(__CPROVER_is_fresh(tracer, sizeof(*tracer)))
__CPROVER_requires(MT_TRACER_OK(tracer))
__CPROVER_requires(MT_VIEW_OK)
__CPROVER_requires(MT_TRACED(tracer) && ptr == g_mt_key ==> !g_mt_present)
__CPROVER_assigns(MT_TRACED(tracer) : tracer->allocated, g_mt_count, g_mt_sum, g_mt_locked, g_mt_lock_calls;
                  MT_TRACED(tracer) && ptr == g_mt_key : g_mt_present, g_mt_val, g_mt_size;
                  tracer->level == AWS_MEMTRACE_STACKS : g_mt_stack_entries, g_mt_stack_elem, g_mt_stack_created)
__CPROVER_ensures(!g_mt_locked)
/* level STACKS: the stack record of a newly seen stack holds between 1 and frames_per_stack frames (its storage has room
 * for frames_per_stack), and the allocation's info names the stack it was filed under */
__CPROVER_ensures(g_mt_stack_on && tracer->level == AWS_MEMTRACE_STACKS ==>
    (g_mt_stack_elem->value != NULL &&
     (g_mt_stack_created ==> (((struct stack_trace *)g_mt_stack_elem->value)->depth >= 1 &&
                              ((struct stack_trace *)g_mt_stack_elem->value)->depth <= tracer->frames_per_stack))))
__CPROVER_ensures(g_mt_stack_on && tracer->level == AWS_MEMTRACE_STACKS && ptr == g_mt_key ==>
    MT_INFO(g_mt_val)->stack == (uint64_t)(uintptr_t)g_mt_stack_elem->key)
/* level BYTES: no stack id (the dump tests alloc->stack != 0) */
__CPROVER_ensures(g_mt_stack_on && tracer->level == AWS_MEMTRACE_BYTES && ptr == g_mt_key ==> MT_INFO(g_mt_val)->stack == 0)
__CPROVER_ensures(MT_TRACED(tracer) ==> MT_ALLOCATED(tracer) == __CPROVER_old(MT_ALLOCATED(tracer)) + size)
__CPROVER_ensures(MT_TRACED(tracer) ==> g_mt_sum == __CPROVER_old(g_mt_sum) + size && g_mt_count == __CPROVER_old(g_mt_count) + 1)
__CPROVER_ensures(MT_TRACED(tracer) && ptr == g_mt_key ==>
    (g_mt_present && g_mt_size == size && __CPROVER_is_fresh(g_mt_val, sizeof(struct alloc_info)) && MT_INFO(g_mt_val)->size == size))
__CPROVER_ensures(MT_TRACED(tracer) && ptr != g_mt_key ==>
    (g_mt_present == __CPROVER_old(g_mt_present) && g_mt_val == __CPROVER_old(g_mt_val) && g_mt_size == __CPROVER_old(g_mt_size)))
__CPROVER_ensures(MT_TRACED(tracer) ==> g_mt_lock_calls > __CPROVER_old(g_mt_lock_calls))
;

/* untrack: a tracked address loses its entry, its info is released once, bytes -= the size RECORDED for it;
 * an address that is not tracked changes nothing. */
static void s_alloc_tracer_untrack(struct alloc_tracer *tracer, void *ptr)
/* ordering discipline (comment in s_trace_mem_realloc): the entry is removed while the block still belongs to the caller,
 * i.e. BEFORE the wrapped allocator takes it back, so that no other thread can be handed the same address while it is
 * still a key of the table */
__CPROVER_requires(ptr == NULL || ptr != g_mt_released)
__CPROVER_requires(__CPROVER_is_fresh(tracer, sizeof(*tracer)))
__CPROVER_requires(MT_TRACER_OK(tracer))
__CPROVER_requires(MT_VIEW_OK)
__CPROVER_assigns(MT_TRACED(tracer) : tracer->allocated, g_mt_count, g_mt_sum, g_mt_oth_present, g_mt_oth_size,
                  g_mt_found, g_mt_found_key, g_mt_locked, g_mt_lock_calls;
                  MT_TRACED(tracer) && ptr == g_mt_key : g_mt_present)
__CPROVER_frees(MT_TRACED(tracer) && ptr == g_mt_key && g_mt_present : g_mt_val)
__CPROVER_ensures(!g_mt_locked)
__CPROVER_ensures(MT_TRACED(tracer) && ptr == g_mt_key && __CPROVER_old(g_mt_present) ==>
    (!g_mt_present && MT_ALLOCATED(tracer) == __CPROVER_old(MT_ALLOCATED(tracer)) - g_mt_size &&
     g_mt_sum == __CPROVER_old(g_mt_sum) - g_mt_size && g_mt_count == __CPROVER_old(g_mt_count) - 1))
__CPROVER_ensures(MT_TRACED(tracer) && ptr == g_mt_key && !__CPROVER_old(g_mt_present) ==>
    (!g_mt_present && MT_ALLOCATED(tracer) == __CPROVER_old(MT_ALLOCATED(tracer)) &&
     g_mt_sum == __CPROVER_old(g_mt_sum) && g_mt_count == __CPROVER_old(g_mt_count)))
/* another address: the watched entry is untouched; bytes and the sum move together, by the size the table recorded
 * for that address (or not at all when it has none) */
__CPROVER_ensures(MT_TRACED(tracer) && ptr != g_mt_key ==>
    (g_mt_present == __CPROVER_old(g_mt_present) &&
     MT_ALLOCATED(tracer) - g_mt_sum == __CPROVER_old(MT_ALLOCATED(tracer)) - __CPROVER_old(g_mt_sum) &&
     !g_mt_oth_present &&
     (g_mt_count == __CPROVER_old(g_mt_count) ? g_mt_sum == __CPROVER_old(g_mt_sum)
                                             : g_mt_count == __CPROVER_old(g_mt_count) - 1)))
__CPROVER_ensures(MT_TRACED(tracer) ==> g_mt_lock_calls > __CPROVER_old(g_mt_lock_calls))
;

/* ------------------------------------------------------------------ the vtable functions of the tracing allocator
 * Common precondition: a tracing allocator whose impl is a well-formed tracer over the wrapped allocator g_mt_inner, the
 * accounting invariant, the view coupled to memory, and
 *   J: a tracked address is a live block (the watched key, when present, is a live object: either the block the call
 *      is about, or a block of its own).  A block that the wrapped allocator hands out as new is therefore not in the
 *      table; this is what makes "key is absent" at the put provable. */
#define MT_ALLOCATOR_OK(a)                                                                                             \
    (__CPROVER_is_fresh(a, sizeof(*(a))) && __CPROVER_is_fresh((a)->impl, sizeof(struct alloc_tracer)) &&              \
     MT_TRACER_OK((struct alloc_tracer *)(a)->impl) && ((struct alloc_tracer *)(a)->impl)->traced_allocator != NULL && \
     g_mt_inner == ((struct alloc_tracer *)(a)->impl)->traced_allocator)
#define MT_TR(a) ((struct alloc_tracer *)(a)->impl)
#define VT_REALLOC_MOVES_(o, n) ((n) > (o) || g_vt_moves)
#define MT_J(blk) (g_mt_present ==> (((blk) != NULL && g_mt_key == (blk)) || __CPROVER_is_fresh(g_mt_key, 1)))
#define MT_DELEGATED(p, a, b)                                                                                          \
    (g_mt_inner_calls == __CPROVER_old(g_mt_inner_calls) + 1 && g_mt_inner_ptr == (p) && g_mt_inner_a == (a) && g_mt_inner_b == (b))
#define MT_VIEW_GHOSTS g_mt_present, g_mt_val, g_mt_size, g_mt_count, g_mt_sum, g_mt_oth_present, g_mt_oth_size, g_mt_found, \
                       g_mt_found_key, g_mt_locked, g_mt_lock_calls
#define MT_INNER_GHOSTS g_mt_inner_calls, g_mt_inner_ptr, g_mt_inner_a, g_mt_inner_b, g_mt_released
#define MT_VIEW_KEPT (g_mt_present == __CPROVER_old(g_mt_present) && g_mt_val == __CPROVER_old(g_mt_val) && g_mt_size == __CPROVER_old(g_mt_size))
#define RET __CPROVER_return_value

/* acquire: exactly the wrapped allocator's block; bytes += size, count += 1, the new address is tracked with `size` */
static void *s_trace_mem_acquire(struct aws_allocator *allocator, size_t size)
__CPROVER_requires(MT_ALLOCATOR_OK(allocator))
__CPROVER_requires(MT_VIEW_OK && MT_J(NULL) && MT_INV(MT_TR(allocator)))
__CPROVER_requires(size > 0)
__CPROVER_assigns(MT_INNER_GHOSTS; MT_TRACED(MT_TR(allocator)) : MT_TR(allocator)->allocated, MT_VIEW_GHOSTS;
                  MT_TR(allocator)->level == AWS_MEMTRACE_STACKS : g_mt_stack_entries, g_mt_stack_elem, g_mt_stack_created)
__CPROVER_ensures(__CPROVER_is_fresh(RET, size))
__CPROVER_ensures(MT_DELEGATED(NULL, size, 0))
__CPROVER_ensures(MT_INV(MT_TR(allocator)) && !g_mt_locked)
__CPROVER_ensures(MT_TRACED(MT_TR(allocator)) ==>
    (MT_ALLOCATED(MT_TR(allocator)) == __CPROVER_old(MT_ALLOCATED(MT_TR(allocator))) + size &&
     g_mt_count == __CPROVER_old(g_mt_count) + 1 &&
     (RET == g_mt_key ? (g_mt_present && g_mt_size == size && MT_INFO(g_mt_val)->size == size) : MT_VIEW_KEPT)))
;

/* calloc: as acquire with num * size bytes, zeroed (witness g_j).
 * symbolic num * symbolic size does not come back from the SAT solver (the product appears in the inner allocator's
 * contract, in track's contract and here): the enforcing units fix one factor each. */
#if defined(MT_CALLOC_SIZE)
#    define MT_CALLOC_CASE __CPROVER_requires(size == MT_CALLOC_SIZE)
#elif defined(MT_CALLOC_NUM)
#    define MT_CALLOC_CASE __CPROVER_requires(num == MT_CALLOC_NUM)
#else
#    define MT_CALLOC_CASE
#endif
static void *s_trace_mem_calloc(struct aws_allocator *allocator, size_t num, size_t size)
MT_CALLOC_CASE
__CPROVER_requires(MT_ALLOCATOR_OK(allocator))
__CPROVER_requires(MT_VIEW_OK && MT_J(NULL) && MT_INV(MT_TR(allocator)))
__CPROVER_requires(num > 0 && size > 0 && !__CPROVER_overflow_mult(num, size))
__CPROVER_assigns(MT_INNER_GHOSTS; MT_TRACED(MT_TR(allocator)) : MT_TR(allocator)->allocated, MT_VIEW_GHOSTS;
                  MT_TR(allocator)->level == AWS_MEMTRACE_STACKS : g_mt_stack_entries, g_mt_stack_elem, g_mt_stack_created)
__CPROVER_ensures(__CPROVER_is_fresh(RET, num * size))
__CPROVER_ensures(g_j < num * size ==> ((const uint8_t *)RET)[g_j] == 0)
__CPROVER_ensures(MT_DELEGATED(NULL, num, size))
__CPROVER_ensures(MT_INV(MT_TR(allocator)) && !g_mt_locked)
__CPROVER_ensures(MT_TRACED(MT_TR(allocator)) ==>
    (MT_ALLOCATED(MT_TR(allocator)) == __CPROVER_old(MT_ALLOCATED(MT_TR(allocator))) + num * size &&
     g_mt_count == __CPROVER_old(g_mt_count) + 1 &&
     (RET == g_mt_key ? (g_mt_present && g_mt_size == num * size && MT_INFO(g_mt_val)->size == num * size) : MT_VIEW_KEPT)))
;

/* release: the block goes back to the wrapped allocator; a tracked address loses its entry and bytes -= the size
 * recorded for it; an address the tracer never saw changes nothing in the accounting */
static void s_trace_mem_release(struct aws_allocator *allocator, void *ptr)
__CPROVER_requires(MT_ALLOCATOR_OK(allocator))
__CPROVER_requires(ptr != NULL && __CPROVER_is_fresh(ptr, g_rsize))
__CPROVER_requires(MT_VIEW_OK && MT_J(ptr) && MT_INV(MT_TR(allocator)))
__CPROVER_assigns(MT_INNER_GHOSTS; MT_TRACED(MT_TR(allocator)) : MT_TR(allocator)->allocated, MT_VIEW_GHOSTS)
__CPROVER_frees(ptr; MT_TRACED(MT_TR(allocator)) && ptr == g_mt_key && g_mt_present : g_mt_val)
__CPROVER_ensures(MT_DELEGATED(ptr, 0, 0))
__CPROVER_ensures(MT_INV(MT_TR(allocator)) && !g_mt_locked)
__CPROVER_ensures(MT_TRACED(MT_TR(allocator)) && ptr == g_mt_key ==>
    (!g_mt_present &&
     (__CPROVER_old(g_mt_present)
        ? (MT_ALLOCATED(MT_TR(allocator)) == __CPROVER_old(MT_ALLOCATED(MT_TR(allocator))) - g_mt_size &&
           g_mt_count == __CPROVER_old(g_mt_count) - 1)
        : (MT_ALLOCATED(MT_TR(allocator)) == __CPROVER_old(MT_ALLOCATED(MT_TR(allocator))) &&
           g_mt_count == __CPROVER_old(g_mt_count)))))
__CPROVER_ensures(MT_TRACED(MT_TR(allocator)) && ptr != g_mt_key ==> MT_VIEW_KEPT)
;

/* realloc (new_size > 0; the public aws_mem_realloc turns new_size == 0 into a release): exactly the wrapped allocator's
 * result and contents; the old address loses its entry (bytes -= recorded size), the resulting address is tracked with
 * new_size (bytes += new_size) */
static void *s_trace_mem_realloc(struct aws_allocator *allocator, void *old_ptr, size_t old_size, size_t new_size)
__CPROVER_requires(MT_ALLOCATOR_OK(allocator))
__CPROVER_requires(new_size > 0)
__CPROVER_requires(old_ptr == NULL ? old_size == 0 : __CPROVER_is_fresh(old_ptr, old_size))
__CPROVER_requires(g_on ==> (old_ptr != NULL && g_k < old_size ==> g_old == ((const uint8_t *)old_ptr)[g_k]))
__CPROVER_requires(MT_VIEW_OK && MT_J(old_ptr) && MT_INV(MT_TR(allocator)))
__CPROVER_assigns(MT_INNER_GHOSTS; MT_TRACED(MT_TR(allocator)) : MT_TR(allocator)->allocated, MT_VIEW_GHOSTS;
                  MT_TR(allocator)->level == AWS_MEMTRACE_STACKS : g_mt_stack_entries, g_mt_stack_elem, g_mt_stack_created)
__CPROVER_frees(VT_REALLOC_MOVES_(old_size, new_size) : old_ptr; MT_TRACED(MT_TR(allocator)) && old_ptr == g_mt_key && g_mt_present : g_mt_val)
__CPROVER_ensures(__CPROVER_is_fresh(RET, new_size) ||
                  (new_size <= old_size && !g_vt_moves && old_ptr != NULL && RET == old_ptr))
__CPROVER_ensures(g_on && old_ptr != NULL && g_k < old_size && g_k < new_size ==> ((const uint8_t *)RET)[g_k] == g_old)
__CPROVER_ensures(MT_DELEGATED(old_ptr, old_size, new_size))
__CPROVER_ensures(MT_INV(MT_TR(allocator)) && !g_mt_locked)
/* bytes and count: minus the old entry (if the old address was tracked), plus the new one */
__CPROVER_ensures(MT_TRACED(MT_TR(allocator)) && old_ptr == g_mt_key ==>
    (__CPROVER_old(g_mt_present)
        ? (MT_ALLOCATED(MT_TR(allocator)) == __CPROVER_old(MT_ALLOCATED(MT_TR(allocator))) - __CPROVER_old(g_mt_size) + new_size &&
           g_mt_count == __CPROVER_old(g_mt_count))
        : (MT_ALLOCATED(MT_TR(allocator)) == __CPROVER_old(MT_ALLOCATED(MT_TR(allocator))) + new_size &&
           g_mt_count == __CPROVER_old(g_mt_count) + 1)))
/* the view afterwards: the result address is tracked with new_size; the old address, if it is a different one, is gone;
 * every other address keeps its entry */
__CPROVER_ensures(MT_TRACED(MT_TR(allocator)) && RET == g_mt_key ==>
    (g_mt_present && g_mt_size == new_size && MT_INFO(g_mt_val)->size == new_size))
__CPROVER_ensures(MT_TRACED(MT_TR(allocator)) && RET != g_mt_key && old_ptr == g_mt_key ==> !g_mt_present)
__CPROVER_ensures(MT_TRACED(MT_TR(allocator)) && RET != g_mt_key && old_ptr != g_mt_key ==> MT_VIEW_KEPT)
;

/* ------------------------------------------------------------------ queries: read-only */
size_t aws_mem_tracer_bytes(struct aws_allocator *trace_allocator)
__CPROVER_requires(MT_ALLOCATOR_OK(trace_allocator))
__CPROVER_requires(MT_INV(MT_TR(trace_allocator)))
__CPROVER_assigns()
__CPROVER_ensures(RET == (MT_TRACED(MT_TR(trace_allocator)) ? g_mt_sum : 0))
__CPROVER_ensures(RET == (MT_TRACED(MT_TR(trace_allocator)) ? MT_ALLOCATED(MT_TR(trace_allocator)) : 0))
;
size_t aws_mem_tracer_count(struct aws_allocator *trace_allocator)
__CPROVER_requires(MT_ALLOCATOR_OK(trace_allocator))
__CPROVER_assigns(MT_TRACED(MT_TR(trace_allocator)) : g_mt_locked, g_mt_lock_calls)
__CPROVER_ensures(RET == (MT_TRACED(MT_TR(trace_allocator)) ? g_mt_count : 0))
__CPROVER_ensures(!g_mt_locked)
__CPROVER_ensures(MT_TRACED(MT_TR(trace_allocator)) ==> g_mt_lock_calls == __CPROVER_old(g_mt_lock_calls) + 1)
;

/* ------------------------------------------------------------------ dump
 * Everything the dump calls is replaced by a contract; what is proved about the real body is its FRAME (tracer->allocated
 * and the view of tracer->allocs are not assignable: "producing a dump never changes the accounting"), the lock
 * discipline, and the obligations at the call sites below.  The log sink is modelled as absent (aws_logger_get() == NULL):
 * the formatted output itself is not part of the property. */
struct aws_logger *aws_logger_get(void)
__CPROVER_requires(1)
__CPROVER_assigns()
__CPROVER_ensures(__CPROVER_return_value == NULL)
;

int mt_dump_table_init(
    struct aws_hash_table *map,
    struct aws_allocator *alloc,
    size_t size,
    aws_hash_fn *hash_fn,
    aws_hash_callback_eq_fn *equals_fn,
    aws_hash_callback_destroy_fn *destroy_key_fn,
    aws_hash_callback_destroy_fn *destroy_value_fn)
__CPROVER_requires(g_mt_locked)
__CPROVER_requires(__CPROVER_w_ok(map, sizeof(*map)) && map != g_mt_allocs && map != g_mt_stacks)
__CPROVER_requires(alloc == &g_mt_default_allocator)
__CPROVER_requires(hash_fn == aws_hash_ptr && equals_fn == aws_ptr_eq && destroy_key_fn == NULL && destroy_value_fn == s_stack_info_destroy)
__CPROVER_assigns(*map, g_mt_stack_info)
__CPROVER_ensures(__CPROVER_return_value == AWS_OP_SUCCESS && __CPROVER_pointer_equals(g_mt_stack_info, map))
;

/* iteration.  Call-site obligation: over tracer->allocs only the two callbacks that the units cb_collect_stack_stats /
 * cb_insert_allocs prove to be read-only on the element and to return CONTINUE (never DELETE); the hash table's
 * contract for such a callback is that the table is unchanged (assumed, C02). */
int mt_dump_foreach(
    struct aws_hash_table *map,
    int (*callback)(void *context, struct aws_hash_element *p_element),
    void *context)
__CPROVER_requires(g_mt_locked)
__CPROVER_requires((map == g_mt_allocs && callback == s_collect_stack_stats && g_mt_stack_info != NULL && context == g_mt_stack_info) ||
                   (map == g_mt_allocs && callback == s_insert_allocs && g_mt_pq != NULL && context == g_mt_pq) ||
                   (g_mt_stack_info != NULL && map == g_mt_stack_info && callback == s_collect_stack_trace && context == g_mt_tracer) ||
                   (g_mt_stack_info != NULL && map == g_mt_stack_info && callback == s_insert_stacks && g_mt_pq != NULL && context == g_mt_pq))
__CPROVER_assigns(g_mt_pq_size, g_mt_foreach_calls)
__CPROVER_ensures(__CPROVER_return_value == AWS_OP_SUCCESS)
__CPROVER_ensures(g_mt_foreach_calls == __CPROVER_old(g_mt_foreach_calls) + 1)
;

/* lookup in the local per-stack table: an entry exists for every stack id found in a live info (inserted by
 * s_collect_stack_stats just before) */
int mt_dump_find(const struct aws_hash_table *map, const void *key, struct aws_hash_element **p_elem)
__CPROVER_requires(g_mt_locked && g_mt_dump_stacks)
__CPROVER_requires(g_mt_stack_info != NULL && map == g_mt_stack_info)
__CPROVER_requires(__CPROVER_w_ok(p_elem, sizeof(*p_elem)))
__CPROVER_assigns(*p_elem)
__CPROVER_ensures(__CPROVER_return_value == AWS_OP_SUCCESS)
__CPROVER_ensures(__CPROVER_is_fresh(*p_elem, sizeof(struct aws_hash_element)) &&
                  __CPROVER_is_fresh((*p_elem)->value, sizeof(struct stack_metadata)))
;
void mt_dump_table_clean_up(struct aws_hash_table *map)
__CPROVER_requires(g_mt_locked)
__CPROVER_requires(g_mt_stack_info != NULL && map == g_mt_stack_info)
__CPROVER_assigns(*map, g_mt_stack_info)
__CPROVER_ensures(__CPROVER_pointer_equals(g_mt_stack_info, NULL))
;

/* priority queues of pointers (one in use at a time) */
int aws_priority_queue_init_dynamic(
    struct aws_priority_queue *queue,
    struct aws_allocator *alloc,
    size_t default_size,
    size_t item_size,
    aws_priority_queue_compare_fn *pred)
__CPROVER_requires(g_mt_locked && g_mt_pq == NULL)
__CPROVER_requires(__CPROVER_w_ok(queue, sizeof(*queue)))
__CPROVER_requires(alloc == &g_mt_default_allocator && item_size == sizeof(void *))
__CPROVER_requires(pred == s_alloc_compare || pred == s_stack_info_compare_size || pred == s_stack_info_compare_count)
__CPROVER_assigns(*queue, g_mt_pq, g_mt_pq_size)
__CPROVER_ensures(__CPROVER_return_value == AWS_OP_SUCCESS && __CPROVER_pointer_equals(g_mt_pq, queue) && g_mt_pq_size == 0)
;
size_t aws_priority_queue_size(const struct aws_priority_queue *queue)
__CPROVER_requires(g_mt_pq != NULL && queue == g_mt_pq)
__CPROVER_assigns()
__CPROVER_ensures(__CPROVER_return_value == g_mt_pq_size)
;
/* hands out a pointer to a live record (struct alloc_info and struct stack_metadata have the same size); an info of a
 * tracer that does not record stacks has stack id 0 (track, level BYTES) */
int aws_priority_queue_pop(struct aws_priority_queue *queue, void *item)
__CPROVER_requires(g_mt_pq != NULL && queue == g_mt_pq && g_mt_pq_size > 0)
__CPROVER_requires(__CPROVER_w_ok(item, sizeof(void *)))
__CPROVER_assigns(g_mt_pq_size, __CPROVER_object_upto(item, sizeof(void *)))
__CPROVER_ensures(__CPROVER_return_value == AWS_OP_SUCCESS && g_mt_pq_size == __CPROVER_old(g_mt_pq_size) - 1)
__CPROVER_ensures(__CPROVER_is_fresh(*(void **)item, sizeof(struct alloc_info)))
__CPROVER_ensures(!g_mt_dump_stacks ==> MT_INFO(*(void **)item)->stack == 0)
;
void aws_priority_queue_clean_up(struct aws_priority_queue *queue)
__CPROVER_requires(g_mt_pq != NULL && queue == g_mt_pq)
__CPROVER_assigns(*queue, g_mt_pq)
__CPROVER_ensures(__CPROVER_pointer_equals(g_mt_pq, NULL))
;
int aws_priority_queue_push(struct aws_priority_queue *queue, void *item)
__CPROVER_requires(g_mt_pq != NULL && queue == g_mt_pq)
__CPROVER_requires(__CPROVER_r_ok(item, sizeof(void *)))
__CPROVER_assigns(g_mt_pq_size)
__CPROVER_ensures(__CPROVER_return_value == AWS_OP_SUCCESS && g_mt_pq_size == __CPROVER_old(g_mt_pq_size) + 1)
;

void aws_mem_tracer_dump(struct aws_allocator *trace_allocator)
__CPROVER_requires(MT_ALLOCATOR_OK(trace_allocator))
__CPROVER_requires(MT_INV(MT_TR(trace_allocator)))
__CPROVER_requires(g_mt_tracer == trace_allocator->impl && g_mt_dump_stacks == (MT_TR(trace_allocator)->level == AWS_MEMTRACE_STACKS))
__CPROVER_requires(g_mt_pq == NULL && g_mt_stack_info == NULL)
/* the frame: the lock flag and the dump's own scratch state; NOT tracer->allocated, NOT the view of tracer->allocs */
__CPROVER_assigns(g_mt_locked, g_mt_lock_calls, g_mt_pq, g_mt_pq_size, g_mt_stack_info, g_mt_foreach_calls)
__CPROVER_ensures(!g_mt_locked && g_mt_pq == NULL && g_mt_stack_info == NULL)
__CPROVER_ensures(g_mt_lock_calls <= __CPROVER_old(g_mt_lock_calls) + 1)
__CPROVER_ensures((!MT_TRACED(MT_TR(trace_allocator)) || g_mt_sum == 0) ==> g_mt_lock_calls == __CPROVER_old(g_mt_lock_calls))
;

/* the two callbacks the dump runs over tracer->allocs: the element and the info it points to are read only (empty frame
 * apart from the callee's own targets), iteration continues, nothing is deleted */
static int s_insert_allocs(void *context, struct aws_hash_element *item)
__CPROVER_requires(__CPROVER_is_fresh(item, sizeof(*item)) && __CPROVER_is_fresh(item->value, sizeof(struct alloc_info)))
__CPROVER_requires(context != NULL && context == g_mt_pq)
__CPROVER_assigns(g_mt_pq_size)
__CPROVER_ensures(RET == AWS_COMMON_HASH_TABLE_ITER_CONTINUE)
__CPROVER_ensures(g_mt_pq_size == __CPROVER_old(g_mt_pq_size) + 1)
;
static int s_insert_stacks(void *context, struct aws_hash_element *item)
__CPROVER_requires(__CPROVER_is_fresh(item, sizeof(*item)) && __CPROVER_is_fresh(item->value, sizeof(struct stack_metadata)))
__CPROVER_requires(context != NULL && context == g_mt_pq)
__CPROVER_assigns(g_mt_pq_size)
__CPROVER_ensures(RET == AWS_COMMON_HASH_TABLE_ITER_CONTINUE)
__CPROVER_ensures(g_mt_pq_size == __CPROVER_old(g_mt_pq_size) + 1)
;
/* per-stack totals: count += 1, size += info->size in the record filed under the info's stack id */
size_t g_mt_tot_count, g_mt_tot_size; /* totals of that record before the call (0, 0 for a new record) */
int mt_dump_create(struct aws_hash_table *map, const void *key, struct aws_hash_element **p_elem, int *was_created)
__CPROVER_requires(g_mt_stack_info != NULL && map == g_mt_stack_info)
__CPROVER_requires(__CPROVER_w_ok(p_elem, sizeof(*p_elem)) && __CPROVER_w_ok(was_created, sizeof(*was_created)))
__CPROVER_assigns(*p_elem, *was_created, g_mt_stack_elem, g_mt_tot_count, g_mt_tot_size)
__CPROVER_ensures(__CPROVER_return_value == AWS_OP_SUCCESS)
__CPROVER_ensures(__CPROVER_is_fresh(*p_elem, sizeof(struct aws_hash_element)) && (*p_elem)->key == key)
__CPROVER_ensures(*was_created == 0 || *was_created == 1)
__CPROVER_ensures(*was_created ? ((*p_elem)->value == NULL && g_mt_tot_count == 0 && g_mt_tot_size == 0)
                               : (__CPROVER_is_fresh((*p_elem)->value, sizeof(struct stack_metadata)) &&
                                  ((struct stack_metadata *)(*p_elem)->value)->count == g_mt_tot_count &&
                                  ((struct stack_metadata *)(*p_elem)->value)->size == g_mt_tot_size))
__CPROVER_ensures(__CPROVER_pointer_equals(g_mt_stack_elem, *p_elem))
;
static int s_collect_stack_stats(void *context, struct aws_hash_element *item)
__CPROVER_requires(__CPROVER_is_fresh(item, sizeof(*item)) && __CPROVER_is_fresh(item->value, sizeof(struct alloc_info)))
__CPROVER_requires(context != NULL && context == g_mt_stack_info)
__CPROVER_assigns(g_mt_stack_elem, g_mt_tot_count, g_mt_tot_size)
__CPROVER_ensures(RET == AWS_COMMON_HASH_TABLE_ITER_CONTINUE)
__CPROVER_ensures(g_mt_stack_elem->key == (void *)(uintptr_t)MT_INFO(item->value)->stack)
__CPROVER_ensures(((struct stack_metadata *)g_mt_stack_elem->value)->count == g_mt_tot_count + 1 &&
                  ((struct stack_metadata *)g_mt_stack_elem->value)->size == g_mt_tot_size + MT_INFO(item->value)->size)
;

/* ------------------------------------------------------------------ destroy: both tables emptied under the mutex, the
 * tracer block released to the bookkeeping allocator, the wrapped allocator handed back */
struct aws_allocator *aws_mem_tracer_destroy(struct aws_allocator *trace_allocator)
__CPROVER_requires(MT_ALLOCATOR_OK(trace_allocator))
__CPROVER_requires(MT_VIEW_OK)
__CPROVER_requires(MT_TR(trace_allocator)->level == AWS_MEMTRACE_BYTES ==> g_mt_stacks == &MT_TR(trace_allocator)->stacks)
__CPROVER_assigns(MT_TRACED(MT_TR(trace_allocator)) : MT_TR(trace_allocator)->allocs, MT_TR(trace_allocator)->stacks,
                  MT_TR(trace_allocator)->mutex, g_mt_present, g_mt_count, g_mt_sum, g_mt_stack_entries, g_mt_locked, g_mt_lock_calls)
__CPROVER_frees(trace_allocator->impl; MT_TRACED(MT_TR(trace_allocator)) && g_mt_present : g_mt_val)
__CPROVER_ensures(RET == g_mt_inner)
__CPROVER_ensures(!g_mt_locked)
__CPROVER_ensures(__CPROVER_old(MT_TR(trace_allocator)->level) != AWS_MEMTRACE_NONE ==> (g_mt_count == 0 && g_mt_sum == 0 && !g_mt_present))
;

#endif
