/* Specification of include/aws/common/linked_list.inl (property C09, linked-list half) in the "arena" style of
 * DESIGN §4.5.  Every operation of the intrusive list is loop-free pointer surgery on at most six nodes, and the API
 * allows (and the property demands) arbitrary aliasing between them (adjacent nodes, identical nodes, shared
 * neighbours, sentinels as neighbours).  __CPROVER_is_fresh cannot express that, so the contracts are written over a
 * closed UNIVERSE of nodes addressed by index:
 *
 *      LL_K free nodes, the head/tail sentinels of LL_NL lists, and one "outside" node,
 *
 * whose next/prev fields are chosen nondeterministically among {NULL, any universe node}.  An operation touches only
 * its arguments and their direct neighbours, so every reachable aliasing pattern of a real heap is an instance.
 *
 *  precondition  = the library's documented one (AWS_PRECONDITION text) + the representation invariant
 *                  LL_INV: for every node n: n->next != NULL ==> n->next->prev == n, and
 *                                           n->prev != NULL ==> n->prev->next == n
 *                  ("forward and backward walks are mirror images") + acyclicity (a rank that increases along next;
 *                  for nodes reachable from a head sentinel this follows from LL_INV and head.prev == NULL).
 *  postcondition = the whole universe equals the REFERENCE result: the pre-state links with exactly the updates that
 *                  the abstract sequence operation prescribes (so "nothing else changed" is part of it, including
 *                  the outside node), and LL_INV holds again.
 *
 * The state is kept twice: as real pointers in the nodes (what the library code sees) and as index arrays
 * (ll_nx/ll_pv = pre-state, ll_ex_nx/ll_ex_pv = expected post-state) in which the specification is written.
 */
#ifndef VERIF_CONTRACTS_LINKED_LIST_H
#define VERIF_CONTRACTS_LINKED_LIST_H
#include "contracts/common.h"
#include <aws/common/linked_list.h>

/* universe size: per unit (-DLL_K=.. -DLL_NL=..), chosen >= the number of nodes the operation can touch
 * (swap_nodes: a, b and four neighbours = 6; sentinels of a list count as nodes that may have a NULL link) */
#ifndef LL_K
#    define LL_K 6
#endif
#ifndef LL_NL
#    define LL_NL 2
#endif
#define LL_HEAD(l) (LL_K + 2 * (l))
#define LL_TAIL(l) (LL_K + 2 * (l) + 1)
#define LL_OUTSIDE (LL_K + 2 * LL_NL)
#define LL_N (LL_K + 2 * LL_NL + 1)
#define LL_NONE LL_N /* index form of NULL */

static struct aws_linked_list_node ll_node[LL_K];
static struct aws_linked_list ll_list[LL_NL + 1]; /* +1: no zero-length array when LL_NL == 0 */
static struct aws_linked_list_node ll_outside;

static size_t ll_nx[LL_N], ll_pv[LL_N];       /* pre-state, index form  */
static size_t ll_ex_nx[LL_N], ll_ex_pv[LL_N]; /* expected post-state    */
static size_t ll_rank[LL_N];                  /* acyclicity witness     */

/* replay variables (DESIGN 3.5): the pre-state universe in index form, the universe's shape and the operation's
 * arguments as plain scalars, so that they appear by name in the counterexample trace (array elements do not).
 * Plain copies of the inputs; nothing is proved about or with them.  replay/linked_list_replay.c rebuilds the
 * universe from them and runs the real operation. */
size_t r_ll_k, r_ll_nl, r_p0, r_p1;
size_t r_nx0, r_nx1, r_nx2, r_nx3, r_nx4, r_nx5, r_nx6, r_nx7, r_nx8, r_nx9, r_nx10, r_nx11;
size_t r_pv0, r_pv1, r_pv2, r_pv3, r_pv4, r_pv5, r_pv6, r_pv7, r_pv8, r_pv9, r_pv10, r_pv11;
#define LL_R_MAX 12
#define LL_R(i) do { if ((i) < LL_N) { r_nx##i = ll_nx[(i) < LL_N ? (i) : 0]; r_pv##i = ll_pv[(i) < LL_N ? (i) : 0]; } } while (0)

static struct aws_linked_list_node *ll_u(size_t i) {
    if (i < LL_K) return &ll_node[i];
    if (i == LL_OUTSIDE) return &ll_outside;
    if (i >= LL_N) return NULL;
    return ((i - LL_K) & 1) ? &ll_list[(i - LL_K) >> 1].tail : &ll_list[(i - LL_K) >> 1].head;
}

/* arbitrary pre-state: every link is NULL or points to some universe node */
static void ll_setup(void) {
    for (size_t i = 0; i < LL_N; ++i) {
        ll_nx[i] = nondet_size_t();
        ll_pv[i] = nondet_size_t();
        ll_rank[i] = nondet_size_t();
        __CPROVER_assume(ll_nx[i] <= LL_NONE && ll_pv[i] <= LL_NONE);
        ll_u(i)->next = ll_u(ll_nx[i]);
        ll_u(i)->prev = ll_u(ll_pv[i]);
        ll_ex_nx[i] = ll_nx[i];
        ll_ex_pv[i] = ll_pv[i];
    }
    _Static_assert(LL_N <= LL_R_MAX, "more universe nodes than replay variables");
    r_ll_k = LL_K; r_ll_nl = LL_NL; r_p0 = LL_NONE; r_p1 = LL_NONE;
    LL_R(0); LL_R(1); LL_R(2); LL_R(3); LL_R(4); LL_R(5); LL_R(6); LL_R(7); LL_R(8); LL_R(9); LL_R(10); LL_R(11);
}

/* LL_INV on the pre-state for every node except `skip` (a node about to be inserted may hold stale links), plus
 * acyclicity: ranks increase along next */
static bool ll_pre_inv(size_t skip) {
    bool ok = true;
    for (size_t i = 0; i < LL_N; ++i) {
        if (i == skip) continue;
        if (ll_nx[i] != LL_NONE) ok = ok && ll_pv[ll_nx[i]] == i && ll_rank[ll_nx[i]] > ll_rank[i];
        if (ll_pv[i] != LL_NONE) ok = ok && ll_nx[ll_pv[i]] == i;
    }
    return ok;
}
/* no node of the universe links to node t (t is not in any list) */
static bool ll_detached(size_t t) {
    bool ok = true;
    for (size_t i = 0; i < LL_N; ++i) {
        if (i == t) continue;
        ok = ok && ll_nx[i] != t && ll_pv[i] != t;
    }
    return ok;
}
/* aws_linked_list_is_valid, and the first/last element of a non-empty list is a client node (sentinels are linked only
 * by aws_linked_list_init; every insertion adds a client node) */
#define LL_IS_CLIENT(i) ((i) < LL_K || (i) == LL_OUTSIDE)
static bool ll_list_ok(size_t l) {
    size_t f = ll_nx[LL_HEAD(l)], b = ll_pv[LL_TAIL(l)];
    return ll_pv[LL_HEAD(l)] == LL_NONE && ll_nx[LL_TAIL(l)] == LL_NONE && f != LL_NONE && b != LL_NONE &&
           (f == LL_TAIL(l) || LL_IS_CLIENT(f)) && (b == LL_HEAD(l) || LL_IS_CLIENT(b));
}

/* post-state check: the real nodes equal the expected state everywhere (exact result AND frame), and LL_INV holds */
static void ll_check_post(void) {
    for (size_t i = 0; i < LL_N; ++i) {
        __CPROVER_assert(ll_u(i)->next == ll_u(ll_ex_nx[i]), "every next link equals the reference result (nothing else changed)");
        __CPROVER_assert(ll_u(i)->prev == ll_u(ll_ex_pv[i]), "every prev link equals the reference result (nothing else changed)");
    }
    for (size_t i = 0; i < LL_N; ++i) {
        if (ll_ex_nx[i] != LL_NONE)
            __CPROVER_assert(ll_ex_pv[ll_ex_nx[i]] == i, "mirror invariant: n->next->prev == n after the operation");
        if (ll_ex_pv[i] != LL_NONE)
            __CPROVER_assert(ll_ex_nx[ll_ex_pv[i]] == i, "mirror invariant: n->prev->next == n after the operation");
    }
}

/* ---- reference semantics on the index form (the abstract sequence operations) ---- */
static void ll_ref_insert_between(size_t p, size_t t, size_t n) { /* p <-> n becomes p <-> t <-> n */
    ll_ex_nx[p] = t; ll_ex_pv[t] = p; ll_ex_nx[t] = n; ll_ex_pv[n] = t;
}
static void ll_ref_remove(size_t x) { /* p <-> x <-> n becomes p <-> n, x fully detached */
    size_t p = ll_ex_pv[x], n = ll_ex_nx[x];
    ll_ex_nx[p] = n; ll_ex_pv[n] = p; ll_ex_nx[x] = LL_NONE; ll_ex_pv[x] = LL_NONE;
}
static void ll_ref_make_empty(size_t l) {
    ll_ex_nx[LL_HEAD(l)] = LL_TAIL(l); ll_ex_pv[LL_TAIL(l)] = LL_HEAD(l);
}

#endif
