/* Contracts and specification functions for source/allocator_sba.c (property C03).
 *
 * The types of the small-block allocator (struct sba_bin, struct page_header, struct small_block_allocator) are private
 * to the .c file, so a proof unit includes, in this order:
 *     #include "contracts/common.h"  #include "contracts/allocator.h"
 *     #include "source/allocator_sba.c"          (the REAL file)
 *     #include "contracts/allocator_sba.h"       (re-declarations with contracts + spec functions; this file)
 *
 * Two layers (DESIGN 5/C03):
 *   representation layer : spec functions sba_* over the real structs (bin invariant, "live chunk", byte counts).  Used by the
 *                          plain-harness inductive-step units (arbitrary invariant state -> real operation -> invariant).
 *   block layer          : DFCC contracts in which a chunk handed out by s_sba_alloc_from_bin is seen like a separately
 *                          allocated object of bin->size bytes (is_fresh / frees).  s_sba_alloc, s_sba_free,
 *                          s_sba_mem_realloc, s_sba_mem_calloc and the vtable forwarders are proved over these.
 */
#ifndef VERIF_CONTRACTS_ALLOCATOR_SBA_H
#define VERIF_CONTRACTS_ALLOCATOR_SBA_H

#ifndef RET
#    define RET __CPROVER_return_value
#endif
#ifndef OLD
#    define OLD __CPROVER_old
#endif
#ifndef PEQ
#    define PEQ(p, q) __CPROVER_pointer_equals((p), (q))
#endif

#define SBA_PAGE ((size_t)AWS_SBA_PAGE_SIZE)
#define SBA_HDR (sizeof(struct page_header))

/* ---- specification of the size-class map: smallest class that holds `size` (size <= 512) ---- */
#define SBA_CLASS_IDX(size) ((size) <= 32 ? 0 : (size) <= 64 ? 1 : (size) <= 128 ? 2 : (size) <= 256 ? 3 : 4)
#define SBA_CLASS_SIZE(idx) ((size_t)32 << (idx))

/* =====================================================================================================================
 * Representation layer: specification functions over the REAL structs.  Plain C, evaluated by CBMC inside harnesses
 * (assumed for the pre-state, asserted for the post-state).  Loops are bounded by SBA_MAXP / SBA_MAXF (spec-side bounds:
 * the largest number of page objects / free-list entries a state of the unit can have); a state beyond them does not
 * satisfy the invariant.
 *
 * Model of a page: a dynamic object of exactly AWS_SBA_PAGE_SIZE bytes; "page base of p" == base of p's object (this is
 * what posix_memalign(.., PAGE, PAGE) + the address mask of s_page_base give on a flat address space).  The harness
 * keeps the PAGE TABLE g_pt[] of all page objects that exist (pre-state pages + pages allocated by the step; a released
 * page is marked dead by the free() hook), so that the spec functions speak about page INDICES (cheap for the solver).
 *
 *   listed page  : element of bin->active_pages, or the page that bin->page_cursor points into (the working page)
 *   carved(p)    : chunks per page for a page in active_pages; (cursor offset - header) / size for the working page
 *   slot         : address  p + header + k*size  with p listed and k < carved(p)
 *   free         : slot stored in bin->free_chunks
 *   LIVE         : slot that is not free  (== handed out by s_sba_alloc_from_bin and not yet given back)
 * ===================================================================================================================== */
#ifndef SBA_MAXP
#    define SBA_MAXP 4
#endif
#ifndef SBA_MAXF
#    define SBA_MAXF 9
#endif

/* a page object as the model allocates it (the code under test only sees uint8_t* / struct page_header*) */
struct sba_page_model {
    struct page_header hdr;
    uint8_t body[AWS_SBA_PAGE_SIZE - sizeof(struct page_header)];
};
uint8_t *g_pt[SBA_MAXP];
bool g_pt_alive[SBA_MAXP];
#define SBA_H(i) ((struct page_header *)g_pt[(i)])
static inline uint8_t *sba_model_new_page(void) {
    size_t n = nondet_size_t();
    __CPROVER_assume(n <= SBA_PAGE && n >= SBA_PAGE);
    uint8_t *p = malloc(n); /* arbitrary contents */
    __CPROVER_assume(p != NULL);
    return p;
}

/* ASSUMED contract of s_page_base (integer<->pointer address mask, outside CBMC's memory model) in page-table form:
 * NULL -> NULL; a pointer into page object i of the model -> the base of that object.  On a flat address space with
 * page-aligned pages (posix_memalign(.., PAGE, PAGE)) this is what (addr & ~(PAGE-1)) computes. */
#define SBA_PB_CASE(i) (addr != NULL && g_pt[i] != NULL && __CPROVER_same_object(addr, g_pt[i]) ==> PEQ(RET, (void *)g_pt[i]))
static void *s_page_base(const void *addr)
__CPROVER_requires(1)
__CPROVER_assigns()
__CPROVER_ensures(addr == NULL ==> RET == NULL)
__CPROVER_ensures(SBA_PB_CASE(0) && SBA_PB_CASE(1) && SBA_PB_CASE(2) && SBA_PB_CASE(3))
;

#define SBA_AL_AT(list, i) (((void **)(list)->data)[(i)])
#define SBA_NCH(sz) ((SBA_PAGE - SBA_HDR) / (sz)) /* chunks per page */
#define SBA_NONE ((size_t)SBA_MAXP)

/* index of the page object that c points into (SBA_NONE: not a page of the model) */
static inline size_t sba_pidx(const void *c) {
    size_t r = SBA_NONE;
    if (c == NULL) return r;
    for (size_t i = 0; i < SBA_MAXP; i++)
        if (g_pt[i] != NULL && __CPROVER_same_object(c, g_pt[i])) r = i;
    return r;
}
static inline size_t sba_work_idx(const struct sba_bin *bin) {
    return sba_pidx(bin->page_cursor);
}
/* a well-formed dynamic list of pointers with at most maxlen elements */
static inline bool sba_list_ok(const struct aws_array_list *l, struct aws_allocator *parent, size_t maxlen) {
    return l->alloc == parent && l->item_size == sizeof(void *) && l->length <= maxlen &&
           l->length <= l->current_size / sizeof(void *) && l->data != NULL && __CPROVER_POINTER_OFFSET(l->data) == 0 &&
           __CPROVER_OBJECT_SIZE(l->data) == l->current_size && __CPROVER_w_ok(l->data, l->current_size);
}
/* page i is a live page object of this bin: not released, both tags set, back pointer to the bin */
static inline bool sba_page_ok(const struct sba_bin *bin, size_t i) {
    return i < SBA_MAXP && g_pt[i] != NULL && g_pt_alive[i] && SBA_H(i)->tag == AWS_SBA_TAG_VALUE && SBA_H(i)->tag2 == AWS_SBA_TAG_VALUE &&
           SBA_H(i)->bin == bin;
}
/* position of page i in active_pages (SBA_NONE: not there) */
static inline size_t sba_active_pos(const struct sba_bin *bin, size_t i) {
    size_t r = SBA_NONE;
    for (size_t j = 0; j < SBA_MAXP; j++)
        if (j < bin->active_pages.length && SBA_AL_AT(&bin->active_pages, j) == (void *)g_pt[i]) r = j;
    return r;
}
static inline bool sba_listed(const struct sba_bin *bin, size_t i) {
    return i < SBA_MAXP && g_pt[i] != NULL && (sba_active_pos(bin, i) != SBA_NONE || i == sba_work_idx(bin));
}
static inline size_t sba_carved(const struct sba_bin *bin, size_t i) {
    if (i == sba_work_idx(bin)) return (__CPROVER_POINTER_OFFSET(bin->page_cursor) - SBA_HDR) / bin->size;
    return SBA_NCH(bin->size);
}
static inline bool sba_in_free(const struct sba_bin *bin, const void *c) {
    bool r = false;
    for (size_t i = 0; i < SBA_MAXF; i++)
        if (i < bin->free_chunks.length && SBA_AL_AT(&bin->free_chunks, i) == c) r = true;
    return r;
}
static inline size_t sba_free_in_page(const struct sba_bin *bin, size_t pi) {
    size_t n = 0;
    for (size_t i = 0; i < SBA_MAXF; i++)
        if (i < bin->free_chunks.length && sba_pidx(SBA_AL_AT(&bin->free_chunks, i)) == pi) n++;
    return n;
}
static inline bool sba_is_slot(const struct sba_bin *bin, const void *c) {
    size_t pi = sba_pidx(c);
    if (pi == SBA_NONE) return false;
    size_t off = __CPROVER_POINTER_OFFSET(c);
    return sba_listed(bin, pi) && off >= SBA_HDR && (off - SBA_HDR) % bin->size == 0 && (off - SBA_HDR) / bin->size < sba_carved(bin, pi);
}
static inline bool sba_live(const struct sba_bin *bin, const void *c) {
    return sba_is_slot(bin, c) && !sba_in_free(bin, c);
}

/* THE BIN INVARIANT */
static inline bool sba_bin_inv(const struct small_block_allocator *sba, const struct sba_bin *bin, size_t class_size) {
    if (bin->size != class_size) return false;
    if (!sba_list_ok(&bin->active_pages, sba->allocator, SBA_MAXP) || !sba_list_ok(&bin->free_chunks, sba->allocator, SBA_MAXF)) return false;
    bool ok = true;
    size_t wi = SBA_NONE;
    /* working page: cursor on a slot boundary with room for at least one more chunk; count == carved - free */
    if (bin->page_cursor != NULL) {
        wi = sba_work_idx(bin);
        size_t off = __CPROVER_POINTER_OFFSET(bin->page_cursor);
        if (!sba_page_ok(bin, wi)) return false;
        ok = ok && off >= SBA_HDR && (off - SBA_HDR) % class_size == 0 && (off - SBA_HDR) / class_size < SBA_NCH(class_size);
        ok = ok && (size_t)SBA_H(wi)->alloc_count + sba_free_in_page(bin, wi) == (off - SBA_HDR) / class_size;
    }
    /* exhausted pages: page bases, pairwise distinct, not the working page, at least one live chunk, count == chunks per page - free */
    for (size_t j = 0; j < SBA_MAXP; j++) {
        if (j < bin->active_pages.length) {
            const void *p = SBA_AL_AT(&bin->active_pages, j);
            size_t pi = sba_pidx(p);
            if (!sba_page_ok(bin, pi) || p != (void *)g_pt[pi]) return false;
            ok = ok && pi != wi && SBA_H(pi)->alloc_count >= 1;
            ok = ok && (size_t)SBA_H(pi)->alloc_count + sba_free_in_page(bin, pi) == SBA_NCH(class_size);
            for (size_t k = 0; k < SBA_MAXP; k++)
                if (k < j) ok = ok && SBA_AL_AT(&bin->active_pages, k) != p;
        }
    }
    /* free list: slots of listed pages, pairwise distinct */
    for (size_t i = 0; i < SBA_MAXF; i++) {
        if (i < bin->free_chunks.length) {
            const void *c = SBA_AL_AT(&bin->free_chunks, i);
            ok = ok && sba_is_slot(bin, c);
            for (size_t j = 0; j < SBA_MAXF; j++)
                if (j < i) ok = ok && SBA_AL_AT(&bin->free_chunks, j) != c;
        }
    }
    return ok;
}
/* number of live chunks of the bin == sum of the page counters of the listed pages (by the invariant) */
static inline size_t sba_bin_live_count(const struct sba_bin *bin) {
    size_t n = 0;
    for (size_t i = 0; i < SBA_MAXP; i++)
        if (sba_listed(bin, i)) n += SBA_H(i)->alloc_count;
    return n;
}
static inline size_t sba_bin_pages(const struct sba_bin *bin) {
    return bin->active_pages.length + (bin->page_cursor != NULL ? 1 : 0);
}

#endif
