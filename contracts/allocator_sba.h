/* Contracts and specification functions for source/allocator_sba.c (property C03).
 *
 * The types of the small-block allocator (struct sba_bin, struct page_header, struct small_block_allocator) are private
 * to the .c file, so a proof unit includes, in this order:
 *     #include "contracts/common.h"  #include "contracts/allocator.h"
 *     #include "source/allocator_sba.c"          (the REAL file)
 *     #include "contracts/allocator_sba.h"       (re-declarations with contracts + spec functions; this file)
 *   SBA_BLOCK_LAYER       selects the DFCC contracts, SBA_BLOCK_LAYER_ONLY drops the representation layer (units/C03/sba_block.c)
 *
 * Two layers (DESIGN 5/C03):
 *   representation layer : spec functions sba_* over the real structs (bin invariant, "live chunk", byte counts).  Used by the
 *                          plain-harness inductive-step units (arbitrary invariant state -> real operation -> invariant).
 *   block layer          : DFCC contracts in which a chunk handed out by s_sba_alloc_from_bin is seen like a separately
 *                          allocated object of bin->size bytes (is_fresh / frees).  s_sba_alloc, s_sba_free,
 *                          s_sba_mem_realloc, s_sba_mem_calloc and the vtable forwarders are proved over these.
 */
#ifndef VERIF_CONTRACTS_ALLOCATOR_SBA_H
#define VERIF_CONTRACTS_ALLOCATOR_SBA_H

#ifndef RET
#    define RET __CPROVER_return_value
#endif
#ifndef OLD
#    define OLD __CPROVER_old
#endif
#ifndef PEQ
#    define PEQ(p, q) __CPROVER_pointer_equals((p), (q))
#endif

#define SBA_PAGE ((size_t)AWS_SBA_PAGE_SIZE)
#define SBA_HDR (sizeof(struct page_header))

/* ---- specification of the size-class map: smallest class that holds `size` (size <= 512) ---- */
#define SBA_CLASS_IDX(size) ((size_t)((size) > 32) + (size_t)((size) > 64) + (size_t)((size) > 128) + (size_t)((size) > 256)) /* branch-free: usable in assigns targets */
#define SBA_CLASS_SIZE(idx) ((size_t)32 << (idx))

/* =====================================================================================================================
 * Representation layer: specification functions over the REAL structs.  Plain C, evaluated by CBMC inside harnesses
 * (assumed for the pre-state, asserted for the post-state).  Loops are bounded by SBA_MAXP / SBA_MAXF (spec-side bounds:
 * the largest number of page objects / free-list entries a state of the unit can have); a state beyond them does not
 * satisfy the invariant.
 *
 * Model of a page: a dynamic object of exactly AWS_SBA_PAGE_SIZE bytes; "page base of p" == base of p's object (this is
 * what posix_memalign(.., PAGE, PAGE) + the address mask of s_page_base give on a flat address space).  The harness
 * keeps the PAGE TABLE g_pt[] of all page objects that exist (pre-state pages + pages allocated by the step; a released
 * page is marked dead by the free() hook), so that the spec functions speak about page INDICES (cheap for the solver).
 *
 *   listed page  : element of bin->active_pages, or the page that bin->page_cursor points into (the working page)
 *   carved(p)    : chunks per page for a page in active_pages; (cursor offset - header) / size for the working page
 *   slot         : address  p + header + k*size  with p listed and k < carved(p)
 *   free         : slot stored in bin->free_chunks
 *   LIVE         : slot that is not free  (== handed out by s_sba_alloc_from_bin and not yet given back)
 * ===================================================================================================================== */
#ifndef SBA_BLOCK_LAYER_ONLY
#ifndef SBA_MAXP
#    define SBA_MAXP 4
#endif
#ifndef SBA_MAXF
#    define SBA_MAXF 9
#endif

uint8_t *g_pt[SBA_MAXP];
bool g_pt_alive[SBA_MAXP];
#define SBA_H(i) ((struct page_header *)g_pt[(i)])
/* a page object of the model: exactly one page of arbitrary bytes.  The size goes through a variable (and two
 * inequalities, which constant propagation does not turn into a literal) so that CBMC keeps the 4 KiB as an array term
 * instead of copying 32768 bits at every store to the page header (13M -> 1M variables). */
static inline uint8_t *sba_model_new_page(void) {
#ifdef SBA_PAGE_FIXED
    size_t n = SBA_PAGE;
#else
    size_t n = nondet_size_t();
    __CPROVER_assume(n <= SBA_PAGE && n >= SBA_PAGE);
#endif
    uint8_t *p = malloc(n); /* arbitrary contents */
    __CPROVER_assume(p != NULL);
    return p;
}

#define SBA_AL_AT(list, i) (((void **)(list)->data)[(i)])
#define SBA_NCH(sz) ((SBA_PAGE - SBA_HDR) / (sz)) /* chunks per page */
#define SBA_NONE ((size_t)SBA_MAXP)

/* index of the page object that c points into (SBA_NONE: not a page of the model) */
static inline size_t sba_pidx(const void *c) {
    size_t r = SBA_NONE;
    if (c == NULL) return r;
    for (size_t i = 0; i < SBA_MAXP; i++)
        if (g_pt[i] != NULL && __CPROVER_same_object(c, g_pt[i])) r = i;
    return r;
}
static inline size_t sba_work_idx(const struct sba_bin *bin) {
    return sba_pidx(bin->page_cursor);
}
/* a well-formed dynamic list of pointers with at most maxlen elements */
static inline bool sba_list_ok(const struct aws_array_list *l, struct aws_allocator *parent, size_t maxlen) {
    return l->alloc == parent && l->item_size == sizeof(void *) && l->length <= maxlen &&
           l->length <= l->current_size / sizeof(void *) && l->data != NULL && __CPROVER_POINTER_OFFSET(l->data) == 0 &&
           __CPROVER_OBJECT_SIZE(l->data) == l->current_size && __CPROVER_w_ok(l->data, l->current_size);
}
/* page i is a live page object of this bin: not released, both tags set, back pointer to the bin */
static inline bool sba_page_ok(const struct sba_bin *bin, size_t i) {
    return i < SBA_MAXP && g_pt[i] != NULL && g_pt_alive[i] && SBA_H(i)->tag == AWS_SBA_TAG_VALUE && SBA_H(i)->tag2 == AWS_SBA_TAG_VALUE &&
           SBA_H(i)->bin == bin;
}
/* position of page i in active_pages (SBA_NONE: not there) */
static inline size_t sba_active_pos(const struct sba_bin *bin, size_t i) {
    size_t r = SBA_NONE;
    for (size_t j = 0; j < SBA_MAXP; j++)
        if (j < bin->active_pages.length && SBA_AL_AT(&bin->active_pages, j) == (void *)g_pt[i]) r = j;
    return r;
}
static inline bool sba_listed(const struct sba_bin *bin, size_t i) {
    return i < SBA_MAXP && g_pt[i] != NULL && (sba_active_pos(bin, i) != SBA_NONE || i == sba_work_idx(bin));
}
static inline size_t sba_carved(const struct sba_bin *bin, size_t i) {
    if (i == sba_work_idx(bin)) return (__CPROVER_POINTER_OFFSET(bin->page_cursor) - SBA_HDR) / bin->size;
    return SBA_NCH(bin->size);
}
static inline bool sba_in_free(const struct sba_bin *bin, const void *c) {
    bool r = false;
    for (size_t i = 0; i < SBA_MAXF; i++)
        if (i < bin->free_chunks.length && SBA_AL_AT(&bin->free_chunks, i) == c) r = true;
    return r;
}
static inline size_t sba_free_in_page(const struct sba_bin *bin, size_t pi) {
    size_t n = 0;
    for (size_t i = 0; i < SBA_MAXF; i++)
        if (i < bin->free_chunks.length && sba_pidx(SBA_AL_AT(&bin->free_chunks, i)) == pi) n++;
    return n;
}
static inline bool sba_is_slot(const struct sba_bin *bin, const void *c) {
    size_t pi = sba_pidx(c);
    if (pi == SBA_NONE) return false;
    size_t off = __CPROVER_POINTER_OFFSET(c);
    return sba_listed(bin, pi) && off >= SBA_HDR && (off - SBA_HDR) % bin->size == 0 && (off - SBA_HDR) / bin->size < sba_carved(bin, pi);
}
static inline bool sba_live(const struct sba_bin *bin, const void *c) {
    return sba_is_slot(bin, c) && !sba_in_free(bin, c);
}

/* THE BIN INVARIANT */
static inline bool sba_bin_inv(const struct small_block_allocator *sba, const struct sba_bin *bin, size_t class_size) {
    if (bin->size != class_size) return false;
    if (!sba_list_ok(&bin->active_pages, sba->allocator, SBA_MAXP) || !sba_list_ok(&bin->free_chunks, sba->allocator, SBA_MAXF)) return false;
    bool ok = true;
    size_t wi = SBA_NONE;
    /* working page: cursor on a slot boundary with room for at least one more chunk; count == carved - free */
    if (bin->page_cursor != NULL) {
        wi = sba_work_idx(bin);
        size_t off = __CPROVER_POINTER_OFFSET(bin->page_cursor);
        if (!sba_page_ok(bin, wi)) return false;
        ok = ok && off >= SBA_HDR && (off - SBA_HDR) % class_size == 0 && (off - SBA_HDR) / class_size < SBA_NCH(class_size);
        ok = ok && (size_t)SBA_H(wi)->alloc_count + sba_free_in_page(bin, wi) == (off - SBA_HDR) / class_size;
    }
    /* exhausted pages: page bases, pairwise distinct, not the working page, at least one live chunk, count == chunks per page - free */
    for (size_t j = 0; j < SBA_MAXP; j++) {
        if (j < bin->active_pages.length) {
            const void *p = SBA_AL_AT(&bin->active_pages, j);
            size_t pi = sba_pidx(p);
            if (!sba_page_ok(bin, pi) || p != (void *)g_pt[pi]) return false;
            ok = ok && pi != wi && SBA_H(pi)->alloc_count >= 1;
            ok = ok && (size_t)SBA_H(pi)->alloc_count + sba_free_in_page(bin, pi) == SBA_NCH(class_size);
            for (size_t k = 0; k < SBA_MAXP; k++)
                if (k < j) ok = ok && SBA_AL_AT(&bin->active_pages, k) != p;
        }
    }
    /* free list: slots of listed pages, pairwise distinct */
    for (size_t i = 0; i < SBA_MAXF; i++) {
        if (i < bin->free_chunks.length) {
            const void *c = SBA_AL_AT(&bin->free_chunks, i);
            ok = ok && sba_is_slot(bin, c);
            for (size_t j = 0; j < SBA_MAXF; j++)
                if (j < i) ok = ok && SBA_AL_AT(&bin->free_chunks, j) != c;
        }
    }
    return ok;
}
/* number of live chunks of the bin == sum of the page counters of the listed pages (by the invariant) */
static inline size_t sba_bin_live_count(const struct sba_bin *bin) {
    size_t n = 0;
    for (size_t i = 0; i < SBA_MAXP; i++)
        if (sba_listed(bin, i)) n += SBA_H(i)->alloc_count;
    return n;
}
static inline size_t sba_bin_pages(const struct sba_bin *bin) {
    return bin->active_pages.length + (bin->page_cursor != NULL ? 1 : 0);
}

#endif /* !SBA_BLOCK_LAYER_ONLY */

/* =====================================================================================================================
 * Block layer: DFCC contracts.
 *
 * Ghost protocol
 *   g_lk_held / g_lk_locks / g_lk_unlocks : the allocator's lock and unlock function pointers obey sba_lock_contract /
 *       sba_unlock_contract: "nothing held -> this mutex held" and back, counted.  s_sba_alloc_from_bin and
 *       s_sba_free_to_bin REQUIRE the mutex of their bin to be held, so "the lowest-level operations run under the mutex
 *       of their own bin and the lock is released afterwards" are obligations at the real call sites (sequential
 *       semantics; no interleavings).
 *   g_afb_* / g_ftb_* : record of the calls to s_sba_alloc_from_bin / s_sba_free_to_bin (how often, which bin, which block).
 *   g_pacq_* / g_prel_* : record of the calls that reach the parent allocator.
 *   g_al_* / g_fr_*   : record of the calls to s_sba_alloc / s_sba_free (block-layer clients: realloc, calloc, forwarders).
 * ===================================================================================================================== */
#ifdef SBA_BLOCK_LAYER
#define VT_REALLOC_MOVES_(oldsize, newsize) ((newsize) > (oldsize) || g_vt_moves)
/* symbolic num * symbolic size: the enforcing calloc units fix one factor each (DESIGN 2) */
#if defined(SBA_CALLOC_SIZE)
#    define CALLOC_SBA_CASE __CPROVER_requires(size == SBA_CALLOC_SIZE)
#elif defined(SBA_CALLOC_NUM)
#    define CALLOC_SBA_CASE __CPROVER_requires(num == SBA_CALLOC_NUM)
#else
#    define CALLOC_SBA_CASE
#endif
struct aws_mutex *g_lk_held;
size_t g_lk_locks, g_lk_unlocks;
size_t g_afb_calls, g_ftb_calls;
struct sba_bin *g_afb_bin, *g_ftb_bin;
void *g_ftb_addr;
size_t g_pacq_calls, g_pacq_size, g_prel_calls;
void *g_prel_last;
size_t g_al_calls, g_al_size, g_fr_calls;
void *g_fr_last;
/* enforce-side scenario of s_sba_free: which kind of block is released */
int g_case;          /* 0: NULL   1: small block (inside a tagged page)   2: block of the parent allocator */
uint8_t *g_pg;       /* case 1: the page object */
size_t g_pgsz;       /* case 1: size of the page object == one page (a variable, so that CBMC keeps the page as an array term) */
size_t g_off;        /* case 1: offset of the block in the page */
size_t g_bi;         /* case 1: index of the bin the page header points to */
size_t g_lsz;        /* case 2: size of the parent's block */

#define SBA_GHOST_RESET() do { GHOST_RESET_COMMON(); GHOST_RESET_ALLOC(); g_lk_held = NULL; } while (0)

int sba_lock_contract(struct aws_mutex *mutex)
__CPROVER_requires(mutex != NULL && g_lk_held == NULL)
__CPROVER_assigns(g_lk_held, g_lk_locks)
__CPROVER_ensures(g_lk_held == mutex && g_lk_locks == OLD(g_lk_locks) + 1)
;
int sba_unlock_contract(struct aws_mutex *mutex)
__CPROVER_requires(mutex != NULL && g_lk_held == mutex)
__CPROVER_assigns(g_lk_held, g_lk_unlocks)
__CPROVER_ensures(g_lk_held == NULL && g_lk_unlocks == OLD(g_lk_unlocks) + 1)
;
/* obeys_contract needs the address of the contract function to be taken somewhere */
void *sba_keep_contracts[2] = {(void *)sba_lock_contract, (void *)sba_unlock_contract};

/* ---- what every entry point may assume about the allocator object (established by aws_small_block_allocator_new,
 *      unit new_destroy; none of the functions under contract changes it) ---- */
#define SBA_TABLE_OK(sba)                                                                                              \
    ((sba)->bins[0].size == 32 && (sba)->bins[1].size == 64 && (sba)->bins[2].size == 128 && (sba)->bins[3].size == 256 && \
     (sba)->bins[4].size == 512)
#define SBA_REQ(sba)                                                                                                   \
    __CPROVER_requires(__CPROVER_is_fresh((sba), sizeof(*(sba))))                                                      \
    __CPROVER_requires(SBA_TABLE_OK(sba) && (sba)->allocator != NULL)                                                  \
    __CPROVER_requires(__CPROVER_obeys_contract((sba)->lock, sba_lock_contract))                                       \
    __CPROVER_requires(__CPROVER_obeys_contract((sba)->unlock, sba_unlock_contract))                                   \
    __CPROVER_requires(g_lk_held == NULL)
#define SBA_KEPT(sba) (SBA_TABLE_OK(sba) && (sba)->allocator == OLD((sba)->allocator) && g_lk_held == NULL)

/* ---- ASSUMED: s_page_base.  The integer<->pointer address mask is outside CBMC's memory model; on a flat address space
 *      with page-aligned page objects it yields: same object, offset rounded down to the page size; NULL -> NULL. ---- */
static void *s_page_base(const void *addr)
__CPROVER_requires(1)
__CPROVER_assigns()
__CPROVER_ensures(addr == NULL ==> RET == NULL)
__CPROVER_ensures(addr != NULL ==> PEQ(RET, (uint8_t *)addr - (__CPROVER_POINTER_OFFSET(addr) & (SBA_PAGE - 1))))
;

/* ---- parent allocator entry points with call records (same promises as contracts/allocator.h, client flavour) ---- */
void *sba_parent_acquire_contract(struct aws_allocator *allocator, size_t size)
__CPROVER_requires(allocator != NULL && size > 0)
__CPROVER_assigns(g_pacq_calls, g_pacq_size)
__CPROVER_ensures(__CPROVER_is_fresh(RET, size))
__CPROVER_ensures(g_pacq_calls == OLD(g_pacq_calls) + 1 && g_pacq_size == size)
;
void sba_parent_release_contract(struct aws_allocator *allocator, void *ptr)
__CPROVER_requires(allocator != NULL)
__CPROVER_requires(ptr == NULL || __CPROVER_is_freeable(ptr))
__CPROVER_assigns(g_prel_calls, g_prel_last)
__CPROVER_frees(ptr)
__CPROVER_ensures(g_prel_calls == OLD(g_prel_calls) + 1 && g_prel_last == ptr)
;

/* ---- BLOCK-LAYER ABSTRACTION (assumed by the proof-mode units, justified by the bounded inductive steps alloc_step_* /
 *      free_step_*): a chunk handed out by s_sba_alloc_from_bin behaves like a separately allocated object of bin->size
 *      bytes - valid for the whole class size, disjoint from everything else that is live; giving it back ends its life.
 *      Both require the bin's own mutex to be held. ---- */
#define SBA_BIN_FRAME(bin) (bin)->page_cursor, (bin)->active_pages, (bin)->free_chunks
static void *s_sba_alloc_from_bin(struct sba_bin *bin)
__CPROVER_requires(__CPROVER_rw_ok(bin, sizeof(*bin)))
__CPROVER_requires(g_lk_held == &bin->mutex)
__CPROVER_assigns(g_afb_calls, g_afb_bin, SBA_BIN_FRAME(bin))
__CPROVER_ensures(__CPROVER_is_fresh(RET, bin->size))
__CPROVER_ensures(g_afb_calls == OLD(g_afb_calls) + 1 && g_afb_bin == bin)
;
/* Frame: only the call record.  The bin's private fields (cursor, lists) and the page header that the real function
 * updates are the representation layer's business (free_step_*); the only caller, s_sba_free, unlocks and returns without
 * reading them.  (Listing them costs a write through a pointer that comes out of a page header: minutes / out of memory.) */
static void s_sba_free_to_bin(struct sba_bin *bin, void *addr)
__CPROVER_requires(bin != NULL && addr != NULL && g_lk_held == &bin->mutex)
__CPROVER_assigns(g_ftb_calls, g_ftb_bin, g_ftb_addr)
__CPROVER_ensures(g_ftb_calls == OLD(g_ftb_calls) + 1 && g_ftb_bin == bin && g_ftb_addr == addr)
;

/* ---- s_sba_alloc: sizes up to 512 are served by the smallest class that holds them, under that bin's mutex; larger
 *      sizes by the parent.  Either way a fresh block of at least `size` bytes, never NULL. ---- */
#define SBA_ALLOC_BIN(sba, size) (&(sba)->bins[SBA_CLASS_IDX(size)])
static void *s_sba_alloc(struct small_block_allocator *sba, size_t size)
SBA_REQ(sba)
__CPROVER_requires(size > 0)
__CPROVER_assigns(g_al_calls, g_al_size)
__CPROVER_assigns(size <= 512 : g_lk_held, g_lk_locks, g_lk_unlocks, g_afb_calls, g_afb_bin, SBA_BIN_FRAME(SBA_ALLOC_BIN(sba, size)))
__CPROVER_assigns(size > 512 : g_pacq_calls, g_pacq_size)
__CPROVER_ensures(__CPROVER_is_fresh(RET, size))
__CPROVER_ensures(size <= 512 ==> g_afb_calls == OLD(g_afb_calls) + 1 && g_afb_bin == SBA_ALLOC_BIN(sba, size) &&
                                  g_lk_locks == OLD(g_lk_locks) + 1 && g_lk_unlocks == OLD(g_lk_unlocks) + 1 && g_pacq_calls == OLD(g_pacq_calls))
__CPROVER_ensures(size > 512 ==> g_pacq_calls == OLD(g_pacq_calls) + 1 && g_pacq_size == size && g_afb_calls == OLD(g_afb_calls) &&
                                 g_lk_locks == OLD(g_lk_locks) && g_lk_unlocks == OLD(g_lk_unlocks))
__CPROVER_ensures(SBA_KEPT(sba))
#ifndef SBA_ENFORCE_ALLOC
__CPROVER_ensures(g_al_calls == OLD(g_al_calls) + 1 && g_al_size == size) /* call record for the clients (ghost-only: the body cannot establish it) */
#endif
;

/* ---- s_sba_free, page level (ENFORCED on the real body): NULL is ignored; a block inside a page that carries both tags
 *      goes to s_sba_free_to_bin of the bin named in the page header, under that bin's mutex; anything else goes to the
 *      parent.  ASSUMPTION for the last case: the memory at the page base of a block of the parent does not carry the
 *      tag pair (the source's own heuristic; in the model a parent block is an object of its own, so its first bytes are
 *      what is inspected). ---- */
#define SBA_PG_HDR ((struct page_header *)g_pg)
static void s_sba_free(struct small_block_allocator *sba, void *addr)
SBA_REQ(sba)
__CPROVER_requires(g_case == 0 || g_case == 1 || g_case == 2)
__CPROVER_requires(g_case == 0 ==> addr == NULL)
__CPROVER_requires(g_case == 1 ==> g_pgsz <= SBA_PAGE && g_pgsz >= SBA_PAGE && __CPROVER_is_fresh(g_pg, g_pgsz) && g_off >= SBA_HDR && g_off < SBA_PAGE && PEQ(addr, g_pg + g_off) &&
                                   SBA_PG_HDR->tag == AWS_SBA_TAG_VALUE && SBA_PG_HDR->tag2 == AWS_SBA_TAG_VALUE &&
                                   g_bi < AWS_SBA_BIN_COUNT && SBA_PG_HDR->bin == &sba->bins[g_bi])
__CPROVER_requires(g_case == 2 ==> g_lsz > 512 && __CPROVER_is_fresh(addr, g_lsz) &&
                                   !(((struct page_header *)addr)->tag == AWS_SBA_TAG_VALUE && ((struct page_header *)addr)->tag2 == AWS_SBA_TAG_VALUE))
__CPROVER_assigns(g_case == 1 : g_lk_held, g_lk_locks, g_lk_unlocks, g_ftb_calls, g_ftb_bin, g_ftb_addr)
__CPROVER_assigns(g_case == 2 : g_prel_calls, g_prel_last)
__CPROVER_frees(g_case == 2 : addr)
__CPROVER_ensures(g_case == 1 ==> g_ftb_calls == OLD(g_ftb_calls) + 1 && g_ftb_bin == &sba->bins[g_bi] && g_ftb_addr == addr &&
                                  g_lk_locks == OLD(g_lk_locks) + 1 && g_lk_unlocks == OLD(g_lk_unlocks) + 1 && g_prel_calls == OLD(g_prel_calls))
__CPROVER_ensures(g_case == 2 ==> g_prel_calls == OLD(g_prel_calls) + 1 && g_prel_last == addr && g_ftb_calls == OLD(g_ftb_calls) &&
                                  g_lk_locks == OLD(g_lk_locks) && g_lk_unlocks == OLD(g_lk_unlocks))
__CPROVER_ensures(g_case == 0 ==> g_prel_calls == OLD(g_prel_calls) && g_ftb_calls == OLD(g_ftb_calls) && g_lk_locks == OLD(g_lk_locks) &&
                                  g_lk_unlocks == OLD(g_lk_unlocks))
__CPROVER_ensures(SBA_KEPT(sba))
;
/* ---- s_sba_free, block layer (what realloc / release see; ASSUMED abstraction of the contract above + free_step_*):
 *      NULL is ignored, otherwise the block's life ends; nothing else is touched. ---- */
void sba_free_block_contract(struct small_block_allocator *sba, void *addr)
SBA_REQ(sba)
__CPROVER_requires(addr == NULL || __CPROVER_is_freeable(addr))
__CPROVER_assigns(g_fr_calls, g_fr_last)
__CPROVER_frees(addr)
__CPROVER_ensures(g_fr_calls == OLD(g_fr_calls) + 1 && g_fr_last == addr)
__CPROVER_ensures(SBA_KEPT(sba))
;

/* ---- parent realloc with a call record; same promises as aws_mem_realloc in contracts/allocator.h (client flavour):
 *      never fails, either the same block (only when it does not have to grow) or a fresh block with the old contents ---- */
size_t g_prea_calls;
int sba_parent_realloc_contract(struct aws_allocator *allocator, void **ptr, size_t oldsize, size_t newsize)
__CPROVER_requires(allocator != NULL && ptr != NULL && newsize > 0)
__CPROVER_requires(*ptr == NULL ? oldsize == 0 : __CPROVER_is_freeable(*ptr))
__CPROVER_requires(g_on ==> (*ptr != NULL && g_k < oldsize ==> g_old == ((const uint8_t *)*ptr)[g_k]))
__CPROVER_assigns(*ptr, g_prea_calls)
__CPROVER_frees(VT_REALLOC_MOVES : *ptr)
__CPROVER_ensures(RET == AWS_OP_SUCCESS && g_prea_calls == OLD(g_prea_calls) + 1)
__CPROVER_ensures(VT_REALLOC_MOVES || OLD(*ptr) == NULL ==> __CPROVER_is_fresh(*ptr, newsize))
__CPROVER_ensures(!VT_REALLOC_MOVES && OLD(*ptr) != NULL ==> PEQ(*ptr, OLD(*ptr)))
__CPROVER_ensures(g_on && OLD(*ptr) != NULL && g_k < oldsize && g_k < newsize ==> ((const uint8_t *)*ptr)[g_k] == g_old)
;

/* ---- the vtable functions ---- */
#define SBA_IMPL(a) ((struct small_block_allocator *)(a)->impl)
#define SBA_VT_REQ(a) __CPROVER_requires(__CPROVER_is_fresh((a), sizeof(*(a)))) SBA_REQ(SBA_IMPL(a))
#define SBA_NO_ALLOC (g_al_calls == OLD(g_al_calls))
#define SBA_NO_FREE (g_fr_calls == OLD(g_fr_calls))
#define SBA_NO_PREALLOC (g_prea_calls == OLD(g_prea_calls))

static void *s_sba_mem_acquire(struct aws_allocator *allocator, size_t size)
SBA_VT_REQ(allocator)
__CPROVER_requires(size > 0)
__CPROVER_assigns(g_al_calls, g_al_size)
__CPROVER_assigns(size <= 512 : g_lk_held, g_lk_locks, g_lk_unlocks, g_afb_calls, g_afb_bin, SBA_BIN_FRAME(SBA_ALLOC_BIN(SBA_IMPL(allocator), size)))
__CPROVER_assigns(size > 512 : g_pacq_calls, g_pacq_size)
__CPROVER_ensures(__CPROVER_is_fresh(RET, size))
__CPROVER_ensures(g_al_calls == OLD(g_al_calls) + 1 && g_al_size == size)
;
static void s_sba_mem_release(struct aws_allocator *allocator, void *ptr)
SBA_VT_REQ(allocator)
__CPROVER_requires(ptr == NULL || __CPROVER_is_fresh(ptr, g_lsz))
__CPROVER_assigns(g_fr_calls, g_fr_last)
__CPROVER_frees(ptr)
__CPROVER_ensures(g_fr_calls == OLD(g_fr_calls) + 1 && g_fr_last == ptr)
;

/* realloc: the four paths of the source, told apart by the sizes alone */
#define RA_BOTH_LARGE (old_size > 512 && new_size > 512)                       /* parent reallocates */
#define RA_FREES (!RA_BOTH_LARGE && new_size == 0)                             /* release, NULL */
#define RA_KEEPS (!RA_BOTH_LARGE && new_size != 0 && old_size > new_size)      /* shrink: same block */
#define RA_MOVES (!RA_BOTH_LARGE && new_size != 0 && old_size <= new_size)     /* new block, copy, release old */
static void *s_sba_mem_realloc(struct aws_allocator *allocator, void *old_ptr, size_t old_size, size_t new_size)
SBA_VT_REQ(allocator)
__CPROVER_requires(old_ptr == NULL ? old_size == 0 : (old_size > 0 && __CPROVER_is_fresh(old_ptr, old_size)))
__CPROVER_requires(g_on ==> (old_ptr != NULL && g_k < old_size ==> g_old == ((const uint8_t *)old_ptr)[g_k]))
__CPROVER_assigns(RA_BOTH_LARGE : g_prea_calls)
__CPROVER_assigns(RA_FREES || (RA_MOVES && old_ptr != NULL) : g_fr_calls, g_fr_last)
__CPROVER_assigns(RA_MOVES : g_al_calls, g_al_size)
__CPROVER_assigns(RA_MOVES && new_size <= 512 : g_lk_held, g_lk_locks, g_lk_unlocks, g_afb_calls, g_afb_bin, SBA_BIN_FRAME(SBA_ALLOC_BIN(SBA_IMPL(allocator), new_size)))
__CPROVER_assigns(RA_MOVES && new_size > 512 : g_pacq_calls, g_pacq_size)
__CPROVER_frees((RA_BOTH_LARGE && VT_REALLOC_MOVES_(old_size, new_size)) || RA_FREES || RA_MOVES : old_ptr)
/* parent path */
__CPROVER_ensures(RA_BOTH_LARGE && VT_REALLOC_MOVES_(old_size, new_size) ==> __CPROVER_is_fresh(RET, new_size))
__CPROVER_ensures(RA_BOTH_LARGE && !VT_REALLOC_MOVES_(old_size, new_size) ==> PEQ(RET, old_ptr))
__CPROVER_ensures(RA_BOTH_LARGE ==> g_prea_calls == OLD(g_prea_calls) + 1 && SBA_NO_ALLOC && SBA_NO_FREE)
/* release */
__CPROVER_ensures(RA_FREES ==> RET == NULL && g_fr_calls == OLD(g_fr_calls) + 1 && g_fr_last == old_ptr && SBA_NO_ALLOC && SBA_NO_PREALLOC)
/* shrink in place: the very same block, nothing allocated, nothing released */
__CPROVER_ensures(RA_KEEPS ==> PEQ(RET, old_ptr) && SBA_NO_ALLOC && SBA_NO_FREE && SBA_NO_PREALLOC)
/* move: fresh block of the new size from s_sba_alloc (class or parent by the NEW size), old block released exactly once */
__CPROVER_ensures(RA_MOVES ==> __CPROVER_is_fresh(RET, new_size) && g_al_calls == OLD(g_al_calls) + 1 && g_al_size == new_size && SBA_NO_PREALLOC &&
                               (old_ptr != NULL ? g_fr_calls == OLD(g_fr_calls) + 1 && g_fr_last == old_ptr : SBA_NO_FREE))
/* contents up to the smaller of the two sizes survive on every path that returns a block */
__CPROVER_ensures(g_on && RET != NULL && old_ptr != NULL && g_k < old_size && g_k < new_size ==> ((const uint8_t *)RET)[g_k] == g_old)
;

/* calloc: num*size does not overflow and is not 0 - both guaranteed by aws_mem_calloc (allocator.c), the only caller */
static void *s_sba_mem_calloc(struct aws_allocator *allocator, size_t num, size_t size)
SBA_VT_REQ(allocator)
CALLOC_SBA_CASE
__CPROVER_requires(num > 0 && size > 0 && !__CPROVER_overflow_mult(num, size))
__CPROVER_assigns(g_al_calls, g_al_size)
__CPROVER_assigns(num * size <= 512 : g_lk_held, g_lk_locks, g_lk_unlocks, g_afb_calls, g_afb_bin, SBA_BIN_FRAME(SBA_ALLOC_BIN(SBA_IMPL(allocator), num * size)))
__CPROVER_assigns(num * size > 512 : g_pacq_calls, g_pacq_size)
__CPROVER_ensures(__CPROVER_is_fresh(RET, num * size))
__CPROVER_ensures(g_j < num * size ==> ((const uint8_t *)RET)[g_j] == 0)
__CPROVER_ensures(g_al_calls == OLD(g_al_calls) + 1 && g_al_size == num * size)
;
#endif /* SBA_BLOCK_LAYER */

#endif
