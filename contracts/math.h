/* Function contracts for include/aws/common/math*.inl and clock.inl (property C16).
 *
 * The postconditions are the property statement, written against WIDER arithmetic wherever the SAT back end can
 * follow it (u32 against 64-bit, u64 add/sub against 128-bit), so that "mathematically exact" does not lean on the
 * operation under test:
 *   checked   : RET == SUCCESS  <=>  the exact result fits;  on SUCCESS *r == exact result;  otherwise AWS_OP_ERR and
 *               AWS_ERROR_OVERFLOW_DETECTED is raised (ghost g_last_error, when VERIF_TRACK_ERRORS is defined)
 *   saturating: RET == (fits ? exact : MAX)      (0 for subtraction)
 *   64-bit multiply: against the 128-bit product; these obligations are discharged with the z3 bit-vector back end
 *               (cbmc --z3): the SAT back ends do not decide the equivalence of two 64x64 multipliers.
 *
 * Every contract is given as a macro over the function NAME, so that the same text is attached to the build's
 * variant (math.gcc_overflow.inl / math.gcc_builtin.inl under the real names) and to the portable variant
 * (math.fallback.inl compiled under fb_* names): "every variant gives identical answers" = every variant satisfies the
 * same deterministic contract.
 */
#ifndef VERIF_CONTRACTS_MATH_H
#define VERIF_CONTRACTS_MATH_H
#include "contracts/common.h"
#include <aws/common/math.h>
#include <aws/common/clock.h>

#ifndef RET
#    define RET __CPROVER_return_value
#endif
#ifndef OLD
#    define OLD __CPROVER_old
#endif

typedef unsigned __int128 v_u128;
#define W128(x) ((v_u128)(x))
#define W64(x) ((uint64_t)(x))

/* error channel clauses (only meaningful when the unit tracks the error slot) */
#ifdef VERIF_TRACK_ERRORS
#    define MATH_ERR_ASSIGNS(failcond) __CPROVER_assigns(failcond : g_last_error, g_raise_count)
#    define MATH_ERR_ENSURES                                                                                           \
        __CPROVER_ensures(RET != AWS_OP_SUCCESS ==> g_last_error == AWS_ERROR_OVERFLOW_DETECTED)                      \
        __CPROVER_ensures(RET != AWS_OP_SUCCESS ==> g_raise_count == OLD(g_raise_count) + 1)                          \
        __CPROVER_ensures(RET == AWS_OP_SUCCESS ==> g_last_error == OLD(g_last_error) && g_raise_count == OLD(g_raise_count))
#else
#    define MATH_ERR_ASSIGNS(failcond)
#    define MATH_ERR_ENSURES
#endif

/* ---------------------------------------------------------------- checked: int f(T a, T b, T *r) */
/* FITS: exact result representable (pre-state expression in a, b); EXACT: the exact result in wide arithmetic
 * (under FITS the narrowing cast (T)EXACT loses nothing). *r may be written on failure too (the builtin stores the wrapped value) - the property
 * does not promise otherwise - but nothing else may be written. */
#define CONTRACT_CHECKED(NAME, T, FITS, EXACT)                                                                         \
    AWS_STATIC_IMPL int NAME(T a, T b, T *r)                                                                           \
    __CPROVER_requires(__CPROVER_is_fresh(r, sizeof(*r)))                                                              \
    __CPROVER_assigns(*r)                                                                                              \
    MATH_ERR_ASSIGNS(!(FITS))                                                                                          \
    __CPROVER_ensures(RET == AWS_OP_SUCCESS || RET == AWS_OP_ERR)                                                      \
    __CPROVER_ensures((RET == AWS_OP_SUCCESS) == (FITS))                                                               \
    __CPROVER_ensures(RET == AWS_OP_SUCCESS ==> *r == (T)(EXACT))                                                      \
    MATH_ERR_ENSURES

#define CONTRACT_SATURATING(NAME, T, FITS, EXACT, SAT)                                                                 \
    AWS_STATIC_IMPL T NAME(T a, T b)                                                                                   \
    __CPROVER_requires(1)                                                                                              \
    __CPROVER_assigns()                                                                                                \
    __CPROVER_ensures(RET == ((FITS) ? (T)(EXACT) : (T)(SAT)))

/* exact results */
#define ADD32_FITS (W64(a) + W64(b) <= UINT32_MAX)
#define ADD32_EXACT (W64(a) + W64(b))
#define MUL32_FITS (W64(a) * W64(b) <= UINT32_MAX)
#define MUL32_EXACT (W64(a) * W64(b))
#define SUB32_FITS (a >= b)
#define SUB32_EXACT (W64(a) - W64(b))
#define ADD64_FITS (W128(a) + W128(b) <= UINT64_MAX)
#define ADD64_EXACT (W128(a) + W128(b))
#define SUB64_FITS (a >= b)
#define SUB64_EXACT (W128(a) - W128(b))
/* 64-bit multiply against the exact 128-bit product (decided by the word-level SMT back end, not by SAT) */
#define MUL64_FITS (W128(a) * W128(b) <= UINT64_MAX)
#define MUL64_EXACT (W128(a) * W128(b))

#define MATH_CONTRACTS_ADD(P)                                                                                          \
    CONTRACT_CHECKED(P##aws_add_u32_checked, uint32_t, ADD32_FITS, ADD32_EXACT);                                  \
    CONTRACT_CHECKED(P##aws_add_u64_checked, uint64_t, ADD64_FITS, ADD64_EXACT);                                 \
    CONTRACT_SATURATING(P##aws_add_u32_saturating, uint32_t, ADD32_FITS, ADD32_EXACT, UINT32_MAX);                \
    CONTRACT_SATURATING(P##aws_add_u64_saturating, uint64_t, ADD64_FITS, ADD64_EXACT, UINT64_MAX)
#define MATH_CONTRACTS_MUL(P)                                                                                          \
    CONTRACT_CHECKED(P##aws_mul_u32_checked, uint32_t, MUL32_FITS, MUL32_EXACT);                                  \
    CONTRACT_CHECKED(P##aws_mul_u64_checked, uint64_t, MUL64_FITS, MUL64_EXACT);                                 \
    CONTRACT_SATURATING(P##aws_mul_u32_saturating, uint32_t, MUL32_FITS, MUL32_EXACT, UINT32_MAX);                \
    CONTRACT_SATURATING(P##aws_mul_u64_saturating, uint64_t, MUL64_FITS, MUL64_EXACT, UINT64_MAX)

/* ---------------------------------------------------------------- leading / trailing zero counts: size_t f(T n)
 * mathematical definition, bit level: clz(n) = c  <=>  the top c bits are 0 and bit BITS-1-c is 1 (c = BITS when n == 0)
 *                                     ctz(n) = c  <=>  the low c bits are 0 and bit c is 1       (c = BITS when n == 0)
 * U is the unsigned type of the same width (the signed variants count the bits of the two's-complement pattern). */
#define CONTRACT_CLZ(NAME, T, U, BITS)                                                                                 \
    AWS_STATIC_IMPL size_t NAME(T n)                                                                                   \
    __CPROVER_requires(1)                                                                                              \
    __CPROVER_assigns()                                                                                                \
    __CPROVER_ensures(RET <= (BITS))                                                                                   \
    __CPROVER_ensures((RET == (BITS)) == (n == 0))                                                                     \
    __CPROVER_ensures(RET < (BITS) ==> (((U)n) >> ((BITS)-1 - RET)) == 1)
#define CONTRACT_CTZ(NAME, T, U, BITS)                                                                                 \
    AWS_STATIC_IMPL size_t NAME(T n)                                                                                   \
    __CPROVER_requires(1)                                                                                              \
    __CPROVER_assigns()                                                                                                \
    __CPROVER_ensures(RET <= (BITS))                                                                                   \
    __CPROVER_ensures((RET == (BITS)) == (n == 0))                                                                     \
    __CPROVER_ensures(RET < (BITS) ==> ((((U)n) >> RET) & 1) == 1 && (((U)n) & ((((U)1) << RET) - 1)) == 0)
#define MATH_CONTRACTS_BITS(P)                                                                                         \
    CONTRACT_CLZ(P##aws_clz_u32, uint32_t, uint32_t, 32);                                                              \
    CONTRACT_CLZ(P##aws_clz_i32, int32_t, uint32_t, 32);                                                               \
    CONTRACT_CLZ(P##aws_clz_u64, uint64_t, uint64_t, 64);                                                              \
    CONTRACT_CLZ(P##aws_clz_i64, int64_t, uint64_t, 64);                                                               \
    CONTRACT_CLZ(P##aws_clz_size, size_t, size_t, 64);                                                                 \
    CONTRACT_CTZ(P##aws_ctz_u32, uint32_t, uint32_t, 32);                                                              \
    CONTRACT_CTZ(P##aws_ctz_i32, int32_t, uint32_t, 32);                                                               \
    CONTRACT_CTZ(P##aws_ctz_u64, uint64_t, uint64_t, 64);                                                              \
    CONTRACT_CTZ(P##aws_ctz_i64, int64_t, uint64_t, 64);                                                               \
    CONTRACT_CTZ(P##aws_ctz_size, size_t, size_t, 64)

/* ---------------------------------------------------------------- the variant the build compiles (real names) */
MATH_CONTRACTS_ADD();
MATH_CONTRACTS_MUL();
MATH_CONTRACTS_BITS();

/* math.inl: subtraction */
CONTRACT_CHECKED(aws_sub_u32_checked, uint32_t, SUB32_FITS, SUB32_EXACT);
CONTRACT_CHECKED(aws_sub_u64_checked, uint64_t, SUB64_FITS, SUB64_EXACT);
CONTRACT_SATURATING(aws_sub_u32_saturating, uint32_t, SUB32_FITS, SUB32_EXACT, 0);
CONTRACT_SATURATING(aws_sub_u64_saturating, uint64_t, SUB64_FITS, SUB64_EXACT, 0);

/* math.inl: size_t dispatch (LP64: size_t is the 64-bit case) */
CONTRACT_CHECKED(aws_add_size_checked, size_t, ADD64_FITS, ADD64_EXACT);
CONTRACT_CHECKED(aws_sub_size_checked, size_t, SUB64_FITS, SUB64_EXACT);
CONTRACT_CHECKED(aws_mul_size_checked, size_t, MUL64_FITS, MUL64_EXACT);
CONTRACT_SATURATING(aws_add_size_saturating, size_t, ADD64_FITS, ADD64_EXACT, SIZE_MAX);
CONTRACT_SATURATING(aws_sub_size_saturating, size_t, SUB64_FITS, SUB64_EXACT, 0);
CONTRACT_SATURATING(aws_mul_size_saturating, size_t, MUL64_FITS, MUL64_EXACT, SIZE_MAX);

/* math.inl: power-of-two test and rounding.
 * g_pow_k is a ghost exponent: "x is a power of two" <=> exists k. x == 2^k, stated for one arbitrary k:
 *   x == 2^g_pow_k ==> RET           (every power of two is accepted)
 *   RET ==> x == 2^ctz(x)            (only powers of two are accepted; ctz through the bit-level definition is avoided
 *                                     by the equivalent population statement: x != 0 and clearing the lowest set bit gives 0,
 *                                     which is written with the independent formula x == (x & -x)) */
unsigned g_pow_k;
#define IS_POW2(x) ((x) != 0 && ((x) & (~(x) + 1)) == (x))
AWS_STATIC_IMPL bool aws_is_power_of_two(const size_t x)
__CPROVER_requires(1)
__CPROVER_assigns()
__CPROVER_ensures(g_pow_k < 64 && x == (((size_t)1) << g_pow_k) ==> RET)
__CPROVER_ensures(RET && g_pow_k < 64 && ((x >> g_pow_k) & 1) == 1 ==> x == (((size_t)1) << g_pow_k))
__CPROVER_ensures(RET ==> x != 0)
__CPROVER_ensures(RET == IS_POW2(x))
;
/* smallest power of two >= n:  result is a power of two, result >= n, result/2 < n (so no smaller power of two is >= n);
 * representable <=> n <= 2^63; failure raises OVERFLOW_DETECTED and leaves *result alone */
AWS_STATIC_IMPL int aws_round_up_to_power_of_two(size_t n, size_t *result)
__CPROVER_requires(__CPROVER_is_fresh(result, sizeof(*result)))
__CPROVER_assigns(n <= SIZE_MAX_POWER_OF_TWO : *result)
MATH_ERR_ASSIGNS(n > SIZE_MAX_POWER_OF_TWO)
__CPROVER_ensures(RET == AWS_OP_SUCCESS || RET == AWS_OP_ERR)
__CPROVER_ensures((RET == AWS_OP_SUCCESS) == (n <= (((size_t)1) << 63)))
__CPROVER_ensures(RET == AWS_OP_SUCCESS ==> (IS_POW2(*result) && *result >= n && (n == 0 ? *result == 1 : (*result >> 1) < n)))
__CPROVER_ensures(RET == AWS_OP_SUCCESS && g_pow_k < 64 && (((size_t)1) << g_pow_k) >= n ==> *result <= (((size_t)1) << g_pow_k))
MATH_ERR_ENSURES
;

/* math.inl: min / max.  RET is one of the operands, bounds both. */
#define CONTRACT_MINMAX(SUF, T)                                                                                        \
    AWS_STATIC_IMPL T aws_min_##SUF(T a, T b)                                                                          \
    __CPROVER_requires(1) __CPROVER_assigns()                                                                          \
    __CPROVER_ensures(RET <= a && RET <= b && (RET == a || RET == b));                                                 \
    AWS_STATIC_IMPL T aws_max_##SUF(T a, T b)                                                                          \
    __CPROVER_requires(1) __CPROVER_assigns()                                                                          \
    __CPROVER_ensures(RET >= a && RET >= b && (RET == a || RET == b))
CONTRACT_MINMAX(u8, uint8_t);
CONTRACT_MINMAX(i8, int8_t);
CONTRACT_MINMAX(u16, uint16_t);
CONTRACT_MINMAX(i16, int16_t);
CONTRACT_MINMAX(u32, uint32_t);
CONTRACT_MINMAX(i32, int32_t);
CONTRACT_MINMAX(u64, uint64_t);
CONTRACT_MINMAX(i64, int64_t);
CONTRACT_MINMAX(size, size_t);
CONTRACT_MINMAX(int, int);
/* floating point: for non-NaN operands the same statement (NaN has no order; the library's `a < b ? a : b` then returns b) */
#define CONTRACT_MINMAX_FP(SUF, T)                                                                                     \
    AWS_STATIC_IMPL T aws_min_##SUF(T a, T b)                                                                          \
    __CPROVER_requires(1) __CPROVER_assigns()                                                                          \
    __CPROVER_ensures(a == a && b == b ==> RET <= a && RET <= b && (RET == a || RET == b));                            \
    AWS_STATIC_IMPL T aws_max_##SUF(T a, T b)                                                                          \
    __CPROVER_requires(1) __CPROVER_assigns()                                                                          \
    __CPROVER_ensures(a == a && b == b ==> RET >= a && RET >= b && (RET == a || RET == b))
CONTRACT_MINMAX_FP(float, float);
CONTRACT_MINMAX_FP(double, double);

/* ---------------------------------------------------------------- clock.inl: time-unit conversion
 * E = ticks * new_frequency (128-bit, exact).  RET == min(UINT64_MAX, floor(E / old_frequency)), stated without division:
 *   RET != MAX : RET*old <= E < (RET+1)*old        (RET is the floor, and it fits)
 *   RET == MAX : E >= MAX*old                      (the floor is >= MAX: does not fit, or is MAX itself)
 * Remainder (clock.inl:24-26): ticks mod (old/new) when old is a proper multiple of new, else 0; stated as the
 * division identity  ticks == Q*(old/new) + remainder, remainder < old/new  for the witness quotient Q (= RET here).
 * Domain: frequencies in [1, 10^9] as in the property statement (beyond that the fractional multiply can saturate). */
#define CONV_E (W128(ticks) * W128(new_frequency))
#define CONV_FREQ_MAX 1000000000ULL
void aws_fatal_assert(const char *cond_str, const char *file, int line)
__CPROVER_requires(0) /* must never be called from code under contract */
__CPROVER_assigns()
__CPROVER_ensures(1)
;
/* ghost record of a replaced conversion call (switched on only by the forwarder unit): "a conversion with exactly these
 * arguments returned g_conv_ret".  In enforcing units g_conv_on is false and the clauses are vacuous. */
bool g_conv_on;
uint64_t g_conv_ret, g_conv_ticks, g_conv_old, g_conv_new;
uint64_t *g_conv_remainder;
#define MATH_GHOST_RESET() do { GHOST_RESET_COMMON(); g_conv_on = false; } while (0)

AWS_STATIC_IMPL uint64_t
    aws_timestamp_convert_u64(uint64_t ticks, uint64_t old_frequency, uint64_t new_frequency, uint64_t *remainder)
__CPROVER_requires(old_frequency > 0 && new_frequency > 0)
__CPROVER_requires(old_frequency <= CONV_FREQ_MAX && new_frequency <= CONV_FREQ_MAX)
__CPROVER_requires(remainder == NULL || __CPROVER_is_fresh(remainder, sizeof(*remainder)))
__CPROVER_assigns(remainder != NULL : *remainder)
__CPROVER_assigns(g_conv_on : g_conv_ret, g_conv_ticks, g_conv_old, g_conv_new, g_conv_remainder)
__CPROVER_ensures(RET != UINT64_MAX ==> W128(RET) * old_frequency <= CONV_E && CONV_E < (W128(RET) + 1) * old_frequency)
__CPROVER_ensures(RET == UINT64_MAX ==> CONV_E >= W128(UINT64_MAX) * old_frequency)
__CPROVER_ensures(remainder != NULL && !(new_frequency < old_frequency && old_frequency % new_frequency == 0) ==> *remainder == 0)
__CPROVER_ensures(remainder != NULL && new_frequency < old_frequency && old_frequency % new_frequency == 0 ==>
                  *remainder < old_frequency / new_frequency &&
                  W128(ticks) == W128(RET) * (old_frequency / new_frequency) + *remainder)
__CPROVER_ensures(g_conv_on ==> g_conv_ret == RET && g_conv_ticks == ticks && g_conv_old == old_frequency &&
                  g_conv_new == new_frequency && g_conv_remainder == remainder)
;
/* The enum front end is a forwarder: its contract says that the result IS the result of the general conversion called
 * with (timestamp, (uint64_t)convert_from, (uint64_t)convert_to, remainder) - whose contract above then gives the
 * arithmetic meaning for the unit frequencies 1, 10^3, 10^6, 10^9.  (Restating the arithmetic clauses here would ask the
 * SAT back end for the equivalence of two 128-bit multiplier networks, which it does not decide.) */
AWS_STATIC_IMPL uint64_t aws_timestamp_convert(
    uint64_t timestamp,
    enum aws_timestamp_unit convert_from,
    enum aws_timestamp_unit convert_to,
    uint64_t *remainder)
__CPROVER_requires(convert_from == AWS_TIMESTAMP_SECS || convert_from == AWS_TIMESTAMP_MILLIS ||
                   convert_from == AWS_TIMESTAMP_MICROS || convert_from == AWS_TIMESTAMP_NANOS)
__CPROVER_requires(convert_to == AWS_TIMESTAMP_SECS || convert_to == AWS_TIMESTAMP_MILLIS ||
                   convert_to == AWS_TIMESTAMP_MICROS || convert_to == AWS_TIMESTAMP_NANOS)
__CPROVER_requires(remainder == NULL || __CPROVER_is_fresh(remainder, sizeof(*remainder)))
__CPROVER_requires(g_conv_on)
__CPROVER_assigns(remainder != NULL : *remainder)
__CPROVER_assigns(g_conv_ret, g_conv_ticks, g_conv_old, g_conv_new, g_conv_remainder)
__CPROVER_ensures(g_conv_ret == RET && g_conv_ticks == timestamp && g_conv_old == (uint64_t)convert_from &&
                  g_conv_new == (uint64_t)convert_to && g_conv_remainder == remainder)
;

#endif
