/* Shared ghost state, nondet sources, validity predicates and assumed/low-level contracts.
 * Included first by every proof unit.  See DESIGN.md §4. */
#ifndef VERIF_CONTRACTS_COMMON_H
#define VERIF_CONTRACTS_COMMON_H

#include <stdbool.h>
#include <stddef.h>
#include <stdint.h>
#include <string.h>

#include <aws/common/common.h>
#include <aws/common/byte_buf.h>
#include <aws/common/error.h>

/* ---- nondeterministic sources (no body: CBMC returns an arbitrary value) ---- */
size_t nondet_size_t(void);
uint8_t nondet_u8(void);
uint16_t nondet_u16(void);
uint32_t nondet_u32(void);
uint64_t nondet_u64(void);
int nondet_int(void);
bool nondet_bool(void);
double nondet_double(void);
float nondet_float(void);
void *nondet_ptr(void);

/* ---- reachability canaries: MUST be reported as FAILED by CBMC, else the unit is vacuous ---- */
#define CANARY(msg) __CPROVER_assert(0, "CANARY " msg)

/* ---- ghost witnesses (DESIGN §4.3).  g_on is false unless a harness switches the content
 *      clauses on, so the same contract can replace a call without constraining the caller ---- */
bool g_on;
size_t g_k;     /* index of an arbitrary byte that existed before the call */
uint8_t g_old;  /* its value before the call                               */
size_t g_j;     /* index of an arbitrary byte of the source / of the result */
uint8_t g_src;  /* value of the source byte at g_j before the call (needed when source may alias the destination) */

/* further ghosts of the byte_buf contracts; declared here because the loop contracts that overlay/byte_buf.loops inserts
 * into source/byte_buf.c mention them, and every unit that includes that file (C10, C15, ...) includes this header first */
size_t g_slen;    /* length of the C string argument (position of its first NUL) */
size_t g_sw;      /* arbitrary witness position below g_slen: no NUL there       */
size_t g_mm;      /* Skolem output of the assumed memcmp / memchr contracts: first differing / matching position */
bool g_pred[256]; /* the user byte predicate as a table (left nondeterministic: every predicate) */

/* DFCC makes every mutable static-lifetime variable NONDET at the start of the harness (so that a proof holds in any
 * calling context).  Every harness therefore starts with GHOST_RESET() (all ghost switches off) and then switches on
 * what it needs.  Ghost switches of other contract headers register themselves through GHOST_RESET_EXTRA_n hooks. */
#define GHOST_RESET_COMMON() do { g_on = false; g_last_error = 0; g_raise_count = 0; } while (0)

/* ---- error channel: aws_raise_error() is inline and forwards to aws_raise_error_private().
 *      g_last_error is the ghost view of the thread-local error slot. ---- */
int g_last_error;
int g_raise_count;
#ifdef VERIF_TRACK_ERRORS
void aws_raise_error_private(int err)
__CPROVER_requires(1)
__CPROVER_assigns(g_last_error, g_raise_count)
__CPROVER_ensures(g_last_error == err && g_raise_count == __CPROVER_old(g_raise_count) + 1)
;
#else
void aws_raise_error_private(int err)
__CPROVER_requires(1)
__CPROVER_assigns()
__CPROVER_ensures(1)
;
#endif

/* ---- validity predicates (DESIGN §4.1); usable inside requires/ensures only ---- */
#define BUF_FIELDS_OK(b)                                                                                               \
    ((b)->len <= (b)->capacity &&                                                                                      \
     ((b)->capacity == 0 ? (b)->buffer == NULL : __CPROVER_is_fresh((b)->buffer, (b)->capacity)))
#define BUF_OK(b) (__CPROVER_is_fresh((b), sizeof(*(b))) && BUF_FIELDS_OK(b))
/* NULL-with-zero-length view, or a pointer to exactly len readable bytes (len may be 0: a zero-sized object,
 * so any read through it is flagged) */
#define CUR_FIELDS_OK(c) (((c)->len == 0 && (c)->ptr == NULL) || __CPROVER_is_fresh((c)->ptr, (c)->len))
#define CUR_OK(c) (__CPROVER_is_fresh((c), sizeof(*(c))) && CUR_FIELDS_OK(c))
/* A view longer than any CBMC object (2^56 bytes) cannot be backed by memory in the model (nor in a real process).
 * For functions that must REJECT such a length before touching the bytes, the view is left unbacked so that the
 * "size next to SIZE_MAX" paths are reachable; any read through it is then flagged as an invalid dereference. */
#define VERIF_HUGE ((size_t)1 << 56)
#define CUR_FIELDS_OK_OR_HUGE(c) ((c)->len >= VERIF_HUGE || CUR_FIELDS_OK(c))
#define CUR_OK_OR_HUGE(c) (__CPROVER_is_fresh((c), sizeof(*(c))) && CUR_FIELDS_OK_OR_HUGE(c))

/* post-state shape of a buffer whose storage is the same object as before */
#define BUF_SHAPE_KEPT(b)                                                                                              \
    ((b)->len <= (b)->capacity && (b)->capacity == __CPROVER_old((b)->capacity) &&                                     \
     (b)->buffer == __CPROVER_old((b)->buffer) && (b)->allocator == __CPROVER_old((b)->allocator))

#define SIZE_HALF (SIZE_MAX >> 1)

#endif
