/* Value contracts for source/date_time.c (property C19: which tm fields and which UTC offset are extracted from a text).
 *
 * The memory-safety contracts of the same functions are in contracts/date_time.h (property C04, proved there); this header
 * builds on the helper contracts of that file (s_read_n_digits: exact value of 2 / 4 digits; s_read_1_char;
 * s_advance_if_next_char_is; s_skip_optional_fractional_seconds: skips the mark and the MAXIMAL digit run) and adds
 *
 *   c19_iso_values_contract   the complete input/output relation of s_parse_iso_8601: exact acceptance condition, exact
 *                             tm fields, exact offset, for texts of ANY length (no bound)
 *   c19_skip_fraction_rec     the C04 contract of s_skip_optional_fractional_seconds plus a ghost RECORD of how many
 *                             bytes it skipped (an observable: old length - new length); replaces the call only
 *   c19_iso_stub / c19_rfc822_stub   "returns ghost values" stand-ins for the two parsers, used by the units that check
 *                             the entry point aws_date_time_init_from_str_cursor (dispatch, offset, timegm/mktime choice)
 */
#ifndef VERIF_CONTRACTS_DATE_TIME_VALUES_H
#define VERIF_CONTRACTS_DATE_TIME_VALUES_H
#include "contracts/date_time.h"

/* ---- ghost record of the fraction skipper (switched on by the ISO unit only) ---- */
bool g_iso_rec_on;
size_t g_iso_skipped; /* bytes consumed by the last call of s_skip_optional_fractional_seconds */

static bool c19_skip_fraction_rec(struct aws_byte_cursor *str)
__CPROVER_requires(CUR_OK(str))
__CPROVER_assigns(DT_FRAC_MARK(str) : str->ptr, str->len)
__CPROVER_assigns(g_iso_rec_on : g_iso_skipped)
/* the clauses of contracts/date_time.h, verbatim */
__CPROVER_ensures(!DT_FRAC_MARK_OLD(str) ==> RET && DT_UNMOVED(str))
__CPROVER_ensures(DT_FRAC_MARK_OLD(str) ==> RET == (OLD(str->len) >= 2 && DT_ISDIGIT(OLD(str->ptr)[1])))
__CPROVER_ensures(!RET ==> DT_UNMOVED(str))
__CPROVER_ensures(RET && DT_FRAC_MARK_OLD(str) ==> str->len <= OLD(str->len) - 2 && PEQ(str->ptr, OLD(str->ptr) + DT_SKIPPED(str)))
__CPROVER_ensures(RET && DT_FRAC_MARK_OLD(str) && g_j >= 1 && g_j < DT_SKIPPED(str) ==> DT_ISDIGIT(OLD(str->ptr)[g_j]))
__CPROVER_ensures(RET && DT_FRAC_MARK_OLD(str) && str->len > 0 ==> !DT_ISDIGIT(str->ptr[0]))
/* the record: a name for an observable of this call */
__CPROVER_ensures(g_iso_rec_on ==> g_iso_skipped == DT_SKIPPED(str))
;

/* ---- s_parse_iso_8601: positions of the fields, as functions of the text (str is the by-value cursor) ------------------
 *   YYYY [-] MM [-] DD                                  g_i_pe = 8 or 10 bytes
 *   (T|t|' ') hh [:] mm [:] ss                          g_i_pf = position behind the seconds
 *   [ (.|,) digits ]                                    bytes the fraction skipper consumed: ghost record g_iso_skipped
 *   (Z|z)  |  (+|-) hh [:] mm                           I_PZ = g_i_pf + (mark ? g_iso_skipped : 0)
 * The positions are NAMED by ghost variables that the requires clauses define by equations (total: every text has exactly
 * one solution, so no input is excluded; written this way because nested macros would expand to an expression of
 * exponential size). */
bool g_i_ds, g_i_ts, g_i_mark; /* date separators used / time separators used / fraction mark present */
size_t g_i_pe, g_i_pf;
#define IB(i) (str.ptr[i])
#define IDIG(i) DT_ISDIGIT(IB(i))
#define IDIG2(i) (IDIG(i) && IDIG((i) + 1))
#define IV2(i) (10 * DT_DIG(str.ptr, (i)) + DT_DIG(str.ptr, (i) + 1))
#define IV4(i) (100 * IV2(i) + IV2((i) + 2))
#define I_PM ((size_t)(g_i_ds ? 5 : 4))
#define I_PD ((size_t)(g_i_ds ? 8 : 6))
#define I_DATE_OK                                                                                                      \
    (str.len >= 4 && IDIG2(0) && IDIG2(2) && str.len >= I_PM + 2 && IDIG2(I_PM) &&                                     \
     (!g_i_ds || (str.len > 7 && IB(7) == '-')) && str.len >= I_PD + 2 && IDIG2(I_PD))
#define I_PH (g_i_pe + 1)
#define I_PMI (g_i_pe + (g_i_ts ? 4 : 3))
#define I_PS (g_i_pe + (g_i_ts ? 7 : 5))
#define I_TIME_OK                                                                                                      \
    ((IB(g_i_pe) == 'T' || IB(g_i_pe) == 't' || IB(g_i_pe) == ' ') && str.len >= I_PH + 2 && IDIG2(I_PH) &&           \
     str.len >= I_PMI + 2 && IDIG2(I_PMI) && (!g_i_ts || (str.len > I_PMI + 2 && IB(I_PMI + 2) == ':')) &&            \
     str.len >= I_PS + 2 && IDIG2(I_PS))
#define I_FRAC_OK (!g_i_mark || (str.len >= g_i_pf + 2 && IDIG(g_i_pf + 1)))
#define I_PZ (g_i_pf + (g_i_mark ? g_iso_skipped : (size_t)0))
#define I_Z (str.len > I_PZ && (IB(I_PZ) == 'Z' || IB(I_PZ) == 'z'))
#define I_SIGN (str.len > I_PZ && (IB(I_PZ) == '+' || IB(I_PZ) == '-'))
#define I_OC (str.len > I_PZ + 3 && IB(I_PZ + 3) == ':')
#define I_POM (I_PZ + (I_OC ? 4 : 3))
#define I_OFF_OK (I_SIGN && str.len >= I_PZ + 3 && IDIG2(I_PZ + 1) && str.len >= I_POM + 2 && IDIG2(I_POM))
#define I_FULL_OK (str.len > g_i_pe && I_TIME_OK && I_FRAC_OK && (I_Z || I_OFF_OK))

static bool c19_iso_values_contract(struct aws_byte_cursor str, struct tm *parsed_time, time_t *seconds_offset)
__CPROVER_requires(DT_STR_OK(str))
__CPROVER_requires(__CPROVER_is_fresh(parsed_time, sizeof(*parsed_time)))
__CPROVER_requires(__CPROVER_is_fresh(seconds_offset, sizeof(*seconds_offset)))
__CPROVER_requires(g_iso_rec_on)
/* definitions of the position names */
__CPROVER_requires(g_i_ds == (str.len > 4 && IB(4) == '-'))
__CPROVER_requires(g_i_pe == (size_t)(g_i_ds ? 10 : 8))
__CPROVER_requires(g_i_ts == (str.len > g_i_pe + 3 && IB(g_i_pe + 3) == ':'))
__CPROVER_requires(g_i_pf == g_i_pe + (g_i_ts ? 9 : 7))
__CPROVER_requires(g_i_mark == (str.len > g_i_pf && (IB(g_i_pf) == '.' || IB(g_i_pf) == ',')))
__CPROVER_assigns(*parsed_time, *seconds_offset, g_iso_skipped)
/* exact acceptance condition */
__CPROVER_ensures(RET == (I_DATE_OK && (str.len == g_i_pe || I_FULL_OK)))
/* date fields */
__CPROVER_ensures(RET ==> parsed_time->tm_year == IV4(0) - 1900 && parsed_time->tm_mon == IV2(I_PM) - 1 && parsed_time->tm_mday == IV2(I_PD))
__CPROVER_ensures(RET ==> parsed_time->tm_wday == 0 && parsed_time->tm_yday == 0 && parsed_time->tm_isdst == 0)
/* date only: midnight, no offset */
__CPROVER_ensures(RET && str.len == g_i_pe ==> parsed_time->tm_hour == 0 && parsed_time->tm_min == 0 && parsed_time->tm_sec == 0 && *seconds_offset == 0)
/* time fields */
__CPROVER_ensures(RET && str.len > g_i_pe ==> parsed_time->tm_hour == IV2(I_PH) && parsed_time->tm_min == IV2(I_PMI) && parsed_time->tm_sec == IV2(I_PS))
/* the fraction is exactly the mark and the digits behind it: what follows is no digit, the run is inside the text */
__CPROVER_ensures(RET && str.len > g_i_pe && g_i_mark ==> g_iso_skipped >= 2 && I_PZ < str.len && !IDIG(I_PZ))
__CPROVER_ensures(RET && str.len > g_i_pe && g_i_mark && g_j >= 1 && g_j < g_iso_skipped ==> IDIG(g_i_pf + g_j))
/* zone */
__CPROVER_ensures(RET && str.len > g_i_pe && I_Z ==> *seconds_offset == 0)
__CPROVER_ensures(RET && str.len > g_i_pe && !I_Z ==>
                  *seconds_offset == (IB(I_PZ) == '-' ? -1 : 1) * (time_t)(IV2(I_PZ + 1) * 3600 + IV2(I_POM) * 60))
/* a refused text leaves no offset behind (the RFC 822 parser may run next under AUTO_DETECT and would inherit it) */
__CPROVER_ensures(!RET ==> *seconds_offset == 0)
;

/* ---- "returns ghost values" stand-ins for the two parsers (replace the calls in the entry-point units) ---------------
 * The harness fixes the ghost results (arbitrary); the stub hands them out and counts the call. */
bool g_iso_ret;
struct tm g_iso_tm;
time_t g_iso_off;
int g_iso_calls;
const uint8_t *g_iso_arg_ptr;
size_t g_iso_arg_len;
#define TM9_EQ(a, b)                                                                                                   \
    ((a).tm_sec == (b).tm_sec && (a).tm_min == (b).tm_min && (a).tm_hour == (b).tm_hour && (a).tm_mday == (b).tm_mday && \
     (a).tm_mon == (b).tm_mon && (a).tm_year == (b).tm_year && (a).tm_wday == (b).tm_wday && (a).tm_yday == (b).tm_yday && \
     (a).tm_isdst == (b).tm_isdst)
static bool c19_iso_stub(struct aws_byte_cursor str, struct tm *parsed_time, time_t *seconds_offset)
__CPROVER_requires(__CPROVER_rw_ok(parsed_time, sizeof(*parsed_time)) && __CPROVER_rw_ok(seconds_offset, sizeof(*seconds_offset)))
__CPROVER_assigns(*parsed_time, *seconds_offset, g_iso_calls, g_iso_arg_ptr, g_iso_arg_len)
__CPROVER_ensures(RET == g_iso_ret && TM9_EQ(*parsed_time, g_iso_tm))
/* what c19_iso_values_contract guarantees about the offset of a refused text */
__CPROVER_ensures(*seconds_offset == (g_iso_ret ? g_iso_off : 0))
__CPROVER_ensures(g_iso_calls == OLD(g_iso_calls) + 1 && g_iso_arg_ptr == str.ptr && g_iso_arg_len == str.len)
;

bool g_rfc_ret;
struct tm g_rfc_tm;
char g_rfc_tz[5];
int g_rfc_calls;
const struct aws_byte_cursor *g_rfc_arg;
/* zone text: up to five characters, NUL-padded (what the state machine stores: contracts/date_time.h, dt->tz[5] stays 0);
 * an accepted text with a zone has utc_assumed set, without a zone it is left alone (a refused text: unspecified) */
static bool c19_rfc822_stub(const struct aws_byte_cursor *date_str_cursor, struct tm *parsed_time, struct aws_date_time *dt)
__CPROVER_requires(__CPROVER_rw_ok(parsed_time, sizeof(*parsed_time)) && __CPROVER_rw_ok(dt, sizeof(*dt)))
__CPROVER_requires(DT_TZ_ZERO(dt))
__CPROVER_assigns(*parsed_time, __CPROVER_object_upto(dt->tz, 5), dt->utc_assumed, g_rfc_calls, g_rfc_arg)
__CPROVER_ensures(RET == g_rfc_ret && TM9_EQ(*parsed_time, g_rfc_tm))
__CPROVER_ensures(dt->tz[0] == g_rfc_tz[0] && dt->tz[1] == g_rfc_tz[1] && dt->tz[2] == g_rfc_tz[2] && dt->tz[3] == g_rfc_tz[3] && dt->tz[4] == g_rfc_tz[4] && dt->tz[5] == 0)
__CPROVER_ensures(RET ==> dt->utc_assumed == (OLD(dt->utc_assumed) || g_rfc_tz[0] != 0))
__CPROVER_ensures(g_rfc_calls == OLD(g_rfc_calls) + 1 && g_rfc_arg == date_str_cursor)
;

#define DTV_GHOST_RESET() do { DT_GHOST_RESET(); g_iso_rec_on = false; g_iso_calls = 0; g_rfc_calls = 0; } while (0)

#endif
