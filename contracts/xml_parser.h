/* Function contracts for source/xml_parser.c (property C04: total and memory-safe on arbitrary bytes; the C12 stand-in
 * uses the same file through a bounded harness).
 *
 * Central invariant (DESIGN 5/C04): the document is ONE object g_doc of g_doc_len bytes; parser->doc is always a
 * SUFFIX of that object (same object, offset + len == g_doc_len) and only ever moves forward; every view handed to the
 * user (node name, attribute name/value, body) lies INSIDE that object (IN_DOC).  The obligations of the property:
 *   - no out-of-bounds access      : CBMC pointer/bounds checks on the real code under these preconditions
 *   - no reachable fatal assert    : aws_fatal_assert is an assert(0) stub in the proof unit
 *   - termination                  : decreases clauses of the loop contracts (overlay/xml_parser.loops)
 *   - documented channel           : RET in {0,-1}; RET == -1 ==> an error code has been registered (g_last_error != 0)
 *   - views inside the input       : IN_DOC(...) post-conditions
 */
#ifndef VERIF_CONTRACTS_XML_PARSER_H
#define VERIF_CONTRACTS_XML_PARSER_H
#ifndef VERIF_TRACK_ERRORS
#    error "contracts/xml_parser.h needs VERIF_TRACK_ERRORS"
#endif
#include "contracts/common.h"
#include "contracts/byte_buf.h"
#include <aws/common/array_list.h>
#include <aws/common/logging.h>
#include <aws/common/private/xml_parser_impl.h>

#define POFF(p) __CPROVER_POINTER_OFFSET(p)
#define SAME(p, q) __CPROVER_same_object((p), (q))

/* ------------------------------------------------------------------ ghost: the document object */
uint8_t *g_doc;
size_t g_doc_len;
/* Positions inside the document are stated twice: as same-object/offset facts (checked at every replaced call site)
 * and - to give the pointer a VALUE in the unit that ENFORCES the contract, resp. behind a REPLACED call - through
 * __CPROVER_pointer_equals with a ghost offset (DESIGN 4.3, BUILD_GUIDE "pointer results of replaced contracts").
 * g_enf names the function whose contract the running unit enforces (set by its harness); for that function the ghost
 * offsets g_doc_off / g_name_off / g_decl_off are INPUTS chosen by the harness, for every other function they are
 * Skolem OUTPUTS of the replaced contract. */
enum { XF_NONE = 0, XF_ADV, XF_DECL, XF_SIB, XF_TRAV, XF_BODY, XF_PARSE, XF_CB, XF_ATTR };
int g_enf;
#define ENF(f) (g_enf == (f))
size_t g_doc_off;  /* offset of parser->doc inside the document */
size_t g_name_off; /* offset of node->name inside the document */
size_t g_decl_off; /* offset of the declaration text inside the document */
size_t g_cb_off;   /* where a callback / a replaced entry point left the parser */
size_t g_an_off, g_av_off; /* offsets of the witness attribute's name / value */
bool g_cb_room;   /* unit xml_callback_model only: the callback stack has room for one more entry */
#define AT_OFF(ptr, off) PEQ((ptr), g_doc + (off))
size_t g_fx;       /* Skolem witness of find_exact: offset of the match inside the searched cursor */
size_t g_ai;       /* arbitrary attribute index ("for all attributes") */

#define XML_GHOST_RESET() do { GHOST_RESET(); g_on = false; g_enf = XF_NONE; g_cb_room = false; } while (0)

/* the document object (possibly of size 0: then every access is flagged).  The NULL-with-zero-length document is run by the native
 * unit xml_arbitrary_native only. */
#define DOC_OK (g_doc_len < VERIF_HUGE && __CPROVER_is_fresh(g_doc, g_doc_len))
/* c (a struct aws_byte_cursor lvalue) lies inside the document */
#define IN_DOC(c) (SAME((c).ptr, g_doc) && POFF((c).ptr) <= g_doc_len && (c).len <= g_doc_len - POFF((c).ptr))
/* a zero-length view carries no bytes: any pointer is acceptable (next_split hands out "" for a NULL input) */
#define IN_DOC_OR_EMPTY(c) ((c).len == 0 || IN_DOC(c))
/* c is a suffix of the document */
#define SUFFIX(c) (SAME((c).ptr, g_doc) && POFF((c).ptr) <= g_doc_len && (c).len == g_doc_len - POFF((c).ptr))

/* ------------------------------------------------------------------ environment */

/* ASSUMED: no logger is installed (logging is not part of the property; the log call sites are then dead) */
struct aws_logger *aws_logger_get(void)
__CPROVER_requires(1)
__CPROVER_assigns()
__CPROVER_ensures(RET == NULL)
;


/* memchr over a piece of the DOCUMENT (ASSUMED, libc; same specification as the memchr contract of contracts/byte_buf.h:
 * first occurrence, Skolem position g_mm, universal part for the witness g_j).  The result is expressed relative to the
 * document object g_doc, not to s: inside a loop s derives from a havocked pointer that has no value set in CBMC, and a
 * dereference of the result would then be resolved against every object of the program (SAT conversion runs out of
 * memory). */
void *xmlc_memchr(const void *s, int c, size_t n)
__CPROVER_requires(SAME(s, g_doc) && POFF(s) <= g_doc_len && n <= g_doc_len - POFF(s))
__CPROVER_assigns(g_mm)
__CPROVER_ensures(RET == NULL ==> (g_j < n ==> U8P(s)[g_j] != (uint8_t)c))
__CPROVER_ensures(RET != NULL ==> g_mm < n && PEQ(RET, (void *)(g_doc + (POFF(s) + g_mm))) && g_doc[POFF(s) + g_mm] == (uint8_t)c &&
                  (g_j < g_mm ==> g_doc[POFF(s) + g_j] != (uint8_t)c))
;

/* aws_byte_cursor_find_exact as its callers in xml_parser.c see it (position-wise; content for one witness byte).
 * On success first_find is the REST of the input starting at the match (not just the match). */
int xmlc_find_exact(
    const struct aws_byte_cursor *AWS_RESTRICT input_str,
    const struct aws_byte_cursor *AWS_RESTRICT to_find,
    struct aws_byte_cursor *first_find)
__CPROVER_requires(__CPROVER_r_ok(input_str, sizeof(*input_str)) && __CPROVER_r_ok(to_find, sizeof(*to_find)))
__CPROVER_requires(__CPROVER_w_ok(first_find, sizeof(*first_find)))
__CPROVER_requires(input_str->len == 0 || __CPROVER_r_ok(input_str->ptr, input_str->len))
__CPROVER_requires(to_find->len == 0 || __CPROVER_r_ok(to_find->ptr, to_find->len))
__CPROVER_assigns(*first_find, g_fx, g_last_error, g_raise_count)
__CPROVER_ensures(RET == AWS_OP_SUCCESS || RET == AWS_OP_ERR)
__CPROVER_ensures(RET == AWS_OP_ERR ==> g_last_error != 0 && first_find->len == OLD(first_find->len) && first_find->ptr == OLD(first_find->ptr))
__CPROVER_ensures(RET == AWS_OP_SUCCESS ==> to_find->len >= 1 && to_find->len <= input_str->len && g_fx <= input_str->len - to_find->len &&
                  PEQ(first_find->ptr, input_str->ptr + g_fx) && first_find->len == input_str->len - g_fx)
__CPROVER_ensures(RET == AWS_OP_SUCCESS && g_j < to_find->len ==> input_str->ptr[g_fx + g_j] == to_find->ptr[g_j])
;


/* aws_byte_buf_append as s_advance_to_closing_tag needs it: lengths only, the WHOLE destination storage in the frame.
 * (The C01 contract frames the slice [len, len+n); havocking a symbolic slice of the 259-byte stack buffers costs
 * millions of SAT variables.)  Checked against the real aws_byte_buf_append by unit xml_append_lengths. */
int xmlc_append(struct aws_byte_buf *to, const struct aws_byte_cursor *from)
__CPROVER_requires(BUF_OK(to))
__CPROVER_requires(CUR_OK(from))
__CPROVER_assigns(APPEND_FITS(to, from) : to->len)
__CPROVER_assigns(APPEND_FITS(to, from) && from->len > 0 : __CPROVER_object_whole(to->buffer))
__CPROVER_assigns(!APPEND_FITS(to, from) : g_last_error, g_raise_count)
__CPROVER_ensures(RET == AWS_OP_SUCCESS || RET == AWS_OP_ERR)
__CPROVER_ensures((RET == AWS_OP_SUCCESS) == (OLD(to->capacity) - OLD(to->len) >= from->len))
__CPROVER_ensures(RET == AWS_OP_SUCCESS ==> to->len == OLD(to->len) + from->len)
__CPROVER_ensures(RET != AWS_OP_SUCCESS ==> to->len == OLD(to->len))
__CPROVER_ensures(BUF_SHAPE_KEPT(to))
;

/* ------------------------------------------------------------------ the callback stack (struct cb_stack_data of xml_parser.c:19,
 * mirrored here because the contracts precede the file) and the parser state every entry point requires/ensures */
struct xmlc_cb_entry {
    aws_xml_parser_on_node_encountered_fn *cb;
    void *user_data;
};
#define XML_ENTRY(p, i) (((struct xmlc_cb_entry *)(p)->callback_stack.data)[i])
/* header of a dynamic list of 16-byte entries; storage validity is stated separately (is_fresh in requires) */
#define XML_STACK_HDR_OK(p)                                                                                            \
    ((p)->callback_stack.item_size == sizeof(struct xmlc_cb_entry) && (p)->callback_stack.alloc != NULL &&             \
     (p)->callback_stack.current_size >= sizeof(struct xmlc_cb_entry) && (p)->callback_stack.current_size < VERIF_HUGE && \
     (p)->callback_stack.length <= (p)->callback_stack.current_size / sizeof(struct xmlc_cb_entry))
/* The enforcing units of aws_xml_node_traverse are instantiated per stack capacity (-DVERIF_XML_STACK_CAP=<entries>): a
 * symbolic capacity makes the SSA conversion run out of memory.  4 is what aws_xml_parse allocates; growth doubles it. */
#ifdef VERIF_XML_STACK_CAP
#    define XML_STACK_CAP_OK(p) ((p)->callback_stack.current_size == (size_t)(VERIF_XML_STACK_CAP) * sizeof(struct xmlc_cb_entry))
#else
#    define XML_STACK_CAP_OK(p) 1
#endif
#define XML_STACK_OK(p) (XML_STACK_HDR_OK(p) && XML_STACK_CAP_OK(p) && __CPROVER_is_fresh((p)->callback_stack.data, (p)->callback_stack.current_size))
/* the next push has to grow the storage */
#define XML_STACK_FULL(p) ((p)->callback_stack.current_size / sizeof(struct xmlc_cb_entry) <= (p)->callback_stack.length)
#define XML_ERR_OK(p) ((p)->error == 0 || ((p)->error == AWS_OP_ERR && g_last_error != 0))


/* aws_array_list_push_back / aws_array_list_pop_back on the callback stack as aws_xml_node_traverse needs them: header
 * facts only.  Checked against the real inline functions (and aws_array_list_ensure_capacity) by the units
 * xml_stack_push / xml_stack_pop. */
#define XML_LIST_HDR_OK(l)                                                                                             \
    ((l)->item_size == sizeof(struct xmlc_cb_entry) && (l)->alloc != NULL && (l)->current_size >= sizeof(struct xmlc_cb_entry) && \
     (l)->current_size < VERIF_HUGE && (l)->length <= (l)->current_size / sizeof(struct xmlc_cb_entry))
#define XML_LIST_FULL(l) ((l)->current_size / sizeof(struct xmlc_cb_entry) <= (l)->length)
#define XML_LIST_FULL_OLD(l) (OLD((l)->current_size) / sizeof(struct xmlc_cb_entry) <= OLD((l)->length))
int xmlc_stack_push(struct aws_array_list *AWS_RESTRICT list, const void *val)
__CPROVER_requires(__CPROVER_is_fresh(list, sizeof(*list)) && XML_LIST_HDR_OK(list) && __CPROVER_is_fresh(list->data, list->current_size))
__CPROVER_requires(__CPROVER_is_fresh(val, sizeof(struct xmlc_cb_entry)))
__CPROVER_assigns(list->length, __CPROVER_object_whole(list->data))
__CPROVER_assigns(XML_LIST_FULL(list) : list->data, list->current_size)
__CPROVER_frees(XML_LIST_FULL(list) : list->data)
__CPROVER_ensures(RET == AWS_OP_SUCCESS && list->length == OLD(list->length) + 1 && XML_LIST_HDR_OK(list) && list->alloc == OLD(list->alloc))
__CPROVER_ensures(!XML_LIST_FULL_OLD(list) ==> list->current_size == OLD(list->current_size) && PEQ(list->data, OLD(list->data)))
__CPROVER_ensures(XML_LIST_FULL_OLD(list) ==> list->current_size == 2 * OLD(list->current_size) && __CPROVER_is_fresh(list->data, list->current_size))
;
int xmlc_stack_pop(struct aws_array_list *AWS_RESTRICT list)
__CPROVER_requires(__CPROVER_is_fresh(list, sizeof(*list)) && XML_LIST_HDR_OK(list) && __CPROVER_is_fresh(list->data, list->current_size))
__CPROVER_assigns(list->length > 0 : list->length, __CPROVER_object_whole(list->data))
__CPROVER_assigns(list->length == 0 : g_last_error, g_raise_count)
__CPROVER_ensures(RET == AWS_OP_SUCCESS || RET == AWS_OP_ERR)
__CPROVER_ensures(list->length == (OLD(list->length) > 0 ? OLD(list->length) - 1 : 0) && XML_LIST_HDR_OK(list))
;

/* requires: parser->doc is a suffix of the document (f: the function this clause belongs to) */
#define XML_REQ_DOC(f, p)                                                                                              \
    __CPROVER_requires(DOC_OK)                                                                                          \
    __CPROVER_requires(ENF(f) ==> g_doc_off <= g_doc_len && AT_OFF((p)->doc.ptr, g_doc_off))                            \
    __CPROVER_requires(SUFFIX((p)->doc))
/* ensures: still a suffix, moved forward only; behind a replaced call the new position is g_cb_off */
#define XML_ENS_DOC(f, p)                                                                                              \
    __CPROVER_ensures(!ENF(f) ==> g_cb_off <= g_doc_len && AT_OFF((p)->doc.ptr, g_cb_off))                              \
    __CPROVER_ensures(SUFFIX((p)->doc) && POFF((p)->doc.ptr) >= POFF(OLD((p)->doc.ptr)))
/* requires: node sits at the parser's position, not consumed yet, its name inside the document */
#define XML_REQ_NODE(f, node)                                                                                          \
    __CPROVER_requires(PEQ((node)->doc_at_body.ptr, (node)->parser->doc.ptr) && (node)->doc_at_body.len == (node)->parser->doc.len) \
    __CPROVER_requires(ENF(f) ==> g_name_off <= g_doc_len && AT_OFF((node)->name.ptr, g_name_off))                      \
    __CPROVER_requires(IN_DOC((node)->name))                                                                            \
    __CPROVER_requires((node)->parser->error == 0)
#define XML_SCRATCH_FRAME(p)                                                                                           \
    __CPROVER_assigns(__CPROVER_object_upto((uint8_t *)(p)->attributes, sizeof((p)->attributes)))                       \
    __CPROVER_assigns(__CPROVER_object_upto((uint8_t *)(p)->split_scratch, sizeof((p)->split_scratch)))

/* ------------------------------------------------------------------ what a user callback may do (DESIGN 4.6) - ASSUMED for
 * user code, and checked against a sample callback that takes every legal action (unit xml_callback_model):
 * leave the node alone (then the parser is exactly where it was), or consume it through aws_xml_node_as_body /
 * aws_xml_node_traverse (then the parser has moved forward to some suffix of the document, node->processed is set and
 * parser->error may be set).  Any return value; a non-zero one comes with a registered error code (error convention).
 * The callback stack: only its length and contents may differ afterwards (nested traversals push/pop); re-allocation of
 * its storage inside the callback is not modelled - the parser re-reads the list header on every use. */
int xml_cb_contract(struct aws_xml_node *node, void *user_data)
__CPROVER_requires(__CPROVER_is_fresh(node, sizeof(*node)) && __CPROVER_is_fresh(node->parser, sizeof(*node->parser)))
XML_REQ_DOC(XF_CB, node->parser)
XML_REQ_NODE(XF_CB, node)
__CPROVER_requires(!node->processed)
__CPROVER_requires(XML_STACK_OK(node->parser))
__CPROVER_requires(g_cb_room ==> !XML_STACK_FULL(node->parser))
__CPROVER_assigns(node->processed, node->parser->doc.ptr, node->parser->doc.len, node->parser->error, node->parser->callback_stack.length)
XML_SCRATCH_FRAME(node->parser)
__CPROVER_assigns(__CPROVER_object_whole(node->parser->callback_stack.data))
__CPROVER_assigns(g_cb_off, g_name_off, g_an_off, g_av_off, g_fx, g_mm, g_last_error, g_raise_count)
__CPROVER_ensures(RET != 0 ==> g_last_error != 0)
__CPROVER_ensures(XML_ERR_OK(node->parser) && XML_STACK_HDR_OK(node->parser))
XML_ENS_DOC(XF_CB, node->parser)
__CPROVER_ensures(!node->processed ==> node->parser->error == 0 && POFF(node->parser->doc.ptr) == POFF(OLD(node->parser->doc.ptr)))
;

/* ------------------------------------------------------------------ s_load_node_decl: "<" decl_body ">" with decl_body a view
 * INSIDE the document that starts behind a '<' (offset >= 1).  Name and every attribute name/value are views inside
 * decl_body; at most 10 attributes, stored in parser->attributes. */
/* c lies inside the view d (both inside the document) */
#define XML_IN_VIEW(c, d) (SAME((c).ptr, g_doc) && POFF((c).ptr) >= POFF((d)->ptr) && POFF((c).ptr) - POFF((d)->ptr) <= (d)->len && \
                           (c).len <= (d)->len - (POFF((c).ptr) - POFF((d)->ptr)))
static int s_load_node_decl(struct aws_xml_parser *parser, struct aws_byte_cursor *decl_body, struct aws_xml_node *node)
__CPROVER_requires(__CPROVER_is_fresh(parser, sizeof(*parser)) && __CPROVER_is_fresh(node, sizeof(*node)) && __CPROVER_is_fresh(decl_body, sizeof(*decl_body)))
__CPROVER_requires(DOC_OK)
__CPROVER_requires(ENF(XF_DECL) ==> g_decl_off <= g_doc_len && AT_OFF(decl_body->ptr, g_decl_off))
__CPROVER_requires(IN_DOC(*decl_body) && POFF(decl_body->ptr) >= 1)
__CPROVER_requires(node->attributes.length == 0 && node->attributes.data == NULL && node->attributes.current_size == 0 && node->attributes.item_size == 0 && node->attributes.alloc == NULL)
__CPROVER_assigns(node->is_empty, node->name, node->attributes, g_name_off, g_an_off, g_av_off, g_mm, g_last_error, g_raise_count)
XML_SCRATCH_FRAME(parser)
__CPROVER_ensures(RET == AWS_OP_SUCCESS || RET == AWS_OP_ERR)
__CPROVER_ensures(RET == AWS_OP_ERR ==> g_last_error == AWS_ERROR_INVALID_XML)
__CPROVER_ensures(!ENF(XF_DECL) && RET == AWS_OP_SUCCESS ==> g_name_off <= g_doc_len && AT_OFF(node->name.ptr, g_name_off))
__CPROVER_ensures(RET == AWS_OP_SUCCESS ==> XML_IN_VIEW(node->name, decl_body))
/* no attribute: the list is still the empty one; otherwise a static list over parser->attributes with <= 10 entries */
__CPROVER_ensures(RET == AWS_OP_SUCCESS ==> (node->attributes.length == 0 && node->attributes.data == NULL) ||
                  (node->attributes.length <= 10 && node->attributes.item_size == sizeof(struct aws_xml_attribute) &&
                   node->attributes.current_size == sizeof(parser->attributes) && node->attributes.alloc == NULL &&
                   PEQ(node->attributes.data, (void *)parser->attributes)))
__CPROVER_ensures(!ENF(XF_DECL) && RET == AWS_OP_SUCCESS && g_ai < node->attributes.length ==>
                  g_an_off <= g_doc_len && AT_OFF(parser->attributes[g_ai].name.ptr, g_an_off) &&
                  g_av_off <= g_doc_len && AT_OFF(parser->attributes[g_ai].value.ptr, g_av_off))
__CPROVER_ensures(RET == AWS_OP_SUCCESS && g_ai < node->attributes.length ==>
                  (parser->attributes[g_ai].name.len == 0 || XML_IN_VIEW(parser->attributes[g_ai].name, decl_body)) &&
                  (parser->attributes[g_ai].value.len == 0 || XML_IN_VIEW(parser->attributes[g_ai].value, decl_body)))
;

/* ------------------------------------------------------------------ s_advance_to_closing_tag
 * Every call site has parser->doc == node->doc_at_body (a callback that left the node alone cannot have moved the
 * parser) and parser->error == 0 (DESIGN 5/C04). */
int s_advance_to_closing_tag(struct aws_xml_parser *parser, struct aws_xml_node *node, struct aws_byte_cursor *out_body)
__CPROVER_requires(__CPROVER_is_fresh(parser, sizeof(*parser)) && __CPROVER_is_fresh(node, sizeof(*node)))
__CPROVER_requires(ENF(XF_ADV) ==> PEQ(node->parser, parser))
__CPROVER_requires(node->parser == parser)
XML_REQ_DOC(XF_ADV, parser)
XML_REQ_NODE(XF_ADV, node)
__CPROVER_requires(out_body == NULL || __CPROVER_is_fresh(out_body, sizeof(*out_body)))
__CPROVER_assigns(parser->doc.ptr, parser->doc.len, parser->error, g_cb_off, g_fx, g_mm, g_last_error, g_raise_count)
__CPROVER_assigns(out_body != NULL : *out_body)
__CPROVER_ensures(RET == AWS_OP_SUCCESS || RET == AWS_OP_ERR)
__CPROVER_ensures(RET == AWS_OP_ERR ==> g_last_error == AWS_ERROR_INVALID_XML)
__CPROVER_ensures(parser->error == 0 || (parser->error == AWS_OP_ERR && RET == AWS_OP_ERR))
XML_ENS_DOC(XF_ADV, parser)
/* an empty element <a/> has no body and no closing tag */
__CPROVER_ensures(node->is_empty ==> RET == AWS_OP_SUCCESS && parser->doc.len == OLD(parser->doc.len) &&
                  (out_body != NULL ==> out_body->ptr == NULL && out_body->len == 0))
/* success: the name fits the compare buffers and the parser sits behind a "</name>" */
__CPROVER_ensures(!node->is_empty && RET == AWS_OP_SUCCESS ==> node->name.len <= 256 && parser->doc.len < OLD(parser->doc.len))
/* the body starts where the parser was and ends before the parser's new position, inside the document */
__CPROVER_ensures(!node->is_empty && RET == AWS_OP_SUCCESS && out_body != NULL ==>
                  PEQ(out_body->ptr, node->doc_at_body.ptr) && out_body->len <= OLD(parser->doc.len) &&
                  POFF(parser->doc.ptr) - (node->name.len + 3) - POFF(node->doc_at_body.ptr) == out_body->len)
;

/* ------------------------------------------------------------------ entry points used by callbacks */
int aws_xml_node_as_body(struct aws_xml_node *node, struct aws_byte_cursor *out_body)
__CPROVER_requires(__CPROVER_is_fresh(node, sizeof(*node)) && __CPROVER_is_fresh(node->parser, sizeof(*node->parser)))
XML_REQ_DOC(XF_BODY, node->parser)
XML_REQ_NODE(XF_BODY, node)
__CPROVER_requires(!node->processed) /* a node is read as body OR traversed, once: otherwise the documented fatal assert */
__CPROVER_requires(out_body == NULL || __CPROVER_is_fresh(out_body, sizeof(*out_body)))
__CPROVER_assigns(node->processed, node->parser->doc.ptr, node->parser->doc.len, node->parser->error, g_cb_off, g_fx, g_mm, g_last_error, g_raise_count)
__CPROVER_assigns(out_body != NULL : *out_body)
__CPROVER_ensures(RET == AWS_OP_SUCCESS || RET == AWS_OP_ERR)
__CPROVER_ensures(node->processed)
__CPROVER_ensures(RET == AWS_OP_ERR ==> g_last_error == AWS_ERROR_INVALID_XML)
__CPROVER_ensures(node->parser->error == 0 || (node->parser->error == AWS_OP_ERR && RET == AWS_OP_ERR))
XML_ENS_DOC(XF_BODY, node->parser)
__CPROVER_ensures(RET == AWS_OP_SUCCESS && out_body != NULL ==> out_body->len == 0 || (IN_DOC(*out_body) && PEQ(out_body->ptr, node->doc_at_body.ptr)))
;

/* descending: every child is announced to a callback obeying xml_cb_contract; returns at the parent's closing tag */
int aws_xml_node_traverse(struct aws_xml_node *node, aws_xml_parser_on_node_encountered_fn *on_node_encountered, void *user_data)
__CPROVER_requires(__CPROVER_is_fresh(node, sizeof(*node)) && __CPROVER_is_fresh(node->parser, sizeof(*node->parser)))
XML_REQ_DOC(XF_TRAV, node->parser)
XML_REQ_NODE(XF_TRAV, node)
__CPROVER_requires(!node->processed) /* a node is read as body OR traversed, once: otherwise the documented fatal assert */
__CPROVER_requires(__CPROVER_obeys_contract(on_node_encountered, xml_cb_contract))
__CPROVER_requires(XML_STACK_OK(node->parser))
__CPROVER_assigns(node->processed, node->parser->doc.ptr, node->parser->doc.len, node->parser->error)
__CPROVER_assigns(node->parser->callback_stack.length)
__CPROVER_assigns(XML_STACK_FULL(node->parser) : node->parser->callback_stack.data, node->parser->callback_stack.current_size)
__CPROVER_assigns(__CPROVER_object_whole(node->parser->callback_stack.data))
__CPROVER_frees(XML_STACK_FULL(node->parser) : node->parser->callback_stack.data)
XML_SCRATCH_FRAME(node->parser)
__CPROVER_assigns(g_cb_off, g_name_off, g_an_off, g_av_off, g_fx, g_mm, g_last_error, g_raise_count)
__CPROVER_ensures(RET == AWS_OP_SUCCESS || RET == AWS_OP_ERR)
__CPROVER_ensures(node->processed)
__CPROVER_ensures(RET == AWS_OP_ERR ==> g_last_error != 0)
__CPROVER_ensures(XML_ERR_OK(node->parser) && (node->parser->error == AWS_OP_ERR ==> RET == AWS_OP_ERR))
XML_ENS_DOC(XF_TRAV, node->parser)
__CPROVER_ensures(XML_STACK_HDR_OK(node->parser))
;

/* the root element: announced to the callback on top of the callback stack */
int s_node_next_sibling(struct aws_xml_parser *parser)
__CPROVER_requires(__CPROVER_is_fresh(parser, sizeof(*parser)))
XML_REQ_DOC(XF_SIB, parser)
__CPROVER_requires(parser->error == 0)
__CPROVER_requires(XML_STACK_OK(parser) && parser->callback_stack.length >= 1)
__CPROVER_requires(__CPROVER_obeys_contract(XML_ENTRY(parser, parser->callback_stack.length - 1).cb, xml_cb_contract))
__CPROVER_assigns(parser->doc.ptr, parser->doc.len, parser->error, parser->callback_stack.length)
__CPROVER_assigns(__CPROVER_object_whole(parser->callback_stack.data))
XML_SCRATCH_FRAME(parser)
__CPROVER_assigns(g_cb_off, g_name_off, g_an_off, g_av_off, g_fx, g_mm, g_last_error, g_raise_count)
__CPROVER_ensures(RET == AWS_OP_SUCCESS || RET == AWS_OP_ERR)
__CPROVER_ensures(RET == AWS_OP_ERR ==> g_last_error != 0)
__CPROVER_ensures(XML_ERR_OK(parser) && (parser->error == AWS_OP_ERR ==> RET == AWS_OP_ERR))
XML_ENS_DOC(XF_SIB, parser)
__CPROVER_ensures(XML_STACK_HDR_OK(parser))
;

/* the public entry point: any bytes, any max_depth; 0 or -1, -1 only with a registered error code */
int aws_xml_parse(struct aws_allocator *allocator, const struct aws_xml_parser_options *options)
__CPROVER_requires(allocator != NULL && __CPROVER_is_fresh(options, sizeof(*options)))
__CPROVER_requires(DOC_OK && PEQ(options->doc.ptr, g_doc) && options->doc.len == g_doc_len)
__CPROVER_requires(__CPROVER_obeys_contract(options->on_root_encountered, xml_cb_contract))
__CPROVER_assigns(g_cb_off, g_name_off, g_an_off, g_av_off, g_fx, g_mm, g_last_error, g_raise_count)
__CPROVER_ensures(RET == AWS_OP_SUCCESS || RET == AWS_OP_ERR)
__CPROVER_ensures(RET == AWS_OP_ERR ==> g_last_error != 0)
;

/* attribute accessor: index below the count, or the (documented) fatal assert - the caller owes the index */
struct aws_xml_attribute aws_xml_node_get_attribute(const struct aws_xml_node *node, size_t attribute_index)
__CPROVER_requires(__CPROVER_is_fresh(node, sizeof(*node)))
__CPROVER_requires(node->attributes.item_size == sizeof(struct aws_xml_attribute) && node->attributes.length <= 10 &&
                   node->attributes.current_size == 10 * sizeof(struct aws_xml_attribute) &&
                   __CPROVER_is_fresh(node->attributes.data, 10 * sizeof(struct aws_xml_attribute)))
__CPROVER_requires(attribute_index < node->attributes.length)
__CPROVER_assigns()
__CPROVER_ensures(RET.name.len == ((struct aws_xml_attribute *)node->attributes.data)[attribute_index].name.len &&
                  RET.name.ptr == ((struct aws_xml_attribute *)node->attributes.data)[attribute_index].name.ptr &&
                  RET.value.len == ((struct aws_xml_attribute *)node->attributes.data)[attribute_index].value.len &&
                  RET.value.ptr == ((struct aws_xml_attribute *)node->attributes.data)[attribute_index].value.ptr)
;

#endif
