/* Function contracts for source/xml_parser.c (property C04: total and memory-safe on arbitrary bytes; the C12 stand-in
 * uses the same file through a bounded harness).
 *
 * Central invariant (DESIGN 5/C04): the document is ONE object g_doc of g_doc_len bytes; parser->doc is always a
 * SUFFIX of that object (same object, offset + len == g_doc_len) and only ever moves forward; every view handed to the
 * user (node name, attribute name/value, body) lies INSIDE that object (IN_DOC).  The obligations of the property:
 *   - no out-of-bounds access      : CBMC pointer/bounds checks on the real code under these preconditions
 *   - no reachable fatal assert    : aws_fatal_assert is an assert(0) stub in the proof unit
 *   - termination                  : decreases clauses of the loop contracts (overlay/xml_parser.loops)
 *   - documented channel           : RET in {0,-1}; RET == -1 ==> an error code has been registered (g_last_error != 0)
 *   - views inside the input       : IN_DOC(...) post-conditions
 */
#ifndef VERIF_CONTRACTS_XML_PARSER_H
#define VERIF_CONTRACTS_XML_PARSER_H
#ifndef VERIF_TRACK_ERRORS
#    error "contracts/xml_parser.h needs VERIF_TRACK_ERRORS"
#endif
#include "contracts/common.h"
#include "contracts/byte_buf.h"
#include <aws/common/array_list.h>
#include <aws/common/logging.h>
#include <aws/common/private/xml_parser_impl.h>

#define POFF(p) __CPROVER_POINTER_OFFSET(p)
#define SAME(p, q) __CPROVER_same_object((p), (q))

/* ------------------------------------------------------------------ ghost: the document object */
uint8_t *g_doc;
size_t g_doc_len;
size_t g_doc_off;  /* offset of parser->doc inside the document when a contract is enforced */
size_t g_name_off; /* offset of node->name inside the document */
size_t g_fx;       /* Skolem witness of find_exact: offset of the match inside the searched cursor */
size_t g_ai;       /* arbitrary attribute index ("for all attributes") */

#define XML_GHOST_RESET() do { GHOST_RESET(); g_on = false; } while (0)

/* the document object; the empty document may be the NULL view */
#define DOC_OK (g_doc_len < VERIF_HUGE && ((g_doc_len == 0 && g_doc == NULL) || __CPROVER_is_fresh(g_doc, g_doc_len)))
/* c (a struct aws_byte_cursor lvalue) lies inside the document */
#define IN_DOC(c) (SAME((c).ptr, g_doc) && POFF((c).ptr) <= g_doc_len && (c).len <= g_doc_len - POFF((c).ptr))
/* a zero-length view carries no bytes: any pointer is acceptable (next_split hands out "" for a NULL input) */
#define IN_DOC_OR_EMPTY(c) ((c).len == 0 || IN_DOC(c))
/* c is a suffix of the document */
#define SUFFIX(c) (SAME((c).ptr, g_doc) && POFF((c).ptr) <= g_doc_len && (c).len == g_doc_len - POFF((c).ptr))

/* ------------------------------------------------------------------ environment */

/* ASSUMED: no logger is installed (logging is not part of the property; the log call sites are then dead) */
struct aws_logger *aws_logger_get(void)
__CPROVER_requires(1)
__CPROVER_assigns()
__CPROVER_ensures(RET == NULL)
;

/* aws_byte_cursor_find_exact as its callers in xml_parser.c see it (position-wise; content for one witness byte).
 * On success first_find is the REST of the input starting at the match (not just the match). */
int xmlc_find_exact(
    const struct aws_byte_cursor *AWS_RESTRICT input_str,
    const struct aws_byte_cursor *AWS_RESTRICT to_find,
    struct aws_byte_cursor *first_find)
__CPROVER_requires(__CPROVER_r_ok(input_str, sizeof(*input_str)) && __CPROVER_r_ok(to_find, sizeof(*to_find)))
__CPROVER_requires(__CPROVER_w_ok(first_find, sizeof(*first_find)))
__CPROVER_requires(input_str->len == 0 || __CPROVER_r_ok(input_str->ptr, input_str->len))
__CPROVER_requires(to_find->len == 0 || __CPROVER_r_ok(to_find->ptr, to_find->len))
__CPROVER_assigns(*first_find, g_fx, g_last_error, g_raise_count)
__CPROVER_ensures(RET == AWS_OP_SUCCESS || RET == AWS_OP_ERR)
__CPROVER_ensures(RET == AWS_OP_ERR ==> g_last_error != 0 && first_find->len == OLD(first_find->len) && first_find->ptr == OLD(first_find->ptr))
__CPROVER_ensures(RET == AWS_OP_SUCCESS ==> to_find->len >= 1 && to_find->len <= input_str->len && g_fx <= input_str->len - to_find->len &&
                  PEQ(first_find->ptr, input_str->ptr + g_fx) && first_find->len == input_str->len - g_fx)
__CPROVER_ensures(RET == AWS_OP_SUCCESS && g_j < to_find->len ==> input_str->ptr[g_fx + g_j] == to_find->ptr[g_j])
;


/* aws_byte_buf_append as s_advance_to_closing_tag needs it: lengths only, the WHOLE destination storage in the frame.
 * (The C01 contract frames the slice [len, len+n); havocking a symbolic slice of the 259-byte stack buffers costs
 * millions of SAT variables.)  Checked against the real aws_byte_buf_append by unit xml_append_lengths. */
int xmlc_append(struct aws_byte_buf *to, const struct aws_byte_cursor *from)
__CPROVER_requires(BUF_OK(to))
__CPROVER_requires(CUR_OK(from))
__CPROVER_assigns(APPEND_FITS(to, from) : to->len)
__CPROVER_assigns(APPEND_FITS(to, from) && from->len > 0 : __CPROVER_object_whole(to->buffer))
__CPROVER_ensures(RET == AWS_OP_SUCCESS || RET == AWS_OP_ERR)
__CPROVER_ensures((RET == AWS_OP_SUCCESS) == (OLD(to->capacity) - OLD(to->len) >= from->len))
__CPROVER_ensures(RET == AWS_OP_SUCCESS ==> to->len == OLD(to->len) + from->len)
__CPROVER_ensures(RET != AWS_OP_SUCCESS ==> to->len == OLD(to->len))
__CPROVER_ensures(BUF_SHAPE_KEPT(to))
;

/* ------------------------------------------------------------------ s_advance_to_closing_tag
 * Every call site has parser->doc == node->doc_at_body (a callback that left the node alone cannot have moved the
 * parser) and parser->error == 0 (DESIGN 5/C04). */
#define XML_PARSER_NODE_REQ                                                                                            \
    __CPROVER_requires(__CPROVER_is_fresh(parser, sizeof(*parser)) && __CPROVER_is_fresh(node, sizeof(*node)))          \
    __CPROVER_requires(DOC_OK)                                                                                          \
    __CPROVER_requires(g_doc_off <= g_doc_len && PEQ(parser->doc.ptr, g_doc_len == 0 ? g_doc : g_doc + g_doc_off) &&    \
                       parser->doc.len == g_doc_len - g_doc_off)                                                        \
    __CPROVER_requires(PEQ(node->doc_at_body.ptr, parser->doc.ptr) && node->doc_at_body.len == parser->doc.len)        \
    __CPROVER_requires(g_name_off <= g_doc_len && PEQ(node->name.ptr, g_doc_len == 0 ? g_doc : g_doc + g_name_off) &&   \
                       node->name.len <= g_doc_len - g_name_off)                                                        \
    __CPROVER_requires(parser->error == 0)

int s_advance_to_closing_tag(struct aws_xml_parser *parser, struct aws_xml_node *node, struct aws_byte_cursor *out_body)
XML_PARSER_NODE_REQ
__CPROVER_requires(out_body == NULL || __CPROVER_is_fresh(out_body, sizeof(*out_body)))
__CPROVER_assigns(parser->doc.ptr, parser->doc.len, parser->error, g_fx, g_last_error, g_raise_count)
__CPROVER_assigns(out_body != NULL : *out_body)
__CPROVER_ensures(RET == AWS_OP_SUCCESS || RET == AWS_OP_ERR)
__CPROVER_ensures(RET == AWS_OP_ERR ==> g_last_error == AWS_ERROR_INVALID_XML)
__CPROVER_ensures(parser->error == 0 || (parser->error == AWS_OP_ERR && RET == AWS_OP_ERR))
__CPROVER_ensures(SUFFIX(parser->doc) && POFF(parser->doc.ptr) >= POFF(OLD(parser->doc.ptr)))
/* an empty element <a/> has no body and no closing tag */
__CPROVER_ensures(node->is_empty ==> RET == AWS_OP_SUCCESS && parser->doc.len == OLD(parser->doc.len) &&
                  (out_body != NULL ==> out_body->ptr == NULL && out_body->len == 0))
/* success: the parser sits behind "</name>", at least name.len + 3 bytes further on */
__CPROVER_ensures(!node->is_empty && RET == AWS_OP_SUCCESS ==>
                  OLD(parser->doc.len) - parser->doc.len >= node->name.len + 3 && node->name.len <= 256)
/* the body starts where the parser was and ends where that closing tag starts */
__CPROVER_ensures(!node->is_empty && RET == AWS_OP_SUCCESS && out_body != NULL ==>
                  PEQ(out_body->ptr, node->doc_at_body.ptr) &&
                  out_body->len == OLD(parser->doc.len) - parser->doc.len - (node->name.len + 3))
/* ... and the bytes right behind the body are "</name>" (stated for the arbitrary position g_j of that tag) */
__CPROVER_ensures(g_on && !node->is_empty && RET == AWS_OP_SUCCESS && out_body != NULL && g_j < node->name.len + 3 ==>
                  out_body->ptr[out_body->len + g_j] ==
                      (g_j == 0 ? '<' : g_j == 1 ? '/' : g_j == node->name.len + 2 ? '>' : node->name.ptr[g_j - 2]))
;

#endif
