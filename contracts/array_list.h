/* Function contracts for include/aws/common/array_list.inl and source/array_list.c (property C09).
 *
 * The element size is a PARAMETER of the proof: every unit is compiled with -DVERIF_ITEM_SIZE=<n> and the
 * contracts fix list->item_size == ISZ (symbolic x symbolic size products do not terminate in SAT, DESIGN §2).
 * Length, capacity (current_size), indices and all contents are fully symbolic.
 *
 * View of a list = (length, bytes [0, length*ISZ) of data).  Each contract states the reference-sequence update
 * of that view for ONE arbitrary byte (ghost witnesses, DESIGN §4.3):
 *   g_k / g_old : offset of an arbitrary byte of the old storage and its old value (captured in requires)
 *   g_j         : offset of an arbitrary byte inside one element / inside the source
 * together with a frame (assigns) that is conditional on the exact success condition, so that "everything else is
 * unchanged" and "failure changes nothing" are frame obligations.
 * Error codes are tracked through the ghost g_last_error (contracts/common.h, VERIF_TRACK_ERRORS).
 */
#ifndef VERIF_CONTRACTS_ARRAY_LIST_H
#define VERIF_CONTRACTS_ARRAY_LIST_H
#ifndef VERIF_TRACK_ERRORS
#    error "contracts/array_list.h needs VERIF_TRACK_ERRORS (define it before the first contracts include)"
#endif
#include "contracts/common.h"
#include "contracts/allocator.h"
#include <aws/common/array_list.h>
#include <aws/common/private/array_list.h>
#include <stdlib.h>

#ifndef VERIF_ITEM_SIZE
#    error "define VERIF_ITEM_SIZE (element size this unit is instantiated for)"
#endif
#define ISZ ((size_t)(VERIF_ITEM_SIZE))

#ifndef RET
#    define RET __CPROVER_return_value
#endif
#ifndef OLD
#    define OLD __CPROVER_old
#endif
#ifndef PEQ
#    define PEQ(p, q) __CPROVER_pointer_equals((p), (q))
#endif

/* ---- ghost state of this module ---- */
uint8_t g_va, g_vb; /* swap: byte g_j of element a / of element b before the call */
/* arguments of the last qsort call (aws_array_list_sort hands the live range to libc) */
const void *g_qs_base;
size_t g_qs_n, g_qs_sz, g_qs_calls;
aws_array_list_comparator_fn *g_qs_cmp;

size_t g_mm;        /* memmove: offset (inside the moved range) of the witness byte */

/* replay variables (DESIGN 3.5).  The driver extracts the LAST value of every field of the list object from the
 * counterexample trace, i.e. the post-state.  The pre-state that the native replay (replay/array_list_replay.c) rebuilds
 * is recorded in ghost scalars which the harness leaves arbitrary and AL_REQ_OK ties to the list by a ghost-guarded
 * requires clause: the ghosts are free, so no input is restricted; r_al_on is set by the harnesses only (false after
 * AL_GHOST_RESET), and where a contract replaces a call inside the function under proof the list is still in its
 * pre-state at that call (every such call is the function's first action on the list), so the clause holds there.
 * r_*2: the second list of copy (to) and swap_contents (list_b). */
bool r_al_on, r_dynamic, r_dynamic2;
size_t r_length, r_current_size, r_length2, r_current_size2;
#define AL_REQ_REPLAY(l, LEN, CUR, DYN)                                                                                \
    __CPROVER_requires(r_al_on ==> (LEN) == (l)->length && (CUR) == (l)->current_size && (DYN) == ((l)->alloc != NULL))

/* ---- arithmetic lemmas.  SAT cannot derive distributivity / monotonicity of x*ISZ at 64 bits in reasonable time
 * when ISZ is not a power of two.  Each AL_LEM_* below is a formula over size_t scalars that is VALID FOR ALL VALUES
 * (a modular identity, or an implication whose hypothesis is part of the list invariant); each is proved in a unit
 * of its own (units lemma_*_s<size>, pure arithmetic, no memory).  The contract of the function that needs it states
 * the instance as `requires(g_lemma == AL_FN_x ==> lemma)`: a valid formula restricts no input, it only hands the
 * fact to the solver; the ghost guard keeps it out of the way where the contract replaces a call. */
int g_lemma;
enum { AL_FN_NONE = 0, AL_FN_ERASE, AL_FN_POP_FRONT_N, AL_FN_POP_FRONT, AL_FN_SWAP, AL_FN_SET_AT, AL_FN_PUSH_BACK, AL_FN_PUSH_FRONT };
#define AL_LEN_MAX (SIZE_MAX / ISZ)
/* erase(i) of len elements: head part + erased slot + moved tail = everything; the parts do not exceed the whole */
#define AL_LEM_ERASE(i, len)                                                                                           \
    ((i) < (len) && (len) <= AL_LEN_MAX ==>                                                                            \
     (i) * ISZ + ISZ + (((len) - (i)) - 1) * ISZ == (len) * ISZ && (i) * ISZ + ISZ <= (len) * ISZ &&                   \
         (i) * ISZ < (i) * ISZ + ISZ && (((len) - (i)) - 1) * ISZ <= (len) * ISZ && ((len) - 1) * ISZ + ISZ == (len) * ISZ)
/* slot i of a list of len elements in cur bytes lies inside the storage */
#define AL_LEM_SLOT(i, len, cur)                                                                                       \
    ((i) < (len) && (len) <= AL_LEN_MAX && (len) * ISZ <= (cur) ==> (i) * ISZ + ISZ <= (cur) && (i) * ISZ < (i) * ISZ + ISZ)
/* slot a ends before slot b begins */
#define AL_LEM_ORD(a, b) ((a) < (b) && (b) <= AL_LEN_MAX ==> (a) * ISZ + ISZ <= (b) * ISZ)
/* pop_front_n(n) of len elements: popped bytes + remaining bytes = everything */
#define AL_LEM_POPN(n, len)                                                                                            \
    ((n) < (len) && (len) <= AL_LEN_MAX ==>                                                                            \
     (n) * ISZ + ((len) - (n)) * ISZ == (len) * ISZ && (n) * ISZ <= (len) * ISZ && ((len) - (n)) * ISZ <= (len) * ISZ)
/* one more element: (i+1)*ISZ is i*ISZ + ISZ, without wrap-around */
#define AL_LEM_NEXT(i) ((i) < AL_LEN_MAX ==> ((i) + 1) * ISZ == (i) * ISZ + ISZ && (i) * ISZ < (i) * ISZ + ISZ)

/* ---- libc memmove: ASSUMED contract (C standard: the n bytes at src are copied to dest as if through a temporary
 * buffer, nothing else is written, dest is returned), stated for ONE arbitrary byte g_mm of the moved range + frame.
 * Needed because CBMC 6.11's built-in memmove model does not terminate (array post-processing) when source and
 * destination lie in the same object of symbolic size at symbolic offsets - exactly the array list's use.
 * The callers' contracts tie g_mm to their own witness g_k by a ghost-only requires.
 * n > 0 and validity of both ranges are obligations at the three call sites (push_front, pop_front_n, erase).
 * memcpy and memset stay CBMC's built-in models. */
#define AL_CLAMP(x, n) ((x) & (size_t)(-(size_t)((x) < (n)))) /* x if x < n else 0; branch-free so that old() accepts it */
void *memmove(void *dest, const void *src, size_t n)
__CPROVER_requires(n > 0 && __CPROVER_r_ok(src, n) && __CPROVER_w_ok(dest, n))
__CPROVER_assigns(__CPROVER_object_upto(dest, n))
__CPROVER_ensures(__CPROVER_pointer_equals(__CPROVER_return_value, dest))
__CPROVER_ensures(g_on ==> ((const uint8_t *)dest)[AL_CLAMP(g_mm, n)] == __CPROVER_old(((const uint8_t *)src)[AL_CLAMP(g_mm, n)]))
;

/* DFCC starts every harness with NONDET globals: reset all ghost switches, then switch on what the harness needs */
#define AL_GHOST_RESET() do { GHOST_RESET_COMMON(); g_zero_on = false; g_rz = 0; g_rsize = 0; g_qs_calls = 0; g_lemma = AL_FN_NONE; r_al_on = false; } while (0)

/* ---- the thread-local error slot of error.c, seen through the ghost g_last_error (ASSUMED model) ---- */
int aws_last_error(void)
__CPROVER_requires(1)
__CPROVER_assigns()
__CPROVER_ensures(RET == g_last_error)
;

/* ---- validity (DESIGN §4.1) ----
 * "the elements fit the storage" has two equivalent forms (unit inv_forms: P <=> Q for every length/size):
 *   P (product)  : length <= SIZE_MAX/ISZ && length*ISZ <= current_size   - what the code's byte arithmetic needs
 *   Q (quotient) : length <= current_size / ISZ                            - cheap to re-establish when only length moves
 * Preconditions state both (equivalent, nothing is restricted); each post-state invariant states the form that the
 * operation re-establishes without bit-level multiplication reasoning (SAT cannot do monotonicity of x*ISZ fast).
 * AL_REQ_OK is written as SEPARATE requires clauses on purpose: `item_size == ISZ` as a clause of its own lets CBMC's
 * symbolic execution propagate the constant into the code's `item_size * index` products. */
#define AL_BYTES(l) ((uint8_t *)(l)->data)
#define AL_FITS_P(len, cur) ((len) <= SIZE_MAX / ISZ && (len) * ISZ <= (cur))
#define AL_FITS_Q(len, cur) ((len) <= (cur) / ISZ)
#ifdef VERIF_AL_P_ONLY /* sizes for which unit inv_forms is not run (127: SAT does not finish): product form alone */
#    define AL_FITS_PRE(len, cur) AL_FITS_P(len, cur)
#else
#    define AL_FITS_PRE(len, cur) (AL_FITS_P(len, cur) && AL_FITS_Q(len, cur))
#endif
#define AL_STORAGE_OK(l) ((l)->current_size == 0 ? (l)->data == NULL : __CPROVER_is_fresh((l)->data, (l)->current_size))
#define AL_REQ_OK_(l)                                                                                                  \
    __CPROVER_requires(__CPROVER_is_fresh((l), sizeof(*(l))))                                                          \
    __CPROVER_requires((l)->item_size == ISZ)                                                                          \
    __CPROVER_requires(AL_FITS_PRE((l)->length, (l)->current_size))                                                    \
    __CPROVER_requires(AL_STORAGE_OK(l))
#define AL_REQ_OK(l) AL_REQ_OK_(l) AL_REQ_REPLAY(l, r_length, r_current_size, r_dynamic)
#define AL_REQ_OK_2ND(l) AL_REQ_OK_(l) AL_REQ_REPLAY(l, r_length2, r_current_size2, r_dynamic2)
/* post-state representation invariant (storage validity is given by the frame / by is_fresh where it is replaced) */
#define AL_INV_COMMON(l) ((l)->item_size == ISZ && (((l)->current_size == 0) == ((l)->data == NULL)))
#define AL_INV_P(l) (AL_INV_COMMON(l) && AL_FITS_P((l)->length, (l)->current_size))
#define AL_INV_Q(l) (AL_INV_COMMON(l) && AL_FITS_Q((l)->length, (l)->current_size))
#define AL_REQ_WITNESS(l)                                                                                              \
    __CPROVER_requires(g_on ==> (g_k < (l)->current_size ==> g_old == AL_BYTES(l)[g_k]))
#define AL_ERR_FRAME(failcond) __CPROVER_assigns(failcond : g_last_error, g_raise_count)
#define AL_NO_ERR_RAISED (g_raise_count == OLD(g_raise_count) && g_last_error == OLD(g_last_error))

/* ---- size arithmetic: (index+1)*ISZ fits in size_t  <=>  index < SIZE_MAX / ISZ ---- */
#define AL_NEED_OK(i) ((i) < SIZE_MAX / ISZ)
/* bytes needed so that index i exists: i*ISZ + ISZ - the form in which set_at / push_front address the slot;
 * calc_necessary_size (which computes (i+1)*item_size) proves the two forms equal, once */
#define AL_NEED(i) ((i) * ISZ + ISZ)
#define AL_FITS_(cur, i) (AL_NEED_OK(i) && (cur) >= AL_NEED(i))
#define AL_GROWS_(cur, alloc, i) (AL_NEED_OK(i) && (cur) < AL_NEED(i) && (alloc) != NULL)
#define AL_ENSURE_OK_(cur, alloc, i) (AL_NEED_OK(i) && ((cur) >= AL_NEED(i) || (alloc) != NULL))
#define AL_FITS(l, i) AL_FITS_((l)->current_size, i)
#define AL_GROWS(l, i) AL_GROWS_((l)->current_size, (l)->alloc, i)
#define AL_ENSURE_OK(l, i) AL_ENSURE_OK_((l)->current_size, (l)->alloc, i)
#define AL_OLD_FITS(l, i) AL_FITS_(OLD((l)->current_size), i)
#define AL_OLD_GROWS(l, i) AL_GROWS_(OLD((l)->current_size), OLD((l)->alloc), i)
#define AL_OLD_ENSURE_OK(l, i) AL_ENSURE_OK_(OLD((l)->current_size), OLD((l)->alloc), i)
/* doubling or exact growth */
#define AL_NEWSIZE_(cur, i) ((size_t)((cur) << 1) > AL_NEED(i) ? (size_t)((cur) << 1) : AL_NEED(i))
/* what every growing operation promises about the storage (i = index that must fit) */
#define AL_ENS_STORAGE(l, i)                                                                                           \
    __CPROVER_ensures(AL_OLD_GROWS(l, i) ==> (l)->current_size == AL_NEWSIZE_(OLD((l)->current_size), i) &&            \
                                                 __CPROVER_is_fresh((l)->data, (l)->current_size))                     \
    __CPROVER_ensures(!AL_OLD_GROWS(l, i) ==> (l)->current_size == OLD((l)->current_size) &&                           \
                                                  PEQ((l)->data, OLD((l)->data)))                                      \
    __CPROVER_ensures((l)->item_size == ISZ && (l)->alloc == OLD((l)->alloc))
#define AL_ENS_ERRCODE(l, i)                                                                                           \
    __CPROVER_ensures(!AL_NEED_OK(i) ==> g_last_error == AWS_ERROR_OVERFLOW_DETECTED)

/* ------------------------------------------------------------------ observers */

AWS_STATIC_IMPL size_t aws_array_list_length(const struct aws_array_list *AWS_RESTRICT list)
AL_REQ_OK(list)
__CPROVER_assigns()
__CPROVER_ensures(RET == list->length)
;

AWS_STATIC_IMPL size_t aws_array_list_capacity(const struct aws_array_list *AWS_RESTRICT list)
AL_REQ_OK(list)
__CPROVER_assigns()
__CPROVER_ensures(RET == list->current_size / ISZ && RET >= list->length)
;

AWS_STATIC_IMPL int aws_array_list_get_at(const struct aws_array_list *AWS_RESTRICT list, void *val, size_t index)
AL_REQ_OK(list)
__CPROVER_requires(__CPROVER_is_fresh(val, ISZ))
__CPROVER_assigns(index < list->length : __CPROVER_object_upto(val, ISZ))
AL_ERR_FRAME(index >= list->length)
__CPROVER_ensures(RET == AWS_OP_SUCCESS || RET == AWS_OP_ERR)
__CPROVER_ensures((RET == AWS_OP_SUCCESS) == (index < list->length))
__CPROVER_ensures(RET != AWS_OP_SUCCESS ==> g_last_error == AWS_ERROR_INVALID_INDEX)
__CPROVER_ensures(g_on && RET == AWS_OP_SUCCESS && g_j < ISZ ==> ((uint8_t *)val)[g_j] == AL_BYTES(list)[index * ISZ + g_j])
;

AWS_STATIC_IMPL int aws_array_list_get_at_ptr(const struct aws_array_list *AWS_RESTRICT list, void **val, size_t index)
AL_REQ_OK(list)
__CPROVER_requires(__CPROVER_is_fresh(val, sizeof(*val)))
__CPROVER_assigns(index < list->length : *val)
AL_ERR_FRAME(index >= list->length)
__CPROVER_ensures(RET == AWS_OP_SUCCESS || RET == AWS_OP_ERR)
__CPROVER_ensures((RET == AWS_OP_SUCCESS) == (index < list->length))
__CPROVER_ensures(RET != AWS_OP_SUCCESS ==> g_last_error == AWS_ERROR_INVALID_INDEX)
__CPROVER_ensures(RET == AWS_OP_SUCCESS ==> PEQ(*val, AL_BYTES(list) + index * ISZ))
;

AWS_STATIC_IMPL int aws_array_list_front(const struct aws_array_list *AWS_RESTRICT list, void *val)
AL_REQ_OK(list)
__CPROVER_requires(__CPROVER_is_fresh(val, ISZ))
__CPROVER_assigns(list->length > 0 : __CPROVER_object_upto(val, ISZ))
AL_ERR_FRAME(list->length == 0)
__CPROVER_ensures(RET == AWS_OP_SUCCESS || RET == AWS_OP_ERR)
__CPROVER_ensures((RET == AWS_OP_SUCCESS) == (list->length > 0))
__CPROVER_ensures(RET != AWS_OP_SUCCESS ==> g_last_error == AWS_ERROR_LIST_EMPTY)
__CPROVER_ensures(g_on && RET == AWS_OP_SUCCESS && g_j < ISZ ==> ((uint8_t *)val)[g_j] == AL_BYTES(list)[g_j])
;

AWS_STATIC_IMPL int aws_array_list_back(const struct aws_array_list *AWS_RESTRICT list, void *val)
AL_REQ_OK(list)
__CPROVER_requires(__CPROVER_is_fresh(val, ISZ))
__CPROVER_assigns(list->length > 0 : __CPROVER_object_upto(val, ISZ))
AL_ERR_FRAME(list->length == 0)
__CPROVER_ensures(RET == AWS_OP_SUCCESS || RET == AWS_OP_ERR)
__CPROVER_ensures((RET == AWS_OP_SUCCESS) == (list->length > 0))
__CPROVER_ensures(RET != AWS_OP_SUCCESS ==> g_last_error == AWS_ERROR_LIST_EMPTY)
__CPROVER_ensures(g_on && RET == AWS_OP_SUCCESS && g_j < ISZ ==> ((uint8_t *)val)[g_j] == AL_BYTES(list)[(list->length - 1) * ISZ + g_j])
;

/* ------------------------------------------------------------------ capacity */

int aws_array_list_calc_necessary_size(struct aws_array_list *AWS_RESTRICT list, size_t index, size_t *necessary_size)
AL_REQ_OK(list)
__CPROVER_requires(__CPROVER_is_fresh(necessary_size, sizeof(*necessary_size)))
__CPROVER_assigns(*necessary_size)
AL_ERR_FRAME(!AL_NEED_OK(index))
__CPROVER_ensures(RET == AWS_OP_SUCCESS || RET == AWS_OP_ERR)
__CPROVER_ensures((RET == AWS_OP_SUCCESS) == AL_NEED_OK(index))
__CPROVER_ensures(RET == AWS_OP_SUCCESS ==> *necessary_size == AL_NEED(index))
__CPROVER_ensures(RET != AWS_OP_SUCCESS ==> g_last_error == AWS_ERROR_OVERFLOW_DETECTED)
;

/* success <=> the index fits arithmetically and (it fits the storage already, or the list is dynamic).
 * static mode (alloc == NULL) refuses to grow with AWS_ERROR_INVALID_INDEX and writes nothing. */
int aws_array_list_ensure_capacity(struct aws_array_list *AWS_RESTRICT list, size_t index)
AL_REQ_OK(list)
AL_REQ_WITNESS(list)
__CPROVER_assigns(AL_GROWS(list, index) : list->data, list->current_size)
__CPROVER_frees(AL_GROWS(list, index) : list->data)
AL_ERR_FRAME(!AL_ENSURE_OK(list, index))
__CPROVER_ensures(RET == AWS_OP_SUCCESS || RET == AWS_OP_ERR)
__CPROVER_ensures((RET == AWS_OP_SUCCESS) == AL_OLD_ENSURE_OK(list, index))
AL_ENS_STORAGE(list, index)
AL_ENS_ERRCODE(list, index)
__CPROVER_ensures(AL_NEED_OK(index) && RET != AWS_OP_SUCCESS ==> g_last_error == AWS_ERROR_INVALID_INDEX)
__CPROVER_ensures(list->length == OLD(list->length) && AL_INV_P(list))
__CPROVER_ensures(g_on && g_k < OLD(list->current_size) ==> AL_BYTES(list)[g_k] == g_old)
;

/* ------------------------------------------------------------------ set / push */

#define AL_IN_ELEM(k, i) ((k) >= (i) * ISZ && (k) < (i) * ISZ + ISZ)

AWS_STATIC_IMPL int aws_array_list_set_at(struct aws_array_list *AWS_RESTRICT list, const void *val, size_t index)
AL_REQ_OK(list)
__CPROVER_requires(g_lemma == AL_FN_SET_AT ==> AL_LEM_NEXT(index))
__CPROVER_requires(__CPROVER_is_fresh(val, ISZ))
AL_REQ_WITNESS(list)
__CPROVER_assigns(AL_ENSURE_OK(list, index) && index >= list->length : list->length)
__CPROVER_assigns(AL_GROWS(list, index) : list->data, list->current_size)
__CPROVER_assigns(AL_FITS(list, index) : __CPROVER_object_upto(AL_BYTES(list) + index * ISZ, ISZ))
__CPROVER_frees(AL_GROWS(list, index) : list->data)
AL_ERR_FRAME(!AL_ENSURE_OK(list, index))
__CPROVER_ensures(RET == AWS_OP_SUCCESS || RET == AWS_OP_ERR)
__CPROVER_ensures((RET == AWS_OP_SUCCESS) == AL_OLD_ENSURE_OK(list, index))
AL_ENS_STORAGE(list, index)
AL_ENS_ERRCODE(list, index)
__CPROVER_ensures(AL_NEED_OK(index) && RET != AWS_OP_SUCCESS ==> g_last_error == AWS_ERROR_INVALID_INDEX)
/* gap growth: the length becomes index+1 when index is at or beyond the old length */
__CPROVER_ensures(RET == AWS_OP_SUCCESS ==> list->length == (index >= OLD(list->length) ? index + 1 : OLD(list->length)))
__CPROVER_ensures(RET != AWS_OP_SUCCESS ==> list->length == OLD(list->length))
__CPROVER_ensures(AL_INV_P(list))
__CPROVER_ensures(g_on && RET == AWS_OP_SUCCESS && g_j < ISZ ==> AL_BYTES(list)[index * ISZ + g_j] == ((const uint8_t *)val)[g_j])
__CPROVER_ensures(g_on && g_k < OLD(list->current_size) && !(RET == AWS_OP_SUCCESS && AL_IN_ELEM(g_k, index)) ==> AL_BYTES(list)[g_k] == g_old)
;

AWS_STATIC_IMPL int aws_array_list_push_back(struct aws_array_list *AWS_RESTRICT list, const void *val)
AL_REQ_OK(list)
__CPROVER_requires(g_lemma == AL_FN_PUSH_BACK ==> AL_LEM_NEXT(list->length))
__CPROVER_requires(__CPROVER_is_fresh(val, ISZ))
AL_REQ_WITNESS(list)
__CPROVER_assigns(AL_ENSURE_OK(list, list->length) : list->length)
__CPROVER_assigns(AL_GROWS(list, list->length) : list->data, list->current_size)
__CPROVER_assigns(AL_FITS(list, list->length) : __CPROVER_object_upto(AL_BYTES(list) + list->length * ISZ, ISZ))
__CPROVER_frees(AL_GROWS(list, list->length) : list->data)
AL_ERR_FRAME(!AL_ENSURE_OK(list, list->length))
__CPROVER_ensures(RET == AWS_OP_SUCCESS || RET == AWS_OP_ERR)
__CPROVER_ensures((RET == AWS_OP_SUCCESS) == AL_OLD_ENSURE_OK(list, OLD(list->length)))
AL_ENS_STORAGE(list, OLD(list->length))
AL_ENS_ERRCODE(list, OLD(list->length))
/* a full list over caller-provided storage refuses with the documented error */
__CPROVER_ensures(AL_NEED_OK(OLD(list->length)) && RET != AWS_OP_SUCCESS ==> g_last_error == AWS_ERROR_LIST_EXCEEDS_MAX_SIZE)
__CPROVER_ensures(list->length == OLD(list->length) + (RET == AWS_OP_SUCCESS ? 1 : 0))
__CPROVER_ensures(AL_INV_P(list))
__CPROVER_ensures(g_on && RET == AWS_OP_SUCCESS && g_j < ISZ ==> AL_BYTES(list)[OLD(list->length) * ISZ + g_j] == ((const uint8_t *)val)[g_j])
__CPROVER_ensures(g_on && g_k < OLD(list->current_size) && !(RET == AWS_OP_SUCCESS && AL_IN_ELEM(g_k, OLD(list->length))) ==> AL_BYTES(list)[g_k] == g_old)
;

AWS_STATIC_IMPL int aws_array_list_push_front(struct aws_array_list *AWS_RESTRICT list, const void *val)
AL_REQ_OK(list)
__CPROVER_requires(g_lemma == AL_FN_PUSH_FRONT ==> AL_LEM_NEXT(list->length))
__CPROVER_requires(__CPROVER_is_fresh(val, ISZ))
AL_REQ_WITNESS(list)
__CPROVER_requires(g_on ==> g_mm == g_k) /* ghost only: the memmove witness is the byte that holds old byte g_k */
__CPROVER_assigns(AL_ENSURE_OK(list, list->length) : list->length)
__CPROVER_assigns(AL_GROWS(list, list->length) : list->data, list->current_size)
__CPROVER_assigns(AL_FITS(list, list->length) : __CPROVER_object_upto(AL_BYTES(list), ISZ))
__CPROVER_assigns(AL_FITS(list, list->length) && list->length > 0 : __CPROVER_object_upto(AL_BYTES(list) + ISZ, list->length * ISZ))
__CPROVER_frees(AL_GROWS(list, list->length) : list->data)
AL_ERR_FRAME(!AL_ENSURE_OK(list, list->length))
__CPROVER_ensures(RET == AWS_OP_SUCCESS || RET == AWS_OP_ERR)
__CPROVER_ensures((RET == AWS_OP_SUCCESS) == AL_OLD_ENSURE_OK(list, OLD(list->length)))
AL_ENS_STORAGE(list, OLD(list->length))
AL_ENS_ERRCODE(list, OLD(list->length))
__CPROVER_ensures(AL_NEED_OK(OLD(list->length)) && RET != AWS_OP_SUCCESS ==> g_last_error == AWS_ERROR_LIST_EXCEEDS_MAX_SIZE)
__CPROVER_ensures(list->length == OLD(list->length) + (RET == AWS_OP_SUCCESS ? 1 : 0))
__CPROVER_ensures(AL_INV_P(list))
/* new first element is val, every old element moved up by one slot */
__CPROVER_ensures(g_on && RET == AWS_OP_SUCCESS && g_j < ISZ ==> AL_BYTES(list)[g_j] == ((const uint8_t *)val)[g_j])
__CPROVER_ensures(g_on && RET == AWS_OP_SUCCESS && g_k < OLD(list->length) * ISZ ==> AL_BYTES(list)[g_k + ISZ] == g_old)
__CPROVER_ensures(g_on && RET != AWS_OP_SUCCESS && g_k < OLD(list->current_size) ==> AL_BYTES(list)[g_k] == g_old)
;

/* ------------------------------------------------------------------ pop / erase / clear */

AWS_STATIC_IMPL int aws_array_list_pop_back(struct aws_array_list *AWS_RESTRICT list)
AL_REQ_OK(list)
__CPROVER_assigns(list->length > 0 : list->length, __CPROVER_object_upto(AL_BYTES(list) + (list->length - 1) * ISZ, ISZ))
AL_ERR_FRAME(list->length == 0)
__CPROVER_ensures(RET == AWS_OP_SUCCESS || RET == AWS_OP_ERR)
__CPROVER_ensures((RET == AWS_OP_SUCCESS) == (OLD(list->length) > 0))
__CPROVER_ensures(RET != AWS_OP_SUCCESS ==> g_last_error == AWS_ERROR_LIST_EMPTY)
__CPROVER_ensures(list->length == OLD(list->length) - (RET == AWS_OP_SUCCESS ? 1 : 0))
__CPROVER_ensures(AL_INV_Q(list))
;

AWS_STATIC_IMPL void aws_array_list_clear(struct aws_array_list *AWS_RESTRICT list)
AL_REQ_OK(list)
__CPROVER_assigns(list->data != NULL : list->length)
__CPROVER_ensures(list->length == 0 && AL_INV_P(list) && AL_INV_Q(list))
;

#define AL_POPN_MOVES(l, n) ((n) > 0 && (n) < (l)->length)
AWS_STATIC_IMPL void aws_array_list_pop_front_n(struct aws_array_list *AWS_RESTRICT list, size_t n)
AL_REQ_OK(list)
__CPROVER_requires(g_lemma == AL_FN_POP_FRONT_N ==> AL_LEM_POPN(n, list->length))
AL_REQ_WITNESS(list)
__CPROVER_requires(g_on ==> g_mm == g_k - n * ISZ) /* ghost only */
__CPROVER_assigns((n >= list->length && list->data != NULL) || AL_POPN_MOVES(list, n) : list->length)
__CPROVER_assigns(AL_POPN_MOVES(list, n) : __CPROVER_object_upto(AL_BYTES(list), (list->length - n) * ISZ))
__CPROVER_ensures(list->length == (n >= OLD(list->length) ? 0 : OLD(list->length) - n))
__CPROVER_ensures(AL_INV_Q(list))
/* old element i >= n is now element i-n */
__CPROVER_ensures(g_on && n < OLD(list->length) && g_k >= n * ISZ && g_k - n * ISZ < (OLD(list->length) - n) * ISZ ==> AL_BYTES(list)[g_k - n * ISZ] == g_old)
;

AWS_STATIC_IMPL int aws_array_list_pop_front(struct aws_array_list *AWS_RESTRICT list)
AL_REQ_OK(list)
__CPROVER_requires(g_lemma == AL_FN_POP_FRONT ==> AL_LEM_POPN(1, list->length))
AL_REQ_WITNESS(list)
__CPROVER_requires(g_on ==> g_mm == g_k - ISZ) /* ghost only */
__CPROVER_assigns(list->length > 0 : list->length)
__CPROVER_assigns(list->length > 1 : __CPROVER_object_upto(AL_BYTES(list), (list->length - 1) * ISZ))
AL_ERR_FRAME(list->length == 0)
__CPROVER_ensures(RET == AWS_OP_SUCCESS || RET == AWS_OP_ERR)
__CPROVER_ensures((RET == AWS_OP_SUCCESS) == (OLD(list->length) > 0))
__CPROVER_ensures(RET != AWS_OP_SUCCESS ==> g_last_error == AWS_ERROR_LIST_EMPTY)
__CPROVER_ensures(list->length == OLD(list->length) - (RET == AWS_OP_SUCCESS ? 1 : 0))
__CPROVER_ensures(AL_INV_Q(list))
__CPROVER_ensures(g_on && OLD(list->length) > 1 && g_k >= ISZ && g_k - ISZ < (OLD(list->length) - 1) * ISZ ==> AL_BYTES(list)[g_k - ISZ] == g_old)
;

/* erase(k): elements < k untouched (frame), old element i > k is now element i-1, length-1.
 * The frame is the union of what the three branches write, written with the code's own terms (front: pop_front's
 * range; back: the zeroed last slot; middle: the moved tail and the zeroed last slot).
 * Content: byte g_k of the tail [k*ISZ + ISZ, +trailing_bytes) moved down by ISZ. */
#define AL_ERASE_TAIL(l, i) ((((l)->length - (i)) - 1) * ISZ)
AWS_STATIC_IMPL int aws_array_list_erase(struct aws_array_list *AWS_RESTRICT list, size_t index)
AL_REQ_OK(list)
AL_REQ_WITNESS(list)
__CPROVER_requires(g_on ==> g_mm == g_k - (index * ISZ + ISZ)) /* ghost only */
__CPROVER_requires(g_lemma == AL_FN_ERASE ==> AL_LEM_ERASE(index, list->length))
__CPROVER_assigns(index < list->length : list->length)
__CPROVER_assigns(index == 0 && list->length > 1 : __CPROVER_object_upto(AL_BYTES(list), (list->length - 1) * ISZ))
__CPROVER_assigns(index > 0 && index < list->length : __CPROVER_object_upto(AL_BYTES(list) + (list->length - 1) * ISZ, ISZ))
__CPROVER_assigns(index > 0 && index < list->length && index != list->length - 1 : __CPROVER_object_upto(AL_BYTES(list) + index * ISZ, AL_ERASE_TAIL(list, index)))
AL_ERR_FRAME(index >= list->length)
__CPROVER_ensures(RET == AWS_OP_SUCCESS || RET == AWS_OP_ERR)
__CPROVER_ensures((RET == AWS_OP_SUCCESS) == (index < OLD(list->length)))
__CPROVER_ensures(RET != AWS_OP_SUCCESS ==> g_last_error == AWS_ERROR_INVALID_INDEX)
__CPROVER_ensures(list->length == OLD(list->length) - (RET == AWS_OP_SUCCESS ? 1 : 0))
__CPROVER_ensures(AL_INV_Q(list))
__CPROVER_ensures(g_on && RET == AWS_OP_SUCCESS && g_k >= index * ISZ + ISZ && g_k - (index * ISZ + ISZ) < ((OLD(list->length) - index) - 1) * ISZ ==>
                  AL_BYTES(list)[g_k - ISZ] == g_old)
;

/* ------------------------------------------------------------------ swap */

/* two element slots of one storage block: both writable, not overlapping */
#define AL_DISJOINT(p, q, n)                                                                                           \
    (!__CPROVER_same_object(p, q) || __CPROVER_POINTER_OFFSET(p) + (n) <= __CPROVER_POINTER_OFFSET(q) ||               \
     __CPROVER_POINTER_OFFSET(q) + (n) <= __CPROVER_POINTER_OFFSET(p))

static void aws_array_list_mem_swap(void *AWS_RESTRICT item1, void *AWS_RESTRICT item2, size_t item_size)
__CPROVER_requires(item_size == ISZ)
__CPROVER_requires(__CPROVER_w_ok(item1, item_size) && __CPROVER_w_ok(item2, item_size))
__CPROVER_requires(AL_DISJOINT(item1, item2, item_size))
__CPROVER_requires(g_on ==> (g_j < item_size ==> g_va == ((uint8_t *)item1)[g_j] && g_vb == ((uint8_t *)item2)[g_j]))
__CPROVER_assigns(__CPROVER_object_upto(item1, item_size), __CPROVER_object_upto(item2, item_size))
__CPROVER_ensures(g_on && g_j < item_size ==> ((uint8_t *)item1)[g_j] == g_vb && ((uint8_t *)item2)[g_j] == g_va)
;

void aws_array_list_swap(struct aws_array_list *AWS_RESTRICT list, size_t a, size_t b)
AL_REQ_OK(list)
__CPROVER_requires(g_lemma == AL_FN_SWAP ==> AL_LEM_SLOT(a, list->length, list->current_size) &&
                   AL_LEM_SLOT(b, list->length, list->current_size) && AL_LEM_ORD(a, b) && AL_LEM_ORD(b, a))
__CPROVER_requires(a < list->length && b < list->length)
__CPROVER_requires(g_on ==> (g_j < ISZ ==> g_va == AL_BYTES(list)[a * ISZ + g_j] && g_vb == AL_BYTES(list)[b * ISZ + g_j]))
__CPROVER_assigns(a != b : __CPROVER_object_upto(AL_BYTES(list) + a * ISZ, ISZ), __CPROVER_object_upto(AL_BYTES(list) + b * ISZ, ISZ))
__CPROVER_ensures(g_on && g_j < ISZ ==> AL_BYTES(list)[a * ISZ + g_j] == g_vb && AL_BYTES(list)[b * ISZ + g_j] == g_va)
;

/* ------------------------------------------------------------------ copy / shrink / swap_contents / init / clean_up */

#define AL_COPY_FITS(from, to) ((to)->current_size >= (from)->length * ISZ)
#define AL_COPY_GROWS(from, to) ((to)->current_size < (from)->length * ISZ && (to)->alloc != NULL)
int aws_array_list_copy(const struct aws_array_list *AWS_RESTRICT from, struct aws_array_list *AWS_RESTRICT to)
AL_REQ_OK(from)
__CPROVER_requires(from->data != NULL)
AL_REQ_OK_2ND(to)
__CPROVER_requires(g_on ==> (g_k < to->current_size ==> g_old == AL_BYTES(to)[g_k]))
__CPROVER_assigns(AL_COPY_FITS(from, to) || AL_COPY_GROWS(from, to) : to->length)
__CPROVER_assigns(AL_COPY_FITS(from, to) && from->length > 0 : __CPROVER_object_upto(AL_BYTES(to), from->length * ISZ))
__CPROVER_assigns(AL_COPY_GROWS(from, to) : to->data, to->current_size)
__CPROVER_frees(AL_COPY_GROWS(from, to) : to->data)
AL_ERR_FRAME(!AL_COPY_FITS(from, to) && !AL_COPY_GROWS(from, to))
__CPROVER_ensures(RET == AWS_OP_SUCCESS || RET == AWS_OP_ERR)
__CPROVER_ensures((RET == AWS_OP_SUCCESS) == (OLD(to->current_size) >= from->length * ISZ || OLD(to->alloc) != NULL))
__CPROVER_ensures(RET != AWS_OP_SUCCESS ==> g_last_error == AWS_ERROR_DEST_COPY_TOO_SMALL && to->length == OLD(to->length))
__CPROVER_ensures(RET == AWS_OP_SUCCESS ==> to->length == from->length)
__CPROVER_ensures(OLD(to->current_size) < from->length * ISZ && OLD(to->alloc) != NULL ==>
                  to->current_size == from->length * ISZ && __CPROVER_is_fresh(to->data, to->current_size))
__CPROVER_ensures(!(OLD(to->current_size) < from->length * ISZ && OLD(to->alloc) != NULL) ==>
                  to->current_size == OLD(to->current_size) && PEQ(to->data, OLD(to->data)))
__CPROVER_ensures(to->alloc == OLD(to->alloc) && AL_INV_P(to))
__CPROVER_ensures(g_on && RET == AWS_OP_SUCCESS && g_j < from->length * ISZ ==> AL_BYTES(to)[g_j] == AL_BYTES(from)[g_j])
__CPROVER_ensures(g_on && RET != AWS_OP_SUCCESS && g_k < OLD(to->current_size) ==> AL_BYTES(to)[g_k] == g_old)
;

#define AL_SHRINKS(l) ((l)->alloc != NULL && (l)->length * ISZ < (l)->current_size)
int aws_array_list_shrink_to_fit(struct aws_array_list *AWS_RESTRICT list)
AL_REQ_OK(list)
AL_REQ_WITNESS(list)
__CPROVER_assigns(AL_SHRINKS(list) : list->data, list->current_size)
__CPROVER_frees(AL_SHRINKS(list) && list->length > 0 : list->data)
AL_ERR_FRAME(list->alloc == NULL)
__CPROVER_ensures(RET == AWS_OP_SUCCESS || RET == AWS_OP_ERR)
__CPROVER_ensures((RET == AWS_OP_SUCCESS) == (OLD(list->alloc) != NULL))
__CPROVER_ensures(RET != AWS_OP_SUCCESS ==> g_last_error == AWS_ERROR_LIST_STATIC_MODE_CANT_SHRINK)
__CPROVER_ensures(RET == AWS_OP_SUCCESS ==> list->current_size == list->length * ISZ)
__CPROVER_ensures(RET != AWS_OP_SUCCESS ==> list->current_size == OLD(list->current_size) && PEQ(list->data, OLD(list->data)))
__CPROVER_ensures(RET == AWS_OP_SUCCESS && list->current_size < OLD(list->current_size) && list->current_size > 0 ==>
                  __CPROVER_is_fresh(list->data, list->current_size))
__CPROVER_ensures(list->length == OLD(list->length) && list->alloc == OLD(list->alloc) && AL_INV_P(list))
__CPROVER_ensures(g_on && g_k < list->length * ISZ ==> AL_BYTES(list)[g_k] == g_old)
;

AWS_STATIC_IMPL void aws_array_list_swap_contents(
    struct aws_array_list *AWS_RESTRICT list_a,
    struct aws_array_list *AWS_RESTRICT list_b)
AL_REQ_OK(list_a)
AL_REQ_OK_2ND(list_b)
__CPROVER_requires(list_a->alloc != NULL && list_a->alloc == list_b->alloc)
__CPROVER_assigns(*list_a, *list_b)
__CPROVER_ensures(list_a->length == OLD(list_b->length) && list_b->length == OLD(list_a->length))
__CPROVER_ensures(list_a->current_size == OLD(list_b->current_size) && list_b->current_size == OLD(list_a->current_size))
__CPROVER_ensures(PEQ(list_a->data, OLD(list_b->data)) && PEQ(list_b->data, OLD(list_a->data)))
__CPROVER_ensures(list_a->alloc == OLD(list_b->alloc) && list_b->alloc == OLD(list_a->alloc))
__CPROVER_ensures(AL_INV_P(list_a) && AL_INV_Q(list_a) && AL_INV_P(list_b) && AL_INV_Q(list_b))
;

AWS_STATIC_IMPL int aws_array_list_init_dynamic(
    struct aws_array_list *AWS_RESTRICT list,
    struct aws_allocator *alloc,
    size_t initial_item_allocation,
    size_t item_size)
__CPROVER_requires(__CPROVER_is_fresh(list, sizeof(*list)))
__CPROVER_requires(alloc != NULL && item_size == ISZ)
__CPROVER_assigns(*list)
AL_ERR_FRAME(initial_item_allocation > SIZE_MAX / ISZ)
__CPROVER_ensures(RET == AWS_OP_SUCCESS || RET == AWS_OP_ERR)
__CPROVER_ensures((RET == AWS_OP_SUCCESS) == (initial_item_allocation <= SIZE_MAX / ISZ))
__CPROVER_ensures(RET == AWS_OP_SUCCESS ==> list->alloc == alloc && list->length == 0 && list->item_size == ISZ &&
                  list->current_size == initial_item_allocation * ISZ &&
                  (initial_item_allocation == 0 ? list->data == NULL : __CPROVER_is_fresh(list->data, list->current_size)))
__CPROVER_ensures(RET != AWS_OP_SUCCESS ==> g_last_error == AWS_ERROR_OVERFLOW_DETECTED && list->alloc == NULL &&
                  list->length == 0 && list->item_size == 0 && list->current_size == 0 && list->data == NULL)
;

AWS_STATIC_IMPL void aws_array_list_init_static(
    struct aws_array_list *AWS_RESTRICT list,
    void *raw_array,
    size_t item_count,
    size_t item_size)
__CPROVER_requires(__CPROVER_is_fresh(list, sizeof(*list)))
__CPROVER_requires(item_size == ISZ && item_count > 0 && item_count <= SIZE_MAX / ISZ)
__CPROVER_requires(__CPROVER_is_fresh(raw_array, item_count * ISZ))
__CPROVER_assigns(*list)
__CPROVER_ensures(list->alloc == NULL && list->length == 0 && list->item_size == ISZ &&
                  list->current_size == item_count * ISZ && PEQ(list->data, raw_array))
;

AWS_STATIC_IMPL void aws_array_list_init_static_from_initialized(
    struct aws_array_list *AWS_RESTRICT list,
    void *raw_array,
    size_t item_count,
    size_t item_size)
__CPROVER_requires(__CPROVER_is_fresh(list, sizeof(*list)))
__CPROVER_requires(item_size == ISZ && item_count > 0 && item_count <= SIZE_MAX / ISZ)
__CPROVER_requires(__CPROVER_is_fresh(raw_array, item_count * ISZ))
__CPROVER_assigns(*list)
__CPROVER_ensures(list->alloc == NULL && list->length == item_count && list->item_size == ISZ &&
                  list->current_size == item_count * ISZ && PEQ(list->data, raw_array))
;

AWS_STATIC_IMPL void aws_array_list_clean_up(struct aws_array_list *AWS_RESTRICT list)
AL_REQ_OK(list)
__CPROVER_assigns(*list)
__CPROVER_frees(list->alloc != NULL : list->data)
__CPROVER_ensures(list->alloc == NULL && list->length == 0 && list->item_size == 0 && list->current_size == 0 && list->data == NULL)
;

/* ------------------------------------------------------------------ sort: libc qsort is ASSUMED; what is decided is
 * that the library hands exactly (data, length, item_size, compare_fn) to it and nothing when there is no storage */
void qsort(void *base, size_t nmemb, size_t size, int (*compar)(const void *, const void *))
__CPROVER_requires(nmemb == 0 || __CPROVER_w_ok(base, nmemb * size))
__CPROVER_assigns(g_qs_base, g_qs_n, g_qs_sz, g_qs_cmp, g_qs_calls)
__CPROVER_assigns(nmemb > 0 : __CPROVER_object_upto(base, nmemb * size))
__CPROVER_ensures(g_qs_base == base && g_qs_n == nmemb && g_qs_sz == size && g_qs_cmp == compar && g_qs_calls == OLD(g_qs_calls) + 1)
;

void aws_array_list_sort(struct aws_array_list *AWS_RESTRICT list, aws_array_list_comparator_fn *compare_fn)
AL_REQ_OK(list)
__CPROVER_assigns(list->data != NULL : g_qs_base, g_qs_n, g_qs_sz, g_qs_cmp, g_qs_calls)
__CPROVER_assigns(list->data != NULL && list->length > 0 : __CPROVER_object_upto(AL_BYTES(list), list->length * ISZ))
__CPROVER_ensures(list->data != NULL ==> g_qs_calls == OLD(g_qs_calls) + 1 && g_qs_base == list->data &&
                  g_qs_n == list->length && g_qs_sz == ISZ && g_qs_cmp == compare_fn)
;

#endif
