/* Contracts for source/memtrace.c (property C17), part 1: ghost state and the assumed contracts of everything the
 * tracer calls that does not mention the tracer's private types.  Included BEFORE `#include "source/memtrace.c"`.
 * Part 2 (contracts/memtrace_impl.h: contracts that need struct alloc_tracer / struct alloc_info, i.e. the client
 * contracts of the hash table specialised to the tracer's two tables and the contracts of the tracer's own functions)
 * is included AFTER it.
 *
 * Sequential semantics only: the mutex is a ghost flag (lock/unlock discipline is checked, interleavings are not),
 * the atomics are the real atomics_gnu.inl wrappers executed sequentially.
 *
 * Abstract view of tracer->allocs (DESIGN 4.4; assumed here, discharged -bounded- under C02):
 *   the table is a finite map  M : address -> (info pointer, recorded size).  The contracts speak about M through
 *     g_mt_key     ONE arbitrary watched address (every harness leaves it nondeterministic, so each clause below holds
 *                  for every address: "for all keys")
 *     g_mt_present M has an entry for g_mt_key          g_mt_val  the struct alloc_info stored for it
 *     g_mt_size    the size recorded in that info       g_mt_count |M|
 *     g_mt_sum     the fold  SUM over entries of the recorded size (mod 2^64), maintained by the definitional equations
 *                  of the fold:  insert of a new key adds the recorded size, removal subtracts the size recorded for the
 *                  removed entry.
 *   Operations on an address other than g_mt_key find it present or absent by an arbitrary choice (g_mt_oth_present)
 *   with an arbitrary recorded size (g_mt_oth_size): every possible M is covered.
 *   "bytes == sum of the sizes of the live allocations, count == their number" is then the tracer invariant
 *       allocated == g_mt_sum  &&  entry count == g_mt_count          (TR_INV in memtrace_impl.h)
 *   which every tracer operation must re-establish, together with the exact change of the view at g_mt_key.
 */
#ifndef VERIF_CONTRACTS_MEMTRACE_H
#define VERIF_CONTRACTS_MEMTRACE_H
#include "contracts/common.h"
#include "contracts/allocator.h"
#include <aws/common/atomics.h>
#include <aws/common/clock.h>
#include <aws/common/hash_table.h>
#include <aws/common/logging.h>
#include <aws/common/mutex.h>
#include <aws/common/priority_queue.h>
#include <aws/common/system_info.h>

/* ---- ghost state ---- */
const struct aws_hash_table *g_mt_allocs; /* address of tracer->allocs of the tracer under proof */
const struct aws_hash_table *g_mt_stacks; /* address of tracer->stacks */
const struct aws_mutex *g_mt_mutex;       /* address of tracer->mutex */
const void *g_mt_key;
bool g_mt_present;
void *g_mt_val;
size_t g_mt_size;
size_t g_mt_count;
size_t g_mt_sum;
bool g_mt_oth_present; /* answer of the table for the address last looked up, when that is not g_mt_key */
size_t g_mt_oth_size;
const void *g_mt_found_key;                 /* key of the last successful or unsuccessful find on allocs */
const struct aws_hash_element *g_mt_found;  /* element it handed out (NULL: absent) */
bool g_mt_locked;                           /* the tracer's mutex is held (by the one thread we model) */
size_t g_mt_lock_calls;                     /* number of lock operations (to see that a path did lock) */
bool g_mt_bt_avail;                         /* aws_backtrace works on this platform (returns >= 1 frame) */
size_t g_mt_stack_entries;                  /* entries of tracer->stacks (only grows) */
struct aws_hash_element *g_mt_stack_elem;   /* element of tracer->stacks handed out by the last create */
int g_mt_stack_created;                     /* ... and whether it was new */
bool g_mt_stack_on;                         /* switch for the clauses about the stack record (on in the units that enforce track) */

/* dump: the one priority queue in use, its length, the local table of per-stack totals, the tracer being dumped */
const struct aws_priority_queue *g_mt_pq;
size_t g_mt_pq_size;
const struct aws_hash_table *g_mt_stack_info;
const void *g_mt_tracer;
bool g_mt_dump_stacks; /* tracer->level == AWS_MEMTRACE_STACKS */
size_t g_mt_foreach_calls;

#define MT_GHOST_RESET()                                                                                               \
    do {                                                                                                               \
        GHOST_RESET_COMMON();                                                                                          \
        GHOST_RESET_ALLOC();                                                                                           \
        g_mt_locked = false;                                                                                           \
        /* NOTE for contract writers: DFCC havocs a pointer-typed assigns target of a REPLACED contract with ONE fixed    \
         * invalid pointer; `ensures(g == p)` then pins that pointer, and a second replaced call on the same path with a  \
         * different p makes the path infeasible (silently: only the canaries notice).  Use __CPROVER_pointer_equals. */  \
        g_mt_stack_on = false;                                                                                         \
        g_mt_pq = NULL;                                                                                                \
        g_mt_stack_info = NULL;                                                                                        \
        g_mt_foreach_calls = 0;                                                                                        \
        g_mt_lock_calls = 0;                                                                                           \
        g_mt_found = NULL;                                                                                             \
        g_mt_released = NULL;                                                                                          \
        g_mt_found_key = NULL;                                                                                         \
    } while (0)

/* ---- mutex: ghost flag.  Obligations at the call sites: the tracer's own mutex, never locked twice, never unlocked
 *      when not held ---- */
int aws_mutex_lock(struct aws_mutex *mutex)
__CPROVER_requires(mutex == g_mt_mutex)
__CPROVER_requires(!g_mt_locked)
__CPROVER_assigns(g_mt_locked, g_mt_lock_calls)
__CPROVER_ensures(__CPROVER_return_value == AWS_OP_SUCCESS && g_mt_locked)
__CPROVER_ensures(g_mt_lock_calls == __CPROVER_old(g_mt_lock_calls) + 1)
;
int aws_mutex_unlock(struct aws_mutex *mutex)
__CPROVER_requires(mutex == g_mt_mutex)
__CPROVER_requires(g_mt_locked)
__CPROVER_assigns(g_mt_locked)
__CPROVER_ensures(__CPROVER_return_value == AWS_OP_SUCCESS && !g_mt_locked)
;
int aws_mutex_init(struct aws_mutex *mutex)
__CPROVER_requires(__CPROVER_w_ok(mutex, sizeof(*mutex)))
__CPROVER_assigns(*mutex, g_mt_mutex)
__CPROVER_ensures(__CPROVER_return_value == AWS_OP_SUCCESS && __CPROVER_pointer_equals(g_mt_mutex, mutex))
;
void aws_mutex_clean_up(struct aws_mutex *mutex)
__CPROVER_requires(mutex == g_mt_mutex)
__CPROVER_requires(!g_mt_locked)
__CPROVER_assigns(*mutex)
__CPROVER_ensures(1)
;

/* ---- clock, backtrace, stack hash: ASSUMED ---- */
int aws_high_res_clock_get_ticks(uint64_t *timestamp)
__CPROVER_requires(__CPROVER_w_ok(timestamp, sizeof(*timestamp)))
__CPROVER_assigns(*timestamp)
__CPROVER_ensures(1)
;
/* writes at most num_frames frame pointers, returns how many (0: not available on this platform) */
size_t aws_backtrace(void **stack_frames, size_t num_frames)
__CPROVER_requires(num_frames > 0 && __CPROVER_w_ok(stack_frames, num_frames * sizeof(void *)))
__CPROVER_assigns(__CPROVER_object_upto(stack_frames, num_frames * sizeof(void *)))
__CPROVER_ensures(__CPROVER_return_value <= num_frames)
__CPROVER_ensures(g_mt_bt_avail ? __CPROVER_return_value >= 1 : __CPROVER_return_value == 0)
;
uint64_t aws_hash_byte_cursor_ptr(const void *item)
__CPROVER_requires(__CPROVER_r_ok(item, sizeof(struct aws_byte_cursor)))
__CPROVER_requires(((const struct aws_byte_cursor *)item)->len == 0 ||
                   __CPROVER_r_ok(((const struct aws_byte_cursor *)item)->ptr, ((const struct aws_byte_cursor *)item)->len))
__CPROVER_assigns()
__CPROVER_ensures(1)
;

/* byte_buf.c: the view {bytes, len} */
struct aws_byte_cursor aws_byte_cursor_from_array(const void *const bytes, const size_t len)
__CPROVER_requires(len == 0 || __CPROVER_r_ok(bytes, len))
__CPROVER_assigns()
__CPROVER_ensures(__CPROVER_return_value.len == len && __CPROVER_pointer_equals(__CPROVER_return_value.ptr, (uint8_t *)bytes))
;

/* ---- the bookkeeping allocator: one fixed object ---- */
struct aws_allocator g_mt_default_allocator;
struct aws_allocator *aws_default_allocator(void)
__CPROVER_requires(1)
__CPROVER_assigns()
__CPROVER_ensures(__CPROVER_pointer_equals(__CPROVER_return_value, &g_mt_default_allocator))
;

/* calloc of the bookkeeping allocator (contracts/allocator.h states "zeroed" for one witness byte g_j; the tracer's
 * 24-byte records need all three words): ASSUMED as aws_mem_calloc's contract, used as
 * --replace-call-with-contract aws_mem_calloc/mt_book_calloc */
void *mt_book_calloc(struct aws_allocator *allocator, size_t num, size_t size)
__CPROVER_requires(allocator == &g_mt_default_allocator)
__CPROVER_requires(num > 0 && size > 0 && !__CPROVER_overflow_mult(num, size))
__CPROVER_assigns()
__CPROVER_ensures(__CPROVER_is_fresh(__CPROVER_return_value, num * size))
__CPROVER_ensures(num * size == 3 * sizeof(uint64_t) ==>
    (((const uint64_t *)__CPROVER_return_value)[0] == 0 && ((const uint64_t *)__CPROVER_return_value)[1] == 0 &&
     ((const uint64_t *)__CPROVER_return_value)[2] == 0))
__CPROVER_ensures(g_j < num * size ==> ((const uint8_t *)__CPROVER_return_value)[g_j] == 0)
;

/* ---- the wrapped (traced) allocator: the client contracts of contracts/allocator.h plus a record of the request, so
 *      that "pure delegation" (exactly one request, with exactly the caller's arguments, to the wrapped allocator) is a
 *      postcondition of the tracer's vtable functions.  Used as  --replace-call-with-contract aws_mem_acquire/mt_inner_acquire ---- */
const struct aws_allocator *g_mt_inner; /* tracer->traced_allocator */
size_t g_mt_inner_calls;                /* requests that reached the wrapped allocator */
const void *g_mt_inner_ptr;             /* arguments of the last one */
size_t g_mt_inner_a, g_mt_inner_b;
const void *g_mt_released;              /* the block the wrapped allocator took back last (NULL: none yet) */
#define MT_INNER_RECORD(p, a, b)                                                                                       \
    __CPROVER_ensures(g_mt_inner_calls == __CPROVER_old(g_mt_inner_calls) + 1 && g_mt_inner_ptr == (p) &&              \
                      g_mt_inner_a == (a) && g_mt_inner_b == (b))

void *mt_inner_acquire(struct aws_allocator *allocator, size_t size)
__CPROVER_requires(allocator != NULL && allocator == g_mt_inner)
__CPROVER_requires(size > 0)
__CPROVER_assigns(g_mt_inner_calls, g_mt_inner_ptr, g_mt_inner_a, g_mt_inner_b)
__CPROVER_ensures(__CPROVER_is_fresh(__CPROVER_return_value, size))
MT_INNER_RECORD(NULL, size, 0)
;
void *mt_inner_calloc(struct aws_allocator *allocator, size_t num, size_t size)
__CPROVER_requires(allocator != NULL && allocator == g_mt_inner)
__CPROVER_requires(num > 0 && size > 0 && !__CPROVER_overflow_mult(num, size))
__CPROVER_assigns(g_mt_inner_calls, g_mt_inner_ptr, g_mt_inner_a, g_mt_inner_b)
__CPROVER_ensures(__CPROVER_is_fresh(__CPROVER_return_value, num * size))
__CPROVER_ensures(g_j < num * size ==> ((uint8_t *)__CPROVER_return_value)[g_j] == 0)
MT_INNER_RECORD(NULL, num, size)
;
void mt_inner_release(struct aws_allocator *allocator, void *ptr)
__CPROVER_requires(allocator != NULL && allocator == g_mt_inner)
__CPROVER_requires(ptr == NULL || __CPROVER_is_freeable(ptr))
__CPROVER_assigns(g_mt_inner_calls, g_mt_inner_ptr, g_mt_inner_a, g_mt_inner_b, g_mt_released)
__CPROVER_frees(ptr)
MT_INNER_RECORD(ptr, 0, 0)
__CPROVER_ensures(g_mt_released == ptr)
;
int mt_inner_realloc(struct aws_allocator *allocator, void **ptr, size_t oldsize, size_t newsize)
__CPROVER_requires(allocator != NULL && allocator == g_mt_inner)
__CPROVER_requires(ptr != NULL)
__CPROVER_requires(*ptr == NULL ? oldsize == 0 : __CPROVER_is_freeable(*ptr))
__CPROVER_requires(g_on ==> (*ptr != NULL && g_k < oldsize ==> g_old == ((const uint8_t *)*ptr)[g_k]))
__CPROVER_assigns(*ptr, g_mt_inner_calls, g_mt_inner_ptr, g_mt_inner_a, g_mt_inner_b, g_mt_released)
__CPROVER_frees(newsize == 0 || VT_REALLOC_MOVES : *ptr)
__CPROVER_ensures(__CPROVER_return_value == AWS_OP_SUCCESS)
__CPROVER_ensures(newsize == 0 ==> *ptr == NULL)
__CPROVER_ensures(newsize > 0 ==> (__CPROVER_is_fresh(*ptr, newsize) ||
                                  (newsize <= oldsize && !g_vt_moves && __CPROVER_old(*ptr) != NULL &&
                                   __CPROVER_pointer_equals(*ptr, __CPROVER_old(*ptr)))))
__CPROVER_ensures(g_on && newsize > 0 && __CPROVER_old(*ptr) != NULL && g_k < oldsize && g_k < newsize ==>
                  ((const uint8_t *)*ptr)[g_k] == g_old)
MT_INNER_RECORD(__CPROVER_old(*ptr), oldsize, newsize)
__CPROVER_ensures(g_mt_released == (*ptr == __CPROVER_old(*ptr) ? __CPROVER_old(g_mt_released) : __CPROVER_old(*ptr)))
;

#endif
