/* Function contracts for source/uri.c (property C13; the parser state-function contracts are shared with C04).
 *
 * Postconditions are taken from the property statement and RFC 3986, not from the code:
 *   - SPEC_* macros define the unreserved class and upper-case hex arithmetically;
 *   - component boundaries are "the FIRST delimiter" facts, stated with ghost witness positions (DESIGN 4.3);
 *   - every view of struct aws_uri is NULL/0 or lies inside uri->uri_str (VIEW_IN), required and ensured by every
 *     parser step, for arbitrary input bytes (this is the C04 part).
 */
#ifndef VERIF_CONTRACTS_URI_H
#define VERIF_CONTRACTS_URI_H
#include "contracts/common.h"
#include "contracts/byte_buf.h" /* RET, OLD, PEQ, REQ_WITNESS_BUF, ENS_PREFIX_KEPT, GHOST_RESET */
#include <aws/common/uri.h>

/* ------------------------------------------------------------------ spec: RFC 3986 2.3 unreserved, 2.1 upper-case hex */
#define SPEC_ALNUM(c) (((c) >= 'a' && (c) <= 'z') || ((c) >= 'A' && (c) <= 'Z') || ((c) >= '0' && (c) <= '9'))
#define SPEC_UNRESERVED(c) (SPEC_ALNUM(c) || (c) == '-' || (c) == '_' || (c) == '.' || (c) == '~')
#define SPEC_PATH_KEEP(c) (SPEC_UNRESERVED(c) || (c) == '/')
#define SPEC_HEXU(v) ((uint8_t)((v) < 10 ? '0' + (v) : 'A' + ((v)-10)))
#define SPEC_IS_HEXU(c) (((c) >= '0' && (c) <= '9') || ((c) >= 'A' && (c) <= 'F'))

static uint8_t s_to_uppercase_hex(uint8_t value)
__CPROVER_requires(value < 16)
__CPROVER_assigns()
__CPROVER_ensures(RET == SPEC_HEXU(value))
;

/* one input byte -> 1 kept byte or '%' HEX HEX, appended at buffer->len; nothing else changes.
 * Precondition as asserted by the code: three bytes of spare capacity. */
#define ENC_CHAR_CONTRACT(KEEP)                                                                                        \
    __CPROVER_requires(BUF_OK(buffer) && buffer->capacity - buffer->len >= 3)                                          \
    __CPROVER_assigns(buffer->len)                                                                                     \
    __CPROVER_assigns(KEEP(value) : __CPROVER_object_upto(buffer->buffer + buffer->len, 1))                            \
    __CPROVER_assigns(!KEEP(value) : __CPROVER_object_upto(buffer->buffer + buffer->len, 3))                           \
    __CPROVER_ensures(BUF_SHAPE_KEPT(buffer))                                                                          \
    __CPROVER_ensures(KEEP(value) ==> buffer->len == OLD(buffer->len) + 1 && buffer->buffer[OLD(buffer->len)] == value) \
    __CPROVER_ensures(!KEEP(value) ==> buffer->len == OLD(buffer->len) + 3 && buffer->buffer[OLD(buffer->len)] == '%' && \
                      buffer->buffer[OLD(buffer->len) + 1] == SPEC_HEXU(value >> 4) &&                                 \
                      buffer->buffer[OLD(buffer->len) + 2] == SPEC_HEXU(value & 0x0F))

static void s_unchecked_append_canonicalized_path_character(struct aws_byte_buf *buffer, uint8_t value)
ENC_CHAR_CONTRACT(SPEC_PATH_KEEP)
;
static void s_raw_append_canonicalized_param_character(struct aws_byte_buf *buffer, uint8_t value)
ENC_CHAR_CONTRACT(SPEC_UNRESERVED)
;


/* ---- ghost bookkeeping for the encoder loop (DESIGN 4.3).  The proof TU wraps the per-byte call inside
 * s_encode_cursor_to_buffer with two recording functions (ghost code: they only write g_e):
 *   g_e.cnt counts the calls; for ONE arbitrary call number g_e.i they record the byte that was passed (val), where its
 *   encoding starts (pos) and ends (next), whether it was kept as is (kept), and where the encoding of the following byte
 *   starts (pos2). */
struct enc_ghost { size_t i, cnt, pos, next, pos2; uint8_t val; bool kept; } g_e;
static inline void enc_ghost_pre(const struct aws_byte_buf *b, uint8_t v) {
    if (g_e.cnt == g_e.i) { g_e.pos = b->len; g_e.val = v; }
    if (g_e.cnt == g_e.i + 1) { g_e.pos2 = b->len; }
}
static inline void enc_ghost_post(const struct aws_byte_buf *b) {
    if (g_e.cnt == g_e.i) { g_e.next = b->len; g_e.kept = (g_e.next == g_e.pos + 1); }
    g_e.cnt++;
}
#define ENC_GHOST_HOOK(fn, b, v) (enc_ghost_pre((b), (v)), (fn)((b), (v)), enc_ghost_post(b))

/* ---- the two public encoders.  Complete functional specification, by induction over the witness g_e.i:
 *   the encoding of input byte 0 starts at the old length; the encoding of byte i+1 starts where that of byte i ends;
 *   the new length is where the encoding of the last byte ends; the encoding of byte i is SPEC(in[i]); bytes below the old
 *   length are untouched.  All statements about output bytes go through ONE arbitrary output index g_k (every distinct
 *   symbolic index into storage of symbolic size multiplies the cost of the proof). */
#define SPEC_ENC_BYTE(val, kept, sub) ((uint8_t)((kept) ? (val) : ((sub) == 0 ? '%' : ((sub) == 1 ? SPEC_HEXU((val) >> 4) : SPEC_HEXU((val)&0x0F)))))
#define ENC_OK(c, b) ((c)->len <= SIZE_MAX / 3 && 3 * (c)->len <= SIZE_MAX - (b)->len)
#define ENC_OK_OLD(c, b) ((c)->len <= SIZE_MAX / 3 && 3 * (c)->len <= SIZE_MAX - OLD((b)->len))
#define ENC_GROWS(c, b) ((b)->len + 3 * (c)->len > (b)->capacity)
#define ENCODE_CONTRACT(KEEP)                                                                                          \
    __CPROVER_requires(BUF_OK(buffer) && buffer->allocator != NULL)                                                    \
    __CPROVER_requires(ENC_CURSOR_REQ(cursor))                                                                         \
    REQ_WITNESS_BUF(buffer)                                                                                            \
    __CPROVER_requires(g_e.cnt == 0)                                                                                   \
    __CPROVER_assigns(ENC_OK(cursor, buffer) : *buffer)                                                                \
    __CPROVER_assigns(ENC_OK(cursor, buffer) && !ENC_GROWS(cursor, buffer) && cursor->len > 0 :                        \
                      __CPROVER_object_upto(buffer->buffer + buffer->len, 3 * cursor->len))                            \
    __CPROVER_assigns(ENC_OK(cursor, buffer) && ENC_GROWS(cursor, buffer) && buffer->capacity > 0 :                    \
                      __CPROVER_object_upto(buffer->buffer, buffer->capacity))                                         \
    __CPROVER_frees(ENC_OK(cursor, buffer) && ENC_GROWS(cursor, buffer) : buffer->buffer)                              \
    __CPROVER_assigns(g_e)                                                                                             \
    __CPROVER_ensures(RET == AWS_OP_SUCCESS || RET == AWS_OP_ERR)                                                      \
    __CPROVER_ensures((RET == AWS_OP_SUCCESS) == ENC_OK_OLD(cursor, buffer))                                           \
    __CPROVER_ensures(buffer->allocator == OLD(buffer->allocator) && buffer->len <= buffer->capacity)                  \
    __CPROVER_ensures(RET != AWS_OP_SUCCESS ==> buffer->len == OLD(buffer->len) && buffer->capacity == OLD(buffer->capacity) && \
                      buffer->buffer == OLD(buffer->buffer))                                                           \
    __CPROVER_ensures(RET == AWS_OP_SUCCESS ==> buffer->capacity >= OLD(buffer->capacity) &&                           \
                      (buffer->capacity == 0 || __CPROVER_rw_ok(buffer->buffer, buffer->capacity)))                    \
    __CPROVER_ensures(RET == AWS_OP_SUCCESS ==> buffer->len >= OLD(buffer->len) + cursor->len &&                       \
                      buffer->len <= OLD(buffer->len) + 3 * cursor->len)                                               \
    __CPROVER_ensures(RET == AWS_OP_SUCCESS && cursor->len == 0 ==> buffer->len == OLD(buffer->len))                   \
    __CPROVER_ensures(RET == AWS_OP_SUCCESS && g_e.i < cursor->len ==>                                                 \
                      g_e.val == cursor->ptr[g_e.i] && g_e.kept == KEEP(g_e.val) && g_e.pos >= OLD(buffer->len) + g_e.i && \
                      g_e.next == g_e.pos + (g_e.kept ? 1 : 3) && g_e.next <= buffer->len)                             \
    __CPROVER_ensures(RET == AWS_OP_SUCCESS && g_e.i == 0 && cursor->len > 0 ==> g_e.pos == OLD(buffer->len))          \
    __CPROVER_ensures(RET == AWS_OP_SUCCESS && g_e.i < cursor->len && g_e.i + 1 < cursor->len ==> g_e.pos2 == g_e.next) \
    __CPROVER_ensures(RET == AWS_OP_SUCCESS && g_e.i < cursor->len && g_e.i + 1 == cursor->len ==> buffer->len == g_e.next) \
    __CPROVER_ensures(g_on && RET == AWS_OP_SUCCESS && g_k < buffer->len ==>                                           \
                      (g_k < OLD(buffer->len) ? buffer->buffer[g_k] == g_old                                           \
                       : (g_e.i < cursor->len && g_k >= g_e.pos && g_k < g_e.next ==>                                  \
                          buffer->buffer[g_k] == SPEC_ENC_BYTE(g_e.val, g_e.kept, g_k - g_e.pos))))

#ifndef ENC_CURSOR_REQ
/* the NULL/0 view makes the loop compare two null pointers with '<' (formally undefined, flagged by CBMC's pointer checks
 * although nothing is dereferenced; every later obligation on that path is then reported UNKNOWN): that single input is
 * exercised natively (unit native_roundtrips) */
#ifdef VERIF_ENC_HUGE
/* a length whose triple does not fit in size_t: must be refused before a byte is read (the view is left unbacked: no
 * object of that size exists, any read through it is flagged) */
#define ENC_CURSOR_REQ(c) (__CPROVER_is_fresh((c), sizeof(*(c))) && (c)->len > SIZE_MAX / 3)
#else
#define ENC_CURSOR_REQ(c) (__CPROVER_is_fresh((c), sizeof(*(c))) && __CPROVER_is_fresh((c)->ptr, (c)->len))
#endif
#endif
int aws_byte_buf_append_encoding_uri_path(struct aws_byte_buf *buffer, const struct aws_byte_cursor *cursor)
ENCODE_CONTRACT(SPEC_PATH_KEEP)
;
int aws_byte_buf_append_encoding_uri_param(struct aws_byte_buf *buffer, const struct aws_byte_cursor *cursor)
ENCODE_CONTRACT(SPEC_UNRESERVED)
;

/* ---- percent decoder.  For every input (well-formed or not): memory safety, termination, at most one output byte per
 * input byte, bytes below the old length untouched, result in {SUCCESS, ERR}.  WHAT is decoded (and that exactly the
 * malformed escapes are refused) is checked against a reference decoder in the bounded unit decode_bounded: the loop
 * reads through a cursor that the loop contract havocs, and CBMC 6.11 does not carry contents through a havocked pointer. */
#define DEC_OK(c, b) ((c)->len <= SIZE_MAX - (b)->len)
#define DEC_GROWS(c, b) ((b)->len + (c)->len > (b)->capacity)
int aws_byte_buf_append_decoding_uri(struct aws_byte_buf *buffer, const struct aws_byte_cursor *cursor)
__CPROVER_requires(BUF_OK(buffer) && buffer->allocator != NULL)
__CPROVER_requires(CUR_OK(cursor))
REQ_WITNESS_BUF(buffer)
__CPROVER_assigns(DEC_OK(cursor, buffer) : *buffer)
__CPROVER_assigns(DEC_OK(cursor, buffer) && !DEC_GROWS(cursor, buffer) && cursor->len > 0 : __CPROVER_object_upto(buffer->buffer + buffer->len, cursor->len))
__CPROVER_assigns(DEC_OK(cursor, buffer) && DEC_GROWS(cursor, buffer) && buffer->capacity > 0 : __CPROVER_object_upto(buffer->buffer, buffer->capacity))
__CPROVER_frees(DEC_OK(cursor, buffer) && DEC_GROWS(cursor, buffer) : buffer->buffer)
__CPROVER_ensures(RET == AWS_OP_SUCCESS || RET == AWS_OP_ERR)
__CPROVER_ensures(buffer->allocator == OLD(buffer->allocator) && buffer->len <= buffer->capacity && buffer->capacity >= OLD(buffer->capacity))
__CPROVER_ensures(buffer->len >= OLD(buffer->len) && buffer->len - OLD(buffer->len) <= cursor->len)
__CPROVER_ensures(cursor->len > SIZE_MAX - OLD(buffer->len) ==> RET == AWS_OP_ERR && buffer->len == OLD(buffer->len) &&
                  buffer->capacity == OLD(buffer->capacity) && buffer->buffer == OLD(buffer->buffer))
__CPROVER_ensures(g_on && g_k < OLD(buffer->len) ==> buffer->buffer[g_k] == g_old)
;

/* ================================================================== ghost log of the delimiter searches (parser units)
 * ASSUMED model of libc memchr (glibc's memchr is not examined; CBMC's library model is an unbounded loop): straight-line
 * code that returns the FIRST occurrence -- result index r with s[r] == c, or NULL -- and logs the search (character,
 * start, length, result index or NONE) in g_mc[].  "First" is the definition of memchr and is what the logged index
 * means in the parser contracts; the model itself only needs s[r] == c.  It is a body rather than a replaced contract
 * because every call replaced by a contract costs the back end a write set and several objects (six calls in
 * s_parse_authority exhaust the default 256 objects). */
#define NONE SIZE_MAX
#define MC_MAX 8
struct mc_rec { uint8_t c; const uint8_t *s; size_t len; size_t res; };
struct mc_rec g_mc[MC_MAX];
size_t g_mc_n;
bool g_mc_on; /* switches the clauses about the search log on (enforcing harness) */
#ifdef VERIF_URI_MEMCHR_MODEL
void *memchr(const void *s, int c, size_t n) {
    __CPROVER_assert(n == 0 || __CPROVER_r_ok(s, n), "memchr: the searched range is readable");
    __CPROVER_assert(g_mc_n < MC_MAX, "memchr: ghost log large enough");
    size_t r = nondet_size_t();
    bool found = nondet_bool();
    if (found) {
        __CPROVER_assume(r < n && ((const uint8_t *)s)[r] == (uint8_t)c);
    } else {
        r = NONE;
    }
    g_mc[g_mc_n].c = (uint8_t)c;
    g_mc[g_mc_n].s = (const uint8_t *)s;
    g_mc[g_mc_n].len = n;
    g_mc[g_mc_n].res = r;
    g_mc_n++;
    return found ? (void *)((const uint8_t *)s + r) : NULL;
}
#endif
/* ghost outcome of the decimal parser of the port (see uri_parse_u64_contract in contracts/uri_parser.h) */
struct pu_rec { bool ok; uint64_t val; size_t len, calls; const uint8_t *ptr; } g_pu;

/* ================================================================== component views of struct aws_uri (used by loop invariants
 * of source/uri.c, so defined before the source is included): NULL/0, or inside the first uri_str.len bytes of uri_str */
#define UVIEW_IN(u, v)                                                                                                 \
    (((u)->v.ptr == NULL && (u)->v.len == 0) ||                                                                        \
     ((u)->uri_str.buffer != NULL && __CPROVER_same_object((u)->v.ptr, (u)->uri_str.buffer) &&                         \
      (size_t)__CPROVER_POINTER_OFFSET((u)->v.ptr) <= (u)->uri_str.len &&                                              \
      (u)->v.len <= (u)->uri_str.len - (size_t)__CPROVER_POINTER_OFFSET((u)->v.ptr)))
#define ALL_UVIEWS_IN(u)                                                                                               \
    (UVIEW_IN(u, scheme) && UVIEW_IN(u, authority) && UVIEW_IN(u, userinfo) && UVIEW_IN(u, user) && UVIEW_IN(u, password) && \
     UVIEW_IN(u, host_name) && UVIEW_IN(u, path) && UVIEW_IN(u, query_string) && UVIEW_IN(u, path_and_query))
#define UVIEW_ZERO(u, v) ((u)->v.ptr == NULL && (u)->v.len == 0)
#define ALL_UVIEWS_ZERO(u)                                                                                             \
    (UVIEW_ZERO(u, scheme) && UVIEW_ZERO(u, authority) && UVIEW_ZERO(u, userinfo) && UVIEW_ZERO(u, user) && UVIEW_ZERO(u, password) && \
     UVIEW_ZERO(u, host_name) && UVIEW_ZERO(u, path) && UVIEW_ZERO(u, query_string) && UVIEW_ZERO(u, path_and_query))

#endif
