/* Function contracts for source/uri.c (property C13; the parser state-function contracts are shared with C04).
 *
 * Postconditions are taken from the property statement and RFC 3986, not from the code:
 *   - SPEC_* macros define the unreserved class and upper-case hex arithmetically;
 *   - component boundaries are "the FIRST delimiter" facts, stated with ghost witness positions (DESIGN 4.3);
 *   - every view of struct aws_uri is NULL/0 or lies inside uri->uri_str (VIEW_IN), required and ensured by every
 *     parser step, for arbitrary input bytes (this is the C04 part).
 */
#ifndef VERIF_CONTRACTS_URI_H
#define VERIF_CONTRACTS_URI_H
#include "contracts/common.h"
#include "contracts/byte_buf.h" /* RET, OLD, PEQ, REQ_WITNESS_BUF, ENS_PREFIX_KEPT, GHOST_RESET */
#include <aws/common/uri.h>

/* ------------------------------------------------------------------ spec: RFC 3986 2.3 unreserved, 2.1 upper-case hex */
#define SPEC_ALNUM(c) (((c) >= 'a' && (c) <= 'z') || ((c) >= 'A' && (c) <= 'Z') || ((c) >= '0' && (c) <= '9'))
#define SPEC_UNRESERVED(c) (SPEC_ALNUM(c) || (c) == '-' || (c) == '_' || (c) == '.' || (c) == '~')
#define SPEC_PATH_KEEP(c) (SPEC_UNRESERVED(c) || (c) == '/')
#define SPEC_HEXU(v) ((uint8_t)((v) < 10 ? '0' + (v) : 'A' + ((v)-10)))
#define SPEC_IS_HEXU(c) (((c) >= '0' && (c) <= '9') || ((c) >= 'A' && (c) <= 'F'))

static uint8_t s_to_uppercase_hex(uint8_t value)
__CPROVER_requires(value < 16)
__CPROVER_assigns()
__CPROVER_ensures(RET == SPEC_HEXU(value))
;

/* one input byte -> 1 kept byte or '%' HEX HEX, appended at buffer->len; nothing else changes.
 * Precondition as asserted by the code: three bytes of spare capacity. */
#define ENC_CHAR_CONTRACT(KEEP)                                                                                        \
    __CPROVER_requires(BUF_OK(buffer) && buffer->capacity - buffer->len >= 3)                                          \
    __CPROVER_assigns(buffer->len)                                                                                     \
    __CPROVER_assigns(KEEP(value) : __CPROVER_object_upto(buffer->buffer + buffer->len, 1))                            \
    __CPROVER_assigns(!KEEP(value) : __CPROVER_object_upto(buffer->buffer + buffer->len, 3))                           \
    __CPROVER_ensures(BUF_SHAPE_KEPT(buffer))                                                                          \
    __CPROVER_ensures(KEEP(value) ==> buffer->len == OLD(buffer->len) + 1 && buffer->buffer[OLD(buffer->len)] == value) \
    __CPROVER_ensures(!KEEP(value) ==> buffer->len == OLD(buffer->len) + 3 && buffer->buffer[OLD(buffer->len)] == '%' && \
                      buffer->buffer[OLD(buffer->len) + 1] == SPEC_HEXU(value >> 4) &&                                 \
                      buffer->buffer[OLD(buffer->len) + 2] == SPEC_HEXU(value & 0x0F))

static void s_unchecked_append_canonicalized_path_character(struct aws_byte_buf *buffer, uint8_t value)
ENC_CHAR_CONTRACT(SPEC_PATH_KEEP)
;
static void s_raw_append_canonicalized_param_character(struct aws_byte_buf *buffer, uint8_t value)
ENC_CHAR_CONTRACT(SPEC_UNRESERVED)
;


/* ---- ghost bookkeeping for the encoder loop (DESIGN 4.3).  The proof TU wraps the per-byte call inside
 * s_encode_cursor_to_buffer with two recording functions (ghost code: they only write g_e):
 *   g_e.cnt counts the calls; for ONE arbitrary call number g_e.i they record the byte that was passed (val), where its
 *   encoding starts (pos) and ends (next), whether it was kept as is (kept), and where the encoding of the following byte
 *   starts (pos2). */
struct enc_ghost { size_t i, cnt, pos, next, pos2; uint8_t val; bool kept; } g_e;
static inline void enc_ghost_pre(const struct aws_byte_buf *b, uint8_t v) {
    if (g_e.cnt == g_e.i) { g_e.pos = b->len; g_e.val = v; }
    if (g_e.cnt == g_e.i + 1) { g_e.pos2 = b->len; }
}
static inline void enc_ghost_post(const struct aws_byte_buf *b) {
    if (g_e.cnt == g_e.i) { g_e.next = b->len; g_e.kept = (g_e.next == g_e.pos + 1); }
    g_e.cnt++;
}
#define ENC_GHOST_HOOK(fn, b, v) (enc_ghost_pre((b), (v)), (fn)((b), (v)), enc_ghost_post(b))

/* ---- the two public encoders.  Complete functional specification, by induction over the witness g_e.i:
 *   the encoding of input byte 0 starts at the old length; the encoding of byte i+1 starts where that of byte i ends;
 *   the new length is where the encoding of the last byte ends; the encoding of byte i is SPEC(in[i]); bytes below the old
 *   length are untouched.  All statements about output bytes go through ONE arbitrary output index g_k (every distinct
 *   symbolic index into storage of symbolic size multiplies the cost of the proof). */
#define SPEC_ENC_BYTE(val, kept, sub) ((uint8_t)((kept) ? (val) : ((sub) == 0 ? '%' : ((sub) == 1 ? SPEC_HEXU((val) >> 4) : SPEC_HEXU((val)&0x0F)))))
#define ENC_OK(c, b) ((c)->len <= SIZE_MAX / 3 && 3 * (c)->len <= SIZE_MAX - (b)->len)
#define ENC_OK_OLD(c, b) ((c)->len <= SIZE_MAX / 3 && 3 * (c)->len <= SIZE_MAX - OLD((b)->len))
#define ENC_GROWS(c, b) ((b)->len + 3 * (c)->len > (b)->capacity)
#define ENCODE_CONTRACT(KEEP)                                                                                          \
    __CPROVER_requires(BUF_OK(buffer) && buffer->allocator != NULL)                                                    \
    __CPROVER_requires(ENC_CURSOR_REQ(cursor))                                                                         \
    REQ_WITNESS_BUF(buffer)                                                                                            \
    __CPROVER_requires(g_e.cnt == 0)                                                                                   \
    __CPROVER_assigns(ENC_OK(cursor, buffer) : *buffer)                                                                \
    __CPROVER_assigns(ENC_OK(cursor, buffer) && !ENC_GROWS(cursor, buffer) && cursor->len > 0 :                        \
                      __CPROVER_object_upto(buffer->buffer + buffer->len, 3 * cursor->len))                            \
    __CPROVER_assigns(ENC_OK(cursor, buffer) && ENC_GROWS(cursor, buffer) && buffer->capacity > 0 :                    \
                      __CPROVER_object_upto(buffer->buffer, buffer->capacity))                                         \
    __CPROVER_frees(ENC_OK(cursor, buffer) && ENC_GROWS(cursor, buffer) : buffer->buffer)                              \
    __CPROVER_assigns(g_e)                                                                                             \
    __CPROVER_ensures(RET == AWS_OP_SUCCESS || RET == AWS_OP_ERR)                                                      \
    __CPROVER_ensures((RET == AWS_OP_SUCCESS) == ENC_OK_OLD(cursor, buffer))                                           \
    __CPROVER_ensures(buffer->allocator == OLD(buffer->allocator) && buffer->len <= buffer->capacity)                  \
    __CPROVER_ensures(RET != AWS_OP_SUCCESS ==> buffer->len == OLD(buffer->len) && buffer->capacity == OLD(buffer->capacity) && \
                      buffer->buffer == OLD(buffer->buffer))                                                           \
    __CPROVER_ensures(RET == AWS_OP_SUCCESS ==> buffer->capacity >= OLD(buffer->capacity) &&                           \
                      (buffer->capacity == 0 || __CPROVER_rw_ok(buffer->buffer, buffer->capacity)))                    \
    __CPROVER_ensures(RET == AWS_OP_SUCCESS ==> buffer->len >= OLD(buffer->len) + cursor->len &&                       \
                      buffer->len <= OLD(buffer->len) + 3 * cursor->len)                                               \
    __CPROVER_ensures(RET == AWS_OP_SUCCESS && cursor->len == 0 ==> buffer->len == OLD(buffer->len))                   \
    __CPROVER_ensures(RET == AWS_OP_SUCCESS && g_e.i < cursor->len ==>                                                 \
                      g_e.val == cursor->ptr[g_e.i] && g_e.kept == KEEP(g_e.val) && g_e.pos >= OLD(buffer->len) + g_e.i && \
                      g_e.next == g_e.pos + (g_e.kept ? 1 : 3) && g_e.next <= buffer->len)                             \
    __CPROVER_ensures(RET == AWS_OP_SUCCESS && g_e.i == 0 && cursor->len > 0 ==> g_e.pos == OLD(buffer->len))          \
    __CPROVER_ensures(RET == AWS_OP_SUCCESS && g_e.i < cursor->len && g_e.i + 1 < cursor->len ==> g_e.pos2 == g_e.next) \
    __CPROVER_ensures(RET == AWS_OP_SUCCESS && g_e.i < cursor->len && g_e.i + 1 == cursor->len ==> buffer->len == g_e.next) \
    __CPROVER_ensures(g_on && RET == AWS_OP_SUCCESS && g_k < buffer->len ==>                                           \
                      (g_k < OLD(buffer->len) ? buffer->buffer[g_k] == g_old                                           \
                       : (g_e.i < cursor->len && g_k >= g_e.pos && g_k < g_e.next ==>                                  \
                          buffer->buffer[g_k] == SPEC_ENC_BYTE(g_e.val, g_e.kept, g_k - g_e.pos))))

#ifndef ENC_CURSOR_REQ
/* the NULL/0 view makes the loop compare two null pointers with '<' (formally undefined, flagged by CBMC's pointer checks
 * although nothing is dereferenced; every later obligation on that path is then reported UNKNOWN): that single input is
 * exercised natively (unit native_roundtrips) */
#ifdef VERIF_ENC_HUGE
/* a length whose triple does not fit in size_t: must be refused before a byte is read (the view is left unbacked: no
 * object of that size exists, any read through it is flagged) */
#define ENC_CURSOR_REQ(c) (__CPROVER_is_fresh((c), sizeof(*(c))) && (c)->len > SIZE_MAX / 3)
#else
#define ENC_CURSOR_REQ(c) (__CPROVER_is_fresh((c), sizeof(*(c))) && __CPROVER_is_fresh((c)->ptr, (c)->len))
#endif
#endif
int aws_byte_buf_append_encoding_uri_path(struct aws_byte_buf *buffer, const struct aws_byte_cursor *cursor)
ENCODE_CONTRACT(SPEC_PATH_KEEP)
;
int aws_byte_buf_append_encoding_uri_param(struct aws_byte_buf *buffer, const struct aws_byte_cursor *cursor)
ENCODE_CONTRACT(SPEC_UNRESERVED)
;

/* ---- percent decoder.  For every input (well-formed or not): memory safety, termination, at most one output byte per
 * input byte, bytes below the old length untouched, result in {SUCCESS, ERR}.  WHAT is decoded (and that exactly the
 * malformed escapes are refused) is checked against a reference decoder in the bounded unit decode_bounded: the loop
 * reads through a cursor that the loop contract havocs, and CBMC 6.11 does not carry contents through a havocked pointer. */
#define DEC_OK(c, b) ((c)->len <= SIZE_MAX - (b)->len)
#define DEC_GROWS(c, b) ((b)->len + (c)->len > (b)->capacity)
int aws_byte_buf_append_decoding_uri(struct aws_byte_buf *buffer, const struct aws_byte_cursor *cursor)
__CPROVER_requires(BUF_OK(buffer) && buffer->allocator != NULL)
__CPROVER_requires(CUR_OK(cursor))
REQ_WITNESS_BUF(buffer)
__CPROVER_assigns(DEC_OK(cursor, buffer) : *buffer)
__CPROVER_assigns(DEC_OK(cursor, buffer) && !DEC_GROWS(cursor, buffer) && cursor->len > 0 : __CPROVER_object_upto(buffer->buffer + buffer->len, cursor->len))
__CPROVER_assigns(DEC_OK(cursor, buffer) && DEC_GROWS(cursor, buffer) && buffer->capacity > 0 : __CPROVER_object_upto(buffer->buffer, buffer->capacity))
__CPROVER_frees(DEC_OK(cursor, buffer) && DEC_GROWS(cursor, buffer) : buffer->buffer)
__CPROVER_ensures(RET == AWS_OP_SUCCESS || RET == AWS_OP_ERR)
__CPROVER_ensures(buffer->allocator == OLD(buffer->allocator) && buffer->len <= buffer->capacity && buffer->capacity >= OLD(buffer->capacity))
__CPROVER_ensures(buffer->len >= OLD(buffer->len) && buffer->len - OLD(buffer->len) <= cursor->len)
__CPROVER_ensures(cursor->len > SIZE_MAX - OLD(buffer->len) ==> RET == AWS_OP_ERR && buffer->len == OLD(buffer->len) &&
                  buffer->capacity == OLD(buffer->capacity) && buffer->buffer == OLD(buffer->buffer))
__CPROVER_ensures(g_on && g_k < OLD(buffer->len) ==> buffer->buffer[g_k] == g_old)
;

/* ================================================================== query-string iteration: ONE STEP of aws_query_string_next_param
 * Property: "Query-string iteration yields each non-empty key/value pair once, in order" (queries with empty pairs, missing
 * '=' and repeated '&').  The PAIRS of a query string Q are its maximal '&'-free pieces; one step hands out the first
 * non-empty piece that starts at or after the position S where the search is due to start:
 *     first call (param->value.ptr == NULL: zeroed param)     S = 0
 *     resume     (param = the pair handed out before)          S = (end of that pair) + 1
 *                                                                = offset(value.ptr) + value.len + 1
 *                (a key WITHOUT '=' has value = the empty view at the END of the key, so the end of the pair is the end of
 *                 the value in both shapes)
 * "once, in order" is then the induction over the steps: every byte in [S, start of the returned pair) is '&' (only EMPTY
 * pieces were skipped, nothing non-empty is lost, nothing before S is seen again), the returned pair is a maximal '&'-free
 * non-empty piece (ends at '&' or at the end of Q), and `false` is returned exactly when nothing but '&' is left from S on.
 * The pair is split at its FIRST '=': key = text before it, value = text after it; no '=': key = the piece, value = empty
 * view at its end.  Everything is a sub-view of Q.  "For all positions" is stated for the arbitrary witnesses g_qw (a
 * skipped position) and g_j (a position inside the pair; the same witness the contracts of aws_byte_cursor_next_split and
 * memchr in contracts/byte_buf.h speak about).  g_qs_s names S (pinned in `requires`).
 * The callees aws_byte_cursor_next_split (PROVED in C01: units next_split / next_split_end) and memchr (ASSUMED) are
 * replaced by their contracts from contracts/byte_buf.h; the skipping do-while has a loop contract (overlay/uri.loops).
 * The view without storage (NULL, 0) is not covered here (the loop contract cannot carry next_split's "some fresh
 * non-NULL pointer" through the loop head): bounded unit query_bounded and native_roundtrips. */
size_t g_qs_s; /* S: offset in Q at which the search for the next pair starts */
size_t g_qw;   /* arbitrary position: "every skipped byte is '&'" / "nothing but '&' is left" */
#define QS_OFF(q, p) ((size_t)(POFF(p) - POFF((q).ptr)))
#define QS_IN(q, p) (__CPROVER_same_object((p), (q).ptr) && POFF(p) >= POFF((q).ptr) && QS_OFF(q, p) <= (q).len)
/* length of the pair {key, value}: the key, plus '=' and the value in the "key=value" shape.  In both shapes this is the
 * distance from the start of the key to the END OF THE VALUE (the contract ensures one of the two shapes); it is written
 * shape-wise because the SAT back end is slow on offset differences that have to be cancelled against the code's own
 * arithmetic (350 s instead of 75 s). */
#define QS_PAIR_LEN(pm) ((pm)->value.ptr == (pm)->key.ptr + (pm)->key.len ? (pm)->key.len : (pm)->key.len + 1 + (pm)->value.len)
/* the two shapes of a pair: "key=value" / "key" */
#define QS_HAS_EQ(pm) ((pm)->value.ptr == (pm)->key.ptr + (pm)->key.len + 1)
#define QS_NO_EQ(pm) ((pm)->value.ptr == (pm)->key.ptr + (pm)->key.len && (pm)->value.len == 0)
bool aws_query_string_next_param(struct aws_byte_cursor query_string, struct aws_uri_param *param)
__CPROVER_requires(__CPROVER_is_fresh(param, sizeof(*param)))
__CPROVER_requires(query_string.ptr != NULL && __CPROVER_is_fresh(query_string.ptr, query_string.len))
/* resume: param is a pair handed out before - key and value are views inside Q in one of the two shapes */
__CPROVER_requires(param->value.ptr != NULL ==>
                   __CPROVER_pointer_in_range_dfcc(query_string.ptr, param->key.ptr, query_string.ptr + query_string.len) &&
                   __CPROVER_pointer_in_range_dfcc(query_string.ptr, param->value.ptr, query_string.ptr + query_string.len) &&
                   param->key.len <= query_string.len - QS_OFF(query_string, param->key.ptr) &&
                   param->value.len <= query_string.len - QS_OFF(query_string, param->value.ptr) &&
                   (QS_HAS_EQ(param) || QS_NO_EQ(param)))
__CPROVER_requires(g_qs_s == (param->value.ptr == NULL ? (size_t)0 : QS_OFF(query_string, param->value.ptr) + param->value.len + 1))
__CPROVER_assigns(*param, g_mm)
/* ---- nothing left: param untouched, and from S on there is nothing but '&' (or S is behind the end) */
__CPROVER_ensures(!RET ==> param->key.ptr == OLD(param->key.ptr) && param->key.len == OLD(param->key.len) &&
                           param->value.ptr == OLD(param->value.ptr) && param->value.len == OLD(param->value.len))
__CPROVER_ensures(!RET && g_qs_s <= g_qw && g_qw < query_string.len ==> query_string.ptr[g_qw] == '&')
/* ---- a pair: it starts inside Q at or after S, and only empty pieces were skipped */
__CPROVER_ensures(RET ==> QS_IN(query_string, param->key.ptr) && QS_OFF(query_string, param->key.ptr) >= g_qs_s)
__CPROVER_ensures(RET && g_qs_s <= g_qw && g_qw < QS_OFF(query_string, param->key.ptr) ==> query_string.ptr[g_qw] == '&')
/* ---- the pair: sub-views of Q, non-empty */
__CPROVER_ensures(RET ==> QS_IN(query_string, param->key.ptr) && QS_IN(query_string, param->value.ptr) &&
                          POFF(param->value.ptr) >= POFF(param->key.ptr) && QS_PAIR_LEN(param) > 0 &&
                          QS_PAIR_LEN(param) <= query_string.len - QS_OFF(query_string, param->key.ptr))
/* it is a maximal '&'-free piece */
__CPROVER_ensures(RET && g_j < QS_PAIR_LEN(param) ==> param->key.ptr[g_j] != '&')
__CPROVER_ensures(RET && QS_OFF(query_string, param->key.ptr) + QS_PAIR_LEN(param) < query_string.len ==>
                  param->key.ptr[QS_PAIR_LEN(param)] == '&')
/* split at the FIRST '=' (key = text before it, value = text after it), or no '=' at all: value empty */
__CPROVER_ensures(RET ==> param->key.len <= QS_PAIR_LEN(param) && (g_j < param->key.len ==> param->key.ptr[g_j] != '='))
__CPROVER_ensures(RET ==> (QS_HAS_EQ(param) && param->key.len < QS_PAIR_LEN(param) && param->key.ptr[param->key.len] == '=') ||
                          (QS_NO_EQ(param) && param->key.len == QS_PAIR_LEN(param)))
;

/* ================================================================== ghost log of the delimiter searches (parser units)
 * ASSUMED model of libc memchr (glibc's memchr is not examined; CBMC's library model is an unbounded loop): straight-line
 * code that returns the FIRST occurrence -- result index r with s[r] == c, or NULL -- and logs the search (character,
 * start, length, result index or NONE) in g_mc[].  "First" is the definition of memchr and is what the logged index
 * means in the parser contracts; the model itself only needs s[r] == c.  It is a body rather than a replaced contract
 * because every call replaced by a contract costs the back end a write set and several objects (six calls in
 * s_parse_authority exhaust the default 256 objects). */
#define NONE SIZE_MAX
#define MC_MAX 8
struct mc_rec { uint8_t c; const uint8_t *s; size_t len; size_t res; };
struct mc_rec g_mc[MC_MAX];
size_t g_mc_n;
bool g_mc_on; /* switches the clauses about the search log on (enforcing harness) */
#ifdef VERIF_URI_MEMCHR_MODEL
void *memchr(const void *s, int c, size_t n) {
    __CPROVER_assert(n == 0 || __CPROVER_r_ok(s, n), "memchr: the searched range is readable");
    __CPROVER_assert(g_mc_n < MC_MAX, "memchr: ghost log large enough");
    size_t r = nondet_size_t();
    bool found = nondet_bool();
    if (found) {
        __CPROVER_assume(r < n && ((const uint8_t *)s)[r] == (uint8_t)c);
    } else {
        r = NONE;
    }
    g_mc[g_mc_n].c = (uint8_t)c;
    g_mc[g_mc_n].s = (const uint8_t *)s;
    g_mc[g_mc_n].len = n;
    g_mc[g_mc_n].res = r;
    g_mc_n++;
    return found ? (void *)((const uint8_t *)s + r) : NULL;
}
#endif
/* ghost outcome of the decimal parser of the port (see uri_parse_u64_contract in contracts/uri_parser.h) */
struct pu_rec { bool ok; uint64_t val; size_t len, calls; const uint8_t *ptr; } g_pu;

/* ================================================================== component views of struct aws_uri (used by loop invariants
 * of source/uri.c, so defined before the source is included): NULL/0, or inside the first uri_str.len bytes of uri_str */
#define UVIEW_IN(u, v)                                                                                                 \
    (((u)->v.ptr == NULL && (u)->v.len == 0) ||                                                                        \
     ((u)->uri_str.buffer != NULL && __CPROVER_same_object((u)->v.ptr, (u)->uri_str.buffer) &&                         \
      (size_t)__CPROVER_POINTER_OFFSET((u)->v.ptr) <= (u)->uri_str.len &&                                              \
      (u)->v.len <= (u)->uri_str.len - (size_t)__CPROVER_POINTER_OFFSET((u)->v.ptr)))
#define ALL_UVIEWS_IN(u)                                                                                               \
    (UVIEW_IN(u, scheme) && UVIEW_IN(u, authority) && UVIEW_IN(u, userinfo) && UVIEW_IN(u, user) && UVIEW_IN(u, password) && \
     UVIEW_IN(u, host_name) && UVIEW_IN(u, path) && UVIEW_IN(u, query_string) && UVIEW_IN(u, path_and_query))
#define UVIEW_ZERO(u, v) ((u)->v.ptr == NULL && (u)->v.len == 0)
#define ALL_UVIEWS_ZERO(u)                                                                                             \
    (UVIEW_ZERO(u, scheme) && UVIEW_ZERO(u, authority) && UVIEW_ZERO(u, userinfo) && UVIEW_ZERO(u, user) && UVIEW_ZERO(u, password) && \
     UVIEW_ZERO(u, host_name) && UVIEW_ZERO(u, path) && UVIEW_ZERO(u, query_string) && UVIEW_ZERO(u, path_and_query))

#endif
