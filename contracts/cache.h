/* Contracts of the caches (source/cache.c, fifo_cache.c, lifo_cache.c, lru_cache.c) for property C18.
 * Same refinement set-up as contracts/linked_hash_table.h (read that first): the cache units run the REAL cache function
 * on top of the REAL linked hash table code (source/linked_hash_table.c is part of the unit, not replaced); only the hash
 * table underneath is the assumed client view.
 *
 * Roles (ghost, set by the unit before the call):
 *   g_C  the cache                g_T == &g_C->table
 *   g_M  node of the entry whose key equals the operation key (NULL: none)
 *   g_X  node the policy must evict on this call (NULL: no eviction):
 *          FIFO / LRU : the front of the list (oldest inserted / least recently used)
 *          LIFO       : the back of the list before the call (most recently inserted before the new one)
 *        an eviction happens exactly when the key is new, the hash table can create it and the cache is full.
 * The assigns / frees clauses are the frame: the two nodes, the links of their neighbours, the back of the list, the
 * ghost model.  Nothing else may be written (every other node, every hidden neighbour, the cache header, max_items).
 */
#ifndef VERIF_CONTRACTS_CACHE_H
#define VERIF_CONTRACTS_CACHE_H
#include "contracts/linked_hash_table.h"
#include <aws/common/fifo_cache.h>
#include <aws/common/lifo_cache.h>
#include <aws/common/lru_cache.h>
#include <stdarg.h>

struct aws_cache *g_C;

#define CACHE_PUT_CONTRACT                                                                                             \
    __CPROVER_requires(cache == g_C && g_T == &g_C->table && g_C->max_items >= 1)                                      \
    __CPROVER_assigns(LHT_GHOST_FRAME)                                                                                 \
    __CPROVER_assigns(g_M != NULL || !g_m.create_fails : LHT_PUSH_BACK_FRAME)                                          \
    __CPROVER_assigns(g_M != NULL : LHT_UNLINK_FRAME(g_M))                                                             \
    __CPROVER_assigns(g_X != NULL : LHT_UNLINK_FRAME(g_X))                                                             \
    __CPROVER_frees(g_M != NULL : g_M)                                                                                 \
    __CPROVER_frees(g_X != NULL : g_X)                                                                                 \
    __CPROVER_ensures((__CPROVER_return_value == AWS_OP_SUCCESS) == (g_M != NULL || !g_m.create_fails))                \
    __CPROVER_ensures(__CPROVER_return_value == AWS_OP_SUCCESS || __CPROVER_return_value == AWS_OP_ERR)                \
    __CPROVER_ensures(g_m.count <= g_C->max_items)

static int s_fifo_cache_put(struct aws_cache *cache, const void *key, void *p_value)
CACHE_PUT_CONTRACT
;
static int s_lifo_cache_put(struct aws_cache *cache, const void *key, void *p_value)
CACHE_PUT_CONTRACT
;
static int s_lru_cache_put(struct aws_cache *cache, const void *key, void *p_value)
CACHE_PUT_CONTRACT
;

/* LRU lookup counts as use: the entry found moves to the back; nothing is written when the key is absent */
static int s_lru_cache_find(struct aws_cache *cache, const void *key, void **p_value)
__CPROVER_requires(cache == g_C && g_T == &g_C->table && p_value != NULL)
__CPROVER_assigns(*p_value)
__CPROVER_assigns(g_M != NULL : g_M->node, g_M->node.prev->next, g_M->node.next->prev, LHT_PUSH_BACK_FRAME)
__CPROVER_ensures(__CPROVER_return_value == AWS_OP_SUCCESS)
__CPROVER_ensures(*p_value == (g_M != NULL ? g_M->value : NULL))
;

/* g_M: the front node (NULL: empty cache).  The least recently used entry becomes the most recently used one. */
static void *s_lru_cache_use_lru_element(struct aws_cache *cache)
__CPROVER_requires(cache == g_C && g_T == &g_C->table)
__CPROVER_assigns(g_M != NULL : g_M->node, g_M->node.prev->next, g_M->node.next->prev, LHT_PUSH_BACK_FRAME)
__CPROVER_ensures(__CPROVER_return_value == (g_M != NULL ? g_M->value : NULL))
;
/* g_M: the back node (NULL: empty cache).  Pure. */
static void *s_lru_cache_get_mru_element(const struct aws_cache *cache)
__CPROVER_requires(cache == g_C && g_T == &g_C->table)
__CPROVER_assigns()
__CPROVER_ensures(__CPROVER_return_value == (g_M != NULL ? g_M->value : NULL))
;

/* default entry points shared by the three caches: plain forwarders to the linked hash table */
int aws_cache_base_default_find(struct aws_cache *cache, const void *key, void **p_value)
__CPROVER_requires(cache == g_C && g_T == &g_C->table && p_value != NULL)
__CPROVER_assigns(*p_value)
__CPROVER_ensures(__CPROVER_return_value == AWS_OP_SUCCESS)
__CPROVER_ensures(*p_value == (g_M != NULL ? g_M->value : NULL))
;
int aws_cache_base_default_remove(struct aws_cache *cache, const void *key)
__CPROVER_requires(cache == g_C && g_T == &g_C->table)
__CPROVER_assigns(LHT_GHOST_FRAME)
__CPROVER_assigns(g_M != NULL : LHT_UNLINK_FRAME(g_M))
__CPROVER_frees(g_M != NULL : g_M)
__CPROVER_ensures(__CPROVER_return_value == AWS_OP_SUCCESS)
;
size_t aws_cache_base_default_get_element_count(const struct aws_cache *cache)
__CPROVER_requires(cache == g_C && g_T == &g_C->table)
__CPROVER_assigns()
__CPROVER_ensures(__CPROVER_return_value == g_m.count)
;
/* BOUNDED (whole list materialised, see aws_linked_hash_table_clear) */
void aws_cache_base_default_clear(struct aws_cache *cache)
__CPROVER_requires(cache == g_C && g_T == &g_C->table && g_a.hidden == 0)
__CPROVER_assigns(LHT_GHOST_FRAME, g_T->list.head.next, g_T->list.tail.prev)
LHT_ALL_NODES_FRAME
__CPROVER_ensures(g_T->list.head.next == &g_T->list.tail && g_T->list.tail.prev == &g_T->list.head)
;
void aws_cache_base_default_destroy(struct aws_cache *cache)
__CPROVER_requires(cache == g_C && g_T == &g_C->table && g_a.hidden == 0)
__CPROVER_assigns(LHT_GHOST_FRAME, __CPROVER_object_whole(g_C))
LHT_ALL_NODES_FRAME
__CPROVER_frees(g_C)
__CPROVER_ensures(g_m.ht_cleaned)
;

/* allocator entry point used by aws_cache_new_lru (model of the contract proved in C01: one block, the parts 8-aligned) */
void *aws_mem_acquire_many(struct aws_allocator *allocator, size_t count, ...) {
    __CPROVER_assert(allocator == &g_lht_allocator, "allocation goes to the given allocator");
    __CPROVER_assert(count == 2, "model: aws_mem_acquire_many is modelled for two parts");
    va_list ap;
    va_start(ap, count);
    void **p0 = va_arg(ap, void **);
    size_t s0 = va_arg(ap, size_t);
    void **p1 = va_arg(ap, void **);
    size_t s1 = va_arg(ap, size_t);
    va_end(ap);
    size_t a0 = (s0 + 7) & ~(size_t)7, a1 = (s1 + 7) & ~(size_t)7;
    char *blk = malloc(a0 + a1);
    __CPROVER_assume(blk != NULL);
    g_m.calloc_calls++;
    g_m.calloc_last = blk;
    *p0 = blk;
    *p1 = blk + a0;
    return blk;
}

#endif
