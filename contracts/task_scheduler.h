/* Function contracts for source/task_scheduler.c (property C07).
 *
 * MODEL (DESIGN §4.5 "aliasing by arena", §4.6 "user callbacks")
 * --------------------------------------------------------------
 * Every list operation of the scheduler outside s_run_all is loop-free pointer surgery on at most three nodes (the
 * task's own node and its two neighbours).  The proof units therefore place everything such an operation can touch in
 * static objects of this header:
 *     g_tk[TSK]   an arena of tasks (the task of the call and every task that can be its list neighbour)
 *     g_sc        the scheduler
 *     g_run       the private batch list of an s_run_all call that is further up the call stack (a task function that
 *                 cancels a task which was already moved to the current run's batch unlinks it from THAT list)
 * and the harness lets every next/prev pointer of every arena node and of the six sentinels be ANY of: an arena node, one
 * of the six sentinels, NULL.  The contracts' `requires` cut this down to exactly the local well-formedness the
 * operation needs (e.g. "the back of the FIFO points back at the tail sentinel"), never to whole-list shapes, so the
 * result holds for lists of any length: nodes further away are not touched, and the FRAME (assigns clause) says so.
 *
 * The binary heap (timed_queue) is seen through CLIENT contracts of aws_priority_queue_push_ref/top/remove
 * (assumed here; the queue's own behaviour is property C06).  Its abstract view:
 *     g_q_size                       number of elements
 *     t is in the heap          <=>  t->priority_queue_node.current_index < g_q_size     ("handles track their element";
 *                                    C06: pop/remove/node_init leave SIZE_MAX in the handle, push_ref a valid slot)
 *     g_q_top_i                      arena index of the element the next top() call shows (a minimum, C06); top() hands out
 *                                    &g_q_slot[g_q_top_i] (constant table of the arena addresses), because the
 *                                    scheduler receives a pointer INTO the heap storage, not the element
 *     g_q_push_fails                 the environment's choice whether the next push_ref is refused
 * Each call leaves a record (g_q_pushed*, g_q_removed*, call counters), so that the scheduler contracts can say WHAT was
 * handed to the queue (this task, this handle, with the time stamp already in place) and how often.
 *
 * Task functions are function pointers that obey ts_task_fn_contract: a ghost log of invocations (total counter, last
 * task / arg / status), so "invoked exactly once, with this status" is `g_fn_calls == old + 1 && g_fn_task == task ..`.
 * Its PRECONDITION is what the scheduler owes the task function at the moment of the call: the scheduled flag is
 * already cleared and (g_fn_req_detached, set by the scheduler-level units) the task is unlinked from every list and its
 * heap handle says not-in-queue - i.e. the function may re-schedule, re-initialise or release its own task.  The
 * contract havocs the whole task object (but the function pointer) for the same reason: nothing may be read from it after the call.
 */
#ifndef VERIF_CONTRACTS_TASK_SCHEDULER_H
#define VERIF_CONTRACTS_TASK_SCHEDULER_H
#include "contracts/common.h"
#include <aws/common/task_scheduler.h>

#ifndef RET
#    define RET __CPROVER_return_value
#endif
#ifndef OLD
#    define OLD __CPROVER_old
#endif
#ifndef PEQ
#    define PEQ(p, q) __CPROVER_pointer_equals((p), (q))
#endif

#ifndef VERIF_TS_K
#    define VERIF_TS_K 4
#endif
#define TSK ((size_t)(VERIF_TS_K))

/* ---------------------------------------------------------------- ghost state */
struct aws_task g_tk[VERIF_TS_K];
struct aws_task_scheduler g_sc;
struct aws_linked_list g_run;
struct aws_allocator g_ts_alloc; /* only its address matters */
uint64_t g_next_out;             /* where has_tasks() reports the next time */

/* invocation log of the task functions (one object: one assigns target) */
struct ts_fn_log {
    size_t calls;           /* total number of invocations */
    struct aws_task *task;  /* last invocation: task, arg, status */
    void *arg;
    int status;
    bool st_bad;            /* some aws_task_run call had another status than g_expect_status */
} g_fl;
#define g_fn_calls g_fl.calls
#define g_fn_task g_fl.task
#define g_fn_arg g_fl.arg
#define g_fn_status g_fl.status
#define g_st_bad g_fl.st_bad
bool g_fn_req_detached;
int g_expect_status;

/* abstract heap + call records */
struct ts_abs {
    size_t q_size, q_top_i, q_ntop;
    size_t asap_len, tl_len, run_len, tl_front_i, run_front_i;
    uint64_t last_moved_ts; /* time of the task that entered the batch last */
    bool swapped;           /* the run-now FIFO was handed to the batch */
    bool moved_any;
    size_t moved_timed;     /* number of timed tasks moved to the batch */
} g_ab;                     /* one object: one assigns target */
/* (members of g_ab, the one object that holds the abstract container state: callers that change all of it name one
 * assigns target, which keeps DFCC's write-set inclusion loops short) */
#define g_q_size g_ab.q_size   /* number of elements */
#define g_q_top_i g_ab.q_top_i /* arena index of the task at the top (meaningful when g_q_size > 0) */
#define g_q_ntop g_ab.q_ntop   /* number of top() calls */
struct aws_task *g_q_slot[VERIF_TS_K]; /* g_q_slot[i] == &g_tk[i], never written: top() hands out &g_q_slot[g_q_top_i] */
#define g_q_top (&g_tk[g_q_top_i])
bool g_q_push_fails;
size_t g_q_npush, g_q_nremove;
struct aws_task *g_q_pushed;                 /* the element handed to push_ref               */
uint64_t g_q_pushed_ts;                      /* its time stamp AT THE MOMENT of the push     */
struct aws_priority_queue_node *g_q_pushed_bp;
const struct aws_priority_queue_node *g_q_removed_bp;
bool g_q_removed_ok;

/* witnesses of the "earliest pending time" clause: one arbitrary pending task and where it is */
struct aws_task *g_w;
bool g_w_asap, g_w_list, g_w_heap;

/* records of the s_run_all / has_tasks stand-ins (run_all, clean_up units) */
size_t g_ra_calls;
uint64_t g_ra_time;
int g_ra_status;
bool g_ra_bad;       /* some s_run_all call had other arguments than (UINT64_MAX, CANCELED) */
bool g_ht_last;      /* result of the most recent has_tasks call */
size_t g_ht_calls;
size_t g_qc_calls;   /* aws_priority_queue_clean_up calls */
bool g_qc_after_pending; /* ... made although the most recent has_tasks answer was "tasks pending" */
bool g_init_fails;

#define GHOST_RESET_TS()                                                                                               \
    do {                                                                                                               \
        GHOST_RESET_COMMON();                                                                                          \
        g_fn_req_detached = false;                                                                                     \
        g_fn_calls = 0; g_q_npush = 0; g_q_ntop = 0; g_q_nremove = 0; g_ra_calls = 0; g_ra_bad = false;                \
        g_ht_calls = 0; g_qc_calls = 0; g_qc_after_pending = false; g_q_removed_ok = false;                            \
        g_st_bad = false; g_swapped = false; g_moved_any = false; g_moved_timed = 0;                                   \
    } while (0)

/* ---------------------------------------------------------------- places */
#define TS_POFF(p) ((size_t)__CPROVER_POINTER_OFFSET(p))
#define TS_IS_TASK(p)                                                                                                  \
    (__CPROVER_same_object((p), g_tk) && TS_POFF(p) < sizeof(g_tk) && TS_POFF(p) % sizeof(struct aws_task) == 0)
#define TS_IS_TNODE(p)                                                                                                 \
    (__CPROVER_same_object((p), g_tk) && TS_POFF(p) < sizeof(g_tk) &&                                                  \
     TS_POFF(p) % sizeof(struct aws_task) == offsetof(struct aws_task, node))
#define TS_TASK_OF(n) ((struct aws_task *)((uint8_t *)(n)-offsetof(struct aws_task, node)))
#define TS_IS_SENTINEL(p)                                                                                              \
    ((p) == &g_sc.asap_list.head || (p) == &g_sc.asap_list.tail || (p) == &g_sc.timed_list.head ||                     \
     (p) == &g_sc.timed_list.tail || (p) == &g_run.head || (p) == &g_run.tail)
#define TS_IS_PLACE(p) (TS_IS_TNODE(p) || TS_IS_SENTINEL(p))
#define TS_SCHEDULED(t) ((t)->abi_extension.scheduled)
#define TS_HANDLE(t) ((t)->priority_queue_node.current_index)
#define TS_IN_HEAP(t) (TS_HANDLE(t) < g_q_size)
#define TS_UNLINKED(t) ((t)->node.next == NULL && (t)->node.prev == NULL && TS_HANDLE(t) == SIZE_MAX)

/* everything of a task except its function pointer (what the task function may rewrite: it may re-schedule the task) */
/* (one byte range: everything behind the first member; one assigns target instead of six keeps DFCC's write-set inclusion checks small) */
#define TS_A_TASK_BUT_FN(t) __CPROVER_object_upto((uint8_t *)&(t)->arg, sizeof(struct aws_task) - offsetof(struct aws_task, arg))

/* ---------------------------------------------------------------- task function (DESIGN §4.6) */
void ts_task_fn_contract(struct aws_task *task, void *arg, enum aws_task_status status)
__CPROVER_requires(TS_IS_TASK(task))
/* "scheduled flag cleared before the function is invoked" */
__CPROVER_requires(!TS_SCHEDULED(task))
/* scheduler-level callers: the task is out of every container when its function runs */
__CPROVER_requires(g_fn_req_detached ==> TS_UNLINKED(task))
__CPROVER_assigns(g_fl, TS_A_TASK_BUT_FN(task))
__CPROVER_ensures(g_fn_calls == OLD(g_fn_calls) + 1 && g_fn_task == task && g_fn_arg == arg && g_fn_status == (int)status)
/* running tally for callers that make many invocations: some invocation had another status than g_expect_status */
__CPROVER_ensures(g_st_bad == (OLD(g_st_bad) || (int)status != g_expect_status))
;
aws_task_fn *g_ts_keep_fn = ts_task_fn_contract; /* address taken: required by obeys_contract */

#define TS_FN_OK(t) __CPROVER_obeys_contract((t)->fn, ts_task_fn_contract)
/* "the function of `task` was invoked exactly once by this call, with status st and the task's own arg" */
#define TS_RAN_ONCE(task, st)                                                                                          \
    (g_fn_calls == OLD(g_fn_calls) + 1 && g_fn_task == (task) && g_fn_arg == OLD((task)->arg) && g_fn_status == (int)(st))
#define TS_A_FN_LOG g_fl

/* ---------------------------------------------------------------- environment */
/* ASSUMED: no logger is installed (the AWS_LOGF_TRACE call sites are then dead; logging is not part of the property) */
struct aws_logger *aws_logger_get(void)
__CPROVER_requires(1)
__CPROVER_assigns()
__CPROVER_ensures(RET == NULL)
;

#define TS_SLOTS_OK (g_q_slot[0] == &g_tk[0] && g_q_slot[1] == &g_tk[1] && g_q_slot[2] == &g_tk[2] && g_q_slot[3] == &g_tk[3])

/* ---------------------------------------------------------------- heap: client contracts (assumed; C06) */
void aws_priority_queue_node_init(struct aws_priority_queue_node *node)
__CPROVER_requires(__CPROVER_w_ok(node, sizeof(*node)))
__CPROVER_assigns(node->current_index)
__CPROVER_ensures(node->current_index == SIZE_MAX)
;

/* push with handle.  The caller hands over a task pointer whose handle says not-in-queue.  Refusal changes nothing. */
int aws_priority_queue_push_ref(struct aws_priority_queue *queue, void *item, struct aws_priority_queue_node *backpointer)
__CPROVER_requires(queue == &g_sc.timed_queue)
__CPROVER_requires(__CPROVER_r_ok(item, sizeof(struct aws_task *)) && TS_IS_TASK(*(struct aws_task **)item))
__CPROVER_requires(__CPROVER_w_ok(backpointer, sizeof(*backpointer)) && backpointer->current_index == SIZE_MAX)
__CPROVER_requires(g_q_size < SIZE_MAX - 1)
__CPROVER_assigns(g_q_npush, g_q_pushed, g_q_pushed_ts, g_q_pushed_bp)
__CPROVER_assigns(!g_q_push_fails : g_q_size, backpointer->current_index)
__CPROVER_ensures(g_q_npush == OLD(g_q_npush) + 1)
__CPROVER_ensures(g_q_pushed == *(struct aws_task **)item && g_q_pushed_ts == (*(struct aws_task **)item)->timestamp &&
                  g_q_pushed_bp == backpointer)
__CPROVER_ensures(RET == (g_q_push_fails ? AWS_OP_ERR : AWS_OP_SUCCESS))
__CPROVER_ensures(!g_q_push_fails ==> g_q_size == OLD(g_q_size) + 1 && backpointer->current_index < g_q_size)
;

/* top: a pointer INTO the heap storage (slot of a minimum), refused when empty */
int aws_priority_queue_top(const struct aws_priority_queue *queue, void **item)
__CPROVER_requires(queue == &g_sc.timed_queue)
__CPROVER_requires(__CPROVER_w_ok(item, sizeof(*item)))
__CPROVER_assigns(g_q_ntop)
__CPROVER_assigns(g_q_size > 0 : *item)
__CPROVER_ensures(g_q_ntop == OLD(g_q_ntop) + 1)
__CPROVER_ensures(RET == (g_q_size > 0 ? AWS_OP_SUCCESS : AWS_OP_ERR))
__CPROVER_ensures(g_q_size > 0 ==> PEQ(*item, (void *)&g_q_slot[g_q_top_i]))
;

/* pop: hands out the element top() shows, marks its handle not-in-queue; the next top is a DIFFERENT task whose time is
 * not smaller (heap order, C06) */
int aws_priority_queue_pop(struct aws_priority_queue *queue, void *item)
__CPROVER_requires(queue == &g_sc.timed_queue && g_q_size > 0 && g_q_top_i < TSK)
__CPROVER_requires(__CPROVER_w_ok(item, sizeof(struct aws_task *)))
__CPROVER_assigns(*(struct aws_task **)item, g_q_size, g_q_top_i, g_tk[g_q_top_i].priority_queue_node.current_index)
__CPROVER_ensures(RET == AWS_OP_SUCCESS && g_q_size == OLD(g_q_size) - 1)
__CPROVER_ensures(PEQ(*(struct aws_task **)item, &g_tk[OLD(g_q_top_i)]) && g_tk[OLD(g_q_top_i)].priority_queue_node.current_index == SIZE_MAX)
__CPROVER_ensures(g_q_size > 0 ==> g_q_top_i < TSK && g_q_top_i != OLD(g_q_top_i) &&
                                    g_tk[g_q_top_i].timestamp >= g_tk[OLD(g_q_top_i)].timestamp)
;

/* remove by handle: succeeds iff the handle is in the queue; hands out the element the handle identifies (in the
 * scheduler's heap: the task that embeds the handle) and marks the handle not-in-queue.  A stale handle is refused and
 * nothing changes. */
#define TS_TASK_OF_HANDLE(n) ((struct aws_task *)((uint8_t *)(n)-offsetof(struct aws_task, priority_queue_node)))
int aws_priority_queue_remove(struct aws_priority_queue *queue, void *item, const struct aws_priority_queue_node *node)
__CPROVER_requires(queue == &g_sc.timed_queue)
__CPROVER_requires(__CPROVER_w_ok(item, sizeof(struct aws_task *)))
__CPROVER_requires(__CPROVER_same_object(node, g_tk) && TS_POFF(node) < sizeof(g_tk) &&
                   TS_POFF(node) % sizeof(struct aws_task) == offsetof(struct aws_task, priority_queue_node))
__CPROVER_assigns(g_q_nremove, g_q_removed_bp, g_q_removed_ok)
__CPROVER_assigns(node->current_index < g_q_size : *(struct aws_task **)item, g_q_size,
                  ((struct aws_priority_queue_node *)node)->current_index)
__CPROVER_ensures(g_q_nremove == OLD(g_q_nremove) + 1 && g_q_removed_bp == node)
__CPROVER_ensures(g_q_removed_ok == (OLD(node->current_index) < OLD(g_q_size)))
__CPROVER_ensures(RET == (g_q_removed_ok ? AWS_OP_SUCCESS : AWS_OP_ERR))
__CPROVER_ensures(g_q_removed_ok ==> g_q_size == OLD(g_q_size) - 1 && node->current_index == SIZE_MAX &&
                                      PEQ(*(struct aws_task **)item, TS_TASK_OF_HANDLE(node)))
;

/* ================================================================ the scheduler's own functions */

/* ---------------------------------------------------------------- aws_task_init */
void aws_task_init(struct aws_task *task, aws_task_fn *fn, void *arg, const char *type_tag)
__CPROVER_requires(__CPROVER_is_fresh(task, sizeof(*task)))
__CPROVER_assigns(*task)
__CPROVER_ensures(task->fn == fn && task->arg == arg && task->type_tag == type_tag)
/* everything else zero: not scheduled, in no list, time 0 */
__CPROVER_ensures(task->timestamp == 0 && task->node.next == NULL && task->node.prev == NULL &&
                  task->priority_queue_node.current_index == 0 && task->abi_extension.reserved == 0)
;

/* ---------------------------------------------------------------- aws_task_run */
/* clears the flag, THEN invokes the function exactly once with the given status and the task's arg; touches nothing
 * else (the links and the handle of the task are as before when the function is entered: frame + fn precondition) */
void aws_task_run(struct aws_task *task, enum aws_task_status status)
__CPROVER_requires(TS_IS_TASK(task) && TS_FN_OK(task))
__CPROVER_requires(g_fn_req_detached ==> TS_UNLINKED(task))
__CPROVER_assigns(TS_A_FN_LOG, TS_A_TASK_BUT_FN(task))
__CPROVER_ensures(TS_RAN_ONCE(task, status))
__CPROVER_ensures(g_st_bad == (OLD(g_st_bad) || (int)status != g_expect_status))
;

/* ---------------------------------------------------------------- schedule_now */
/* Appended at the BACK of the run-now FIFO: the former last node (or the head sentinel) becomes its predecessor, the
 * tail sentinel its successor; time stamp 0, handle not-in-queue, flag set; no other link and nothing of the heap or
 * the other lists is written (frame).  The function is not invoked. */
#define TS_ASAP_BACK (g_sc.asap_list.tail.prev)
void aws_task_scheduler_schedule_now(struct aws_task_scheduler *scheduler, struct aws_task *task)
__CPROVER_requires(scheduler == &g_sc && TS_IS_TASK(task))
/* the back of the FIFO is well-formed and is not this task (a task is handed over while it is not pending) */
__CPROVER_requires(TS_IS_PLACE(TS_ASAP_BACK) && TS_ASAP_BACK != &g_sc.asap_list.tail && TS_ASAP_BACK != &task->node &&
                   TS_ASAP_BACK->next == &g_sc.asap_list.tail)
__CPROVER_assigns(task->timestamp, task->node, task->priority_queue_node.current_index, task->abi_extension.scheduled)
__CPROVER_assigns(g_sc.asap_list.tail.prev, g_sc.asap_list.tail.prev->next)
__CPROVER_ensures(task->timestamp == 0 && TS_SCHEDULED(task) && TS_HANDLE(task) == SIZE_MAX)
__CPROVER_ensures(g_sc.asap_list.tail.prev == &task->node && task->node.next == &g_sc.asap_list.tail)
__CPROVER_ensures(task->node.prev == OLD(g_sc.asap_list.tail.prev) && OLD(g_sc.asap_list.tail.prev)->next == &task->node)
__CPROVER_ensures(g_fn_calls == OLD(g_fn_calls))
;

/* ---------------------------------------------------------------- schedule_future */
/* The task pointer is pushed once, together with the handle embedded in the task, AFTER the time stamp was stored (the
 * heap position is computed from it) and with a handle that says not-in-queue; flag set.  If the heap accepts it, no
 * list is touched.  If the heap refuses (g_q_push_fails), the task is linked into the overflow list between two formerly
 * adjacent nodes P, N with  time(P) <= time_to_run < time(N)  (head / tail sentinel count as -inf / +inf): sorted
 * insertion behind every task of the same time; every other link is as before (ghost node g_wn: arbitrary place). */
struct aws_linked_list_node *g_wn, *g_wn_next, *g_wn_prev;
#define TS_TL_HEAD (&g_sc.timed_list.head)
#define TS_TL_TAIL (&g_sc.timed_list.tail)
void aws_task_scheduler_schedule_future(struct aws_task_scheduler *scheduler, struct aws_task *task, uint64_t time_to_run)
__CPROVER_requires(scheduler == &g_sc && TS_IS_TASK(task))
__CPROVER_requires(g_q_size < SIZE_MAX - 1)
__CPROVER_requires(TS_IS_PLACE(g_wn) && g_wn != &task->node && g_wn_next == g_wn->next && g_wn_prev == g_wn->prev)
#ifdef VERIF_TS_OVERFLOW
__CPROVER_requires(g_q_push_fails)
__CPROVER_assigns(task->timestamp, task->priority_queue_node.current_index, task->abi_extension.scheduled)
/* only link fields of the arena and of the overflow list's sentinels (which of them: see the ensures below) */
__CPROVER_assigns(g_tk[0].node, g_tk[1].node, g_tk[2].node, g_tk[3].node, g_sc.timed_list.head.next, g_sc.timed_list.tail.prev)
#else
__CPROVER_requires(!g_q_push_fails)
__CPROVER_assigns(task->timestamp, task->node, task->priority_queue_node.current_index, task->abi_extension.scheduled)
#endif
__CPROVER_assigns(g_q_npush, g_q_pushed, g_q_pushed_ts, g_q_pushed_bp, g_q_size)
__CPROVER_ensures(task->timestamp == time_to_run && TS_SCHEDULED(task))
__CPROVER_ensures(g_q_npush == OLD(g_q_npush) + 1 && g_q_pushed == task && g_q_pushed_ts == time_to_run &&
                  g_q_pushed_bp == &task->priority_queue_node)
#ifdef VERIF_TS_OVERFLOW
__CPROVER_ensures(g_q_size == OLD(g_q_size) && TS_HANDLE(task) == SIZE_MAX)
__CPROVER_ensures(TS_IS_PLACE(task->node.prev) && TS_IS_PLACE(task->node.next))
__CPROVER_ensures(task->node.prev->next == &task->node && task->node.next->prev == &task->node)
__CPROVER_ensures(task->node.prev == TS_TL_HEAD || (TS_IS_TNODE(task->node.prev) && TS_TASK_OF(task->node.prev)->timestamp <= time_to_run))
__CPROVER_ensures(task->node.next == TS_TL_TAIL || (TS_IS_TNODE(task->node.next) && TS_TASK_OF(task->node.next)->timestamp > time_to_run))
/* P and N were adjacent; every other link is unchanged */
__CPROVER_ensures(g_wn == task->node.prev ? g_wn_next == task->node.next : g_wn->next == g_wn_next)
__CPROVER_ensures(g_wn == task->node.next ? g_wn_prev == task->node.prev : g_wn->prev == g_wn_prev)
#else
__CPROVER_ensures(g_q_size == OLD(g_q_size) + 1 && TS_IN_HEAP(task))
__CPROVER_ensures(task->node.next == NULL && task->node.prev == NULL)
#endif
__CPROVER_ensures(g_fn_calls == OLD(g_fn_calls))
;

/* ---------------------------------------------------------------- cancel_task */
/* Scheduler invariant for one task (precondition; established by schedule_now/_future, s_run_all, cancel, aws_task_run):
 *   linked (node.next != NULL)  ==> both neighbours are places that point back at the node, and it is not in the heap
 *   not linked, flag set        ==> it is in the heap
 *   not linked, flag clear      ==> it is in no container (handle SIZE_MAX or stale)
 * Result: the task is taken out of WHICHEVER container holds it - unlinked from its list (asap, overflow, or the
 * current run's private batch: neighbours joined, every other link untouched) or removed from the heap by its handle
 * (exactly one remove call, with this handle, which succeeds) - and THEN its function is invoked exactly once with
 * CANCELED (fn precondition: flag clear, links NULL, handle not-in-queue). */
#define TS_LINKED(t) ((t)->node.next != NULL)
void aws_task_scheduler_cancel_task(struct aws_task_scheduler *scheduler, struct aws_task *task)
__CPROVER_requires(scheduler == &g_sc && TS_IS_TASK(task) && TS_FN_OK(task))
__CPROVER_requires(TS_LINKED(task) ==> TS_IS_PLACE(task->node.next) && TS_IS_PLACE(task->node.prev) &&
                                       task->node.next != &task->node && task->node.prev != &task->node &&
                                       task->node.next->prev == &task->node && task->node.prev->next == &task->node &&
                                       TS_HANDLE(task) == SIZE_MAX)
__CPROVER_requires(!TS_LINKED(task) ==> task->node.prev == NULL && (TS_SCHEDULED(task) ? TS_IN_HEAP(task) : TS_HANDLE(task) == SIZE_MAX))
__CPROVER_requires(g_fn_req_detached)
__CPROVER_assigns(TS_A_FN_LOG, TS_A_TASK_BUT_FN(task))
__CPROVER_assigns(TS_LINKED(task) : task->node.next->prev, task->node.prev->next)
__CPROVER_assigns(!TS_LINKED(task) && TS_SCHEDULED(task) : g_q_nremove, g_q_removed_bp, g_q_removed_ok, g_q_size)
__CPROVER_ensures(TS_RAN_ONCE(task, AWS_TASK_STATUS_CANCELED))
/* list case: the neighbours are joined */
__CPROVER_ensures(OLD(task->node.next) != NULL ==> OLD(task->node.prev)->next == OLD(task->node.next) &&
                                                  OLD(task->node.next)->prev == OLD(task->node.prev))
/* heap case: removed by its own handle, successfully */
__CPROVER_ensures(OLD(task->node.next) == NULL && OLD(task->abi_extension.scheduled) ==>
                  g_q_nremove == OLD(g_q_nremove) + 1 && g_q_removed_bp == &task->priority_queue_node && g_q_removed_ok &&
                  g_q_size == OLD(g_q_size) - 1)
;

/* ---------------------------------------------------------------- has_tasks */
/* result: some container is non-empty.  Reported time: 0 if the run-now FIFO is non-empty, else the smaller of the
 * front of the overflow list and the heap top, UINT64_MAX if both are empty.  With the sortedness of the overflow list
 * and the heap order (stated for ONE arbitrary pending task g_w) this is a lower bound of every pending task's time,
 * i.e. the earliest pending time.  Nothing of the scheduler is written. */
#define TS_ASAP_NONEMPTY (g_sc.asap_list.head.next != &g_sc.asap_list.tail)
#define TS_TL_NONEMPTY (g_sc.timed_list.head.next != &g_sc.timed_list.tail)
#define TS_TL_FRONT_TS (TS_TASK_OF(g_sc.timed_list.head.next)->timestamp)
#define TS_MIN(a, b) ((a) < (b) ? (a) : (b))
#define TS_SPEC_NEXT                                                                                                   \
    (TS_ASAP_NONEMPTY ? (uint64_t)0                                                                                    \
                      : TS_MIN(TS_TL_NONEMPTY ? TS_TL_FRONT_TS : UINT64_MAX, g_q_size > 0 ? g_q_top->timestamp : UINT64_MAX))
bool aws_task_scheduler_has_tasks(const struct aws_task_scheduler *scheduler, uint64_t *next_task_time)
__CPROVER_requires(scheduler == &g_sc && (next_task_time == NULL || next_task_time == &g_next_out))
__CPROVER_requires(TS_IS_PLACE(g_sc.asap_list.head.next))
__CPROVER_requires(g_sc.timed_list.head.next == &g_sc.timed_list.tail || TS_IS_TNODE(g_sc.timed_list.head.next))
__CPROVER_requires(g_q_size > 0 ==> g_q_top_i < TSK)
__CPROVER_requires(TS_SLOTS_OK)
/* the arbitrary pending task: where it is, and what the invariants of its container say about it */
__CPROVER_requires(g_on ==> TS_IS_TASK(g_w) && (g_w_asap || g_w_list || g_w_heap))
__CPROVER_requires(g_on && g_w_asap ==> TS_ASAP_NONEMPTY)
__CPROVER_requires(g_on && g_w_list ==> TS_TL_NONEMPTY && TS_TL_FRONT_TS <= g_w->timestamp)  /* overflow list sorted */
__CPROVER_requires(g_on && g_w_heap ==> g_q_size > 0 && g_q_top->timestamp <= g_w->timestamp) /* heap order (C06)     */
__CPROVER_assigns(g_q_ntop)
__CPROVER_assigns(next_task_time != NULL : *next_task_time)
__CPROVER_ensures(RET == (TS_ASAP_NONEMPTY || TS_TL_NONEMPTY || g_q_size > 0))
__CPROVER_ensures(next_task_time != NULL ==> *next_task_time == TS_SPEC_NEXT)
__CPROVER_ensures(g_on && next_task_time != NULL ==> RET && (g_w_asap ? *next_task_time == 0 : *next_task_time <= g_w->timestamp))
__CPROVER_ensures(g_fn_calls == OLD(g_fn_calls))
;

/* ---------------------------------------------------------------- the heap's ordering function */
/* s_compare_timestamps is the predicate the timed-task heap is built with.  source/priority_queue.c consults it ONLY as
 * `pred(x, y) > 0` ("x has to sink below y": s_sift_down :68/:78, s_sift_up :118), so "the heap is a MIN-heap by time"
 * (what the client contracts of top/pop above assume: the element shown/handed out has a minimal time; property:
 * "timed tasks run in non-decreasing time order", "next-task-time reports the earliest pending time", "all timestamps
 * including 0, equal, decreasing and UINT64_MAX") holds iff, for ALL pairs of 64-bit time stamps,
 *         pred(a, b) > 0   <=>   time(a) > time(b)           (plain unsigned order - no wrap-around tolerance)
 * in particular equal times (the same task, or two tasks) never order one in front of the other.  The sign of a
 * non-positive result is not used by the heap and is therefore not constrained (the real code returns 0 or 1).
 * a and b point at heap SLOTS (elements are `struct aws_task *`, item_size == sizeof(struct aws_task *)): slots of
 * the constant table g_q_slot, which may be the same slot or different slots, holding tasks of the arena.  Reads only. */
#define TS_IS_SLOT(p)                                                                                                  \
    (__CPROVER_same_object((p), g_q_slot) && TS_POFF(p) < sizeof(g_q_slot) && TS_POFF(p) % sizeof(struct aws_task *) == 0)
#define TS_SLOT_TIME(p) ((*(struct aws_task *const *)(p))->timestamp)
static int s_compare_timestamps(const void *a, const void *b)
__CPROVER_requires(TS_SLOTS_OK && TS_IS_SLOT(a) && TS_IS_SLOT(b))
__CPROVER_assigns()
__CPROVER_ensures((RET > 0) == (TS_SLOT_TIME(a) > TS_SLOT_TIME(b)))
;

/* ---------------------------------------------------------------- init / run_all / clean_up (forwarders) */
/* The scheduler's heap must be created with THE ordering function above (precondition, checked at the call in
 * aws_task_scheduler_init), for elements that are task pointers. */
int aws_priority_queue_init_dynamic(
    struct aws_priority_queue *queue,
    struct aws_allocator *alloc,
    size_t default_size,
    size_t item_size,
    aws_priority_queue_compare_fn *pred)
__CPROVER_requires(queue == &g_sc.timed_queue && alloc != NULL)
__CPROVER_requires(item_size == sizeof(struct aws_task *) && default_size > 0 && pred != NULL)
__CPROVER_requires(pred == &s_compare_timestamps)
__CPROVER_assigns(*queue, g_q_size)
__CPROVER_ensures(RET == (g_init_fails ? AWS_OP_ERR : AWS_OP_SUCCESS))
__CPROVER_ensures(!g_init_fails ==> g_q_size == 0 && queue->pred == pred && queue->container.alloc == alloc &&
                                     queue->container.item_size == item_size)
;

/* success: empty scheduler (both lists empty and well-formed, heap empty, allocator recorded); failure: reported */
int aws_task_scheduler_init(struct aws_task_scheduler *scheduler, struct aws_allocator *alloc)
__CPROVER_requires(scheduler == &g_sc && alloc == &g_ts_alloc)
__CPROVER_assigns(g_sc, g_q_size)
__CPROVER_ensures(RET == (g_init_fails ? AWS_OP_ERR : AWS_OP_SUCCESS))
/* the heap orders by s_compare_timestamps (time order of timed tasks rests on it) */
__CPROVER_ensures(RET == AWS_OP_SUCCESS ==> g_sc.timed_queue.pred == &s_compare_timestamps &&
                                            g_sc.timed_queue.container.item_size == sizeof(struct aws_task *))
__CPROVER_ensures(RET == AWS_OP_SUCCESS ==>
                  g_sc.alloc == alloc && g_q_size == 0 &&
                  g_sc.asap_list.head.next == &g_sc.asap_list.tail && g_sc.asap_list.tail.prev == &g_sc.asap_list.head &&
                  g_sc.asap_list.head.prev == NULL && g_sc.asap_list.tail.next == NULL &&
                  g_sc.timed_list.head.next == &g_sc.timed_list.tail && g_sc.timed_list.tail.prev == &g_sc.timed_list.head &&
                  g_sc.timed_list.head.prev == NULL && g_sc.timed_list.tail.next == NULL)
;

/* stand-in of s_run_all for the forwarder units: records its arguments */
static void s_run_all(struct aws_task_scheduler *scheduler, uint64_t current_time, enum aws_task_status status)
__CPROVER_requires(scheduler == &g_sc)
__CPROVER_assigns(g_ra_calls, g_ra_time, g_ra_status, g_ra_bad, g_sc, __CPROVER_object_whole(g_tk), TS_A_FN_LOG)
__CPROVER_ensures(g_ra_calls == OLD(g_ra_calls) + 1 && g_ra_time == current_time && g_ra_status == (int)status)
__CPROVER_ensures(g_ra_bad == (OLD(g_ra_bad) || current_time != UINT64_MAX || status != AWS_TASK_STATUS_CANCELED))
__CPROVER_ensures(g_sc.alloc == OLD(g_sc.alloc))
;

/* run_all(t) == one s_run_all(t, RUN_READY) */
void aws_task_scheduler_run_all(struct aws_task_scheduler *scheduler, uint64_t current_time)
__CPROVER_requires(scheduler == &g_sc)
__CPROVER_assigns(g_ra_calls, g_ra_time, g_ra_status, g_ra_bad, g_sc, __CPROVER_object_whole(g_tk), TS_A_FN_LOG)
__CPROVER_ensures(g_ra_calls == OLD(g_ra_calls) + 1 && g_ra_time == current_time && g_ra_status == (int)AWS_TASK_STATUS_RUN_READY)
;

/* ---------------------------------------------------------------- clean_up */
/* stand-ins for the calls made by clean_up (forwarder view): has_tasks answers arbitrarily and records its answer;
 * the heap's validity test answers g_pq_valid; the heap's clean_up records whether tasks were still reported pending */
bool g_pq_valid;
bool ts_has_tasks_standin(const struct aws_task_scheduler *scheduler, uint64_t *next_task_time)
__CPROVER_requires(scheduler == &g_sc && next_task_time == NULL)
__CPROVER_assigns(g_ht_last, g_ht_calls)
__CPROVER_ensures(RET == g_ht_last && g_ht_calls == OLD(g_ht_calls) + 1)
;
bool aws_priority_queue_is_valid(const struct aws_priority_queue *const queue)
__CPROVER_requires(queue == &g_sc.timed_queue)
__CPROVER_assigns()
__CPROVER_ensures(RET == g_pq_valid)
;
void aws_priority_queue_clean_up(struct aws_priority_queue *queue)
__CPROVER_requires(queue == &g_sc.timed_queue)
__CPROVER_assigns(*queue, g_qc_calls, g_qc_after_pending, g_q_size)
__CPROVER_ensures(g_qc_calls == OLD(g_qc_calls) + 1 && g_q_size == 0)
__CPROVER_ensures(g_qc_after_pending == (OLD(g_qc_after_pending) || (OLD(g_ht_calls) > 0 && OLD(g_ht_last))))
;

/* A valid scheduler: s_run_all(UINT64_MAX, CANCELED) is repeated until has_tasks reports that nothing is pending (so
 * tasks scheduled by cancelled tasks are cancelled too), only then the heap is released, once; the scheduler object is
 * all-zero afterwards.  An all-zero / invalid scheduler: no task function runs, the heap is released, the object is
 * zeroed.  (Termination is not claimed: a task that re-schedules itself whenever it is cancelled keeps the loop going.) */
#define TS_LIST_RT_VALID(l) ((l).head.next != NULL && (l).head.prev == NULL && (l).tail.prev != NULL && (l).tail.next == NULL)
#define TS_SC_VALID (g_sc.alloc != NULL && g_pq_valid && TS_LIST_RT_VALID(g_sc.asap_list) && TS_LIST_RT_VALID(g_sc.timed_list))
#define TS_SC_ZERO                                                                                                     \
    (g_sc.alloc == NULL && g_sc.asap_list.head.next == NULL && g_sc.asap_list.head.prev == NULL &&                      \
     g_sc.asap_list.tail.next == NULL && g_sc.asap_list.tail.prev == NULL && g_sc.timed_list.head.next == NULL &&       \
     g_sc.timed_list.head.prev == NULL && g_sc.timed_list.tail.next == NULL && g_sc.timed_list.tail.prev == NULL &&     \
     g_sc.timed_queue.pred == NULL && g_sc.timed_queue.container.data == NULL && g_sc.timed_queue.container.length == 0 && \
     g_sc.timed_queue.container.current_size == 0 && g_sc.timed_queue.container.alloc == NULL &&                        \
     g_sc.timed_queue.backpointers.data == NULL && g_sc.timed_queue.backpointers.length == 0)
bool g_cu_valid; /* the pre-state's validity (pinned in requires) */
void aws_task_scheduler_clean_up(struct aws_task_scheduler *scheduler)
__CPROVER_requires(scheduler == &g_sc)
__CPROVER_requires(g_cu_valid == TS_SC_VALID)
__CPROVER_requires(!g_ra_bad && g_ht_calls == 0 && !g_qc_after_pending)
__CPROVER_assigns(g_ra_calls, g_ra_time, g_ra_status, g_ra_bad, g_sc, __CPROVER_object_whole(g_tk), TS_A_FN_LOG)
__CPROVER_assigns(g_ht_last, g_ht_calls, g_qc_calls, g_qc_after_pending, g_q_size)
__CPROVER_ensures(TS_SC_ZERO)
__CPROVER_ensures(!g_ra_bad)
__CPROVER_ensures(g_qc_calls == OLD(g_qc_calls) + 1 && !g_qc_after_pending)
__CPROVER_ensures(g_cu_valid ==> g_ht_calls == g_ra_calls - OLD(g_ra_calls) + 1 && !g_ht_last)
__CPROVER_ensures(!g_cu_valid ==> g_ht_calls == 0 && g_ra_calls == OLD(g_ra_calls) && g_fn_calls == OLD(g_fn_calls))
;

/* ================================================================ s_run_all: decision logic over ABSTRACT containers
 * (unit run_all_logic, units/C07/run_all_logic.c; unbounded - DISABLED in units.json: the instance exceeds the solver
 * budget, see "disabled_units" there; kept because contract, models and loop invariants are complete and no obligation is
 * known to fail).  The list operations that move tasks (swap_contents, pop_front, push_back) and the heap's top/pop are
 * executable CLIENT MODELS there (plain doubly-linked-list / heap
 * semantics, assumed: properties C09 / C06; the REAL list functions are used by every other unit and by the native
 * whole-scheduler units; init / empty / begin are the real ones in this unit too):
 *     g_asap_len, g_tl_len, g_run_len   lengths of the run-now FIFO, the overflow list, the private batch
 *     g_tl_front_i, g_run_front_i       arena index of the front task of the overflow list / of the batch
 * An arena task stands for "the task at the front"; what is behind it is summarised by the invariants the scheduler
 * maintains and the contracts restate whenever a new front appears:
 *     overflow list sorted              the new front's time is not smaller than the removed front's time
 *     heap order                        the new top's time is not smaller than the popped top's time
 *     listed tasks have idle handles    handle == SIZE_MAX (schedule_now/_future: node_init; pop: SIZE_MAX)
 *     containers are disjoint           the fronts / the top are different tasks (a task is handed over only while it is
 *                                       not pending)
 * The property's clauses are PRECONDITIONS of the batch's push_back (asserted at every call in s_run_all):
 * run-now tasks were moved first, the task's time is <= the run time (never early), and not smaller than the time of the
 * task moved before it (time order).  The batch is consumed with pop_front only.  Task functions: invocation log, no
 * re-entrancy in this unit (re-entrancy: cancel unit + native units). */
#define g_asap_len g_ab.asap_len
#define g_tl_len g_ab.tl_len
#define g_run_len g_ab.run_len
#define g_tl_front_i g_ab.tl_front_i
#define g_run_front_i g_ab.run_front_i
#define g_last_moved_ts g_ab.last_moved_ts
#define g_swapped g_ab.swapped
#define g_moved_any g_ab.moved_any
#define g_moved_timed g_ab.moved_timed
uint64_t g_now;

#define TS_TNODE_INDEX(n) (TS_POFF(n) / sizeof(struct aws_task))
/* abstract state well-formed */
#define TS_ABS_OK                                                                                                      \
    ((g_tl_len > 0 ==> g_tl_front_i < TSK && TS_HANDLE(&g_tk[g_tl_front_i]) == SIZE_MAX) &&                            \
     (g_run_len > 0 ==> g_run_front_i < TSK && TS_HANDLE(&g_tk[g_run_front_i]) == SIZE_MAX) &&                         \
     (g_q_size > 0 ==> g_q_top_i < TSK && g_tk[g_q_top_i].node.next == NULL) && /* heap tasks are not linked */          \
     (g_tl_len > 0 && g_q_size > 0 ==> g_tl_front_i != g_q_top_i) &&                                                   \
     (g_run_len > 0 && g_q_size > 0 ==> g_run_front_i != g_q_top_i) &&                                                 \
     (g_run_len > 0 && g_tl_len > 0 ==> g_run_front_i != g_tl_front_i))
/* nothing moved so far is later than what is still waiting */
#define TS_ABS_ORDER                                                                                                   \
    (g_moved_any ==> (g_tl_len > 0 ==> g_last_moved_ts <= g_tk[g_tl_front_i].timestamp) &&                             \
                      (g_q_size > 0 ==> g_last_moved_ts <= g_tk[g_q_top_i].timestamp))

/* Representation of the abstract lists in the REAL sentinels (so that the real aws_linked_list_init / _empty / _begin run
 * unchanged): head.next is the front task's node, or the tail sentinel when the list is empty. */
#define TS_HEADNEXT_OK(l, len, front_i) ((len) > 0 ? (l)->head.next == &g_tk[front_i].node : (l)->head.next == &(l)->tail)

/* aws_task_run as seen by s_run_all in this unit: the contract of aws_task_run (proved in unit task_run) WITHOUT the clause
 * about the function pointer - the loop frames of this unit name whole arena tasks, so pointer values stored in them are
 * not tracked here (the scheduler never writes task->fn: frames of every other unit). */
void ts_task_run_abs_contract(struct aws_task *task, enum aws_task_status status)
__CPROVER_requires(TS_IS_TASK(task))
__CPROVER_requires(g_fn_req_detached ==> TS_UNLINKED(task))
__CPROVER_assigns(TS_A_FN_LOG, *task)
__CPROVER_ensures(g_fn_calls == OLD(g_fn_calls) + 1 && g_fn_task == task && g_fn_status == (int)status)
__CPROVER_ensures(g_st_bad == (OLD(g_st_bad) || (int)status != g_expect_status))
;
#define TS_A_ARENA_TASKS g_tk[0], g_tk[1], g_tk[2], g_tk[3]

/* s_run_all (enforced under this name).  For a run at time `current_time` with status `status`:
 *  - the run-now FIFO is emptied into the batch before anything else;
 *  - timed tasks enter the batch only with time <= current_time, in non-decreasing time order (push_back preconditions);
 *  - when the moves are over, neither the overflow list's front nor the heap's top is due (with sortedness / heap order:
 *    no due task stays behind), and every task taken out of a container went into the batch;
 *  - the function of every batch task is invoked exactly once, with `status`, after the task was unlinked
 *    (aws_task_run's precondition); the batch is empty at the end; nothing else is invoked. */
void ts_run_all_contract(struct aws_task_scheduler *scheduler, uint64_t current_time, enum aws_task_status status)
__CPROVER_requires(scheduler == &g_sc && TS_SLOTS_OK)
__CPROVER_requires(TS_ABS_OK && g_fn_req_detached)
__CPROVER_requires(TS_HEADNEXT_OK(&g_sc.timed_list, g_tl_len, g_tl_front_i))
__CPROVER_requires(g_now == current_time && g_expect_status == (int)status && !g_st_bad && !g_swapped && !g_moved_any)
__CPROVER_requires(g_asap_len > 0 ==> g_run_front_i < TSK && TS_HANDLE(&g_tk[g_run_front_i]) == SIZE_MAX &&
                                       (g_q_size > 0 ==> g_run_front_i != g_q_top_i) && (g_tl_len > 0 ==> g_run_front_i != g_tl_front_i))
__CPROVER_requires(g_asap_len < ((size_t)1 << 62) && g_tl_len < ((size_t)1 << 62) && g_q_size < ((size_t)1 << 62) && g_moved_timed == 0)
__CPROVER_assigns(g_ab, g_sc.asap_list, g_sc.timed_list.head.next)
__CPROVER_assigns(TS_A_FN_LOG, TS_A_ARENA_TASKS)
__CPROVER_ensures(g_asap_len == 0 && g_run_len == 0 && g_swapped)
__CPROVER_ensures(TS_HEADNEXT_OK(&g_sc.timed_list, g_tl_len, g_tl_front_i) && g_sc.asap_list.head.next == &g_sc.asap_list.tail)
__CPROVER_ensures(g_tl_len == 0 || g_tk[g_tl_front_i].timestamp > current_time)
__CPROVER_ensures(g_q_size == 0 || g_tk[g_q_top_i].timestamp > current_time)
__CPROVER_ensures(g_moved_timed == (OLD(g_tl_len) - g_tl_len) + (OLD(g_q_size) - g_q_size))
__CPROVER_ensures(g_tl_len <= OLD(g_tl_len) && g_q_size <= OLD(g_q_size))
__CPROVER_ensures(g_fn_calls == OLD(g_fn_calls) + OLD(g_asap_len) + g_moved_timed && !g_st_bad)
;

#endif
