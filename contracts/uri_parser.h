/* Contracts of the URI parser state machine of source/uri.c (property C13; shared with C04).
 * Include AFTER "source/uri.c": the contracts are re-declarations that need struct uri_parser / enum parser_state, which
 * are private to uri.c.  Define VERIF_TRACK_ERRORS before contracts/common.h (error channel ghost). */
#ifndef VERIF_CONTRACTS_URI_PARSER_H
#define VERIF_CONTRACTS_URI_PARSER_H
#include "contracts/uri.h"
#ifndef VERIF_TRACK_ERRORS
#error "uri_parser.h needs VERIF_TRACK_ERRORS"
#endif

/* ================================================================== parser (C13 + C04) */

/* ---- libc memchr: ASSUMED contract (glibc's memchr is not examined), used as memchr/uri_memchr_contract.
 * Result = the FIRST occurrence.
 * g_m is an arbitrary byte offset inside the searched object (so that several searches over the same text speak about
 * the same byte); g_first[c] records the object offset of the latest result for character c (ghost "Skolem" output:
 * lets callers' contracts say "the first ':' is at ..." in both directions). */
#define NONE SIZE_MAX
size_t g_m;
size_t g_first[256];
#define MEMCHR_RES(r) ((r) == NULL ? NONE : (size_t)__CPROVER_POINTER_OFFSET(r))
void *uri_memchr_contract(const void *s, int c, size_t n)
__CPROVER_requires(n == 0 || __CPROVER_r_ok(s, n))
__CPROVER_assigns(g_first[(uint8_t)c])
__CPROVER_ensures(n == 0 ==> RET == NULL)
__CPROVER_ensures(RET != NULL ==> __CPROVER_pointer_in_range_dfcc((const uint8_t *)s, (const uint8_t *)RET, (const uint8_t *)s + (n - 1)) &&
                  *(const uint8_t *)RET == (uint8_t)c)
__CPROVER_ensures(g_first[(uint8_t)c] == MEMCHR_RES(RET))
__CPROVER_ensures(n > 0 && g_m >= (size_t)__CPROVER_POINTER_OFFSET(s) && g_m - (size_t)__CPROVER_POINTER_OFFSET(s) < n &&
                  (RET == NULL || g_m < (size_t)__CPROVER_POINTER_OFFSET(RET)) ==>
                  ((const uint8_t *)s)[g_m - (size_t)__CPROVER_POINTER_OFFSET(s)] != (uint8_t)c)
;

/* ---- decimal parser of the port: the VALUE is abstracted (ghost outcome g_pu_ok / g_pu_val chosen by the harness, i.e.
 * arbitrary); the contract records which text was handed over (g_pu_off, g_pu_len).  Memory safety and termination of
 * the real s_read_unsigned are a C01/C04 unit; the numeric value is checked by the bounded units of C13. */
bool g_pu_ok; uint64_t g_pu_val; size_t g_pu_off, g_pu_len, g_pu_calls;
int uri_parse_u64_contract(struct aws_byte_cursor cursor, uint64_t *dst)
__CPROVER_requires(cursor.len == 0 || __CPROVER_r_ok(cursor.ptr, cursor.len))
__CPROVER_requires(__CPROVER_w_ok(dst, sizeof(*dst)))
__CPROVER_assigns(*dst, g_pu_off, g_pu_len, g_pu_calls)
__CPROVER_assigns(!g_pu_ok : g_last_error, g_raise_count)
__CPROVER_ensures(g_pu_calls == OLD(g_pu_calls) + 1 && g_pu_len == cursor.len && g_pu_off == (size_t)__CPROVER_POINTER_OFFSET(cursor.ptr))
__CPROVER_ensures(RET == (g_pu_ok ? AWS_OP_SUCCESS : AWS_OP_ERR))
__CPROVER_ensures(g_pu_ok ==> *dst == g_pu_val)
__CPROVER_ensures(!g_pu_ok ==> g_raise_count == OLD(g_raise_count) + 1)
;

/* ---- shapes */
#define PU (parser->uri)
#define UB (parser->uri->uri_str.buffer)
#define ULEN (parser->uri->uri_str.len)
/* a component view is NULL/0 or lies inside the first uri_str.len bytes of the URI's own text */
#define UVIEW_IN_(buf, blen, v)                                                                                         \
    (((v).ptr == NULL && (v).len == 0) ||                                                                              \
     ((buf) != NULL && __CPROVER_same_object((v).ptr, (buf)) && (size_t)__CPROVER_POINTER_OFFSET((v).ptr) <= (blen) && \
      (v).len <= (blen) - (size_t)__CPROVER_POINTER_OFFSET((v).ptr)))
#define UVIEW_IN(u, v) UVIEW_IN_((u)->uri_str.buffer, (u)->uri_str.len, (u)->v)
#define ALL_UVIEWS_IN(u)                                                                                                \
    (UVIEW_IN(u, scheme) && UVIEW_IN(u, authority) && UVIEW_IN(u, userinfo) && UVIEW_IN(u, user) && UVIEW_IN(u, password) && \
     UVIEW_IN(u, host_name) && UVIEW_IN(u, path) && UVIEW_IN(u, query_string) && UVIEW_IN(u, path_and_query))
/* view v is exactly bytes [off, off+n) of the text */
#define UVIEW_IS(v, off, n) ((v).len == (n) && PEQ((v).ptr, UB + (off)))
#define UVIEW_SAME(v) ((v).len == OLD((v).len) && (v).ptr == OLD((v).ptr))
/* the advancing cursor is a suffix of the text */
#define STR_IS_SUFFIX (str->len <= ULEN && (UB == NULL ? str->ptr == NULL : PEQ(str->ptr, UB + (ULEN - str->len))))
#define OFF0 (ULEN - OLD(str->len))          /* text offset at which the cursor stood before the call */
#define WIT_IN(lo, hi) (g_m >= (lo) && g_m < (hi)) /* witness offset inside [lo, hi) */

#define PARSER_REQ                                                                                                     \
    __CPROVER_requires(__CPROVER_is_fresh(parser, sizeof(*parser)))                                                 \
    __CPROVER_requires(__CPROVER_is_fresh(parser->uri, sizeof(struct aws_uri)))                                        \
    __CPROVER_requires(BUF_FIELDS_OK(&parser->uri->uri_str))                                                           \
    __CPROVER_requires(__CPROVER_is_fresh(str, sizeof(*str)))                                                          \
    __CPROVER_requires(STR_IS_SUFFIX)                                                                                  \
    __CPROVER_requires(ALL_UVIEWS_IN(parser->uri))
#define PARSER_ENS                                                                                                     \
    __CPROVER_ensures(STR_IS_SUFFIX)                                                                                   \
    __CPROVER_ensures(ALL_UVIEWS_IN(parser->uri))
#define RAISED (g_raise_count == OLD(g_raise_count) + 1 && g_last_error == AWS_ERROR_MALFORMED_INPUT_STRING)
#define NOT_RAISED (g_raise_count == OLD(g_raise_count) && g_last_error == OLD(g_last_error))



#define FIRST(c) (g_first[(uint8_t)(c)])
/* "f is the offset of the first c in text[lo, hi)" / "there is no c in text[lo, hi)" (witness g_m) */
#define IS_FIRST_AT(c, f, lo, hi) ((f) >= (lo) && (f) < (hi) && UB[f] == (c) && (WIT_IN(lo, f) ==> UB[g_m] != (c)))
#define NONE_IN(c, lo, hi) (WIT_IN(lo, hi) ==> UB[g_m] != (c))

/* ------------------------------------------------------------------ scheme
 * c = first ':' of the remaining text.  A scheme is recognised iff c exists and is followed by '/'; then it must be
 * followed by "//", else MALFORMED.  Otherwise nothing but the state changes. */
#define SCH_C FIRST(':')
#define SCH_FOUND (SCH_C != NONE && SCH_C + 1 < ULEN && UB[SCH_C + 1] == '/')
#define SCH_WELL (SCH_C + 2 < ULEN && UB[SCH_C + 2] == '/')
static void s_parse_scheme(struct uri_parser *parser, struct aws_byte_cursor *str)
PARSER_REQ
__CPROVER_assigns(parser->state, parser->uri->scheme, str->ptr, str->len, g_first[(uint8_t)':'], g_last_error, g_raise_count)
PARSER_ENS
__CPROVER_ensures(SCH_C == NONE ? NONE_IN(':', OFF0, ULEN) : IS_FIRST_AT(':', SCH_C, OFF0, ULEN))
__CPROVER_ensures(!SCH_FOUND ==> parser->state == ON_AUTHORITY && UVIEW_SAME(parser->uri->scheme) &&
                  str->len == OLD(str->len) && NOT_RAISED)
__CPROVER_ensures(SCH_FOUND ==> UVIEW_IS(parser->uri->scheme, OFF0, SCH_C - OFF0))
__CPROVER_ensures(SCH_FOUND && SCH_WELL ==> parser->state == ON_AUTHORITY && str->len == ULEN - (SCH_C + 3) && NOT_RAISED)
__CPROVER_ensures(SCH_FOUND && !SCH_WELL ==> parser->state == ERROR && str->len == ULEN - SCH_C && RAISED)
;

/* ------------------------------------------------------------------ path
 * path = remaining text up to the first '?' (or all of it); path_and_query = all of it; never an error. */
static void s_parse_path(struct uri_parser *parser, struct aws_byte_cursor *str)
PARSER_REQ
__CPROVER_assigns(parser->state, parser->uri->path_and_query, parser->uri->path, str->ptr, str->len, g_first[(uint8_t)'?'], g_last_error, g_raise_count)
PARSER_ENS
__CPROVER_ensures(parser->uri->path_and_query.len == OLD(str->len) && parser->uri->path_and_query.ptr == OLD(str->ptr))
__CPROVER_ensures(parser->uri->path.ptr == OLD(str->ptr) && parser->uri->path.len <= OLD(str->len))
__CPROVER_ensures(str->len == OLD(str->len) - parser->uri->path.len)
__CPROVER_ensures(parser->state == FINISHED || parser->state == ON_QUERY_STRING)
__CPROVER_ensures(parser->state == FINISHED ==> parser->uri->path.len == OLD(str->len) && NONE_IN('?', OFF0, ULEN))
__CPROVER_ensures(parser->state == ON_QUERY_STRING ==> IS_FIRST_AT('?', OFF0 + parser->uri->path.len, OFF0, ULEN))
__CPROVER_ensures(NOT_RAISED)
;

/* ------------------------------------------------------------------ query: everything after the '?' the cursor stands on.
 * The precondition "the cursor stands on a '?'" is discharged where the state machine hands over (unit init_from_uri_str). */
static void s_parse_query_string(struct uri_parser *parser, struct aws_byte_cursor *str)
PARSER_REQ
__CPROVER_requires(str->len > 0 && str->ptr[0] == '?')
__CPROVER_assigns(parser->state, parser->uri->path_and_query, parser->uri->query_string, str->ptr, str->len)
PARSER_ENS
__CPROVER_ensures(parser->state == FINISHED && str->len == 0)
__CPROVER_ensures(OLD(parser->uri->path_and_query.ptr) != NULL ? UVIEW_SAME(parser->uri->path_and_query)
                  : (parser->uri->path_and_query.len == OLD(str->len) && parser->uri->path_and_query.ptr == OLD(str->ptr)))
__CPROVER_ensures(UVIEW_IS(parser->uri->query_string, OFF0 + 1, OLD(str->len) - 1))
;

#endif
