/* Contracts of the URI parser state machine of source/uri.c (property C13; shared with C04).
 * Include AFTER "source/uri.c": the contracts are re-declarations that need struct uri_parser / enum parser_state, which
 * are private to uri.c.  Define VERIF_TRACK_ERRORS before contracts/common.h (error channel ghost). */
#ifndef VERIF_CONTRACTS_URI_PARSER_H
#define VERIF_CONTRACTS_URI_PARSER_H
#include "contracts/uri.h"
#ifndef VERIF_TRACK_ERRORS
#error "uri_parser.h needs VERIF_TRACK_ERRORS"
#endif

/* ================================================================== parser (C13 + C04)
 * The state functions never look at uri->uri_str: they see the remaining text through the advancing cursor `str` and
 * store sub-views of it in the aws_uri.  Their contracts are therefore stated relative to S = old(str->ptr), N =
 * old(str->len): every view they store is S[a, a+n) with a+n <= N, and the cursor afterwards is S[k, N).
 * s_init_from_uri_str (unit init_from_uri_str) supplies "the cursor is a suffix of uri->uri_str", which makes every view
 * a view into the URI's own copy of the text. */

/* ---- libc memchr: ASSUMED contract (glibc's memchr is not examined), used as memchr/uri_memchr_contract.
 * Result = the FIRST occurrence.  g_m is an arbitrary index into the searched range ("no c before the result" for that
 * one index); g_first[c] records the index of the latest result for character c, NONE if absent (ghost "Skolem" output:
 * lets the callers' contracts say "the first ':' is at ..." in both directions). */
#define NONE SIZE_MAX
size_t g_m;
size_t g_first[256];
#define FIRST(c) (g_first[(uint8_t)(c)])
void *uri_memchr_contract(const void *s, int c, size_t n)
__CPROVER_requires(n == 0 || __CPROVER_r_ok(s, n))
__CPROVER_assigns(g_first[(uint8_t)c])
__CPROVER_ensures(RET == NULL ==> g_first[(uint8_t)c] == NONE && (g_m < n ==> ((const uint8_t *)s)[g_m] != (uint8_t)c))
__CPROVER_ensures(RET != NULL ==> g_first[(uint8_t)c] < n && PEQ(RET, (void *)((const uint8_t *)s + g_first[(uint8_t)c])) &&
                  ((const uint8_t *)s)[g_first[(uint8_t)c]] == (uint8_t)c &&
                  (g_m < g_first[(uint8_t)c] ==> ((const uint8_t *)s)[g_m] != (uint8_t)c))
;

/* ---- decimal parser of the port, used as aws_byte_cursor_utf8_parse_u64/uri_parse_u64_contract: the VALUE is abstracted
 * (ghost outcome g_pu_ok / g_pu_val chosen by the harness, i.e. arbitrary); the contract records which text was handed
 * over (g_pu_ptr, g_pu_len).  The real function has its own contract and unit in C01; the numeric value of a port is
 * checked end to end by the bounded units of C13. */
bool g_pu_ok; uint64_t g_pu_val; size_t g_pu_len, g_pu_calls; const uint8_t *g_pu_ptr;
int uri_parse_u64_contract(struct aws_byte_cursor cursor, uint64_t *dst)
__CPROVER_requires(cursor.len == 0 || __CPROVER_r_ok(cursor.ptr, cursor.len))
__CPROVER_requires(__CPROVER_w_ok(dst, sizeof(*dst)))
__CPROVER_assigns(*dst, g_pu_ptr, g_pu_len, g_pu_calls)
__CPROVER_assigns(!g_pu_ok : g_last_error, g_raise_count)
__CPROVER_ensures(g_pu_calls == OLD(g_pu_calls) + 1 && g_pu_len == cursor.len && g_pu_ptr == cursor.ptr)
__CPROVER_ensures(RET == (g_pu_ok ? AWS_OP_SUCCESS : AWS_OP_ERR))
__CPROVER_ensures(g_pu_ok ==> *dst == g_pu_val)
__CPROVER_ensures(!g_pu_ok ==> g_raise_count == OLD(g_raise_count) + 1)
;

/* ---- shapes */
#define S_ (OLD(str->ptr))
#define N_ (OLD(str->len))
#define TXT(k) (OLD(str->ptr)[k])
/* view v is exactly S[a, a+n) */
#define SUB_IS(v, a, n) ((v).len == (n) && PEQ((v).ptr, S_ + (a)))
#define SUB_SAME(v) ((v).len == OLD((v).len) && (v).ptr == OLD((v).ptr))
/* view v is NULL/0 or lies inside S[0, N) */
#define SUB_IN(v)                                                                                                      \
    (((v).ptr == NULL && (v).len == 0) ||                                                                              \
     (S_ != NULL && __CPROVER_same_object((v).ptr, S_) &&                                                              \
      (size_t)__CPROVER_POINTER_OFFSET((v).ptr) >= (size_t)__CPROVER_POINTER_OFFSET(S_) &&                             \
      (size_t)__CPROVER_POINTER_OFFSET((v).ptr) - (size_t)__CPROVER_POINTER_OFFSET(S_) <= N_ &&                        \
      (v).len <= N_ - ((size_t)__CPROVER_POINTER_OFFSET((v).ptr) - (size_t)__CPROVER_POINTER_OFFSET(S_))))
/* the cursor afterwards is S[k, N) */
#define STR_AT(k) (str->len == N_ - (k) && (S_ == NULL ? str->ptr == NULL : PEQ(str->ptr, S_ + (k))))
/* "f is the index of the first c in S[lo, hi)" / "no c in S[lo, hi)"  (witness lo + g_m) */
#define IS_FIRST_AT(c, f, lo, hi) ((f) >= (lo) && (f) < (hi) && TXT(f) == (c) && (g_m < (f) - (lo) ==> TXT((lo) + g_m) != (c)))
#define NONE_IN(c, lo, hi) (g_m < (hi) - (lo) ==> TXT((lo) + g_m) != (c))

#define PARSER_REQ                                                                                                     \
    __CPROVER_requires(__CPROVER_is_fresh(parser, sizeof(*parser)))                                                    \
    __CPROVER_requires(__CPROVER_is_fresh(parser->uri, sizeof(struct aws_uri)))                                        \
    __CPROVER_requires(CUR_OK(str))
#define RAISED (g_raise_count == OLD(g_raise_count) + 1 && g_last_error == AWS_ERROR_MALFORMED_INPUT_STRING)
#define NOT_RAISED (g_raise_count == OLD(g_raise_count) && g_last_error == OLD(g_last_error))

/* ------------------------------------------------------------------ scheme
 * c = first ':' of the remaining text.  A scheme is recognised iff c exists and is followed by '/'; then it must be
 * followed by "//", else MALFORMED.  Otherwise nothing but the state changes. */
#define SCH_C FIRST(':')
#define SCH_FOUND (SCH_C != NONE && SCH_C + 1 < N_ && TXT(SCH_C + 1) == '/')
#define SCH_WELL (SCH_C + 2 < N_ && TXT(SCH_C + 2) == '/')
static void s_parse_scheme(struct uri_parser *parser, struct aws_byte_cursor *str)
PARSER_REQ
__CPROVER_assigns(parser->state, parser->uri->scheme, str->ptr, str->len, g_first[(uint8_t)':'], g_last_error, g_raise_count)
__CPROVER_ensures(SCH_C == NONE ? NONE_IN(':', 0, N_) : IS_FIRST_AT(':', SCH_C, 0, N_))
__CPROVER_ensures(!SCH_FOUND ==> parser->state == ON_AUTHORITY && SUB_SAME(parser->uri->scheme) && STR_AT(0) && NOT_RAISED)
__CPROVER_ensures(SCH_FOUND ==> SUB_IS(parser->uri->scheme, 0, SCH_C))
__CPROVER_ensures(SCH_FOUND && SCH_WELL ==> parser->state == ON_AUTHORITY && STR_AT(SCH_C + 3) && NOT_RAISED)
__CPROVER_ensures(SCH_FOUND && !SCH_WELL ==> parser->state == ERROR && STR_AT(SCH_C) && RAISED)
;

/* ------------------------------------------------------------------ path
 * path = remaining text up to the first '?' (or all of it); path_and_query = all of it; never an error. */
static void s_parse_path(struct uri_parser *parser, struct aws_byte_cursor *str)
PARSER_REQ
__CPROVER_assigns(parser->state, parser->uri->path_and_query, parser->uri->path, str->ptr, str->len, g_first[(uint8_t)'?'], g_last_error, g_raise_count)
__CPROVER_ensures(parser->uri->path_and_query.len == N_ && parser->uri->path_and_query.ptr == S_)
__CPROVER_ensures(parser->uri->path.ptr == S_ && parser->uri->path.len <= N_)
__CPROVER_ensures(STR_AT(parser->uri->path.len))
__CPROVER_ensures(parser->state == FINISHED || parser->state == ON_QUERY_STRING)
__CPROVER_ensures(parser->state == FINISHED ==> parser->uri->path.len == N_ && NONE_IN('?', 0, N_))
__CPROVER_ensures(parser->state == ON_QUERY_STRING ==> IS_FIRST_AT('?', parser->uri->path.len, 0, N_))
__CPROVER_ensures(NOT_RAISED)
;

/* ------------------------------------------------------------------ query: everything after the '?' the cursor stands on.
 * The precondition "the cursor stands on a '?'" is discharged where the state machine hands over (unit init_from_uri_str). */
static void s_parse_query_string(struct uri_parser *parser, struct aws_byte_cursor *str)
PARSER_REQ
__CPROVER_requires(str->len > 0 && str->ptr[0] == '?')
__CPROVER_assigns(parser->state, parser->uri->path_and_query, parser->uri->query_string, str->ptr, str->len)
__CPROVER_ensures(parser->state == FINISHED && STR_AT(N_))
__CPROVER_ensures(OLD(parser->uri->path_and_query.ptr) != NULL ? SUB_SAME(parser->uri->path_and_query)
                  : (parser->uri->path_and_query.len == N_ && parser->uri->path_and_query.ptr == S_))
__CPROVER_ensures(SUB_IS(parser->uri->query_string, 1, N_ - 1))
;


/* ------------------------------------------------------------------ authority  (RFC 3986 3.2: [ userinfo "@" ] host [ ":" port ])
 * A    = length of the authority = index of the first '/' or '?' of the remaining text, or N;
 * AT   = index of the first '@' inside the authority (user-info present) or NONE;  R0 = start of host[:port];
 * V6   = host starts with '['; BR = index (from R0) of the first ']'; PC = index (from the port search start PS) of the
 *        first ':' at or after PS, where PS = R0 (+ BR for a bracketed host).
 * The numeric value of the port text is abstract here (g_pu_ok/g_pu_val, see uri_parse_u64_contract). */
#define AU (parser->uri)
#define AU_A (AU->authority.len)
#define AU_AT FIRST('@')
#define AU_R0 (AU_AT == NONE ? (size_t)0 : AU_AT + 1)
#define AU_RL (AU_A - AU_R0)
#define AU_V6 (AU_RL > 0 && TXT(AU_R0) == '[')
#define AU_BR FIRST(']')
#define AU_OKBR (!(AU_V6 && AU_BR == NONE))
#define AU_PS (AU_V6 ? AU_R0 + AU_BR : AU_R0)
#define AU_PC FIRST(':')
#define AU_PCA (AU_PS + AU_PC)
#define AU_PL (AU_A - AU_PCA - 1)
#define AU_ERR (parser->state == ERROR)
#define AU_PORT_OK (g_pu_ok && g_pu_val <= UINT32_MAX)
#define SAME_OR_IN(v) (SUB_SAME(v) || SUB_IN(v))
static void s_parse_authority(struct uri_parser *parser, struct aws_byte_cursor *str)
PARSER_REQ
__CPROVER_requires(g_pu_calls == 0)
__CPROVER_assigns(parser->state, g_last_error, g_raise_count)
__CPROVER_assigns(g_first[(uint8_t)'/'], g_first[(uint8_t)'?'], g_first[(uint8_t)'@'], g_first[(uint8_t)':'], g_first[(uint8_t)']'])
__CPROVER_assigns(g_pu_ptr, g_pu_len, g_pu_calls)
__CPROVER_assigns(str->len > 0 : str->ptr, str->len, parser->uri->authority, parser->uri->path, parser->uri->path_and_query,
                  parser->uri->userinfo, parser->uri->user, parser->uri->password, parser->uri->host_name, parser->uri->port)
/* empty remaining text: MALFORMED */
__CPROVER_ensures(N_ == 0 ==> AU_ERR && RAISED)
/* C04: whatever is stored is a view into the remaining text */
__CPROVER_ensures(SAME_OR_IN(AU->authority) && SAME_OR_IN(AU->userinfo) && SAME_OR_IN(AU->user) && SAME_OR_IN(AU->password) &&
                  SAME_OR_IN(AU->host_name) && SAME_OR_IN(AU->path) && SAME_OR_IN(AU->path_and_query))
/* extent of the authority */
__CPROVER_ensures(N_ > 0 ==> AU->authority.ptr == S_ && AU_A <= N_ && STR_AT(AU_A))
__CPROVER_ensures(N_ > 0 && AU_A == N_ ==> NONE_IN('/', 0, N_) && NONE_IN('?', 0, N_) &&
                  AU->path.ptr == NULL && AU->path.len == 0 && AU->path_and_query.ptr == NULL && AU->path_and_query.len == 0)
__CPROVER_ensures(N_ > 0 && AU_A < N_ ==> (TXT(AU_A) == '/' || TXT(AU_A) == '?') && SUB_SAME(AU->path) && SUB_SAME(AU->path_and_query))
__CPROVER_ensures(N_ > 0 && AU_A < N_ ==> NONE_IN('/', 0, AU_A))
/* RFC 3986 3.2: "The authority component is ... terminated by the next slash, question mark, or number sign, or by the end" */
__CPROVER_ensures(N_ > 0 && AU_A < N_ ==> NONE_IN('?', 0, AU_A))
__CPROVER_ensures(N_ > 0 && !AU_ERR ==> parser->state == (AU_A == N_ ? FINISHED : (TXT(AU_A) == '/' ? ON_PATH : ON_QUERY_STRING)))
/* empty authority: nothing else is set */
__CPROVER_ensures(N_ > 0 && AU_A == 0 ==> !AU_ERR && NOT_RAISED && SUB_SAME(AU->userinfo) && SUB_SAME(AU->user) &&
                  SUB_SAME(AU->password) && SUB_SAME(AU->host_name) && AU->port == OLD(AU->port))
/* user-info */
__CPROVER_ensures(N_ > 0 && AU_A > 0 ==> (AU_AT == NONE ? NONE_IN('@', 0, AU_A) : IS_FIRST_AT('@', AU_AT, 0, AU_A)))
__CPROVER_ensures(N_ > 0 && AU_A > 0 && AU_AT == NONE ==> SUB_SAME(AU->userinfo) && SUB_SAME(AU->user) && SUB_SAME(AU->password))
__CPROVER_ensures(N_ > 0 && AU_A > 0 && AU_AT != NONE ==> SUB_IS(AU->userinfo, 0, AU_AT) && AU->user.ptr == S_ && AU->user.len <= AU_AT)
__CPROVER_ensures(N_ > 0 && AU_A > 0 && AU_AT != NONE && AU->user.len == AU_AT ==> NONE_IN(':', 0, AU_AT) && SUB_SAME(AU->password))
__CPROVER_ensures(N_ > 0 && AU_A > 0 && AU_AT != NONE && AU->user.len < AU_AT ==> IS_FIRST_AT(':', AU->user.len, 0, AU_AT) &&
                  SUB_IS(AU->password, AU->user.len + 1, AU_AT - AU->user.len - 1))
/* bracketed host without closing bracket: MALFORMED, host and port untouched */
__CPROVER_ensures(N_ > 0 && AU_A > 0 && AU_V6 ==> (AU_BR == NONE ? NONE_IN(']', AU_R0, AU_A) : IS_FIRST_AT(']', AU_R0 + AU_BR, AU_R0, AU_A)))
__CPROVER_ensures(N_ > 0 && AU_A > 0 && !AU_OKBR ==> AU_ERR && RAISED && SUB_SAME(AU->host_name) && AU->port == OLD(AU->port))
/* port delimiter = first ':' of host[:port], after the closing bracket for a bracketed host */
__CPROVER_ensures(N_ > 0 && AU_A > 0 && AU_OKBR ==> (AU_PC == NONE ? NONE_IN(':', AU_PS, AU_A) : IS_FIRST_AT(':', AU_PCA, AU_PS, AU_A)))
/* no port */
__CPROVER_ensures(N_ > 0 && AU_A > 0 && AU_OKBR && AU_PC == NONE ==> AU->port == 0 && !AU_ERR && NOT_RAISED && g_pu_calls == 0)
__CPROVER_ensures(N_ > 0 && AU_A > 0 && !AU_V6 && AU_PC == NONE ==> SUB_IS(AU->host_name, AU_R0, AU_RL))
__CPROVER_ensures(N_ > 0 && AU_A > 0 && AU_V6 && AU_OKBR && AU_PC == NONE && AU_BR == AU_RL - 1 ==> SUB_IS(AU->host_name, AU_R0 + 1, AU_RL - 2))
/* port present */
__CPROVER_ensures(N_ > 0 && AU_A > 0 && !AU_V6 && AU_PC != NONE ==> SUB_IS(AU->host_name, AU_R0, AU_PC))
__CPROVER_ensures(N_ > 0 && AU_A > 0 && AU_V6 && AU_OKBR && AU_PC == 1 ==> SUB_IS(AU->host_name, AU_R0 + 1, AU_BR - 1))
__CPROVER_ensures(N_ > 0 && AU_A > 0 && AU_OKBR && AU_PC != NONE && AU_PL == 0 ==> AU->port == 0 && !AU_ERR && NOT_RAISED && g_pu_calls == 0)
__CPROVER_ensures(N_ > 0 && AU_A > 0 && AU_OKBR && AU_PC != NONE && AU_PL > 0 ==>
                  g_pu_calls == 1 && g_pu_ptr == S_ + (AU_PCA + 1) && g_pu_len == AU_PL)
__CPROVER_ensures(N_ > 0 && AU_A > 0 && AU_OKBR && AU_PC != NONE && AU_PL > 0 && AU_PORT_OK ==>
                  AU->port == (uint32_t)g_pu_val && !AU_ERR && NOT_RAISED)
__CPROVER_ensures(N_ > 0 && AU_A > 0 && AU_OKBR && AU_PC != NONE && AU_PL > 0 && !AU_PORT_OK ==>
                  AU_ERR && AU->port == OLD(AU->port) && g_last_error == AWS_ERROR_MALFORMED_INPUT_STRING &&
                  g_raise_count == OLD(g_raise_count) + (g_pu_ok ? 1 : 2))
;

#endif
