/* Contracts of the URI parser state machine of source/uri.c (property C13; shared with C04).
 * Include AFTER "source/uri.c": the contracts are re-declarations that need struct uri_parser / enum parser_state, which
 * are private to uri.c.  Define VERIF_TRACK_ERRORS before contracts/common.h (error channel ghost). */
#ifndef VERIF_CONTRACTS_URI_PARSER_H
#define VERIF_CONTRACTS_URI_PARSER_H
#include "contracts/uri.h"
#ifndef VERIF_TRACK_ERRORS
#error "uri_parser.h needs VERIF_TRACK_ERRORS"
#endif

/* ================================================================== parser (C13 + C04)
 * The state functions never look at uri->uri_str: they see the remaining text through the advancing cursor `str` and
 * store sub-views of it in the aws_uri.  Their contracts are therefore stated relative to S = old(str->ptr), N =
 * old(str->len): every view they store is S[a, a+n) with a+n <= N, and the cursor afterwards is S[k, N).
 * s_init_from_uri_str (unit init_from_uri_str) supplies "the cursor is a suffix of uri->uri_str", which makes every view
 * a view into the URI's own copy of the text.
 *
 * Component boundaries are "the first delimiter" facts.  They are stated through the searches the code performs: the
 * ASSUMED model of libc memchr (contracts/uri.h, VERIF_URI_MEMCHR_MODEL) logs every search (character, start, length,
 * result = index of the FIRST occurrence or NONE) in the ghost log g_mc[]; the postconditions say which searches must
 * have been made, over exactly which ranges, and how the stored views follow from their results.  This keeps symbolic
 * reads of the text out of the clauses (each distinct symbolic index into an object of symbolic size costs about 10^5
 * SAT variables, and they multiply), and is exact in both directions (found / not found). */
/* search number k looked for character ch in S[off, off+n) */
#define MC_IS(k, ch, off, n) (g_mc[k].c == (ch) && g_mc[k].s == S_ + (off) && g_mc[k].len == (n))
#define MC(k) (g_mc[k].res)

/* ---- decimal parser of the port, used as aws_byte_cursor_utf8_parse_u64/uri_parse_u64_contract: the VALUE is abstracted
 * (ghost outcome g_pu_ok / g_pu_val chosen by the harness, i.e. arbitrary); the contract records which text was handed
 * over (g_pu_ptr, g_pu_len).  The real function has its own contract and unit in C01; the numeric value of a port is
 * checked end to end by the bounded units of C13. */
int uri_parse_u64_contract(struct aws_byte_cursor cursor, uint64_t *dst)
__CPROVER_requires(cursor.len == 0 || __CPROVER_r_ok(cursor.ptr, cursor.len))
__CPROVER_requires(__CPROVER_w_ok(dst, sizeof(*dst)))
__CPROVER_assigns(*dst, g_pu.ptr, g_pu.len, g_pu.calls)
__CPROVER_assigns(!g_pu.ok : g_last_error, g_raise_count)
__CPROVER_ensures(g_pu.calls == OLD(g_pu.calls) + 1 && g_pu.len == cursor.len && g_pu.ptr == cursor.ptr)
__CPROVER_ensures(RET == (g_pu.ok ? AWS_OP_SUCCESS : AWS_OP_ERR))
__CPROVER_ensures(g_pu.ok ==> *dst == g_pu.val)
__CPROVER_ensures(!g_pu.ok ==> g_raise_count == OLD(g_raise_count) + 1)
;

/* ---- shapes */
#define S_ (OLD(str->ptr))
#define N_ (OLD(str->len))
#define TXT(k) (OLD(str->ptr)[k])
/* view v is exactly S[a, a+n) */
#define SUB_IS(v, a, n) ((v).len == (n) && PEQ((v).ptr, S_ + (a)))
#define SUB_SAME(v) ((v).len == OLD((v).len) && (v).ptr == OLD((v).ptr))
/* view v is NULL/0 or lies inside S[0, N) */
#define SUB_IN(v)                                                                                                      \
    (((v).ptr == NULL && (v).len == 0) ||                                                                              \
     (S_ != NULL && __CPROVER_same_object((v).ptr, S_) &&                                                              \
      (size_t)__CPROVER_POINTER_OFFSET((v).ptr) >= (size_t)__CPROVER_POINTER_OFFSET(S_) &&                             \
      (size_t)__CPROVER_POINTER_OFFSET((v).ptr) - (size_t)__CPROVER_POINTER_OFFSET(S_) <= N_ &&                        \
      (v).len <= N_ - ((size_t)__CPROVER_POINTER_OFFSET((v).ptr) - (size_t)__CPROVER_POINTER_OFFSET(S_))))
#define SAME_OR_IN(v) (SUB_SAME(v) || SUB_IN(v))
/* the cursor afterwards is S[k, N) */
#define STR_AT(k) (str->len == N_ - (k) && (S_ == NULL ? str->ptr == NULL : PEQ(str->ptr, S_ + (k))))

#define PARSER_REQ                                                                                                     \
    __CPROVER_requires(__CPROVER_is_fresh(parser, sizeof(*parser)))                                                    \
    __CPROVER_requires(__CPROVER_is_fresh(parser->uri, sizeof(struct aws_uri)))                                        \
    __CPROVER_requires(CUR_OK(str))                                                                                    \
    __CPROVER_requires(g_mc_on ==> g_mc_n == 0)
#define RAISED (g_raise_count == OLD(g_raise_count) + 1 && g_last_error == AWS_ERROR_MALFORMED_INPUT_STRING)
#define NOT_RAISED (g_raise_count == OLD(g_raise_count) && g_last_error == OLD(g_last_error))

/* ------------------------------------------------------------------ scheme
 * One search: the first ':' of the remaining text, c.  A scheme is recognised iff c exists and is followed by '/';
 * then it must be followed by "//", else MALFORMED.  Otherwise nothing but the state changes. */
#define SCH_C MC(0)
#define SCH_FOUND (SCH_C != NONE && SCH_C + 1 < N_ && TXT(SCH_C + 1) == '/')
#define SCH_WELL (SCH_C + 2 < N_ && TXT(SCH_C + 2) == '/')
static void s_parse_scheme(struct uri_parser *parser, struct aws_byte_cursor *str)
PARSER_REQ
__CPROVER_assigns(parser->state, parser->uri->scheme, str->ptr, str->len, g_mc_n, g_mc[0], g_last_error, g_raise_count)
/* in every case: the scheme view is untouched or a view into the text, the cursor is a suffix of the text */
__CPROVER_ensures(SAME_OR_IN(parser->uri->scheme) && str->len <= N_ && STR_AT(N_ - str->len))
__CPROVER_ensures(parser->state == ON_AUTHORITY || parser->state == ERROR)
__CPROVER_ensures(parser->state == ERROR ? RAISED : NOT_RAISED)
/* exactly (g_mc_on: the search log is switched on by the enforcing harness, off where the contract replaces a call) */
__CPROVER_ensures(g_mc_on ==> g_mc_n == 1 && MC_IS(0, ':', 0, N_))
__CPROVER_ensures(g_mc_on && !SCH_FOUND ==> parser->state == ON_AUTHORITY && SUB_SAME(parser->uri->scheme) && str->len == N_)
__CPROVER_ensures(g_mc_on && SCH_FOUND ==> parser->uri->scheme.ptr == S_ && parser->uri->scheme.len == SCH_C)
__CPROVER_ensures(g_mc_on && SCH_FOUND && SCH_WELL ==> parser->state == ON_AUTHORITY && str->len == N_ - (SCH_C + 3))
__CPROVER_ensures(g_mc_on && SCH_FOUND && !SCH_WELL ==> parser->state == ERROR && str->len == N_ - SCH_C)
;

/* ------------------------------------------------------------------ path
 * One search: the first '?', q.  path = remaining text up to q (or all of it); path_and_query = all of it; never an error. */
static void s_parse_path(struct uri_parser *parser, struct aws_byte_cursor *str)
PARSER_REQ
__CPROVER_assigns(parser->state, parser->uri->path_and_query, parser->uri->path, str->ptr, str->len, g_mc_n, g_mc[0], g_last_error, g_raise_count)
__CPROVER_ensures(parser->uri->path_and_query.len == N_ && parser->uri->path_and_query.ptr == S_)
__CPROVER_ensures(parser->uri->path.ptr == S_ && parser->uri->path.len <= N_ && STR_AT(parser->uri->path.len))
__CPROVER_ensures(parser->state == (parser->uri->path.len == N_ ? FINISHED : ON_QUERY_STRING))
__CPROVER_ensures(g_mc_on ==> g_mc_n == 1 && MC_IS(0, '?', 0, N_) && parser->uri->path.len == (MC(0) == NONE ? N_ : MC(0)))
__CPROVER_ensures(parser->state == ON_QUERY_STRING ==> str->len > 0 && str->ptr[0] == '?')
__CPROVER_ensures(NOT_RAISED)
;

/* ------------------------------------------------------------------ query: everything after the first byte of the remaining text.
 * That this byte is the '?' is a postcondition of the state that hands over (s_parse_authority / s_parse_path: "state ==
 * ON_QUERY_STRING ==> the cursor stands on a '?'"); it is not restated as a precondition here because the state-machine
 * unit cannot read through the loop-havocked cursor pointer (CBMC value sets), see overlay/uri.loops. */
static void s_parse_query_string(struct uri_parser *parser, struct aws_byte_cursor *str)
PARSER_REQ
__CPROVER_requires(str->len > 0)
__CPROVER_assigns(parser->state, parser->uri->path_and_query, parser->uri->query_string, str->ptr, str->len)
__CPROVER_ensures(parser->state == FINISHED && STR_AT(N_))
__CPROVER_ensures(OLD(parser->uri->path_and_query.ptr) != NULL ? SUB_SAME(parser->uri->path_and_query)
                  : (parser->uri->path_and_query.len == N_ && parser->uri->path_and_query.ptr == S_))
__CPROVER_ensures(SUB_IS(parser->uri->query_string, 1, N_ - 1))
;


/* ------------------------------------------------------------------ authority  (RFC 3986 3.2: [ userinfo "@" ] host [ ":" port ])
 * Contract used where the state machine is composed (and for C04): memory safety, every stored view lies in the remaining
 * text, the cursor advances by exactly the authority, state/hand-over, error <=> MALFORMED raised.
 * The exact values of all components (which search results they follow from) are checked by unit parse_authority_exact,
 * whose harness evaluates the specification with local variables (as one contract the expression blows the back end up). */
#define AU (parser->uri)
#define AU_A (AU->authority.len)
#define AU_ERR (parser->state == ERROR)
static void s_parse_authority(struct uri_parser *parser, struct aws_byte_cursor *str)
PARSER_REQ
__CPROVER_requires(g_mc_on ==> g_pu.calls == 0)
__CPROVER_assigns(parser->state, g_last_error, g_raise_count, g_mc_n, __CPROVER_object_whole(g_mc), g_pu.ptr, g_pu.len, g_pu.calls)
__CPROVER_assigns(str->ptr, str->len, parser->uri->authority, parser->uri->path, parser->uri->path_and_query,
                  parser->uri->userinfo, parser->uri->user, parser->uri->password, parser->uri->host_name, parser->uri->port)
#define AU_KEPT(f) (AU->f == OLD(AU->f))
__CPROVER_ensures(N_ == 0 ==> STR_AT(0) && SUB_SAME(AU->authority) && SUB_SAME(AU->userinfo) && SUB_SAME(AU->user) && SUB_SAME(AU->password) &&
                  SUB_SAME(AU->host_name) && SUB_SAME(AU->path) && SUB_SAME(AU->path_and_query) && AU_KEPT(port))
/* empty remaining text: MALFORMED */
__CPROVER_ensures(N_ == 0 ==> AU_ERR && RAISED)
/* C04: whatever is stored is a view into the remaining text */
__CPROVER_ensures(SAME_OR_IN(AU->authority) && SAME_OR_IN(AU->userinfo) && SAME_OR_IN(AU->user) && SAME_OR_IN(AU->password) &&
                  SAME_OR_IN(AU->host_name) && SAME_OR_IN(AU->path) && SAME_OR_IN(AU->path_and_query))
__CPROVER_ensures(N_ > 0 ==> AU->authority.ptr == S_ && AU_A <= N_ && STR_AT(AU_A))
__CPROVER_ensures(parser->state == FINISHED || parser->state == ON_PATH || parser->state == ON_QUERY_STRING || parser->state == ERROR)
__CPROVER_ensures(parser->state == FINISHED ==> str->len == 0)
/* hand-over to the next state: the cursor stands on the delimiter */
__CPROVER_ensures(parser->state == ON_PATH ==> str->len > 0 && str->ptr[0] == '/')
__CPROVER_ensures(parser->state == ON_QUERY_STRING ==> str->len > 0 && str->ptr[0] == '?')
__CPROVER_ensures(AU_ERR ? g_raise_count > OLD(g_raise_count) && g_last_error == AWS_ERROR_MALFORMED_INPUT_STRING : NOT_RAISED)
;


/* ------------------------------------------------------------------ the state machine
 * Both callers hand over a zeroed aws_uri whose uri_str holds the text.  Success: the text is kept and every component
 * view is NULL/0 or lies inside uri_str[0, len) ("inside the URI object's own copy of the text").  Failure: MALFORMED was
 * raised, the text is released and the whole object is zeroed.  Termination: the state number increases in every step. */
#define URI_TEXT_MAX ((size_t)1 << 48)
static int s_init_from_uri_str(struct aws_uri *uri)
__CPROVER_requires(__CPROVER_is_fresh(uri, sizeof(*uri)))
__CPROVER_requires(BUF_FIELDS_OK(&uri->uri_str))
/* tool limit, not a property of the code: CBMC's pointer encoding (8 object bits, signed 56-bit offsets) mis-handles
 * objects of 2^55 bytes and more; the text is assumed shorter than 2^48 bytes */
__CPROVER_requires(uri->uri_str.capacity <= URI_TEXT_MAX)
__CPROVER_requires(ALL_UVIEWS_ZERO(uri) && uri->port == 0)
__CPROVER_requires(!g_mc_on)
__CPROVER_assigns(*uri, g_last_error, g_raise_count, g_mc_n, __CPROVER_object_whole(g_mc), g_pu.ptr, g_pu.len, g_pu.calls)
__CPROVER_frees(uri->uri_str.buffer)
__CPROVER_ensures(RET == AWS_OP_SUCCESS || RET == AWS_OP_ERR)
__CPROVER_ensures(RET == AWS_OP_SUCCESS ==> uri->uri_str.buffer == OLD(uri->uri_str.buffer) && uri->uri_str.len == OLD(uri->uri_str.len) &&
                  uri->uri_str.capacity == OLD(uri->uri_str.capacity) && uri->uri_str.allocator == OLD(uri->uri_str.allocator) &&
                  uri->self_size == OLD(uri->self_size) && uri->allocator == OLD(uri->allocator))
__CPROVER_ensures(RET == AWS_OP_SUCCESS ==> ALL_UVIEWS_IN(uri))
__CPROVER_ensures(RET == AWS_OP_SUCCESS ==> NOT_RAISED)
__CPROVER_ensures(RET == AWS_OP_ERR ==> g_raise_count > OLD(g_raise_count) && g_last_error == AWS_ERROR_MALFORMED_INPUT_STRING)
__CPROVER_ensures(RET == AWS_OP_ERR ==> ALL_UVIEWS_ZERO(uri) && uri->port == 0 && uri->self_size == 0 && uri->allocator == NULL &&
                  uri->uri_str.buffer == NULL && uri->uri_str.len == 0 && uri->uri_str.capacity == 0 && uri->uri_str.allocator == NULL)
;


/* ------------------------------------------------------------------ aws_uri_init_parse: copy the text, then run the state machine.
 * Success: the object owns a copy of the text (same length, same bytes: witness g_j/g_src) and every component view lies
 * inside that copy.  Failure: the object is zeroed (nothing to clean up). */
int aws_uri_init_parse(struct aws_uri *uri, struct aws_allocator *allocator, const struct aws_byte_cursor *uri_str)
__CPROVER_requires(__CPROVER_is_fresh(uri, sizeof(*uri)))
__CPROVER_requires(allocator != NULL)
__CPROVER_requires(CUR_OK(uri_str) && uri_str->len <= URI_TEXT_MAX)
__CPROVER_requires(g_on ==> (g_j < uri_str->len ==> g_src == uri_str->ptr[g_j]))
__CPROVER_requires(!g_mc_on)
__CPROVER_assigns(*uri, g_last_error, g_raise_count, g_mc_n, __CPROVER_object_whole(g_mc), g_pu.ptr, g_pu.len, g_pu.calls)
__CPROVER_ensures(RET == AWS_OP_SUCCESS || RET == AWS_OP_ERR)
__CPROVER_ensures(RET == AWS_OP_SUCCESS ==> uri->self_size == sizeof(struct aws_uri) && uri->allocator == allocator &&
                  uri->uri_str.allocator == allocator && uri->uri_str.len == uri_str->len && uri->uri_str.capacity == uri_str->len &&
                  (uri_str->len == 0 ? uri->uri_str.buffer == NULL : __CPROVER_rw_ok(uri->uri_str.buffer, uri->uri_str.capacity)))
__CPROVER_ensures(g_on && RET == AWS_OP_SUCCESS && g_j < uri_str->len ==> uri->uri_str.buffer[g_j] == g_src)
__CPROVER_ensures(RET == AWS_OP_SUCCESS ==> ALL_UVIEWS_IN(uri))
__CPROVER_ensures(RET == AWS_OP_SUCCESS ==> NOT_RAISED)
__CPROVER_ensures(RET == AWS_OP_ERR ==> g_raise_count > OLD(g_raise_count) && g_last_error == AWS_ERROR_MALFORMED_INPUT_STRING)
__CPROVER_ensures(RET == AWS_OP_ERR ==> ALL_UVIEWS_ZERO(uri) && uri->port == 0 && uri->self_size == 0 && uri->allocator == NULL &&
                  uri->uri_str.buffer == NULL && uri->uri_str.len == 0 && uri->uri_str.capacity == 0 && uri->uri_str.allocator == NULL)
;

#endif
