/* Specification of source/hash_table.c for property C02 ("hash table behaves as a map under any history").
 *
 * The hash table is the one module where DFCC enforcement does not scale (DESIGN §2: 8 slots do not finish), so the
 * contract of every operation is written here as C *spec functions* over the real `struct hash_table_state`
 * (representation invariant ht_inv, reference-map view sp_find / sp_count_value, iterator invariant it_inv and the
 * positional visited/current/pending classification) and is evaluated by assume/assert harnesses in
 * units/C02/hash_table.c on a table of HT_NS slots (BOUNDED: HT_NS = 4; 2 for the steps that resize 2->4; 8 in the
 * thorough tier for the steps that do not go through s_remove_entry / s_emplace_item).
 * Each harness is one inductive step: ANY table of that size that satisfies ht_inv (not only reachable ones), any
 * key, any hash function on key identities, any destructor configuration -> the real operation -> ht_inv again and
 * the view changes exactly as a plain reference map would.  By induction this covers every operation history over
 * tables of the stated sizes.
 *
 * Only aws_hash_table_swap / aws_hash_table_move (loop-free pointer moves) carry real DFCC contracts below.
 *
 * Key model ("all hash functions consistent with equality"):
 *   a key is NULL or a pointer to a record {id}; equality = same id; hash = vk_hash_of_id[id], an ARBITRARY
 *   (nondeterministic) 64-bit table, so constant, clustered, slot-array-end and zero-valued hashes are all instances
 *   and "equal ==> same hash" holds by construction.  Several records may carry the same id (equal but distinct
 *   key pointers: the overwrite path of put).  HT_NKEYS records / HT_NIDS identities suffice: a step involves at most
 *   HT_NS-1 stored keys + the operation key + one ghost key (symmetry: identities beyond that are interchangeable).
 */
#ifndef VERIF_CONTRACTS_HASH_TABLE_H
#define VERIF_CONTRACTS_HASH_TABLE_H
#include "contracts/common.h"
#include <aws/common/hash_table.h>
#include <aws/common/private/hash_table_impl.h>
#include <stdlib.h>

#ifndef HT_NS
#    define HT_NS 4 /* slots of the pre-state table: the bound of the bounded units */
#endif
#define HT_NKEYS (HT_NS + 1)
#define HT_NIDS (HT_NS + 1)
#define HT_NVALS 4
#define HT_NONE SIZE_MAX

/* ------------------------------------------------------------------ replay recording
 * Every nondeterministic choice of a harness goes through ND_*(): the k-th choice is stored in the scalar r_nd<k>, so a
 * counterexample trace names all inputs and replay/hash_table_replay.c can re-run the SAME harness natively (ASan/UBSan)
 * with nondet_*() answering from the recorded values.  The helpers below draw their choices unconditionally so that
 * the order of choices does not depend on the path. */
#ifndef HT_NATIVE_REPLAY
uint64_t r_nd0, r_nd1, r_nd2, r_nd3, r_nd4, r_nd5, r_nd6, r_nd7, r_nd8, r_nd9, r_nd10, r_nd11, r_nd12, r_nd13, r_nd14, r_nd15, r_nd16, r_nd17, r_nd18, r_nd19, r_nd20, r_nd21, r_nd22, r_nd23, r_nd24, r_nd25, r_nd26, r_nd27, r_nd28, r_nd29, r_nd30, r_nd31, r_nd32, r_nd33, r_nd34, r_nd35, r_nd36, r_nd37, r_nd38, r_nd39, r_nd40, r_nd41, r_nd42, r_nd43, r_nd44, r_nd45, r_nd46, r_nd47, r_nd48, r_nd49, r_nd50, r_nd51, r_nd52, r_nd53, r_nd54, r_nd55, r_nd56, r_nd57, r_nd58, r_nd59, r_nd60, r_nd61, r_nd62, r_nd63, r_nd64, r_nd65, r_nd66, r_nd67, r_nd68, r_nd69, r_nd70, r_nd71, r_nd72, r_nd73, r_nd74, r_nd75, r_nd76, r_nd77, r_nd78, r_nd79, r_nd80, r_nd81, r_nd82, r_nd83, r_nd84, r_nd85, r_nd86, r_nd87, r_nd88, r_nd89, r_nd90, r_nd91, r_nd92, r_nd93, r_nd94, r_nd95;
size_t r_n;
static uint64_t ht_rec(uint64_t v) {
    switch (r_n) {
        case 0: r_nd0 = v; break;
        case 1: r_nd1 = v; break;
        case 2: r_nd2 = v; break;
        case 3: r_nd3 = v; break;
        case 4: r_nd4 = v; break;
        case 5: r_nd5 = v; break;
        case 6: r_nd6 = v; break;
        case 7: r_nd7 = v; break;
        case 8: r_nd8 = v; break;
        case 9: r_nd9 = v; break;
        case 10: r_nd10 = v; break;
        case 11: r_nd11 = v; break;
        case 12: r_nd12 = v; break;
        case 13: r_nd13 = v; break;
        case 14: r_nd14 = v; break;
        case 15: r_nd15 = v; break;
        case 16: r_nd16 = v; break;
        case 17: r_nd17 = v; break;
        case 18: r_nd18 = v; break;
        case 19: r_nd19 = v; break;
        case 20: r_nd20 = v; break;
        case 21: r_nd21 = v; break;
        case 22: r_nd22 = v; break;
        case 23: r_nd23 = v; break;
        case 24: r_nd24 = v; break;
        case 25: r_nd25 = v; break;
        case 26: r_nd26 = v; break;
        case 27: r_nd27 = v; break;
        case 28: r_nd28 = v; break;
        case 29: r_nd29 = v; break;
        case 30: r_nd30 = v; break;
        case 31: r_nd31 = v; break;
        case 32: r_nd32 = v; break;
        case 33: r_nd33 = v; break;
        case 34: r_nd34 = v; break;
        case 35: r_nd35 = v; break;
        case 36: r_nd36 = v; break;
        case 37: r_nd37 = v; break;
        case 38: r_nd38 = v; break;
        case 39: r_nd39 = v; break;
        case 40: r_nd40 = v; break;
        case 41: r_nd41 = v; break;
        case 42: r_nd42 = v; break;
        case 43: r_nd43 = v; break;
        case 44: r_nd44 = v; break;
        case 45: r_nd45 = v; break;
        case 46: r_nd46 = v; break;
        case 47: r_nd47 = v; break;
        case 48: r_nd48 = v; break;
        case 49: r_nd49 = v; break;
        case 50: r_nd50 = v; break;
        case 51: r_nd51 = v; break;
        case 52: r_nd52 = v; break;
        case 53: r_nd53 = v; break;
        case 54: r_nd54 = v; break;
        case 55: r_nd55 = v; break;
        case 56: r_nd56 = v; break;
        case 57: r_nd57 = v; break;
        case 58: r_nd58 = v; break;
        case 59: r_nd59 = v; break;
        case 60: r_nd60 = v; break;
        case 61: r_nd61 = v; break;
        case 62: r_nd62 = v; break;
        case 63: r_nd63 = v; break;
        case 64: r_nd64 = v; break;
        case 65: r_nd65 = v; break;
        case 66: r_nd66 = v; break;
        case 67: r_nd67 = v; break;
        case 68: r_nd68 = v; break;
        case 69: r_nd69 = v; break;
        case 70: r_nd70 = v; break;
        case 71: r_nd71 = v; break;
        case 72: r_nd72 = v; break;
        case 73: r_nd73 = v; break;
        case 74: r_nd74 = v; break;
        case 75: r_nd75 = v; break;
        case 76: r_nd76 = v; break;
        case 77: r_nd77 = v; break;
        case 78: r_nd78 = v; break;
        case 79: r_nd79 = v; break;
        case 80: r_nd80 = v; break;
        case 81: r_nd81 = v; break;
        case 82: r_nd82 = v; break;
        case 83: r_nd83 = v; break;
        case 84: r_nd84 = v; break;
        case 85: r_nd85 = v; break;
        case 86: r_nd86 = v; break;
        case 87: r_nd87 = v; break;
        case 88: r_nd88 = v; break;
        case 89: r_nd89 = v; break;
        case 90: r_nd90 = v; break;
        case 91: r_nd91 = v; break;
        case 92: r_nd92 = v; break;
        case 93: r_nd93 = v; break;
        case 94: r_nd94 = v; break;
        case 95: r_nd95 = v; break;
        default: break;
    }
    r_n++;
    return v;
}
#else
uint64_t ht_rec(uint64_t v); /* native replay: returns the recorded value */
#endif
#define ND_BOOL() ((ht_rec((uint64_t)nondet_bool()) & 1) != 0)
#define ND_SIZE() ((size_t)ht_rec((uint64_t)nondet_size_t()))
#define ND_U64() (ht_rec(nondet_u64()))
#define ND_INT() ((int)ht_rec((uint64_t)(int64_t)nondet_int()))

/* ------------------------------------------------------------------ key / value / callback model */
struct vkey {
    uint64_t id;
};
struct vkey vk_pool[HT_NKEYS];
uint64_t vk_hash_of_id[HT_NIDS];
char vv_pool[HT_NVALS];

/* call log of the hash / equality callbacks: they are only ever called on non-NULL keys */
size_t g_hash_calls, g_eq_calls;
static uint64_t vk_hash(const void *k) {
    __CPROVER_assert(k != NULL, "hash_fn is never called on a NULL key");
    g_hash_calls++;
    return vk_hash_of_id[((const struct vkey *)k)->id];
}
static bool vk_eq(const void *a, const void *b) {
    __CPROVER_assert(a != NULL && b != NULL, "equals_fn is never called on a NULL key");
    g_eq_calls++;
    return ((const struct vkey *)a)->id == ((const struct vkey *)b)->id;
}

/* destructor call counters (DESIGN §4.6): total calls, calls on one watched pointer, last argument */
size_t g_dk_calls, g_dk_hits, g_dv_calls, g_dv_hits;
const void *g_dk_watch, *g_dv_watch, *g_dk_last, *g_dv_last;
static void vk_destroy_key(void *p) {
    g_dk_calls++;
    if (p == g_dk_watch) g_dk_hits++;
    g_dk_last = p;
}
static void vk_destroy_value(void *p) {
    g_dv_calls++;
    if (p == g_dv_watch) g_dv_hits++;
    g_dv_last = p;
}

/* storage with the layout of `struct hash_table_state` followed by N slots, allocated as ONE typed heap object (a
 * byte-array object of the same size turns every slot access into a byte_extract and multiplies the formula size) */
struct ht_store {
    struct hash_table_state st;
    struct hash_table_entry sl[HT_NS];
};
struct ht_store2 {
    struct hash_table_state st;
    struct hash_table_entry sl[2 * HT_NS];
};
#ifndef HT_ALLOC_SLOTS
#    define HT_ALLOC_SLOTS (2 * HT_NS) /* the only allocation a step may request: the doubled table */
#endif

/* allocator handed to the table: libc calloc/free behind the real aws_mem_calloc / aws_mem_release (source/allocator.c
 * is linked into the units that resize or clean up).  The request must be exactly header + HT_ALLOC_SLOTS slots. */
size_t g_release_calls, g_alloc_calls;
const void *g_release_last;
static void *vk_acquire(struct aws_allocator *a, size_t n) {
    (void)a; (void)n;
    __CPROVER_assert(0, "mem_acquire is not used (mem_calloc is provided)");
    return NULL;
}
static void vk_release(struct aws_allocator *a, void *p) {
    (void)a;
    g_release_calls++;
    g_release_last = p;
    free(p);
}
static void *vk_calloc(struct aws_allocator *a, size_t n, size_t m) {
    (void)a;
    g_alloc_calls++;
    __CPROVER_assert(n == 1 && m == sizeof(struct hash_table_state) + HT_ALLOC_SLOTS * sizeof(struct hash_table_entry),
                     "allocation request is exactly header + slots of the new size");
#if HT_ALLOC_SLOTS == 2 * HT_NS
    return calloc(1, sizeof(struct ht_store2));
#else
    return calloc(1, sizeof(struct ht_store));
#endif
}
struct aws_allocator vk_alloc;

static const void *ht_any_key(void) {
    bool is_null = ND_BOOL();
    size_t i = ND_SIZE();
    __CPROVER_assume(i < HT_NKEYS);
    return is_null ? NULL : &vk_pool[i];
}
static void *ht_any_value(void) {
    bool is_null = ND_BOOL();
    size_t i = ND_SIZE();
    __CPROVER_assume(i < HT_NVALS);
    return is_null ? NULL : &vv_pool[i];
}

/* every harness starts here: arbitrary identities, arbitrary hash function, counters at zero */
static void ht_model_init(void) {
#ifndef HT_NATIVE_REPLAY
    r_n = 0;
#endif
    for (size_t i = 0; i < HT_NKEYS; i++) {
        vk_pool[i].id = ND_U64();
        __CPROVER_assume(vk_pool[i].id < HT_NIDS);
    }
    for (size_t i = 0; i < HT_NIDS; i++) vk_hash_of_id[i] = ND_U64();
    g_hash_calls = g_eq_calls = 0;
    g_dk_calls = g_dk_hits = g_dv_calls = g_dv_hits = 0;
    g_dk_watch = g_dv_watch = &vk_alloc; /* a pointer that is never a key or value: nothing watched */
    g_dk_last = g_dv_last = NULL;
    g_release_calls = g_alloc_calls = 0;
    g_release_last = NULL;
    vk_alloc.mem_acquire = vk_acquire;
    vk_alloc.mem_release = vk_release;
    vk_alloc.mem_realloc = NULL;
    vk_alloc.mem_calloc = vk_calloc;
    vk_alloc.impl = NULL;
}

/* ------------------------------------------------------------------ reference semantics of keys */
static bool sp_keq(const void *a, const void *b) {
    if (a == b) return true;
    if (a == NULL || b == NULL) return false;
    return ((const struct vkey *)a)->id == ((const struct vkey *)b)->id;
}
/* the hash code the table must store for a key: never 0 (0 marks an empty slot); NULL has a fixed code */
static uint64_t sp_hash(const void *k) {
    if (k == NULL) return 42;
    uint64_t h = vk_hash_of_id[((const struct vkey *)k)->id];
    return h ? h : 1;
}

/* ------------------------------------------------------------------ representation invariant */
static size_t sp_disp(const struct hash_table_state *s, size_t ns, size_t i) {
    return (i - (size_t)s->slots[i].hash_code) & (ns - 1);
}
/* ns: the (constant) slot count the caller expects, so that every loop below has a constant bound */
static bool ht_inv(const struct hash_table_state *s, size_t ns) {
    if (s->size != ns || s->mask != ns - 1) return false;
    if (!(s->max_load < s->size) || s->entry_count > s->max_load) return false; /* at least one empty slot */
    if (s->hash_fn != vk_hash || s->equals_fn != vk_eq || s->alloc != &vk_alloc) return false;
    if (s->destroy_key_fn != NULL && s->destroy_key_fn != vk_destroy_key) return false;
    if (s->destroy_value_fn != NULL && s->destroy_value_fn != vk_destroy_value) return false;
    if (s->max_load_factor != 0.95) return false;
    size_t occ = 0;
    for (size_t i = 0; i < ns; i++) {
        const struct hash_table_entry *e = &s->slots[i];
        size_t n = (i + 1) & (ns - 1);
        if (e->hash_code) {
            occ++;
            /* the stored code is the code of the stored key */
            if (e->hash_code != sp_hash(e->element.key)) return false;
            /* no two stored keys are equal */
            for (size_t j = i + 1; j < ns; j++)
                if (s->slots[j].hash_code && sp_keq(e->element.key, s->slots[j].element.key)) return false;
        }
        /* Robin Hood, local form: a displaced entry has an occupied predecessor that is displaced at least
         * one less (so every probe sequence home..position is gap-free and never passes a "richer" entry) */
        if (s->slots[n].hash_code) {
            size_t dn = sp_disp(s, ns, n);
            if (dn > 0) {
                if (!e->hash_code) return false;
                if (sp_disp(s, ns, i) + 1 < dn) return false;
            }
        }
    }
    return occ == s->entry_count;
}

/* ------------------------------------------------------------------ reference-map view (linear scan, no probing) */
static size_t sp_find(const struct hash_table_state *s, size_t ns, const void *k) {
    for (size_t i = 0; i < ns; i++)
        if (s->slots[i].hash_code && sp_keq(s->slots[i].element.key, k)) return i;
    return HT_NONE;
}
static size_t sp_count_value(const struct hash_table_state *s, size_t ns, const void *v) {
    size_t c = 0;
    for (size_t i = 0; i < ns; i++)
        if (s->slots[i].hash_code && s->slots[i].element.value == v) c++;
    return c;
}
/* view of one arbitrary ghost key: present?, stored key pointer, stored value */
struct ht_view {
    bool present;
    const void *key;
    void *value;
};
static struct ht_view sp_view(const struct hash_table_state *s, size_t ns, const void *k) {
    struct ht_view v = {false, NULL, NULL};
    size_t i = sp_find(s, ns, k);
    if (i != HT_NONE) {
        v.present = true;
        v.key = s->slots[i].element.key;
        v.value = s->slots[i].element.value;
    }
    return v;
}
static bool sp_view_eq(struct ht_view a, struct ht_view b) {
    return a.present == b.present && (!a.present || (a.key == b.key && a.value == b.value));
}

/* the entry (same code, same key pointer, same value pointer) is stored in some slot.  Together with ht_inv (stored
 * keys pairwise unequal, entry_count == #occupied) "count changed by exactly d" + "every entry that must survive is
 * still held" pins the whole key->value view: there is no room for a lost, duplicated or invented pair. */
static bool sp_holds(const struct hash_table_state *s, size_t ns, struct hash_table_entry e) {
    for (size_t i = 0; i < ns; i++)
        if (s->slots[i].hash_code == e.hash_code && s->slots[i].element.key == e.element.key &&
            s->slots[i].element.value == e.element.value)
            return true;
    return false;
}

/* ------------------------------------------------------------------ snapshots ("nothing else changed") */
struct ht_snap {
    struct hash_table_state hdr;
    struct hash_table_entry slots[2 * HT_NS];
};
static void ht_snapshot(const struct hash_table_state *s, size_t ns, struct ht_snap *o) {
    o->hdr = *s;
    for (size_t i = 0; i < ns; i++) o->slots[i] = s->slots[i];
}
static bool ht_hdr_same(const struct hash_table_state *s, const struct ht_snap *o) {
    return s->hash_fn == o->hdr.hash_fn && s->equals_fn == o->hdr.equals_fn &&
           s->destroy_key_fn == o->hdr.destroy_key_fn && s->destroy_value_fn == o->hdr.destroy_value_fn &&
           s->alloc == o->hdr.alloc && s->size == o->hdr.size && s->max_load == o->hdr.max_load &&
           s->mask == o->hdr.mask && s->max_load_factor == o->hdr.max_load_factor;
}
static bool ht_same(const struct hash_table_state *s, size_t ns, const struct ht_snap *o) {
    if (!ht_hdr_same(s, o) || s->entry_count != o->hdr.entry_count) return false;
    for (size_t i = 0; i < ns; i++)
        if (s->slots[i].hash_code != o->slots[i].hash_code ||
            (s->slots[i].hash_code &&
             (s->slots[i].element.key != o->slots[i].element.key || s->slots[i].element.value != o->slots[i].element.value)))
            return false;
    return true;
}

/* ------------------------------------------------------------------ an arbitrary table that satisfies ht_inv */
static struct hash_table_state *ht_any_state(size_t ns) {
    struct hash_table_state *s = (struct hash_table_state *)malloc(sizeof(struct ht_store));
    __CPROVER_assume(s != NULL);
    s->hash_fn = vk_hash;
    s->equals_fn = vk_eq;
    s->destroy_key_fn = ND_BOOL() ? vk_destroy_key : NULL;
    s->destroy_value_fn = ND_BOOL() ? vk_destroy_value : NULL;
    s->alloc = &vk_alloc;
    s->size = ns;
    s->mask = ns - 1;
    s->max_load = ND_SIZE();
    s->entry_count = 0;
    s->max_load_factor = 0.95;
    for (size_t i = 0; i < ns; i++) {
        /* an occupied slot stores the code of its key (clause of ht_inv, established by construction: cheaper for
         * the solver than an arbitrary 64-bit code constrained afterwards; same set of states) */
        s->slots[i].element.key = ht_any_key();
        s->slots[i].element.value = ht_any_value();
        s->slots[i].hash_code = ND_BOOL() ? sp_hash(s->slots[i].element.key) : 0;
        if (s->slots[i].hash_code) s->entry_count++; /* entry_count == #occupied, by construction as well */
    }
    __CPROVER_assume(ht_inv(s, ns));
    return s;
}

/* ------------------------------------------------------------------ iterator invariant and positional classes */
/* what aws_hash_iter_begin/next/delete maintain; `ns` as above */
static bool it_inv(const struct aws_hash_iter *it, const struct aws_hash_table *map, size_t ns) {
    const struct hash_table_state *s = map->p_impl;
    if (it->map != map || it->limit > ns) return false;
    switch (it->status) {
        case AWS_HASH_ITER_STATUS_DONE:
            return it->slot == it->limit;
        case AWS_HASH_ITER_STATUS_DELETE_CALLED:
            return it->slot < it->limit || it->slot == SIZE_MAX;
        case AWS_HASH_ITER_STATUS_READY_FOR_USE:
            return it->slot < it->limit && s->slots[it->slot].hash_code != 0 &&
                   it->element.key == s->slots[it->slot].element.key &&
                   it->element.value == s->slots[it->slot].element.value;
    }
    return false;
}
/* class of the entry stored at slot p, decided by position only:
 *   CURRENT  the entry the iterator is standing on (status READY_FOR_USE, p == slot)
 *   PENDING  not handed out yet: slot < p < limit (slot == SIZE_MAX after deleting slot 0: 0 <= p < limit)
 *   VISITED  handed out before: everything else
 * "every entry exactly once" == along begin/next/delete an entry only ever moves PENDING -> CURRENT -> VISITED,
 * begin leaves nothing VISITED and a DONE iterator leaves nothing PENDING. */
enum it_class { IT_VISITED = 0, IT_CURRENT = 1, IT_PENDING = 2 };
static enum it_class it_class_of(const struct aws_hash_iter *it, size_t p) {
    if (it->status == AWS_HASH_ITER_STATUS_READY_FOR_USE && p == it->slot) return IT_CURRENT;
    if (p < it->limit && (it->slot == SIZE_MAX || p > it->slot)) return IT_PENDING;
    return IT_VISITED;
}

/* ------------------------------------------------------------------ DFCC contracts (loop-free functions) */
void aws_hash_table_swap(struct aws_hash_table *AWS_RESTRICT a, struct aws_hash_table *AWS_RESTRICT b)
__CPROVER_requires(__CPROVER_is_fresh(a, sizeof(*a)) && __CPROVER_is_fresh(b, sizeof(*b)))
__CPROVER_assigns(*a, *b)
__CPROVER_ensures(a->p_impl == __CPROVER_old(b->p_impl) && b->p_impl == __CPROVER_old(a->p_impl))
;

void aws_hash_table_move(struct aws_hash_table *AWS_RESTRICT to, struct aws_hash_table *AWS_RESTRICT from)
__CPROVER_requires(__CPROVER_is_fresh(to, sizeof(*to)) && __CPROVER_is_fresh(from, sizeof(*from)))
__CPROVER_assigns(*to, *from)
__CPROVER_ensures(to->p_impl == __CPROVER_old(from->p_impl) && from->p_impl == NULL)
;

#endif
