/* Function contracts for the parsing half of source/date_time.c (property C04: total and memory-safe on arbitrary bytes).
 *
 * Each helper works on an ADVANCING cursor: the contract says exactly how far it moves (never past the end: the new
 * view is a suffix of the old one), what it reports, and - for one arbitrary witness position g_j - which bytes it has
 * looked at.  Lengths are unbounded in these contracts; the 100-byte cap of the public entry point is not needed.
 * Signed overflow of the field accumulators is NOT an obligation of C04 (DESIGN 5/C04): CBMC's wrap-around is used.
 */
#ifndef VERIF_CONTRACTS_DATE_TIME_H
#define VERIF_CONTRACTS_DATE_TIME_H
#ifndef VERIF_TRACK_ERRORS
#    error "contracts/date_time.h needs VERIF_TRACK_ERRORS"

#endif
#include "contracts/common.h"
#include <aws/common/date_time.h>
#include <aws/common/time.h>
#include <time.h>

#ifndef RET
#    define RET __CPROVER_return_value
#    define OLD __CPROVER_old
#    define PEQ(p, q) __CPROVER_pointer_equals((p), (q))

#endif

#define DT_ISDIGIT(c) ((c) >= '0' && (c) <= '9')
#define DT_DIG(p, i) ((int)((p)[i]) - '0')

/* the lazily initialised month / zone name codes of date_time.c (tentative definitions; the file defines them) */
static uint32_t s_jan, s_feb, s_mar, s_apr, s_may, s_jun, s_jul, s_aug, s_sep, s_oct, s_nov, s_dec, s_utc, s_gmt;
/* either not yet initialised (s_jan == 0: the next s_check_init_str_to_int() fills all of them) or holding the codes of
 * "utc" / "gmt" (the two that decide which zone names are accepted) */
#define DT_TRIP(a, b, c) ((uint32_t)(a) | ((uint32_t)(b) << 8) | ((uint32_t)(c) << 16))
#define DT_STATICS_OK (s_jan == 0 || (s_utc == DT_TRIP('u', 't', 'c') && s_gmt == DT_TRIP('g', 'm', 't')))
#define DT_STATICS s_jan, s_feb, s_mar, s_apr, s_may, s_jun, s_jul, s_aug, s_sep, s_oct, s_nov, s_dec, s_utc, s_gmt


#define DT_GHOST_RESET() do { GHOST_RESET_COMMON(); g_on = false; } while (0)

/* cursor moved forward by exactly n bytes / not at all */
#define DT_ADVANCED(str, n) ((str)->len == OLD((str)->len) - (n) && PEQ((str)->ptr, OLD((str)->ptr) + (n)))
#define DT_UNMOVED(str) ((str)->len == OLD((str)->len) && PEQ((str)->ptr, OLD((str)->ptr)))

/* ------------------------------------------------------------------ fixed-width number: exactly n digits, n in {1..4}
 * (all call sites pass 2 or 4).  Exact success condition and exact value for the two widths that are used. */
static bool s_read_n_digits(struct aws_byte_cursor *str, size_t n, int *out_val)
__CPROVER_requires(CUR_OK(str))
__CPROVER_requires(__CPROVER_is_fresh(out_val, sizeof(*out_val)))
__CPROVER_requires(n >= 1 && n <= 4)
__CPROVER_assigns(str->len >= n : str->ptr, str->len, *out_val)
__CPROVER_ensures(RET ==> OLD(str->len) >= n && DT_ADVANCED(str, n))
__CPROVER_ensures(!RET ==> DT_UNMOVED(str) && *out_val == OLD(*out_val))
__CPROVER_ensures(RET && g_j < n ==> DT_ISDIGIT(OLD(str->ptr)[g_j]))
__CPROVER_ensures(n == 2 ==> RET == (OLD(str->len) >= 2 && DT_ISDIGIT(OLD(str->ptr)[0]) && DT_ISDIGIT(OLD(str->ptr)[1])))
__CPROVER_ensures(n == 2 && RET ==> *out_val == 10 * DT_DIG(OLD(str->ptr), 0) + DT_DIG(OLD(str->ptr), 1))
__CPROVER_ensures(n == 4 ==> RET == (OLD(str->len) >= 4 && DT_ISDIGIT(OLD(str->ptr)[0]) && DT_ISDIGIT(OLD(str->ptr)[1]) &&
                                     DT_ISDIGIT(OLD(str->ptr)[2]) && DT_ISDIGIT(OLD(str->ptr)[3])))
__CPROVER_ensures(n == 4 && RET ==> *out_val == 1000 * DT_DIG(OLD(str->ptr), 0) + 100 * DT_DIG(OLD(str->ptr), 1) +
                                                    10 * DT_DIG(OLD(str->ptr), 2) + DT_DIG(OLD(str->ptr), 3))
;

static bool s_read_1_char(struct aws_byte_cursor *str, uint8_t *out_c)
__CPROVER_requires(CUR_OK(str))
__CPROVER_requires(__CPROVER_is_fresh(out_c, sizeof(*out_c)))
__CPROVER_assigns(str->len > 0 : str->ptr, str->len, *out_c)
__CPROVER_ensures(RET == (OLD(str->len) > 0))
__CPROVER_ensures(RET ==> DT_ADVANCED(str, 1) && *out_c == OLD(str->ptr)[0])
__CPROVER_ensures(!RET ==> DT_UNMOVED(str) && *out_c == OLD(*out_c))
;

static bool s_advance_if_next_char_is(struct aws_byte_cursor *str, uint8_t c)
__CPROVER_requires(CUR_OK(str))
__CPROVER_assigns(str->len > 0 : str->ptr, str->len)
__CPROVER_ensures(RET == (OLD(str->len) > 0 && OLD(str->ptr)[0] == c))
__CPROVER_ensures(RET ==> DT_ADVANCED(str, 1))
__CPROVER_ensures(!RET ==> DT_UNMOVED(str))
;

/* ".ddd" / ",ddd": skips the mark and ALL digits behind it ; a mark without a digit is an error */
#define DT_FRAC_MARK(str) ((str)->len > 0 && ((str)->ptr[0] == '.' || (str)->ptr[0] == ','))
#define DT_SKIPPED(str) (OLD((str)->len) - (str)->len)
#define DT_FRAC_MARK_OLD(str) (OLD((str)->len) > 0 && (OLD((str)->ptr)[0] == '.' || OLD((str)->ptr)[0] == ','))
static bool s_skip_optional_fractional_seconds(struct aws_byte_cursor *str)
__CPROVER_requires(CUR_OK(str))
__CPROVER_assigns(DT_FRAC_MARK(str) : str->ptr, str->len)
__CPROVER_ensures(!DT_FRAC_MARK_OLD(str) ==> RET && DT_UNMOVED(str))
__CPROVER_ensures(DT_FRAC_MARK_OLD(str) ==> RET == (OLD(str->len) >= 2 && DT_ISDIGIT(OLD(str->ptr)[1])))
__CPROVER_ensures(!RET ==> DT_UNMOVED(str))
/* moved forward by DT_SKIPPED >= 2 bytes, never past the end */
__CPROVER_ensures(RET && DT_FRAC_MARK_OLD(str) ==> str->len <= OLD(str->len) - 2 && PEQ(str->ptr, OLD(str->ptr) + DT_SKIPPED(str)))
/* everything skipped behind the mark is a digit, and the skipping stops only at a non-digit or at the end */
__CPROVER_ensures(RET && DT_FRAC_MARK_OLD(str) && g_j >= 1 && g_j < DT_SKIPPED(str) ==> DT_ISDIGIT(OLD(str->ptr)[g_j]))
__CPROVER_ensures(RET && DT_FRAC_MARK_OLD(str) && str->len > 0 ==> !DT_ISDIGIT(str->ptr[0]))
;

/* ------------------------------------------------------------------ ISO 8601 (extended and basic) on a by-value cursor */
#define DT_STR_OK(s) (((s).len == 0 && (s).ptr == NULL) || __CPROVER_is_fresh((s).ptr, (s).len))
static bool s_parse_iso_8601(struct aws_byte_cursor str, struct tm *parsed_time, time_t *seconds_offset)
__CPROVER_requires(DT_STR_OK(str))
__CPROVER_requires(__CPROVER_is_fresh(parsed_time, sizeof(*parsed_time)))
__CPROVER_requires(__CPROVER_is_fresh(seconds_offset, sizeof(*seconds_offset)))
__CPROVER_assigns(*parsed_time, *seconds_offset)
/* shortest accepted text is YYYYMMDD; the year is read from the first four bytes */
__CPROVER_ensures(RET ==> str.len >= 8 && DT_ISDIGIT(str.ptr[0]) && DT_ISDIGIT(str.ptr[1]) && DT_ISDIGIT(str.ptr[2]) && DT_ISDIGIT(str.ptr[3]))
__CPROVER_ensures(RET ==> parsed_time->tm_year == 1000 * DT_DIG(str.ptr, 0) + 100 * DT_DIG(str.ptr, 1) + 10 * DT_DIG(str.ptr, 2) + DT_DIG(str.ptr, 3) - 1900)
/* two-digit fields: what reaches the libc calendar functions is in these ranges */
__CPROVER_ensures(RET ==> parsed_time->tm_mon >= -1 && parsed_time->tm_mon <= 98 && parsed_time->tm_mday >= 0 && parsed_time->tm_mday <= 99 &&
                  parsed_time->tm_hour >= 0 && parsed_time->tm_hour <= 99 && parsed_time->tm_min >= 0 && parsed_time->tm_min <= 99 &&
                  parsed_time->tm_sec >= 0 && parsed_time->tm_sec <= 99)
__CPROVER_ensures(RET ==> *seconds_offset >= -(99 * 3600 + 99 * 60) && *seconds_offset <= 99 * 3600 + 99 * 60)
/* date only: no offset */
__CPROVER_ensures(RET && str.len == 8 ==> *seconds_offset == 0 && parsed_time->tm_hour == 0 && parsed_time->tm_min == 0 && parsed_time->tm_sec == 0)
;

/* ASSUMED (libc): strlen of a string that has its NUL within the first 6 bytes - exact.  (CBMC's library model of strlen
 * fails its own DFCC frame check "len is assignable" when it is called from a function under contract.) */
size_t dt_strlen6(const char *s)
__CPROVER_requires(__CPROVER_r_ok(s, 6) && s[5] == 0)
__CPROVER_assigns()
__CPROVER_ensures(RET == (s[0] == 0 ? 0 : s[1] == 0 ? 1 : s[2] == 0 ? 2 : s[3] == 0 ? 3 : s[4] == 0 ? 4 : 5))
;

/* ------------------------------------------------------------------ RFC 822
 * the caller has zeroed *dt (in particular the 6 bytes of dt->tz); at most tz[0..4] are written, tz[5] stays 0 */
#define DT_TZ_ZERO(dt) ((dt)->tz[0] == 0 && (dt)->tz[1] == 0 && (dt)->tz[2] == 0 && (dt)->tz[3] == 0 && (dt)->tz[4] == 0 && (dt)->tz[5] == 0)
static bool s_parse_rfc_822(const struct aws_byte_cursor *date_str_cursor, struct tm *parsed_time, struct aws_date_time *dt)
__CPROVER_requires(CUR_OK(date_str_cursor))
__CPROVER_requires(__CPROVER_is_fresh(parsed_time, sizeof(*parsed_time)))
__CPROVER_requires(__CPROVER_is_fresh(dt, sizeof(*dt)))
__CPROVER_requires(DT_TZ_ZERO(dt))
__CPROVER_requires(DT_STATICS_OK)
__CPROVER_assigns(*parsed_time, __CPROVER_object_upto(dt->tz, 5), dt->utc_assumed)
__CPROVER_assigns(DT_STATICS)
__CPROVER_ensures(dt->tz[5] == 0 && DT_STATICS_OK)
__CPROVER_ensures(RET ==> parsed_time->tm_mon >= 0 && parsed_time->tm_mon <= 11)
__CPROVER_ensures(RET && dt->tz[0] != 0 ==> dt->utc_assumed)
/* field widths alone force at least 17 bytes ("d Mon yy hh:mm:ss " is 18) */
__CPROVER_ensures(RET ==> date_str_cursor->len >= 17)
/* an accepted numeric zone has the form +HHMM / -HHMM with nothing behind it */
__CPROVER_ensures(RET && (dt->tz[0] == '+' || dt->tz[0] == '-') ==> dt->tz[1] != 0 && dt->tz[2] != 0 && dt->tz[3] != 0 && dt->tz[4] != 0)
;


/* ------------------------------------------------------------------ ASSUMED: the calendar functions of libc behind
 * source/posix/time.c (timegm, localtime_r, gmtime_r): arbitrary result, only the tm they are given is written
 * (timegm normalises its argument); mktime is CBMC's library model.  Their arithmetic is outside C04. */
time_t aws_timegm(struct tm *const t)
__CPROVER_requires(__CPROVER_rw_ok(t, sizeof(*t)))
__CPROVER_assigns(*t)
__CPROVER_ensures(1)
;
void aws_localtime(time_t time, struct tm *t)
__CPROVER_requires(__CPROVER_w_ok(t, sizeof(*t)))
__CPROVER_assigns(*t)
__CPROVER_ensures(1)
;
void aws_gmtime(time_t time, struct tm *t)
__CPROVER_requires(__CPROVER_w_ok(t, sizeof(*t)))
__CPROVER_assigns(*t)
__CPROVER_ensures(1)
;

/* ------------------------------------------------------------------ the public entry point
 * More than AWS_DATE_TIME_STR_MAX_LEN bytes: refused before a byte (or *dt) is touched - the view may then be unbacked.
 * ASSUMED: strtol on a 2-digit NUL-terminated local string is CBMC's library model; aws_timegm / mktime / aws_gmtime /
 * aws_localtime have no body here (arbitrary result, out-parameter left alone): "up to the libc calls". */
int aws_date_time_init_from_str_cursor(struct aws_date_time *dt, const struct aws_byte_cursor *date_str_cursor, enum aws_date_format fmt)
__CPROVER_requires(__CPROVER_is_fresh(dt, sizeof(*dt)))
__CPROVER_requires(__CPROVER_is_fresh(date_str_cursor, sizeof(*date_str_cursor)))
__CPROVER_requires(date_str_cursor->len > AWS_DATE_TIME_STR_MAX_LEN || CUR_FIELDS_OK(date_str_cursor))
__CPROVER_requires(DT_STATICS_OK)
__CPROVER_assigns(g_last_error, g_raise_count)
__CPROVER_assigns(date_str_cursor->len <= AWS_DATE_TIME_STR_MAX_LEN : *dt, DT_STATICS)
__CPROVER_ensures((RET == AWS_OP_SUCCESS || RET == AWS_OP_ERR) && DT_STATICS_OK)
__CPROVER_ensures(RET == AWS_OP_ERR ? g_raise_count == OLD(g_raise_count) + 1 : g_raise_count == OLD(g_raise_count))
__CPROVER_ensures(date_str_cursor->len > AWS_DATE_TIME_STR_MAX_LEN ==> RET == AWS_OP_ERR && g_last_error == AWS_ERROR_OVERFLOW_DETECTED)
__CPROVER_ensures(date_str_cursor->len <= AWS_DATE_TIME_STR_MAX_LEN && RET == AWS_OP_ERR ==> g_last_error == AWS_ERROR_INVALID_DATE_STR)
__CPROVER_ensures(date_str_cursor->len <= AWS_DATE_TIME_STR_MAX_LEN ==> dt->tz[5] == 0)
__CPROVER_ensures(RET == AWS_OP_SUCCESS ==> dt->milliseconds == 0 && date_str_cursor->len >= 8)
/* the format selector is obeyed: ISO text is not accepted under RFC822 and vice versa (first byte of an ISO date is a digit,
 * an accepted RFC 822 text has a zone or at least the trailing blank => longer than 8) */
__CPROVER_ensures(RET == AWS_OP_SUCCESS && (fmt == AWS_DATE_FORMAT_ISO_8601 || fmt == AWS_DATE_FORMAT_ISO_8601_BASIC) ==> dt->utc_assumed && dt->tz[0] == 0)
__CPROVER_ensures(fmt != AWS_DATE_FORMAT_ISO_8601 && fmt != AWS_DATE_FORMAT_ISO_8601_BASIC && fmt != AWS_DATE_FORMAT_RFC822 &&
                  fmt != AWS_DATE_FORMAT_AUTO_DETECT && date_str_cursor->len <= AWS_DATE_TIME_STR_MAX_LEN ==> RET == AWS_OP_ERR)
;


#endif
