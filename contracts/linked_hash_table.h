/* Specification of source/linked_hash_table.c and of the caches built on it (source/cache.c, fifo_cache.c, lifo_cache.c,
 * lru_cache.c) for property C18: "linked hash table keeps insertion order; caches evict by their stated policy".
 *
 * Shape of the argument (refinement against a reference ordered map, DESIGN §4.4 / §4.5):
 *
 *   reference state  struct lht_abs : a sequence of entries (node, key, value) in iteration order = insertion order, of
 *                    ARBITRARY length.  Only a WINDOW of LHT_K slots is materialised, in list order; every slot may be
 *                    absent; after a present slot there may be a GAP: one or more hidden entries, of which only the total
 *                    number (`hidden`, any size_t) is known.  A unit fixes which slot carries the entry the operation
 *                    works on (the entry matching the operation key; the front / back a cache evicts or uses) and leaves
 *                    the other slots arbitrary, so that entry may be the front, the back, the only one, next to either end
 *                    or far from both.  The only thing demanded of the window is that the neighbours of an entry the
 *                    operation UNLINKS are visible (no gap next to it): a choice of window, not a restriction of states.
 *   concrete state   the real struct aws_linked_hash_table, real heap nodes (one malloc block each, so every aliasing
 *                    pattern front/back/match/neighbour/sentinel occurs), the real intrusive list links.
 *   hash table       used ONLY through the client view below (aws_hash_table_* bodies): a reference map from keys (compared
 *                    by the user's equality) to `struct aws_hash_element` cells, with an entry count.  It is an ASSUMED
 *                    model of source/hash_table.c; that the real table behaves like this map (find/create/remove/clear,
 *                    destroy callbacks exactly once per removed entry - key first, then value -, count) is what property
 *                    C02 discharges (bounded).  The model CALLS the registered destroy callbacks (the real
 *                    s_element_destroy of linked_hash_table.c, the user's key destructor), so what remove / clear do to the
 *                    list is computed by the real code, not assumed.  (That is why the hash table is a model with bodies and
 *                    not a set of replaced contracts: a contract cannot invoke a callback.)
 *   coupling         lht_check(): the concrete list links, node fields, hash view and count are exactly the reference state.
 *
 * A unit builds an arbitrary reference state + the matching concrete state (lht_build), runs the REAL function under a
 * DFCC contract whose assigns/frees clauses are the frame ("nothing else changed", incl. every hidden neighbour: their
 * stand-ins are in no assigns clause), applies the reference operation (lht_abs_*) and checks the coupling against the
 * expected reference state.  As the coupling is re-established by every operation, the statement holds after every history
 * of operations (induction over the history).
 *
 * Keys: NULL or a pointer to a record {id}; equal = same id (NULL only equals NULL).  Identities are canonical (slot i has
 * identity i, a key that is not in the table identity LHT_K) because only equality matters; every identity has two records
 * (equal by comparison, distinct as pointers).  Values: opaque pointers.  Destructors: NULL or a counting callback.
 */
#ifndef VERIF_CONTRACTS_LINKED_HASH_TABLE_H
#define VERIF_CONTRACTS_LINKED_HASH_TABLE_H
#include "contracts/common.h"
#include <aws/common/cache.h>
#include <aws/common/hash_table.h>
#include <aws/common/linked_hash_table.h>
#include <aws/common/linked_list.h>
#include <stdlib.h>

#ifndef LHT_K
#    define LHT_K 6 /* slots of the pre-state window */
#endif
#define LHT_S (LHT_K + 1) /* + slot LHT_K: the entry a put adds / an entry moved to the back */
#define LHT_NEW LHT_K
#define LHT_NV (LHT_K + 2)
#define LHT_NONE SIZE_MAX

/* ------------------------------------------------------------------ keys and values
 * Identities are canonical (only equality matters): the entry in slot i has identity i, a key that is not in the table
 * has identity LHT_K.  Every identity has two records (equal by comparison, distinct as pointers).  NULL is a key of its
 * own (equal only to NULL).  Canonical identities let symbolic execution resolve the hash view's lookups; which of the
 * two records (or NULL) is stored / passed stays arbitrary. */
struct lht_key {
    uint64_t id;
};
struct lht_key g_kp[2 * (LHT_K + 1)];
char g_vp[LHT_NV];

static bool lht_keq(const void *a, const void *b) {
    if (a == NULL) return b == NULL;
    if (b == NULL) return false;
    return ((const struct lht_key *)a)->id == ((const struct lht_key *)b)->id;
}
/* the two records of identity `id`: LHT_KEY(id) is the one a slot stores, LHT_KEY_TWIN(id) is equal by comparison but a
 * different pointer (by symmetry it does not matter which of the two is stored).  Key pointers are kept concrete so that
 * symbolic execution resolves the lookups of the hash view; a unit that wants "same pointer or twin" makes the call in
 * both branches of a nondeterministic choice (LHT_EITHER). */
#define LHT_KEY(id) ((const void *)&g_kp[2 * (id)])
#define LHT_KEY_TWIN(id) ((const void *)&g_kp[2 * (id) + 1])
#define LHT_EITHER(var, a, b, stmt) do { if (nondet_bool()) { var = (a); stmt; } else { var = (b); stmt; } } while (0)
static void *lht_any_value(void) {
    size_t i = nondet_size_t();
    __CPROVER_assume(i <= LHT_NV);
    return i == LHT_NV ? NULL : (void *)&g_vp[i];
}

/* ------------------------------------------------------------------ reference ordered map (window form)
 * Entries in iteration order = slot order; slot i may be absent.  gap[i]: hidden entries follow the (present) entry of
 * slot i, before the next present slot.  Slot LHT_NEW is empty before a call. */
struct lht_abs {
    bool present[LHT_S];
    struct aws_linked_hash_table_node *node[LHT_S]; /* the heap node that carries the entry      */
    const void *key[LHT_S];                         /* stored key pointer                        */
    void *val[LHT_S];                               /* stored value                              */
    size_t cell[LHT_S];                             /* cell of the hash view that holds the entry */
    bool gap[LHT_S];
    size_t hidden; /* number of hidden entries (>= number of gaps; 0 without gaps) */
};
struct lht_abs g_a; /* reference state before the call */
struct lht_abs g_e; /* expected reference state after the call */

/* ------------------------------------------------------------------ model state written during a call */
struct lht_model {
    /* hash view: cells, which of them hold an entry, entry count (materialised + hidden entries) */
    struct aws_hash_element el[LHT_S];
    bool live[LHT_S];
    size_t count;
    size_t cells;        /* clear visits cells 0..cells-1 (constant per unit) ...   */
    size_t order[LHT_S]; /* ... in this order (arbitrary permutation)               */
    /* what aws_hash_table_init was told */
    bool ht_inited;
    aws_hash_callback_destroy_fn *ht_dk;
    aws_hash_callback_destroy_fn *ht_dv;
    aws_hash_fn *ht_hash;
    aws_hash_callback_eq_fn *ht_eq;
    size_t ht_size;
    bool ht_cleaned;
    /* may the next create / init fail?  (arbitrary: the real table fails on allocation-size overflow) */
    bool create_fails;
    bool init_fails;
    /* call accounting: user value destructor, user key destructor, allocator */
    size_t dv_calls, dv_hits, dk_calls, dk_hits, rel_calls, rel_hits, calloc_calls;
    const void *dv_last, *dk_last, *rel_last, *calloc_last;
    const void *dv_watch, *dk_watch, *rel_watch;
};
struct lht_model g_m;

struct aws_linked_hash_table *g_T; /* the table under proof (for the caches: &cache->table) */
struct aws_allocator g_lht_allocator;
/* stand-ins for the hidden neighbours at gaps: g_hidn[i] follows slot i (when gap[i]), g_hidp[i] precedes slot i (when the
 * present slot before it has a gap); never written (they are in no assigns clause) */
struct aws_linked_list_node g_hidn[LHT_S], g_hidp[LHT_S];
struct aws_linked_hash_table_node *g_M;       /* the node of the entry matching the operation key (NULL: none) */
struct aws_linked_hash_table_node *g_X;       /* a second node an operation may unlink (cache eviction); NULL: none */

/* ------------------------------------------------------------------ user callbacks (counting) */
static void lht_user_dv(void *v) {
    g_m.dv_calls++;
    g_m.dv_last = v;
    if (v == g_m.dv_watch) g_m.dv_hits++;
}
static void lht_user_dk(void *k) {
    g_m.dk_calls++;
    g_m.dk_last = k;
    if (k == g_m.dk_watch) g_m.dk_hits++;
}
static uint64_t lht_user_hash(const void *k) {
    return k ? ((const struct lht_key *)k)->id : 0;
}
static bool lht_user_eq(const void *a, const void *b) {
    return lht_keq(a, b);
}

/* ------------------------------------------------------------------ allocator entry points (models of the contracts
 * proved in C01: aws_mem_calloc never returns NULL and hands out a fresh zeroed block; aws_mem_release frees) */
void *aws_mem_calloc(struct aws_allocator *allocator, size_t num, size_t size) {
    __CPROVER_assert(allocator == &g_lht_allocator, "allocation goes to the table's allocator");
    __CPROVER_assert(num > 0 && size > 0, "allocation request is not empty");
    /* the table allocates nodes only: a typed block keeps the node's fields as fields in the verifier's memory model */
    __CPROVER_assert(num == 1 && size == sizeof(struct aws_linked_hash_table_node) || size == sizeof(struct aws_cache),
                     "model: allocation is one list node (or one cache)");
    void *p = size == sizeof(struct aws_cache) ? calloc(1, sizeof(struct aws_cache)) : calloc(1, sizeof(struct aws_linked_hash_table_node));
    __CPROVER_assume(p != NULL);
    g_m.calloc_calls++;
    g_m.calloc_last = p;
    return p;
}
void aws_mem_release(struct aws_allocator *allocator, void *ptr) {
    __CPROVER_assert(allocator == &g_lht_allocator, "release goes to the table's allocator");
    g_m.rel_calls++;
    g_m.rel_last = ptr;
    if (ptr == g_m.rel_watch) g_m.rel_hits++;
    free(ptr);
}

/* ------------------------------------------------------------------ hash table, client view (ASSUMED; see C02) */
static void s_element_destroy(void *value); /* linked_hash_table.c: the value destructor the table registers */

/* the callbacks the table was initialised with, dispatched by name (keeps function-pointer removal from offering every
 * void(void*) function, including s_element_destroy itself, as a candidate) */
static void lht_call_dk(void *k) {
    if (g_m.ht_dk == lht_user_dk) lht_user_dk(k);
    else __CPROVER_assert(g_m.ht_dk == NULL, "model: the registered key destructor is the user's or none");
}
static void lht_call_dv(void *v) {
    if (g_m.ht_dv == s_element_destroy) s_element_destroy(v);
    else if (g_m.ht_dv == lht_user_dv) lht_user_dv(v);
    else __CPROVER_assert(g_m.ht_dv == NULL, "model: the registered value destructor is s_element_destroy, the user's or none");
}

static size_t lht_hash_lookup(const void *key) {
    for (size_t s = 0; s < LHT_S; s++)
        if (g_m.live[s] && lht_keq(g_m.el[s].key, key)) return s;
    return LHT_NONE;
}
/* the cell a create will use: the highest free one (cell LHT_NEW is free before every call) */
static size_t lht_hash_free_cell(void) {
    for (size_t s = LHT_S; s > 0; s--)
        if (!g_m.live[s - 1]) return s - 1;
    return LHT_NONE;
}

int aws_hash_table_init(
    struct aws_hash_table *map,
    struct aws_allocator *alloc,
    size_t size,
    aws_hash_fn *hash_fn,
    aws_hash_callback_eq_fn *equals_fn,
    aws_hash_callback_destroy_fn *destroy_key_fn,
    aws_hash_callback_destroy_fn *destroy_value_fn) {
    if (g_T == NULL) g_T = AWS_CONTAINER_OF(map, struct aws_linked_hash_table, table); /* constructor units: the table is allocated inside the call */
    __CPROVER_assert(map == &g_T->table, "hash view: the table's own map is initialised");
    __CPROVER_assert(alloc == &g_lht_allocator, "hash view: initialised with the table's allocator");
    __CPROVER_assert(hash_fn != NULL && equals_fn != NULL, "hash view: hash and equality functions are given");
    if (g_m.init_fails) return AWS_OP_ERR;
    g_m.ht_inited = true;
    g_m.ht_dk = destroy_key_fn;
    g_m.ht_dv = destroy_value_fn;
    g_m.ht_hash = hash_fn;
    g_m.ht_eq = equals_fn;
    g_m.ht_size = size;
    g_m.count = 0;
    for (size_t s = 0; s < LHT_S; s++) g_m.live[s] = false;
    map->p_impl = (struct hash_table_state *)(void *)&g_m;
    return AWS_OP_SUCCESS;
}

int aws_hash_table_find(const struct aws_hash_table *map, const void *key, struct aws_hash_element **p_elem) {
    __CPROVER_assert(map == &g_T->table, "hash view: lookup in the table's own map");
    size_t s = lht_hash_lookup(key);
    *p_elem = (s == LHT_NONE) ? NULL : &g_m.el[s];
    return AWS_OP_SUCCESS;
}

int aws_hash_table_create(struct aws_hash_table *map, const void *key, struct aws_hash_element **p_elem, int *was_created) {
    __CPROVER_assert(map == &g_T->table, "hash view: create in the table's own map");
    size_t s = lht_hash_lookup(key);
    if (s != LHT_NONE) {
        if (p_elem) *p_elem = &g_m.el[s];
        if (was_created) *was_created = 0;
        return AWS_OP_SUCCESS;
    }
    if (g_m.create_fails) return AWS_OP_ERR; /* nothing changed */
    s = lht_hash_free_cell();
    __CPROVER_assert(s != LHT_NONE, "model: a free cell exists (the window holds at most LHT_K entries before the call)");
    g_m.live[s] = true;
    g_m.el[s].key = key;
    g_m.el[s].value = NULL;
    g_m.count++;
    if (p_elem) *p_elem = &g_m.el[s];
    if (was_created) *was_created = 1;
    return AWS_OP_SUCCESS;
}

int aws_hash_table_remove(const struct aws_hash_table *map_c, const void *key, struct aws_hash_element *p_value, int *was_present) {
    __CPROVER_assert(map_c == &g_T->table, "hash view: remove from the table's own map");
    size_t s = lht_hash_lookup(key);
    if (was_present) *was_present = (s != LHT_NONE);
    if (s == LHT_NONE) return AWS_OP_SUCCESS;
    struct aws_hash_element old = g_m.el[s];
    g_m.live[s] = false;
    g_m.count--;
    if (p_value) {
        *p_value = old;
    } else {
        lht_call_dk((void *)old.key);
        lht_call_dv(old.value);
    }
    return AWS_OP_SUCCESS;
}

/* clear visits cells 0..cells-1 in the order g_m.order[], which is unrelated to the list order.  The nest enumerates
 * the permutations so that every visit is of a concrete cell (cells <= 4). */
static void lht_hash_visit(size_t s) {
    if (g_m.live[s]) {
        struct aws_hash_element old = g_m.el[s];
        g_m.live[s] = false;
        lht_call_dk((void *)old.key);
        lht_call_dv(old.value);
    }
}
void aws_hash_table_clear(struct aws_hash_table *map) {
    __CPROVER_assert(map == &g_T->table, "hash view: the table's own map is cleared");
    __CPROVER_assert(g_m.count <= g_m.cells && g_m.cells <= 4, "model: clear is only modelled for a fully materialised table of at most 4 entries");
    size_t N = g_m.cells;
    for (size_t a = 0; a < LHT_S; a++) {
        if (a < N && g_m.order[0] == a) {
            lht_hash_visit(a);
            for (size_t b = 0; b < LHT_S; b++) {
                if (b < N && b != a && g_m.order[1] == b) {
                    lht_hash_visit(b);
                    for (size_t c = 0; c < LHT_S; c++) {
                        if (c < N && c != a && c != b && g_m.order[2] == c) {
                            lht_hash_visit(c);
                            for (size_t d = 0; d < LHT_S; d++)
                                if (d < N && d != a && d != b && d != c && g_m.order[3] == d) lht_hash_visit(d);
                        }
                    }
                }
            }
        }
    }
    g_m.count = 0;
}
void aws_hash_table_clean_up(struct aws_hash_table *map) {
    aws_hash_table_clear(map);
    g_m.ht_cleaned = true;
    map->p_impl = NULL;
}
size_t aws_hash_table_get_entry_count(const struct aws_hash_table *map) {
    __CPROVER_assert(map == &g_T->table, "hash view: count of the table's own map");
    return g_m.count;
}

/* ------------------------------------------------------------------ reference operations */
static size_t lht_abs_find(const struct lht_abs *a, const void *key) {
    for (size_t i = 0; i < LHT_S; i++)
        if (a->present[i] && lht_keq(a->key[i], key)) return i;
    return LHT_NONE;
}
static size_t lht_abs_pred(const struct lht_abs *a, size_t i) {
    size_t p = LHT_NONE;
    for (size_t j = 0; j < LHT_S; j++)
        if (j < i && a->present[j]) p = j;
    return p;
}
static size_t lht_abs_succ(const struct lht_abs *a, size_t i) {
    size_t q = LHT_NONE;
    for (size_t j = LHT_S; j > 0; j--)
        if (j - 1 > i && a->present[j - 1]) q = j - 1;
    return q;
}
static size_t lht_abs_first(const struct lht_abs *a) {
    size_t q = LHT_NONE;
    for (size_t j = LHT_S; j > 0; j--)
        if (a->present[j - 1]) q = j - 1;
    return q;
}
static size_t lht_abs_last(const struct lht_abs *a) {
    return lht_abs_pred(a, LHT_S);
}
/* both list neighbours of the entry in slot i are materialised (or are the sentinels) */
static bool lht_abs_visible(const struct lht_abs *a, size_t i) {
    size_t p = lht_abs_pred(a, i);
    return a->present[i] && !a->gap[i] && (p == LHT_NONE || !a->gap[p]);
}
static size_t lht_abs_size(const struct lht_abs *a) {
    size_t n = 0;
    for (size_t j = 0; j < LHT_S; j++)
        if (a->present[j]) n++;
    return n + a->hidden;
}
/* reference remove: the entry of slot i leaves the sequence (its neighbours are visible, so they become adjacent) */
static void lht_abs_remove_at(struct lht_abs *e, size_t i) {
    e->present[i] = false;
    e->gap[i] = false;
}
/* reference append: a new last entry (slot LHT_NEW, free before the call) */
static void lht_abs_append(struct lht_abs *e, struct aws_linked_hash_table_node *node, const void *key, void *val, size_t cell) {
    e->present[LHT_NEW] = true;
    e->node[LHT_NEW] = node;
    e->key[LHT_NEW] = key;
    e->val[LHT_NEW] = val;
    e->cell[LHT_NEW] = cell;
    e->gap[LHT_NEW] = false;
}
/* reference move-to-back: same node, key, value and cell, now the last entry */
static void lht_abs_move_to_back(struct lht_abs *e, size_t i) {
    lht_abs_append(e, e->node[i], e->key[i], e->val[i], e->cell[i]);
    lht_abs_remove_at(e, i);
}

/* ------------------------------------------------------------------ an arbitrary valid state */
static void lht_model_reset(void) {
    GHOST_RESET_COMMON();
    g_m.dv_calls = g_m.dv_hits = g_m.dk_calls = g_m.dk_hits = g_m.rel_calls = g_m.rel_hits = g_m.calloc_calls = 0;
    g_m.dv_last = g_m.dk_last = g_m.rel_last = g_m.calloc_last = NULL;
    g_m.dv_watch = g_m.dk_watch = g_m.rel_watch = &g_m; /* never a key, value or node: nothing watched */
    g_m.ht_cleaned = false;
    g_m.cells = 0;
    g_m.create_fails = nondet_bool();
    g_m.init_fails = nondet_bool();
    for (size_t i = 0; i < 2 * (LHT_K + 1); i++) g_kp[i].id = i / 2;
    g_M = NULL;
    g_X = NULL;
}

/* Fills *T, g_a and the hash view with an arbitrary state that satisfies the coupling.
 *   must : bit i set -> slot i holds an entry          may : bit i set -> slot i holds an entry or not (arbitrary)
 *   null_slot : the slot whose stored key is NULL (LHT_NONE: no stored NULL key)
 * Choosing which slots MUST be present is a choice of window, not of state: e.g. "slot 2 holds the entry that matches
 * the operation key, slots 0,1 / 3,4.. whatever precedes / follows it" describes every list in which the key is present. */
static void lht_build(struct aws_linked_hash_table *T, unsigned must, unsigned may, size_t null_slot) {
    lht_model_reset();
    g_T = T;
    T->allocator = &g_lht_allocator;
    T->user_on_value_destroy = nondet_bool() ? lht_user_dv : NULL;
    T->user_on_key_destroy = nondet_bool() ? lht_user_dk : NULL;
    T->table.p_impl = (struct hash_table_state *)(void *)&g_m;
    g_m.ht_inited = true;
    g_m.ht_dk = T->user_on_key_destroy;
    g_m.ht_dv = s_element_destroy;
    g_m.ht_hash = lht_user_hash;
    g_m.ht_eq = lht_user_eq;

    for (size_t i = 0; i < LHT_S; i++) {
        bool pr = i < LHT_K && (((must >> i) & 1u) ? true : (((may >> i) & 1u) ? nondet_bool() : false));
        struct aws_linked_hash_table_node *nd = NULL;
        if (i < LHT_K && (((must | may) >> i) & 1u)) {
            nd = malloc(sizeof(*nd));
            __CPROVER_assume(nd != NULL);
        }
        g_a.present[i] = pr;
        g_a.node[i] = nd;
        g_a.key[i] = (i == null_slot) ? NULL : LHT_KEY(i);
        g_a.val[i] = lht_any_value();
        g_a.cell[i] = i;
        g_a.gap[i] = false;
    }
    size_t gaps = 0;
    for (size_t i = 0; i < LHT_K; i++) {
        if (g_a.present[i] && lht_abs_succ(&g_a, i) != LHT_NONE && nondet_bool()) {
            g_a.gap[i] = true;
            gaps++;
        }
    }
    g_a.hidden = nondet_size_t();
    __CPROVER_assume(g_a.hidden >= gaps && (gaps > 0 || g_a.hidden == 0) && g_a.hidden <= SIZE_MAX - 4 * LHT_S);

    /* concrete list */
    size_t first = lht_abs_first(&g_a), last = lht_abs_last(&g_a);
    T->list.head.prev = NULL;
    T->list.tail.next = NULL;
    T->list.head.next = first != LHT_NONE ? &g_a.node[first]->node : &T->list.tail;
    T->list.tail.prev = last != LHT_NONE ? &g_a.node[last]->node : &T->list.head;
    for (size_t i = 0; i < LHT_K; i++) {
        if (g_a.present[i]) {
            struct aws_linked_hash_table_node *nd = g_a.node[i];
            size_t p = lht_abs_pred(&g_a, i), q = lht_abs_succ(&g_a, i);
            nd->table = T;
            nd->key = g_a.key[i];
            nd->value = g_a.val[i];
            nd->node.prev = p == LHT_NONE ? &T->list.head : (g_a.gap[p] ? &g_hidp[i] : &g_a.node[p]->node);
            nd->node.next = q == LHT_NONE ? &T->list.tail : (g_a.gap[i] ? &g_hidn[i] : &g_a.node[q]->node);
        }
    }
    /* hash view */
    for (size_t s = 0; s < LHT_S; s++) {
        g_m.live[s] = g_a.present[s];
        g_m.el[s].key = g_a.key[s];
        g_m.el[s].value = g_a.node[s];
    }
    size_t n = 0;
    for (size_t j = 0; j < LHT_S; j++)
        if (g_a.present[j]) n++;
    g_m.count = n + g_a.hidden;
    g_e = g_a;
}
/* units that clear: the whole table is the slots 0..cells-1 (no hidden entries), destroyed in an arbitrary order */
static void lht_clear_order(size_t cells) {
    g_m.cells = cells;
    for (size_t i = 0; i < LHT_S; i++) {
        g_m.order[i] = nondet_size_t();
        __CPROVER_assume(g_m.order[i] < LHT_S);
    }
    for (size_t i = 0; i < LHT_S; i++)
        for (size_t j = i + 1; j < LHT_S; j++) __CPROVER_assume(g_m.order[i] != g_m.order[j]);
    for (size_t i = 0; i < LHT_S; i++) __CPROVER_assume(!(i < cells) || g_m.order[i] < cells);
}

/* ------------------------------------------------------------------ coupling: concrete state == reference state */
/* list part: the links from head to tail run through exactly the entries of *e in order (gaps: hidden neighbours as before) */
static void lht_check_list(const struct lht_abs *e) {
    const struct aws_linked_hash_table *T = g_T;
    size_t first = lht_abs_first(e), last = lht_abs_last(e);
    bool links = T->list.head.prev == NULL && T->list.tail.next == NULL;
    bool fields = true;
    links = links && T->list.head.next == (first != LHT_NONE ? &e->node[first]->node : (struct aws_linked_list_node *)&T->list.tail);
    links = links && T->list.tail.prev == (last != LHT_NONE ? &e->node[last]->node : (struct aws_linked_list_node *)&T->list.head);
    for (size_t i = 0; i < LHT_S; i++) {
        if (e->present[i]) {
            const struct aws_linked_hash_table_node *nd = e->node[i];
            size_t p = lht_abs_pred(e, i), q = lht_abs_succ(e, i);
            const struct aws_linked_list_node *xp =
                p == LHT_NONE ? &T->list.head : (e->gap[p] ? &g_hidp[i] : &e->node[p]->node);
            const struct aws_linked_list_node *xn =
                q == LHT_NONE ? &T->list.tail : (e->gap[i] ? &g_hidn[i] : &e->node[q]->node);
            links = links && nd->node.prev == xp && nd->node.next == xn;
            fields = fields && nd->table == T && nd->key == e->key[i] && nd->value == e->val[i];
        }
    }
    __CPROVER_assert(links, "iteration order: list links run through exactly the reference entries, in reference order");
    __CPROVER_assert(fields, "entries: every node carries the reference key, value and table");
}
/* hash part: every reference entry is found under its key and leads to its node; nothing else is stored; count */
static void lht_check_hash(const struct lht_abs *e) {
    bool maps = true;
    size_t live = 0, n = 0;
    for (size_t s = 0; s < LHT_S; s++)
        if (g_m.live[s]) live++;
    for (size_t i = 0; i < LHT_S; i++) {
        if (e->present[i]) {
            size_t s = e->cell[i];
            n++;
            maps = maps && s < LHT_S && g_m.live[s] && g_m.el[s].key == e->key[i] && g_m.el[s].value == (void *)e->node[i];
        }
    }
    __CPROVER_assert(maps, "lookup: every reference key maps to its own node, stored under the reference key pointer");
    __CPROVER_assert(live == n, "lookup: the hash view holds no entry besides the reference entries");
    __CPROVER_assert(g_m.count == n + e->hidden, "count: entry count equals the size of the reference map");
}
static void lht_check(const struct lht_abs *e) {
    lht_check_list(e);
    lht_check_hash(e);
    __CPROVER_assert(
        g_T->allocator == &g_lht_allocator && g_T->table.p_impl == (struct hash_table_state *)(void *)&g_m &&
            g_m.ht_dv == s_element_destroy && g_m.ht_dk == g_T->user_on_key_destroy,
        "table header: allocator, map and registered destructors unchanged");
}

/* ghost state every function under contract may write (the models write it) */
#define LHT_GHOST_FRAME g_m

/* ------------------------------------------------------------------ contracts: source/linked_hash_table.c
 * requires: the arguments are the ones the unit prepared (the state itself is built by lht_build and satisfies the
 *           coupling by construction; the unit asserts that before the call).
 * assigns / frees: the frame.  Everything else (every other node, every hidden neighbour, the table header, the
 *           reference state) must stay untouched.
 * ensures: return value; the full post-state is compared with the reference state by lht_check() in the unit. */

#define LHT_UNLINK_FRAME(nd) __CPROVER_object_whole(nd), (nd)->node.prev->next, (nd)->node.next->prev
#define LHT_PUSH_BACK_FRAME g_T->list.tail.prev, g_T->list.tail.prev->next

/* value destructor registered with the hash table: user's value destructor once, unlink, release once */
static void s_element_destroy(void *value)
__CPROVER_requires(value == (void *)g_M && g_M != NULL)
__CPROVER_assigns(LHT_GHOST_FRAME, LHT_UNLINK_FRAME(g_M))
__CPROVER_frees(g_M)
__CPROVER_ensures(g_m.rel_calls == __CPROVER_old(g_m.rel_calls) + 1 && g_m.rel_last == (const void *)g_M)
;

/* g_M: node of the entry whose key equals `key` (NULL: none).  Fails exactly when the key is new and the hash table
 * cannot create the entry; then nothing but the ghost accounting changes. */
int aws_linked_hash_table_put(struct aws_linked_hash_table *table, const void *key, void *p_value)
__CPROVER_requires(table == g_T)
__CPROVER_assigns(LHT_GHOST_FRAME)
__CPROVER_assigns(g_M != NULL || !g_m.create_fails : LHT_PUSH_BACK_FRAME)
__CPROVER_assigns(g_M != NULL : LHT_UNLINK_FRAME(g_M))
__CPROVER_frees(g_M != NULL : g_M)
__CPROVER_ensures((__CPROVER_return_value == AWS_OP_SUCCESS) == (g_M != NULL || !g_m.create_fails))
__CPROVER_ensures(__CPROVER_return_value == AWS_OP_SUCCESS || __CPROVER_return_value == AWS_OP_ERR)
;

/* pure lookup: only *p_value is written */
int aws_linked_hash_table_find(struct aws_linked_hash_table *table, const void *key, void **p_value)
__CPROVER_requires(table == g_T && p_value != NULL)
__CPROVER_assigns(*p_value)
__CPROVER_ensures(__CPROVER_return_value == AWS_OP_SUCCESS)
__CPROVER_ensures(*p_value == (g_M != NULL ? g_M->value : NULL))
;

/* lookup that moves the entry found to the back; nothing is written when the key is absent */
int aws_linked_hash_table_find_and_move_to_back(struct aws_linked_hash_table *table, const void *key, void **p_value)
__CPROVER_requires(table == g_T && p_value != NULL)
__CPROVER_assigns(*p_value)
__CPROVER_assigns(g_M != NULL : g_M->node, g_M->node.prev->next, g_M->node.next->prev, LHT_PUSH_BACK_FRAME)
__CPROVER_ensures(__CPROVER_return_value == AWS_OP_SUCCESS)
__CPROVER_ensures(*p_value == (g_M != NULL ? g_M->value : NULL))
;

void aws_linked_hash_table_move_node_to_end_of_list(struct aws_linked_hash_table *table, struct aws_linked_hash_table_node *node)
__CPROVER_requires(table == g_T && node == g_M && g_M != NULL)
__CPROVER_assigns(g_M->node, g_M->node.prev->next, g_M->node.next->prev, LHT_PUSH_BACK_FRAME)
__CPROVER_ensures(g_T->list.tail.prev == &g_M->node)
;

int aws_linked_hash_table_remove(struct aws_linked_hash_table *table, const void *key)
__CPROVER_requires(table == g_T)
__CPROVER_assigns(LHT_GHOST_FRAME)
__CPROVER_assigns(g_M != NULL : LHT_UNLINK_FRAME(g_M))
__CPROVER_frees(g_M != NULL : g_M)
__CPROVER_ensures(__CPROVER_return_value == AWS_OP_SUCCESS)
;

size_t aws_linked_hash_table_get_element_count(const struct aws_linked_hash_table *table)
__CPROVER_requires(table == g_T)
__CPROVER_assigns()
__CPROVER_ensures(__CPROVER_return_value == g_m.count)
;

const struct aws_linked_list *aws_linked_hash_table_get_iteration_list(const struct aws_linked_hash_table *table)
__CPROVER_requires(table == g_T)
__CPROVER_assigns()
__CPROVER_ensures(__CPROVER_return_value == &g_T->list)
;

/* init: every field of *table is set; the hash table is told the user's key destructor and s_element_destroy */
int aws_linked_hash_table_init(
    struct aws_linked_hash_table *table,
    struct aws_allocator *allocator,
    aws_hash_fn *hash_fn,
    aws_hash_callback_eq_fn *equals_fn,
    aws_hash_callback_destroy_fn *destroy_key_fn,
    aws_hash_callback_destroy_fn *destroy_value_fn,
    size_t initial_item_count)
__CPROVER_requires(table == g_T && allocator == &g_lht_allocator && hash_fn != NULL && equals_fn != NULL)
__CPROVER_assigns(LHT_GHOST_FRAME, *table)
__CPROVER_ensures((__CPROVER_return_value == AWS_OP_SUCCESS) == !g_m.init_fails)
__CPROVER_ensures(__CPROVER_return_value == AWS_OP_SUCCESS ==>
    table->allocator == allocator && table->user_on_value_destroy == destroy_value_fn && table->user_on_key_destroy == destroy_key_fn &&
    g_m.ht_inited && g_m.ht_dk == destroy_key_fn && g_m.ht_dv == s_element_destroy && g_m.ht_hash == hash_fn && g_m.ht_eq == equals_fn &&
    g_m.ht_size == initial_item_count)
;

/* clear / clean_up: BOUNDED units (the whole list is materialised: no gaps, at most LHT_K entries).  Every node is
 * unlinked and released; clean_up zeroes the table. */
#define LHT_NODE_FRAME(i) __CPROVER_assigns(g_a.present[i] : __CPROVER_object_whole(g_a.node[i])) __CPROVER_frees(g_a.present[i] : g_a.node[i])
#if LHT_K == 6
#    define LHT_ALL_NODES_FRAME LHT_NODE_FRAME(0) LHT_NODE_FRAME(1) LHT_NODE_FRAME(2) LHT_NODE_FRAME(3) LHT_NODE_FRAME(4) LHT_NODE_FRAME(5)
#elif LHT_K == 5
#    define LHT_ALL_NODES_FRAME LHT_NODE_FRAME(0) LHT_NODE_FRAME(1) LHT_NODE_FRAME(2) LHT_NODE_FRAME(3) LHT_NODE_FRAME(4)
#elif LHT_K == 4
#    define LHT_ALL_NODES_FRAME LHT_NODE_FRAME(0) LHT_NODE_FRAME(1) LHT_NODE_FRAME(2) LHT_NODE_FRAME(3)
#elif LHT_K == 3
#    define LHT_ALL_NODES_FRAME LHT_NODE_FRAME(0) LHT_NODE_FRAME(1) LHT_NODE_FRAME(2)
#else
#    error "LHT_ALL_NODES_FRAME: LHT_K must be 3..6"
#endif
void aws_linked_hash_table_clear(struct aws_linked_hash_table *table)
__CPROVER_requires(table == g_T && g_a.hidden == 0)
__CPROVER_assigns(LHT_GHOST_FRAME, g_T->list.head.next, g_T->list.tail.prev)
LHT_ALL_NODES_FRAME
__CPROVER_ensures(g_T->list.head.next == &g_T->list.tail && g_T->list.tail.prev == &g_T->list.head)
;
void aws_linked_hash_table_clean_up(struct aws_linked_hash_table *table)
__CPROVER_requires(table == g_T && g_a.hidden == 0)
__CPROVER_assigns(LHT_GHOST_FRAME, *g_T)
LHT_ALL_NODES_FRAME
__CPROVER_ensures(g_T->allocator == NULL && g_T->user_on_key_destroy == NULL && g_T->user_on_value_destroy == NULL &&
                  g_T->table.p_impl == NULL && g_T->list.head.next == NULL && g_T->list.head.prev == NULL &&
                  g_T->list.tail.next == NULL && g_T->list.tail.prev == NULL)
__CPROVER_ensures(g_m.ht_cleaned)
;

#endif
