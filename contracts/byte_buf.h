/* Function contracts for source/byte_buf.c (property C01; reused by C04, C05, C10, C13).
 * Contracts are re-declarations: the real definition follows when the proof unit includes
 * "source/byte_buf.c".  Postconditions are taken from the property statement:
 *   - only bytes inside capacity / cursor length are touched   -> assigns clauses (frame)
 *   - len <= capacity afterwards, earlier bytes unchanged       -> BUF_SHAPE_KEPT + ghost witness g_k/g_old
 *   - a failing call changes nothing                            -> assigns conditional on the exact success condition
 *   - growing keeps contents, secure variants zero before release
 */
#ifndef VERIF_CONTRACTS_BYTE_BUF_H
#define VERIF_CONTRACTS_BYTE_BUF_H
#include "contracts/common.h"
#include "contracts/allocator.h"

#define RET __CPROVER_return_value
#define OLD __CPROVER_old
/* pointer equality that also gives the pointer a value set when the contract replaces a call */
#define PEQ(p, q) __CPROVER_pointer_equals((p), (q))

/* "byte g_k of the old contents is g_old" / "... is still g_old" */
/* the witness ranges over the whole capacity so that it can be handed on to the re-allocation contracts */
#define REQ_WITNESS_BUF(b) __CPROVER_requires(g_on ==> (g_k < (b)->capacity ==> g_old == (b)->buffer[g_k]))
#define ENS_PREFIX_KEPT(b) __CPROVER_ensures(g_on ==> (g_k < OLD((b)->len) ==> (b)->buffer[g_k] == g_old))

/* byte_order.inl implements the 64-bit swap with inline assembly (`bswap`) on x86-64, which CBMC cannot read:
 * ASSUMED contract (no enforcing unit). */
AWS_STATIC_IMPL uint64_t aws_hton64(uint64_t x)
__CPROVER_requires(1)
__CPROVER_assigns()
__CPROVER_ensures(RET == __builtin_bswap64(x))
;

/* ------------------------------------------------------------------ append family */

#define APPEND_FITS(to, from) ((to)->capacity - (to)->len >= (from)->len)

int aws_byte_buf_append(struct aws_byte_buf *to, const struct aws_byte_cursor *from)
__CPROVER_requires(BUF_OK(to))
__CPROVER_requires(CUR_OK(from))
REQ_WITNESS_BUF(to)
__CPROVER_assigns(APPEND_FITS(to, from) : to->len)
__CPROVER_assigns(APPEND_FITS(to, from) && from->len > 0 : __CPROVER_object_upto(to->buffer + to->len, from->len))
__CPROVER_ensures(RET == AWS_OP_SUCCESS || RET == AWS_OP_ERR)
__CPROVER_ensures((RET == AWS_OP_SUCCESS) == (OLD(to->capacity) - OLD(to->len) >= from->len))
__CPROVER_ensures(RET == AWS_OP_SUCCESS ==> to->len == OLD(to->len) + from->len)
__CPROVER_ensures(RET != AWS_OP_SUCCESS ==> to->len == OLD(to->len))
__CPROVER_ensures(BUF_SHAPE_KEPT(to))
__CPROVER_ensures(g_on && RET == AWS_OP_SUCCESS && g_j < from->len ==> to->buffer[OLD(to->len) + g_j] == from->ptr[g_j])
ENS_PREFIX_KEPT(to)
;

int aws_byte_buf_append_with_lookup(
    struct aws_byte_buf *AWS_RESTRICT to,
    const struct aws_byte_cursor *AWS_RESTRICT from,
    const uint8_t *lookup_table)
__CPROVER_requires(BUF_OK(to))
__CPROVER_requires(CUR_OK(from))
__CPROVER_requires(__CPROVER_is_fresh(lookup_table, 256))
REQ_WITNESS_BUF(to)
__CPROVER_assigns(APPEND_FITS(to, from) : to->len)
__CPROVER_assigns(APPEND_FITS(to, from) && from->len > 0 : __CPROVER_object_upto(to->buffer + to->len, from->len))
__CPROVER_ensures(RET == AWS_OP_SUCCESS || RET == AWS_OP_ERR)
__CPROVER_ensures((RET == AWS_OP_SUCCESS) == (OLD(to->capacity) - OLD(to->len) >= from->len))
__CPROVER_ensures(RET == AWS_OP_SUCCESS ==> to->len == OLD(to->len) + from->len)
__CPROVER_ensures(RET != AWS_OP_SUCCESS ==> to->len == OLD(to->len))
__CPROVER_ensures(BUF_SHAPE_KEPT(to))
__CPROVER_ensures(g_on && RET == AWS_OP_SUCCESS && g_j < from->len ==> to->buffer[OLD(to->len) + g_j] == lookup_table[from->ptr[g_j]])
ENS_PREFIX_KEPT(to)
;

/* ------------------------------------------------------------------ write family */

#define WRITE_FITS(buf, n) ((buf)->len <= SIZE_HALF && (n) <= SIZE_HALF && (buf)->len + (n) <= (buf)->capacity)

bool aws_byte_buf_write(struct aws_byte_buf *AWS_RESTRICT buf, const uint8_t *AWS_RESTRICT src, size_t len)
__CPROVER_requires(BUF_OK(buf))
__CPROVER_requires(len == 0 || __CPROVER_is_fresh(src, len))
REQ_WITNESS_BUF(buf)
__CPROVER_assigns(len > 0 && WRITE_FITS(buf, len) : buf->len)
__CPROVER_assigns(len > 0 && WRITE_FITS(buf, len) : __CPROVER_object_upto(buf->buffer + buf->len, len))
__CPROVER_ensures(RET == (len == 0 || (OLD(buf->len) <= SIZE_HALF && len <= SIZE_HALF && OLD(buf->len) + len <= buf->capacity)))
__CPROVER_ensures(RET ==> buf->len == OLD(buf->len) + len)
__CPROVER_ensures(!RET ==> buf->len == OLD(buf->len))
__CPROVER_ensures(BUF_SHAPE_KEPT(buf))
__CPROVER_ensures(g_on && RET && g_j < len ==> buf->buffer[OLD(buf->len) + g_j] == src[g_j])
ENS_PREFIX_KEPT(buf)
;

bool aws_byte_buf_write_u8(struct aws_byte_buf *AWS_RESTRICT buf, uint8_t c)
__CPROVER_requires(BUF_OK(buf))
REQ_WITNESS_BUF(buf)
__CPROVER_assigns(WRITE_FITS(buf, 1) : buf->len)
__CPROVER_assigns(WRITE_FITS(buf, 1) : __CPROVER_object_upto(buf->buffer + buf->len, 1))
__CPROVER_ensures(RET == (OLD(buf->len) <= SIZE_HALF && OLD(buf->len) + 1 <= buf->capacity))
__CPROVER_ensures(RET ==> buf->len == OLD(buf->len) + 1)
__CPROVER_ensures(g_on && RET && g_j < 1 ==> buf->buffer[OLD(buf->len) + g_j] == c)
__CPROVER_ensures(!RET ==> buf->len == OLD(buf->len))
__CPROVER_ensures(BUF_SHAPE_KEPT(buf))
ENS_PREFIX_KEPT(buf)
;

/* count == 0 on a buffer without storage calls memset(NULL, c, 0): no byte is touched, but CBMC's memset model
 * rejects the NULL pointer; that single corner is checked by the concrete unit write_u8_n_empty instead. */
bool aws_byte_buf_write_u8_n(struct aws_byte_buf *buf, uint8_t c, size_t count)
__CPROVER_requires(BUF_OK(buf))
__CPROVER_requires(count > 0 || buf->capacity > 0)
REQ_WITNESS_BUF(buf)
__CPROVER_assigns(WRITE_FITS(buf, count) : buf->len)
__CPROVER_assigns(WRITE_FITS(buf, count) && count > 0 : __CPROVER_object_upto(buf->buffer + buf->len, count))
__CPROVER_ensures(RET == (OLD(buf->len) <= SIZE_HALF && count <= SIZE_HALF && OLD(buf->len) + count <= buf->capacity))
__CPROVER_ensures(RET ==> buf->len == OLD(buf->len) + count)
__CPROVER_ensures(!RET ==> buf->len == OLD(buf->len))
__CPROVER_ensures(BUF_SHAPE_KEPT(buf))
__CPROVER_ensures(g_on && RET && g_j < count ==> buf->buffer[OLD(buf->len) + g_j] == c)
ENS_PREFIX_KEPT(buf)
;

#define WRITE_BE_CONTRACT(N)                                                                                           \
    __CPROVER_requires(BUF_OK(buf))                                                                                    \
    REQ_WITNESS_BUF(buf)                                                                                               \
    __CPROVER_assigns(WRITE_FITS(buf, N) : buf->len)                                                                   \
    __CPROVER_assigns(WRITE_FITS(buf, N) : __CPROVER_object_upto(buf->buffer + buf->len, N))                           \
    __CPROVER_ensures(RET == (OLD(buf->len) <= SIZE_HALF && OLD(buf->len) + N <= buf->capacity))                       \
    __CPROVER_ensures(RET ==> buf->len == OLD(buf->len) + N)                                                           \
    __CPROVER_ensures(!RET ==> buf->len == OLD(buf->len))                                                              \
    __CPROVER_ensures(BUF_SHAPE_KEPT(buf))                                                                             \
    ENS_PREFIX_KEPT(buf)

bool aws_byte_buf_write_be16(struct aws_byte_buf *buf, uint16_t x)
WRITE_BE_CONTRACT(2)
__CPROVER_ensures(g_on && RET && g_j < 2 ==> buf->buffer[OLD(buf->len) + g_j] == (uint8_t)(x >> (8 * (1 - g_j))))
;

bool aws_byte_buf_write_be24(struct aws_byte_buf *buf, uint32_t x)
__CPROVER_requires(BUF_OK(buf))
REQ_WITNESS_BUF(buf)
__CPROVER_assigns(x <= 0x00FFFFFF && WRITE_FITS(buf, 3) : buf->len)
__CPROVER_assigns(x <= 0x00FFFFFF && WRITE_FITS(buf, 3) : __CPROVER_object_upto(buf->buffer + buf->len, 3))
__CPROVER_ensures(RET == (x <= 0x00FFFFFF && OLD(buf->len) <= SIZE_HALF && OLD(buf->len) + 3 <= buf->capacity))
__CPROVER_ensures(RET ==> buf->len == OLD(buf->len) + 3)
__CPROVER_ensures(!RET ==> buf->len == OLD(buf->len))
__CPROVER_ensures(BUF_SHAPE_KEPT(buf))
ENS_PREFIX_KEPT(buf)
__CPROVER_ensures(g_on && RET && g_j < 3 ==> buf->buffer[OLD(buf->len) + g_j] == (uint8_t)(x >> (8 * (2 - g_j))))
;

bool aws_byte_buf_write_be32(struct aws_byte_buf *buf, uint32_t x)
WRITE_BE_CONTRACT(4)
__CPROVER_ensures(g_on && RET && g_j < 4 ==> buf->buffer[OLD(buf->len) + g_j] == (uint8_t)(x >> (8 * (3 - g_j))))
;

bool aws_byte_buf_write_be64(struct aws_byte_buf *buf, uint64_t x)
WRITE_BE_CONTRACT(8)
__CPROVER_ensures(g_on && RET && g_j < 8 ==> buf->buffer[OLD(buf->len) + g_j] == (uint8_t)(x >> (8 * (7 - g_j))))
;

bool aws_byte_buf_write_float_be32(struct aws_byte_buf *buf, float x)
WRITE_BE_CONTRACT(4)
;

bool aws_byte_buf_write_float_be64(struct aws_byte_buf *buf, double x)
WRITE_BE_CONTRACT(8)
;

bool aws_byte_buf_write_from_whole_cursor(struct aws_byte_buf *AWS_RESTRICT buf, struct aws_byte_cursor src)
__CPROVER_requires(BUF_OK(buf))
__CPROVER_requires(src.len == 0 || __CPROVER_is_fresh(src.ptr, src.len))
REQ_WITNESS_BUF(buf)
__CPROVER_assigns(src.len > 0 && WRITE_FITS(buf, src.len) : buf->len)
__CPROVER_assigns(src.len > 0 && WRITE_FITS(buf, src.len) : __CPROVER_object_upto(buf->buffer + buf->len, src.len))
__CPROVER_ensures(RET == (src.len == 0 || (OLD(buf->len) <= SIZE_HALF && src.len <= SIZE_HALF && OLD(buf->len) + src.len <= buf->capacity)))
__CPROVER_ensures(RET ==> buf->len == OLD(buf->len) + src.len)
__CPROVER_ensures(!RET ==> buf->len == OLD(buf->len))
__CPROVER_ensures(BUF_SHAPE_KEPT(buf))
__CPROVER_ensures(g_on && RET && g_j < src.len ==> buf->buffer[OLD(buf->len) + g_j] == src.ptr[g_j])
ENS_PREFIX_KEPT(buf)
;

bool aws_byte_buf_write_from_whole_buffer(struct aws_byte_buf *AWS_RESTRICT buf, struct aws_byte_buf src)
__CPROVER_requires(BUF_OK(buf))
__CPROVER_requires(src.len <= src.capacity && (src.capacity == 0 ? src.buffer == NULL : __CPROVER_is_fresh(src.buffer, src.capacity)))
REQ_WITNESS_BUF(buf)
__CPROVER_assigns(src.len > 0 && WRITE_FITS(buf, src.len) : buf->len)
__CPROVER_assigns(src.len > 0 && WRITE_FITS(buf, src.len) : __CPROVER_object_upto(buf->buffer + buf->len, src.len))
__CPROVER_ensures(RET == (src.len == 0 || (OLD(buf->len) <= SIZE_HALF && src.len <= SIZE_HALF && OLD(buf->len) + src.len <= buf->capacity)))
__CPROVER_ensures(RET ==> buf->len == OLD(buf->len) + src.len)
__CPROVER_ensures(!RET ==> buf->len == OLD(buf->len))
__CPROVER_ensures(BUF_SHAPE_KEPT(buf))
__CPROVER_ensures(g_on && RET && g_j < src.len ==> buf->buffer[OLD(buf->len) + g_j] == src.buffer[g_j])
ENS_PREFIX_KEPT(buf)
;

#define REQ_WITNESS_CUR(c) __CPROVER_requires(g_on ==> (g_j < (c)->len ==> g_src == (c)->ptr[g_j]))

/* ------------------------------------------------------------------ cursor advance / read family */

#define ADV_OK(c, n) ((c)->len <= SIZE_HALF && (n) <= SIZE_HALF && (n) <= (c)->len)

#define ADV_OK_OLD(c, n) (OLD((c)->len) <= SIZE_HALF && (n) <= SIZE_HALF && (n) <= OLD((c)->len))

/* VERIF_ADVANCE_HUGE: also views longer than any object (unbacked), to reach lengths next to SIZE_MAX/2 */
/* VERIF_ADVANCE_HALF isolates the one length at which aws_byte_cursor_advance_nospec misbehaves on the pinned tree
 * (known finding KF-C01-1: cursor->len == SIZE_MAX/2); VERIF_ADVANCE_HUGE alone covers every other unbacked length. */
#if defined(VERIF_ADVANCE_HUGE) && defined(VERIF_ADVANCE_HALF)
#    define ADVANCE_CUR_REQ (CUR_OK_OR_HUGE(cursor) && cursor->len == SIZE_HALF)
#    define APEQ(p, q) ((p) == (q))
#elif defined(VERIF_ADVANCE_HUGE) && defined(VERIF_ADVANCE_NOT_HALF)
#    define ADVANCE_CUR_REQ (CUR_OK_OR_HUGE(cursor) && cursor->len != SIZE_HALF)
#    define APEQ(p, q) ((p) == (q))
#elif defined(VERIF_ADVANCE_HUGE)
#    define ADVANCE_CUR_REQ CUR_OK_OR_HUGE(cursor)
#    define APEQ(p, q) ((p) == (q)) /* unbacked pointers are not valid: plain equality (the enforcing unit needs no value set) */
#else
#    define ADVANCE_CUR_REQ CUR_OK(cursor)
#    define APEQ(p, q) PEQ(p, q)
#endif
#define ADVANCE_CONTRACT                                                                                               \
    __CPROVER_requires(ADVANCE_CUR_REQ)                                                                                \
    __CPROVER_assigns(ADV_OK(cursor, len) : cursor->ptr, cursor->len)                                                  \
    __CPROVER_ensures(ADV_OK_OLD(cursor, len) ==> APEQ(RET.ptr, OLD(cursor->ptr)) && RET.len == len &&                    \
                      cursor->len == OLD(cursor->len) - len &&                                                         \
                      APEQ(cursor->ptr, (OLD(cursor->ptr) == NULL ? NULL : OLD(cursor->ptr) + len)))                       \
    __CPROVER_ensures(!ADV_OK_OLD(cursor, len) ==> RET.ptr == NULL && RET.len == 0 &&                                 \
                      cursor->len == OLD(cursor->len) && APEQ(cursor->ptr, OLD(cursor->ptr)))

struct aws_byte_cursor aws_byte_cursor_advance(struct aws_byte_cursor *const cursor, const size_t len)
ADVANCE_CONTRACT
;

struct aws_byte_cursor aws_byte_cursor_advance_nospec(struct aws_byte_cursor *const cursor, size_t len)
ADVANCE_CONTRACT
;

/* 0 or all-ones; all-ones exactly when index < bound and neither has the sign bit set */
size_t aws_nospec_mask(size_t index, size_t bound)
__CPROVER_requires(1)
__CPROVER_assigns()
__CPROVER_ensures(RET == ((index < bound && index <= SIZE_HALF && bound <= SIZE_HALF) ? SIZE_MAX : 0))
;

#define READ_OK(c, n) ((c)->len <= SIZE_HALF && (n) <= SIZE_HALF && (n) <= (c)->len)

bool aws_byte_cursor_read(struct aws_byte_cursor *AWS_RESTRICT cur, void *AWS_RESTRICT dest, const size_t len)
__CPROVER_requires(CUR_OK(cur))
__CPROVER_requires(len == 0 || __CPROVER_is_fresh(dest, len))
REQ_WITNESS_CUR(cur)
__CPROVER_assigns(len > 0 && READ_OK(cur, len) : cur->ptr, cur->len, __CPROVER_object_upto(dest, len))
__CPROVER_ensures(RET == (len == 0 || ADV_OK_OLD(cur, len)))
__CPROVER_ensures(RET ==> cur->len == OLD(cur->len) - len && (len > 0 ==> PEQ(cur->ptr, OLD(cur->ptr) + len)))
__CPROVER_ensures(!RET ==> cur->len == OLD(cur->len) && PEQ(cur->ptr, OLD(cur->ptr)))
__CPROVER_ensures(g_on && RET && g_j < len ==> ((const uint8_t *)dest)[g_j] == g_src)
;

#define READ_N_CONTRACT(N)                                                                                             \
    __CPROVER_requires(CUR_OK(cur))                                                                                    \
    __CPROVER_requires(__CPROVER_is_fresh(var, sizeof(*var)))                                                          \
    REQ_WITNESS_CUR(cur)                                                                                               \
    __CPROVER_assigns(READ_OK(cur, N) : cur->ptr, cur->len, *var)                                                      \
    __CPROVER_ensures(RET == ADV_OK_OLD(cur, N))                                                                     \
    __CPROVER_ensures(RET ==> cur->len == OLD(cur->len) - N && PEQ(cur->ptr, OLD(cur->ptr) + N))                          \
    __CPROVER_ensures(!RET ==> cur->len == OLD(cur->len) && PEQ(cur->ptr, OLD(cur->ptr)))

bool aws_byte_cursor_read_u8(struct aws_byte_cursor *AWS_RESTRICT cur, uint8_t *AWS_RESTRICT var)
READ_N_CONTRACT(1)
__CPROVER_ensures(g_on && RET && g_j < 1 ==> *var == g_src)
;

bool aws_byte_cursor_read_be16(struct aws_byte_cursor *cur, uint16_t *var)
READ_N_CONTRACT(2)
__CPROVER_ensures(g_on && RET && g_j < 2 ==> (uint8_t)(*var >> (8 * (1 - g_j))) == g_src)
;

bool aws_byte_cursor_read_be24(struct aws_byte_cursor *cur, uint32_t *var)
READ_N_CONTRACT(3)
__CPROVER_ensures(RET ==> *var <= 0x00FFFFFF)
__CPROVER_ensures(g_on && RET && g_j < 3 ==> (uint8_t)(*var >> (8 * (2 - g_j))) == g_src)
;

bool aws_byte_cursor_read_be32(struct aws_byte_cursor *cur, uint32_t *var)
READ_N_CONTRACT(4)
__CPROVER_ensures(g_on && RET && g_j < 4 ==> (uint8_t)(*var >> (8 * (3 - g_j))) == g_src)
;

bool aws_byte_cursor_read_be64(struct aws_byte_cursor *cur, uint64_t *var)
READ_N_CONTRACT(8)
__CPROVER_ensures(g_on && RET && g_j < 8 ==> (uint8_t)(*var >> (8 * (7 - g_j))) == g_src)
;

bool aws_byte_cursor_read_float_be32(struct aws_byte_cursor *cur, float *var)
READ_N_CONTRACT(4)
;

bool aws_byte_cursor_read_float_be64(struct aws_byte_cursor *cur, double *var)
READ_N_CONTRACT(8)
;


/* ------------------------------------------------------------------ init / clean-up / growing operations */

int aws_byte_buf_init(struct aws_byte_buf *buf, struct aws_allocator *allocator, size_t capacity)
__CPROVER_requires(__CPROVER_is_fresh(buf, sizeof(*buf)))
__CPROVER_requires(allocator != NULL)
__CPROVER_assigns(*buf)
__CPROVER_ensures(RET == AWS_OP_SUCCESS)
__CPROVER_ensures(buf->len == 0 && buf->capacity == capacity && buf->allocator == allocator)
__CPROVER_ensures(capacity == 0 ? buf->buffer == NULL : __CPROVER_is_fresh(buf->buffer, capacity))
;

int aws_byte_buf_init_copy(struct aws_byte_buf *dest, struct aws_allocator *allocator, const struct aws_byte_buf *src)
__CPROVER_requires(__CPROVER_is_fresh(dest, sizeof(*dest)))
__CPROVER_requires(allocator != NULL)
__CPROVER_requires(BUF_OK(src))
__CPROVER_requires(g_on ==> (g_j < src->len ==> g_src == src->buffer[g_j]))
__CPROVER_assigns(*dest)
__CPROVER_ensures(RET == AWS_OP_SUCCESS)
__CPROVER_ensures(dest->len == src->len && dest->capacity == src->capacity && dest->allocator == allocator)
__CPROVER_ensures(src->capacity == 0 ? dest->buffer == NULL : __CPROVER_is_fresh(dest->buffer, dest->capacity))
__CPROVER_ensures(g_on && g_j < src->len ==> dest->buffer[g_j] == g_src)
;

int aws_byte_buf_init_copy_from_cursor(struct aws_byte_buf *dest, struct aws_allocator *allocator, struct aws_byte_cursor src)
__CPROVER_requires(__CPROVER_is_fresh(dest, sizeof(*dest)))
__CPROVER_requires(allocator != NULL)
__CPROVER_requires((src.len == 0 && src.ptr == NULL) || __CPROVER_is_fresh(src.ptr, src.len))
__CPROVER_requires(g_on ==> (g_j < src.len ==> g_src == src.ptr[g_j]))
__CPROVER_assigns(*dest)
__CPROVER_ensures(RET == AWS_OP_SUCCESS)
__CPROVER_ensures(dest->len == src.len && dest->capacity == src.len && dest->allocator == allocator)
__CPROVER_ensures(src.len == 0 ? dest->buffer == NULL : __CPROVER_is_fresh(dest->buffer, dest->capacity))
__CPROVER_ensures(g_on && g_j < src.len ==> dest->buffer[g_j] == g_src)
;

void aws_byte_buf_secure_zero(struct aws_byte_buf *buf)
__CPROVER_requires(BUF_OK(buf))
__CPROVER_assigns(buf->len)
__CPROVER_assigns(buf->capacity > 0 : __CPROVER_object_upto(buf->buffer, buf->capacity))
__CPROVER_ensures(buf->len == 0 && buf->capacity == OLD(buf->capacity) && buf->buffer == OLD(buf->buffer) && buf->allocator == OLD(buf->allocator))
__CPROVER_ensures(g_rz < buf->capacity ==> buf->buffer[g_rz] == 0)
;

void aws_byte_buf_reset(struct aws_byte_buf *buf, bool zero_contents)
__CPROVER_requires(BUF_OK(buf))
REQ_WITNESS_BUF(buf)
__CPROVER_assigns(buf->len)
__CPROVER_assigns(zero_contents && buf->capacity > 0 : __CPROVER_object_upto(buf->buffer, buf->capacity))
__CPROVER_ensures(buf->len == 0 && buf->capacity == OLD(buf->capacity) && buf->buffer == OLD(buf->buffer) && buf->allocator == OLD(buf->allocator))
__CPROVER_ensures(zero_contents && g_rz < buf->capacity ==> buf->buffer[g_rz] == 0)
__CPROVER_ensures(g_on && !zero_contents && g_k < buf->capacity ==> buf->buffer[g_k] == g_old)
;

void aws_byte_buf_clean_up(struct aws_byte_buf *buf)
__CPROVER_requires(BUF_OK(buf))
__CPROVER_requires(g_zero_on ==> (g_rsize == buf->capacity && (g_rz < buf->capacity ==> buf->buffer[g_rz] == 0)))
__CPROVER_assigns(*buf)
__CPROVER_frees(buf->buffer)
__CPROVER_ensures(buf->len == 0 && buf->capacity == 0 && buf->buffer == NULL && buf->allocator == NULL)
;

/* zeroes the whole storage BEFORE it goes back to the allocator: the replaced aws_mem_release contract demands a zero
 * at the witness position g_rz of the block being released (g_zero_on is switched on by the harness). */
void aws_byte_buf_clean_up_secure(struct aws_byte_buf *buf)
__CPROVER_requires(BUF_OK(buf))
__CPROVER_requires(g_zero_on ==> g_rsize == buf->capacity)
__CPROVER_assigns(*buf)
__CPROVER_assigns(buf->capacity > 0 : __CPROVER_object_upto(buf->buffer, buf->capacity))
__CPROVER_frees(buf->buffer)
__CPROVER_ensures(buf->len == 0 && buf->capacity == 0 && buf->buffer == NULL && buf->allocator == NULL)
;

/* dynamic append.  Fails only when len + from->len overflows (aws_mem_acquire aborts on OOM in this version);
 * a failing call changes nothing.  g_expect_secure lets a wrapper's harness check the flag it passes. */
bool g_expect_secure_on;
bool g_expect_secure;
#define GHOST_RESET() do { GHOST_RESET_COMMON(); GHOST_RESET_ALLOC(); g_expect_secure_on = false; } while (0)
#define DYN_OK(to, from) ((from)->len <= SIZE_MAX - (to)->len)
#define DYN_GROWS(to, from) ((to)->capacity - (to)->len < (from)->len)

#define APPEND_DYNAMIC_CONTRACT(FROM_REQ)                                                                              \
    __CPROVER_requires(BUF_OK(to) && to->allocator != NULL)                                                            \
    FROM_REQ                                                                                                           \
    REQ_WITNESS_BUF(to)                                                                                                \
    __CPROVER_requires(g_on ==> (g_j < from->len && from->len < VERIF_HUGE ==> g_src == from->ptr[g_j]))               \
    __CPROVER_assigns(DYN_OK(to, from) : to->len, to->buffer, to->capacity)                                            \
    __CPROVER_assigns(DYN_OK(to, from) && !DYN_GROWS(to, from) && from->len > 0 : __CPROVER_object_upto(to->buffer + to->len, from->len)) \
    __CPROVER_assigns(DYN_OK(to, from) && DYN_GROWS(to, from) && to->capacity > 0 : __CPROVER_object_upto(to->buffer, to->capacity))      \
    __CPROVER_frees(DYN_OK(to, from) && DYN_GROWS(to, from) : to->buffer)                                              \
    __CPROVER_ensures(RET == AWS_OP_SUCCESS || RET == AWS_OP_ERR)                                                      \
    __CPROVER_ensures((RET == AWS_OP_SUCCESS) == (from->len <= SIZE_MAX - OLD(to->len)))                               \
    __CPROVER_ensures(RET != AWS_OP_SUCCESS ==> to->len == OLD(to->len) && to->capacity == OLD(to->capacity) && PEQ(to->buffer, OLD(to->buffer))) \
    __CPROVER_ensures(to->allocator == OLD(to->allocator))                                                             \
    __CPROVER_ensures(RET == AWS_OP_SUCCESS ==> to->len == OLD(to->len) + from->len && to->len <= to->capacity)        \
    __CPROVER_ensures(RET == AWS_OP_SUCCESS && OLD(to->capacity) - OLD(to->len) >= from->len ==>                       \
                      to->capacity == OLD(to->capacity) && PEQ(to->buffer, OLD(to->buffer)))                           \
    __CPROVER_ensures(RET == AWS_OP_SUCCESS && OLD(to->capacity) - OLD(to->len) < from->len ==>                        \
                      __CPROVER_is_fresh(to->buffer, to->capacity) &&                                                  \
                      to->capacity >= OLD(to->capacity) &&                                                             \
                      (to->capacity == OLD(to->len) + from->len ||                                                     \
                       (OLD(to->capacity) <= SIZE_HALF && to->capacity == 2 * OLD(to->capacity)) ||                    \
                       (OLD(to->capacity) > SIZE_HALF && to->capacity == SIZE_MAX)))                                   \
    __CPROVER_ensures(g_on && RET == AWS_OP_SUCCESS && g_k < OLD(to->len) ==> to->buffer[g_k] == g_old)                \
    __CPROVER_ensures(g_on && RET == AWS_OP_SUCCESS && g_j < from->len ==> to->buffer[OLD(to->len) + g_j] == g_src)

#define FROM_SEPARATE __CPROVER_requires(CUR_OK(from))
/* the aliasing the API allows: the source view lies inside the bytes already written to the destination */
/* the aliased units are BOUNDED stand-ins: symbolic-size memcpy inside one object does not finish (15 min), so the
 * destination capacity is capped by VERIF_ALIAS_CAP bytes (all lengths, offsets and contents below it are symbolic) */
#ifdef VERIF_ALIAS_CAP
#    define ALIAS_BOUND __CPROVER_requires(to->capacity <= VERIF_ALIAS_CAP)
#else
#    define ALIAS_BOUND
#endif
size_t g_aoff; /* ghost: offset of the aliased source view inside the destination */
#define FROM_INSIDE_TO                                                                                                 \
    __CPROVER_requires(__CPROVER_is_fresh(from, sizeof(*from)))                                                        \
    __CPROVER_requires(to->len > 0 && g_aoff <= to->len && PEQ(from->ptr, to->buffer + g_aoff))                        \
    __CPROVER_requires(from->len <= to->len - g_aoff)                                                                  \
    ALIAS_BOUND

#if defined(VERIF_APPEND_DYNAMIC_HUGE)
/* source length beyond any object: must be refused (or die in the allocator) before a byte is touched */
#    define DYN_FROM __CPROVER_requires(__CPROVER_is_fresh(from, sizeof(*from)) && from->len >= VERIF_HUGE)
#elif !defined(VERIF_APPEND_DYNAMIC_ALIASED)
#    define DYN_FROM FROM_SEPARATE
#else
#    define DYN_FROM FROM_INSIDE_TO
#endif

/* case split of the (expensive) aliased unit: the two cases together cover the whole precondition */
#if defined(VERIF_DYN_ONLY_GROW)
#    define DYN_CASE __CPROVER_requires(DYN_GROWS(to, from))
#elif defined(VERIF_DYN_ONLY_FIT)
#    define DYN_CASE __CPROVER_requires(!DYN_GROWS(to, from))
#else
#    define DYN_CASE
#endif

static int s_aws_byte_buf_append_dynamic(struct aws_byte_buf *to, const struct aws_byte_cursor *from, bool clear_released_memory)
APPEND_DYNAMIC_CONTRACT(DYN_FROM)
DYN_CASE
__CPROVER_requires(g_zero_on ==> clear_released_memory && g_rsize == to->capacity)
__CPROVER_requires(g_expect_secure_on ==> clear_released_memory == g_expect_secure)
;

int aws_byte_buf_append_dynamic(struct aws_byte_buf *to, const struct aws_byte_cursor *from)
APPEND_DYNAMIC_CONTRACT(DYN_FROM)
;
int aws_byte_buf_append_dynamic_secure(struct aws_byte_buf *to, const struct aws_byte_cursor *from)
APPEND_DYNAMIC_CONTRACT(DYN_FROM)
;

#define APPEND_BYTE_DYNAMIC_CONTRACT                                                                                   \
    __CPROVER_requires(BUF_OK(buffer) && buffer->allocator != NULL)                                                    \
    REQ_WITNESS_BUF(buffer)                                                                                            \
    __CPROVER_requires(g_on ==> (g_j < 1 ==> g_src == value))                                                          \
    __CPROVER_assigns(buffer->len < SIZE_MAX : buffer->len, buffer->buffer, buffer->capacity)                          \
    __CPROVER_assigns(buffer->len < buffer->capacity : __CPROVER_object_upto(buffer->buffer + buffer->len, 1))         \
    __CPROVER_assigns(buffer->len < SIZE_MAX && buffer->len == buffer->capacity && buffer->capacity > 0 : __CPROVER_object_upto(buffer->buffer, buffer->capacity)) \
    __CPROVER_frees(buffer->len < SIZE_MAX && buffer->len == buffer->capacity : buffer->buffer)                        \
    __CPROVER_ensures((RET == AWS_OP_SUCCESS) == (OLD(buffer->len) < SIZE_MAX))                                        \
    __CPROVER_ensures(RET == AWS_OP_SUCCESS || RET == AWS_OP_ERR)                                                      \
    __CPROVER_ensures(RET != AWS_OP_SUCCESS ==> buffer->len == OLD(buffer->len) && buffer->capacity == OLD(buffer->capacity) && PEQ(buffer->buffer, OLD(buffer->buffer))) \
    __CPROVER_ensures(RET == AWS_OP_SUCCESS && OLD(buffer->len) < OLD(buffer->capacity) ==> buffer->capacity == OLD(buffer->capacity) && PEQ(buffer->buffer, OLD(buffer->buffer))) \
    __CPROVER_ensures(RET == AWS_OP_SUCCESS && OLD(buffer->len) == OLD(buffer->capacity) ==> buffer->capacity > OLD(buffer->capacity) && __CPROVER_is_fresh(buffer->buffer, buffer->capacity)) \
    __CPROVER_ensures(buffer->allocator == OLD(buffer->allocator))                                                      \
    __CPROVER_ensures(RET == AWS_OP_SUCCESS ==> buffer->len == OLD(buffer->len) + 1 && buffer->len <= buffer->capacity) \
    __CPROVER_ensures(g_on && RET == AWS_OP_SUCCESS && g_j < 1 ==> buffer->buffer[OLD(buffer->len) + g_j] == g_src)    \
    __CPROVER_ensures(g_on && RET == AWS_OP_SUCCESS && g_k < OLD(buffer->len) ==> buffer->buffer[g_k] == g_old)

static int s_aws_byte_buf_append_byte_dynamic(struct aws_byte_buf *buffer, uint8_t value, bool clear_released_memory)
APPEND_BYTE_DYNAMIC_CONTRACT
__CPROVER_requires(g_expect_secure_on ==> clear_released_memory == g_expect_secure)
;
int aws_byte_buf_append_byte_dynamic(struct aws_byte_buf *buffer, uint8_t value)
APPEND_BYTE_DYNAMIC_CONTRACT
;
int aws_byte_buf_append_byte_dynamic_secure(struct aws_byte_buf *buffer, uint8_t value)
APPEND_BYTE_DYNAMIC_CONTRACT
;

/* reserve: afterwards capacity >= requested; contents kept; never fails in this version (OOM aborts) */
int aws_byte_buf_reserve(struct aws_byte_buf *buffer, size_t requested_capacity)
__CPROVER_requires(BUF_OK(buffer) && buffer->allocator != NULL)
REQ_WITNESS_BUF(buffer)
__CPROVER_assigns(requested_capacity > buffer->capacity : *buffer)
__CPROVER_frees(requested_capacity > buffer->capacity : buffer->buffer)
__CPROVER_ensures(RET == AWS_OP_SUCCESS)
__CPROVER_ensures(buffer->len == OLD(buffer->len) && buffer->allocator == OLD(buffer->allocator))
__CPROVER_ensures(requested_capacity <= OLD(buffer->capacity) ==> buffer->capacity == OLD(buffer->capacity) && buffer->buffer == OLD(buffer->buffer))
__CPROVER_ensures(requested_capacity > OLD(buffer->capacity) ==> buffer->capacity == requested_capacity && __CPROVER_is_fresh(buffer->buffer, buffer->capacity))
__CPROVER_ensures(g_on && g_k < buffer->len ==> buffer->buffer[g_k] == g_old)
;

int aws_byte_buf_reserve_relative(struct aws_byte_buf *buffer, size_t additional_length)
__CPROVER_requires(BUF_OK(buffer) && buffer->allocator != NULL)
REQ_WITNESS_BUF(buffer)
__CPROVER_assigns(additional_length <= SIZE_MAX - buffer->len && buffer->len + additional_length > buffer->capacity : *buffer)
__CPROVER_frees(additional_length <= SIZE_MAX - buffer->len && buffer->len + additional_length > buffer->capacity : buffer->buffer)
__CPROVER_ensures((RET == AWS_OP_SUCCESS) == (additional_length <= SIZE_MAX - OLD(buffer->len)))
__CPROVER_ensures(RET == AWS_OP_SUCCESS || RET == AWS_OP_ERR)
__CPROVER_ensures(buffer->len == OLD(buffer->len) && buffer->allocator == OLD(buffer->allocator))
__CPROVER_ensures(RET != AWS_OP_SUCCESS ==> buffer->capacity == OLD(buffer->capacity) && buffer->buffer == OLD(buffer->buffer))
__CPROVER_ensures(RET == AWS_OP_SUCCESS ==> buffer->capacity >= buffer->len + additional_length && buffer->capacity >= OLD(buffer->capacity))
__CPROVER_ensures(RET == AWS_OP_SUCCESS && buffer->capacity > 0 && buffer->capacity != OLD(buffer->capacity) ==> __CPROVER_is_fresh(buffer->buffer, buffer->capacity))
__CPROVER_ensures(buffer->capacity == OLD(buffer->capacity) ==> buffer->buffer == OLD(buffer->buffer))
__CPROVER_ensures(g_on && g_k < buffer->len ==> buffer->buffer[g_k] == g_old)
;

int aws_byte_buf_reserve_smart(struct aws_byte_buf *buffer, size_t requested_capacity)
__CPROVER_requires(BUF_OK(buffer) && buffer->allocator != NULL)
REQ_WITNESS_BUF(buffer)
__CPROVER_assigns(requested_capacity > buffer->capacity : *buffer)
__CPROVER_frees(requested_capacity > buffer->capacity : buffer->buffer)
__CPROVER_ensures(RET == AWS_OP_SUCCESS)
__CPROVER_ensures(buffer->len == OLD(buffer->len) && buffer->allocator == OLD(buffer->allocator))
__CPROVER_ensures(requested_capacity <= OLD(buffer->capacity) ==> buffer->capacity == OLD(buffer->capacity) && buffer->buffer == OLD(buffer->buffer))
__CPROVER_ensures(requested_capacity > OLD(buffer->capacity) ==> buffer->capacity >= requested_capacity && __CPROVER_is_fresh(buffer->buffer, buffer->capacity) &&
                  (buffer->capacity == requested_capacity || (OLD(buffer->capacity) <= SIZE_HALF && buffer->capacity == 2 * OLD(buffer->capacity)) || (OLD(buffer->capacity) > SIZE_HALF && buffer->capacity == SIZE_MAX)))
__CPROVER_ensures(g_on && g_k < buffer->len ==> buffer->buffer[g_k] == g_old)
;

int aws_byte_buf_reserve_smart_relative(struct aws_byte_buf *buffer, size_t additional_length)
__CPROVER_requires(BUF_OK(buffer) && buffer->allocator != NULL)
REQ_WITNESS_BUF(buffer)
__CPROVER_assigns(additional_length <= SIZE_MAX - buffer->len && buffer->len + additional_length > buffer->capacity : *buffer)
__CPROVER_frees(additional_length <= SIZE_MAX - buffer->len && buffer->len + additional_length > buffer->capacity : buffer->buffer)
__CPROVER_ensures((RET == AWS_OP_SUCCESS) == (additional_length <= SIZE_MAX - OLD(buffer->len)))
__CPROVER_ensures(RET == AWS_OP_SUCCESS || RET == AWS_OP_ERR)
__CPROVER_ensures(buffer->len == OLD(buffer->len) && buffer->allocator == OLD(buffer->allocator))
__CPROVER_ensures(RET != AWS_OP_SUCCESS ==> buffer->capacity == OLD(buffer->capacity) && buffer->buffer == OLD(buffer->buffer))
__CPROVER_ensures(RET == AWS_OP_SUCCESS ==> buffer->capacity >= buffer->len + additional_length && buffer->capacity >= OLD(buffer->capacity))
__CPROVER_ensures(RET == AWS_OP_SUCCESS && buffer->capacity > 0 && buffer->capacity != OLD(buffer->capacity) ==> __CPROVER_is_fresh(buffer->buffer, buffer->capacity))
__CPROVER_ensures(buffer->capacity == OLD(buffer->capacity) ==> buffer->buffer == OLD(buffer->buffer))
__CPROVER_ensures(g_on && g_k < buffer->len ==> buffer->buffer[g_k] == g_old)
;

/* aws_byte_buf_advance: hands out [len, len+n) of the spare capacity as a new empty buffer */
bool aws_byte_buf_advance(struct aws_byte_buf *const AWS_RESTRICT buffer, struct aws_byte_buf *const AWS_RESTRICT output, const size_t len)
__CPROVER_requires(BUF_OK(buffer))
__CPROVER_requires(__CPROVER_is_fresh(output, sizeof(*output)))
__CPROVER_assigns(*output)
__CPROVER_assigns(buffer->capacity - buffer->len >= len : buffer->len)
__CPROVER_ensures(RET == (OLD(buffer->capacity) - OLD(buffer->len) >= len))
__CPROVER_ensures(BUF_SHAPE_KEPT(buffer))
__CPROVER_ensures(RET ==> buffer->len == OLD(buffer->len) + len && output->len == 0 && output->capacity == len && output->allocator == NULL &&
                  (len == 0 ? output->buffer == NULL : output->buffer == buffer->buffer + OLD(buffer->len)))
__CPROVER_ensures(!RET ==> buffer->len == OLD(buffer->len) && output->len == 0 && output->capacity == 0 && output->buffer == NULL && output->allocator == NULL)
;

int aws_byte_buf_append_and_update(struct aws_byte_buf *to, struct aws_byte_cursor *from_and_update)
__CPROVER_requires(BUF_OK(to))
__CPROVER_requires(CUR_OK(from_and_update))
REQ_WITNESS_BUF(to)
__CPROVER_assigns(APPEND_FITS(to, from_and_update) : to->len, from_and_update->ptr)
__CPROVER_assigns(APPEND_FITS(to, from_and_update) && from_and_update->len > 0 : __CPROVER_object_upto(to->buffer + to->len, from_and_update->len))
__CPROVER_ensures(RET == AWS_OP_SUCCESS || RET == AWS_OP_ERR)
__CPROVER_ensures((RET == AWS_OP_SUCCESS) == (OLD(to->capacity) - OLD(to->len) >= from_and_update->len))
__CPROVER_ensures(from_and_update->len == OLD(from_and_update->len))
__CPROVER_ensures(RET == AWS_OP_SUCCESS ==> to->len == OLD(to->len) + from_and_update->len &&
                  from_and_update->ptr == (to->buffer == NULL ? NULL : to->buffer + OLD(to->len)))
__CPROVER_ensures(RET != AWS_OP_SUCCESS ==> to->len == OLD(to->len) && from_and_update->ptr == OLD(from_and_update->ptr))
__CPROVER_ensures(BUF_SHAPE_KEPT(to))
ENS_PREFIX_KEPT(to)
;

/* ================================================================== second batch: the remaining functions of byte_buf.c */

/* ghost description of a C string argument: g_slen is its length (position of the first NUL), stated for one arbitrary
 * witness position g_sw ("no NUL before g_slen").  strlen() is replaced by the ASSUMED contract below (CBMC's library
 * model is an unbounded loop); harnesses of functions that take a C string set g_slen/g_sw to arbitrary values. */
#define CSTR_FACTS(s) (((const uint8_t *)(s))[g_slen] == 0 && (g_sw < g_slen ==> ((const uint8_t *)(s))[g_sw] != 0))
#define CSTR_OK(s) (g_slen < VERIF_HUGE && __CPROVER_is_fresh((s), g_slen + 1) && CSTR_FACTS(s))

size_t strlen(const char *s)
__CPROVER_requires(g_slen < VERIF_HUGE && __CPROVER_r_ok(s, g_slen + 1) && CSTR_FACTS(s))
__CPROVER_assigns()
__CPROVER_ensures(RET == g_slen)
;

/* specification of the two lookup tables of byte_buf.c (checked against the real tables for all 256 values by the
 * units table_tolower / table_hex_to_num) */
#define SPEC_ISHEX(c) (((c) >= '0' && (c) <= '9') || ((c) >= 'a' && (c) <= 'f') || ((c) >= 'A' && (c) <= 'F'))
/* the definitions, as range formulas ... */
#define SPEC_HEXVAL_F(c)                                                                                               \
    ((uint8_t)(((c) >= '0' && (c) <= '9') ? (c) - '0'                                                                  \
               : ((c) >= 'a' && (c) <= 'f') ? (c) - 'a' + 10                                                           \
               : ((c) >= 'A' && (c) <= 'F') ? (c) - 'A' + 10 : 255))
#define SPEC_LOWER_F(c) ((uint8_t)(((c) >= 'A' && (c) <= 'Z') ? (c) + ('a' - 'A') : (c)))
/* ... and as specification tables, used in the contracts because a clause then reads the byte once (the formulas mention
 * their argument up to ten times; with a symbolic index into a symbolic-size object every mention is a separate array
 * read and the SAT instance grows from seconds to minutes).  The units table_tolower / table_hex_to_num prove for all
 * 256 values: spec table == formula == real table of byte_buf.c. */
static const uint8_t verif_hexval_tab[256] = {
    255, 255, 255, 255, 255, 255, 255, 255, 255, 255, 255, 255, 255, 255, 255, 255,
    255, 255, 255, 255, 255, 255, 255, 255, 255, 255, 255, 255, 255, 255, 255, 255,
    255, 255, 255, 255, 255, 255, 255, 255, 255, 255, 255, 255, 255, 255, 255, 255,
      0,   1,   2,   3,   4,   5,   6,   7,   8,   9, 255, 255, 255, 255, 255, 255,
    255,  10,  11,  12,  13,  14,  15, 255, 255, 255, 255, 255, 255, 255, 255, 255,
    255, 255, 255, 255, 255, 255, 255, 255, 255, 255, 255, 255, 255, 255, 255, 255,
    255,  10,  11,  12,  13,  14,  15, 255, 255, 255, 255, 255, 255, 255, 255, 255,
    255, 255, 255, 255, 255, 255, 255, 255, 255, 255, 255, 255, 255, 255, 255, 255,
    255, 255, 255, 255, 255, 255, 255, 255, 255, 255, 255, 255, 255, 255, 255, 255,
    255, 255, 255, 255, 255, 255, 255, 255, 255, 255, 255, 255, 255, 255, 255, 255,
    255, 255, 255, 255, 255, 255, 255, 255, 255, 255, 255, 255, 255, 255, 255, 255,
    255, 255, 255, 255, 255, 255, 255, 255, 255, 255, 255, 255, 255, 255, 255, 255,
    255, 255, 255, 255, 255, 255, 255, 255, 255, 255, 255, 255, 255, 255, 255, 255,
    255, 255, 255, 255, 255, 255, 255, 255, 255, 255, 255, 255, 255, 255, 255, 255,
    255, 255, 255, 255, 255, 255, 255, 255, 255, 255, 255, 255, 255, 255, 255, 255,
    255, 255, 255, 255, 255, 255, 255, 255, 255, 255, 255, 255, 255, 255, 255, 255,
};
static const uint8_t verif_lower_tab[256] = {
      0,   1,   2,   3,   4,   5,   6,   7,   8,   9,  10,  11,  12,  13,  14,  15,
     16,  17,  18,  19,  20,  21,  22,  23,  24,  25,  26,  27,  28,  29,  30,  31,
     32,  33,  34,  35,  36,  37,  38,  39,  40,  41,  42,  43,  44,  45,  46,  47,
     48,  49,  50,  51,  52,  53,  54,  55,  56,  57,  58,  59,  60,  61,  62,  63,
     64,  97,  98,  99, 100, 101, 102, 103, 104, 105, 106, 107, 108, 109, 110, 111,
    112, 113, 114, 115, 116, 117, 118, 119, 120, 121, 122,  91,  92,  93,  94,  95,
     96,  97,  98,  99, 100, 101, 102, 103, 104, 105, 106, 107, 108, 109, 110, 111,
    112, 113, 114, 115, 116, 117, 118, 119, 120, 121, 122, 123, 124, 125, 126, 127,
    128, 129, 130, 131, 132, 133, 134, 135, 136, 137, 138, 139, 140, 141, 142, 143,
    144, 145, 146, 147, 148, 149, 150, 151, 152, 153, 154, 155, 156, 157, 158, 159,
    160, 161, 162, 163, 164, 165, 166, 167, 168, 169, 170, 171, 172, 173, 174, 175,
    176, 177, 178, 179, 180, 181, 182, 183, 184, 185, 186, 187, 188, 189, 190, 191,
    192, 193, 194, 195, 196, 197, 198, 199, 200, 201, 202, 203, 204, 205, 206, 207,
    208, 209, 210, 211, 212, 213, 214, 215, 216, 217, 218, 219, 220, 221, 222, 223,
    224, 225, 226, 227, 228, 229, 230, 231, 232, 233, 234, 235, 236, 237, 238, 239,
    240, 241, 242, 243, 244, 245, 246, 247, 248, 249, 250, 251, 252, 253, 254, 255,
};
#define SPEC_HEXVAL(c) (verif_hexval_tab[(uint8_t)(c)])
#define SPEC_LOWER(c) (verif_lower_tab[(uint8_t)(c)])

/* ------------------------------------------------------------------ views over caller memory (no byte is touched) */

struct aws_byte_buf aws_byte_buf_from_array(const void *bytes, size_t len)
__CPROVER_requires(len == 0 || __CPROVER_is_fresh(bytes, len))
__CPROVER_assigns()
__CPROVER_ensures(RET.len == len && RET.capacity == len && RET.allocator == NULL)
__CPROVER_ensures(len == 0 ? RET.buffer == NULL : PEQ(RET.buffer, (uint8_t *)bytes))
;

struct aws_byte_buf aws_byte_buf_from_empty_array(const void *bytes, size_t capacity)
__CPROVER_requires(capacity == 0 || __CPROVER_is_fresh(bytes, capacity))
__CPROVER_assigns()
__CPROVER_ensures(RET.len == 0 && RET.capacity == capacity && RET.allocator == NULL)
__CPROVER_ensures(capacity == 0 ? RET.buffer == NULL : PEQ(RET.buffer, (uint8_t *)bytes))
;

struct aws_byte_buf aws_byte_buf_from_c_str(const char *c_str)
__CPROVER_requires(c_str == NULL || CSTR_OK(c_str))
__CPROVER_assigns()
__CPROVER_ensures(RET.len == (c_str == NULL ? 0 : g_slen) && RET.capacity == RET.len && RET.allocator == NULL)
__CPROVER_ensures(RET.len == 0 ? RET.buffer == NULL : PEQ(RET.buffer, (uint8_t *)c_str))
;

struct aws_byte_cursor aws_byte_cursor_from_buf(const struct aws_byte_buf *const buf)
__CPROVER_requires(BUF_OK(buf))
__CPROVER_assigns()
__CPROVER_ensures(RET.len == buf->len && PEQ(RET.ptr, buf->buffer))
;

struct aws_byte_cursor aws_byte_cursor_from_c_str(const char *c_str)
__CPROVER_requires(c_str == NULL || CSTR_OK(c_str))
__CPROVER_assigns()
__CPROVER_ensures(RET.len == (c_str == NULL ? 0 : g_slen) && PEQ(RET.ptr, (uint8_t *)c_str))
;

struct aws_byte_cursor aws_byte_cursor_from_array(const void *const bytes, const size_t len)
__CPROVER_requires((len == 0 && bytes == NULL) || __CPROVER_is_fresh(bytes, len))
__CPROVER_assigns()
__CPROVER_ensures(RET.len == len && (len == 0 ? RET.ptr == (uint8_t *)bytes : PEQ(RET.ptr, (uint8_t *)bytes)))
;

/* ------------------------------------------------------------------ read_and_fill_buffer / read_hex_u8 / write_to_capacity */

/* fills the WHOLE capacity of dest from the cursor (documented: "reads as many bytes from cursor as size of buffer"):
 * the frame is [0, capacity) of dest, all or nothing. */
bool aws_byte_cursor_read_and_fill_buffer(struct aws_byte_cursor *AWS_RESTRICT cur, struct aws_byte_buf *AWS_RESTRICT dest)
__CPROVER_requires(CUR_OK(cur))
__CPROVER_requires(BUF_OK(dest))
REQ_WITNESS_CUR(cur)
__CPROVER_assigns(dest->capacity == 0 || READ_OK(cur, dest->capacity) : dest->len)
__CPROVER_assigns(dest->capacity > 0 && READ_OK(cur, dest->capacity) : cur->ptr, cur->len, __CPROVER_object_upto(dest->buffer, dest->capacity))
__CPROVER_ensures(RET == (dest->capacity == 0 || ADV_OK_OLD(cur, dest->capacity)))
__CPROVER_ensures(RET ==> dest->len == dest->capacity && cur->len == OLD(cur->len) - dest->capacity &&
                  (dest->capacity > 0 ==> PEQ(cur->ptr, OLD(cur->ptr) + dest->capacity)))
__CPROVER_ensures(!RET ==> dest->len == OLD(dest->len) && cur->len == OLD(cur->len) && PEQ(cur->ptr, OLD(cur->ptr)))
__CPROVER_ensures(BUF_SHAPE_KEPT(dest))
__CPROVER_ensures(g_on && RET && g_j < dest->capacity ==> dest->buffer[g_j] == g_src)
;

#define HEX_OK(c) ((c)->len >= 2 && SPEC_ISHEX((c)->ptr[0]) && SPEC_ISHEX((c)->ptr[1]))
bool aws_byte_cursor_read_hex_u8(struct aws_byte_cursor *cur, uint8_t *var)
__CPROVER_requires(CUR_OK(cur))
__CPROVER_requires(__CPROVER_is_fresh(var, sizeof(*var)))
__CPROVER_assigns(HEX_OK(cur) : *var, cur->ptr, cur->len)
__CPROVER_ensures(RET == (OLD(cur->len) >= 2 && SPEC_ISHEX(OLD(cur->ptr)[0]) && SPEC_ISHEX(OLD(cur->ptr)[1])))
__CPROVER_ensures(RET ==> *var == (uint8_t)((SPEC_HEXVAL(OLD(cur->ptr)[0]) << 4) | SPEC_HEXVAL(OLD(cur->ptr)[1])))
__CPROVER_ensures(RET ==> cur->len == OLD(cur->len) - 2 && PEQ(cur->ptr, OLD(cur->ptr) + 2))
__CPROVER_ensures(!RET ==> *var == OLD(*var) && cur->len == OLD(cur->len) && PEQ(cur->ptr, OLD(cur->ptr)))
;

/* writes min(space left, cursor length) bytes, advances the cursor by as much and returns the view that was written */
#define WTC_SPACE(b) ((b)->capacity - (b)->len)
#define WTC_N(b, c) (WTC_SPACE(b) < (c)->len ? WTC_SPACE(b) : (c)->len)
#define WTC_N_OLD(b, c) (OLD((b)->capacity) - OLD((b)->len) < OLD((c)->len) ? OLD((b)->capacity) - OLD((b)->len) : OLD((c)->len))
struct aws_byte_cursor aws_byte_buf_write_to_capacity(struct aws_byte_buf *buf, struct aws_byte_cursor *advancing_cursor)
__CPROVER_requires(BUF_OK(buf))
__CPROVER_requires(CUR_OK(advancing_cursor))
REQ_WITNESS_BUF(buf)
REQ_WITNESS_CUR(advancing_cursor)
__CPROVER_assigns(advancing_cursor->ptr, advancing_cursor->len)
__CPROVER_assigns(WTC_SPACE(buf) > 0 && advancing_cursor->len > 0 : buf->len)
__CPROVER_assigns(WTC_SPACE(buf) > 0 && advancing_cursor->len > 0 && WTC_SPACE(buf) < advancing_cursor->len : __CPROVER_object_upto(buf->buffer + buf->len, WTC_SPACE(buf)))
__CPROVER_assigns(WTC_SPACE(buf) > 0 && advancing_cursor->len > 0 && WTC_SPACE(buf) >= advancing_cursor->len : __CPROVER_object_upto(buf->buffer + buf->len, advancing_cursor->len))
__CPROVER_ensures(RET.len == WTC_N_OLD(buf, advancing_cursor) && PEQ(RET.ptr, OLD(advancing_cursor->ptr)))
__CPROVER_ensures(advancing_cursor->len == OLD(advancing_cursor->len) - RET.len)
__CPROVER_ensures(PEQ(advancing_cursor->ptr, (OLD(advancing_cursor->ptr) == NULL ? NULL : OLD(advancing_cursor->ptr) + RET.len)))
__CPROVER_ensures(buf->len == OLD(buf->len) + RET.len)
__CPROVER_ensures(BUF_SHAPE_KEPT(buf))
__CPROVER_ensures(g_on && g_j < RET.len ==> buf->buffer[OLD(buf->len) + g_j] == g_src)
ENS_PREFIX_KEPT(buf)
;

/* ------------------------------------------------------------------ ASSUMED contracts of memcmp / memchr
 * (CBMC's library models are unbounded loops).  The existential part of their specification ("there is a first
 * differing / matching byte") is Skolemised: the replaced call reports the position in the ghost g_mm, the universal
 * part ("all bytes before it are equal / differ from c") is stated for the arbitrary witness g_j. */
#define U8P(p) ((const uint8_t *)(p))
int memcmp(const void *s1, const void *s2, size_t n)
__CPROVER_requires(s1 != NULL && s2 != NULL && (n == 0 || (__CPROVER_r_ok(s1, n) && __CPROVER_r_ok(s2, n))))
__CPROVER_assigns(g_mm)
__CPROVER_ensures(RET == 0 ==> (g_j < n ==> U8P(s1)[g_j] == U8P(s2)[g_j]))
__CPROVER_ensures(RET != 0 ==> g_mm < n && U8P(s1)[g_mm] != U8P(s2)[g_mm] && ((RET < 0) == (U8P(s1)[g_mm] < U8P(s2)[g_mm])) &&
                  (g_j < g_mm ==> U8P(s1)[g_j] == U8P(s2)[g_j]))
;
void *memchr(const void *s, int c, size_t n)
__CPROVER_requires(n == 0 || __CPROVER_r_ok(s, n))
__CPROVER_assigns(g_mm)
__CPROVER_ensures(RET == NULL ==> (g_j < n ==> U8P(s)[g_j] != (uint8_t)c))
__CPROVER_ensures(RET != NULL ==> g_mm < n && PEQ(RET, (void *)(U8P(s) + g_mm)) && U8P(s)[g_mm] == (uint8_t)c &&
                  (g_j < g_mm ==> U8P(s)[g_j] != (uint8_t)c))
;

/* ------------------------------------------------------------------ user predicates: an arbitrary pure function of the byte,
 * modelled by the ghost table g_pred (DFCC leaves it nondeterministic: every predicate) */
bool byte_pred_contract(uint8_t value)
__CPROVER_requires(1)
__CPROVER_assigns()
__CPROVER_ensures(RET == g_pred[value])
;
#define PRED_OK(p) __CPROVER_obeys_contract((p), byte_pred_contract)
#define POFF(p) __CPROVER_POINTER_OFFSET(p)

/* result: same start, the longest prefix whose last byte does not satisfy the predicate */
struct aws_byte_cursor aws_byte_cursor_right_trim_pred(const struct aws_byte_cursor *source, aws_byte_predicate_fn *predicate)
__CPROVER_requires(CUR_OK(source))
__CPROVER_requires(PRED_OK(predicate))
__CPROVER_assigns()
__CPROVER_ensures(RET.len <= source->len && PEQ(RET.ptr, source->ptr))
__CPROVER_ensures(RET.len > 0 ==> !g_pred[source->ptr[RET.len - 1]])
__CPROVER_ensures(g_j >= RET.len && g_j < source->len ==> g_pred[source->ptr[g_j]])
;

/* result: same end, the longest suffix whose first byte does not satisfy the predicate */
struct aws_byte_cursor aws_byte_cursor_left_trim_pred(const struct aws_byte_cursor *source, aws_byte_predicate_fn *predicate)
__CPROVER_requires(CUR_OK(source))
__CPROVER_requires(PRED_OK(predicate))
__CPROVER_assigns()
__CPROVER_ensures(RET.len <= source->len)
__CPROVER_ensures(source->len == 0 ? PEQ(RET.ptr, source->ptr) : PEQ(RET.ptr, source->ptr + (source->len - RET.len)))
__CPROVER_ensures(RET.len > 0 ==> !g_pred[source->ptr[source->len - RET.len]])
__CPROVER_ensures(g_j < source->len - RET.len ==> g_pred[source->ptr[g_j]])
;

/* result: a sub-view [o, o + RET.len) of the source; everything before o and after o + RET.len satisfies the predicate,
 * the first and the last byte of a non-empty result do not.  The bytes after the result are indexed from RET.ptr. */
#define TRIM_O (POFF(RET.ptr) - POFF(source->ptr))
struct aws_byte_cursor aws_byte_cursor_trim_pred(const struct aws_byte_cursor *source, aws_byte_predicate_fn *predicate)
__CPROVER_requires(CUR_OK(source))
__CPROVER_requires(PRED_OK(predicate))
__CPROVER_assigns()
__CPROVER_ensures(RET.len <= source->len)
__CPROVER_ensures(source->len == 0 ==> PEQ(RET.ptr, source->ptr))
__CPROVER_ensures(source->len > 0 ==> __CPROVER_same_object(RET.ptr, source->ptr) && POFF(RET.ptr) >= POFF(source->ptr) &&
                  TRIM_O <= source->len && RET.len <= source->len - TRIM_O)
__CPROVER_ensures(RET.len > 0 ==> !g_pred[RET.ptr[0]] && !g_pred[RET.ptr[RET.len - 1]])
__CPROVER_ensures(source->len > 0 && g_j < TRIM_O ==> g_pred[source->ptr[g_j]])
__CPROVER_ensures(source->len > 0 && g_j >= RET.len && g_j < source->len - TRIM_O ==> g_pred[RET.ptr[g_j]])
;

/* true  ==> every byte satisfies the predicate (equivalently: one byte that does not ==> false).
 * "false ==> some byte does not satisfy it" needs an existential and is not stated (see units.json not_decided). */
bool aws_byte_cursor_satisfies_pred(const struct aws_byte_cursor *source, aws_byte_predicate_fn *predicate)
__CPROVER_requires(CUR_OK(source))
__CPROVER_requires(PRED_OK(predicate))
__CPROVER_assigns()
__CPROVER_ensures(RET ==> (g_j < source->len ==> g_pred[source->ptr[g_j]]))
__CPROVER_ensures(source->len == 0 ==> RET)
;

/* ------------------------------------------------------------------ equality / comparison
 * Shape of the postconditions (no quantifiers):
 *   true  ==> lengths equal and byte g_j (arbitrary witness) equal            [= "one differing byte ==> false"]
 *   false ==> lengths differ, or the byte at the reported position g_mm differs   (memcmp-based functions only: the
 *             position comes out of the assumed memcmp contract; for the hand-written loops the existential
 *             "false ==> some byte differs" is NOT stated, see units.json not_decided and the bounded unit eq_loops_bounded)
 */
#define ARR_OK(p, n) (((n) == 0 && (p) == NULL) || __CPROVER_is_fresh((p), (n)))

bool aws_array_eq(const void *const array_a, const size_t len_a, const void *const array_b, const size_t len_b)
__CPROVER_requires(ARR_OK(array_a, len_a))
__CPROVER_requires(ARR_OK(array_b, len_b))
__CPROVER_assigns(g_mm)
__CPROVER_ensures(RET ==> len_a == len_b && (g_j < len_a ==> U8P(array_a)[g_j] == U8P(array_b)[g_j]))
__CPROVER_ensures(!RET ==> len_a != len_b || (g_mm < len_a && U8P(array_a)[g_mm] != U8P(array_b)[g_mm]))
;

bool aws_array_eq_ignore_case(const void *const array_a, const size_t len_a, const void *const array_b, const size_t len_b)
__CPROVER_requires(ARR_OK(array_a, len_a))
__CPROVER_requires(ARR_OK(array_b, len_b))
__CPROVER_assigns()
__CPROVER_ensures(RET ==> len_a == len_b && (g_j < len_a ==> SPEC_LOWER(U8P(array_a)[g_j]) == SPEC_LOWER(U8P(array_b)[g_j])))
__CPROVER_ensures(len_a == 0 && len_b == 0 ==> RET)
__CPROVER_ensures(len_a == len_b && len_a > 0 && SPEC_LOWER(U8P(array_a)[0]) != SPEC_LOWER(U8P(array_b)[0]) ==> !RET)
;

/* c_str is a C string of length g_slen.  true ==> array_len == g_slen and every byte equal.  "array_len >= g_slen" is
 * obtained by instantiating the witness g_sw (position without NUL) with array_len. */
bool aws_array_eq_c_str(const void *const array, const size_t array_len, const char *const c_str)
__CPROVER_requires(ARR_OK(array, array_len))
__CPROVER_requires(CSTR_OK(c_str))
__CPROVER_assigns()
__CPROVER_ensures(RET ==> array_len <= g_slen && !(g_sw == array_len && array_len < g_slen))
__CPROVER_ensures(RET ==> (g_j < array_len ==> U8P(array)[g_j] == U8P(c_str)[g_j]))
__CPROVER_ensures(array_len == 0 && g_slen == 0 ==> RET)
;

bool aws_array_eq_c_str_ignore_case(const void *const array, const size_t array_len, const char *const c_str)
__CPROVER_requires(ARR_OK(array, array_len))
__CPROVER_requires(CSTR_OK(c_str))
__CPROVER_assigns()
__CPROVER_ensures(RET ==> array_len <= g_slen && !(g_sw == array_len && array_len < g_slen))
__CPROVER_ensures(RET ==> (g_j < array_len ==> SPEC_LOWER(U8P(array)[g_j]) == SPEC_LOWER(U8P(c_str)[g_j])))
__CPROVER_ensures(array_len == 0 && g_slen == 0 ==> RET)
;

#define EQ_EXACT(pa, la, pb, lb)                                                                                       \
    __CPROVER_assigns(g_mm)                                                                                            \
    __CPROVER_ensures(RET ==> (la) == (lb) && (g_j < (la) ==> (pa)[g_j] == (pb)[g_j]))                                  \
    __CPROVER_ensures(!RET ==> (la) != (lb) || (g_mm < (la) && (pa)[g_mm] != (pb)[g_mm]))
#define EQ_NOCASE(pa, la, pb, lb)                                                                                      \
    __CPROVER_assigns()                                                                                                \
    __CPROVER_ensures(RET ==> (la) == (lb) && (g_j < (la) ==> SPEC_LOWER((pa)[g_j]) == SPEC_LOWER((pb)[g_j])))          \
    __CPROVER_ensures((la) == 0 && (lb) == 0 ==> RET)
#define EQ_CSTR(pa, la, FOLD)                                                                                          \
    __CPROVER_requires(CSTR_OK(c_str))                                                                                 \
    __CPROVER_assigns()                                                                                                \
    __CPROVER_ensures(RET ==> (la) <= g_slen && !(g_sw == (la) && (la) < g_slen))                                      \
    __CPROVER_ensures(RET ==> (g_j < (la) ==> FOLD((pa)[g_j]) == FOLD(U8P(c_str)[g_j])))                               \
    __CPROVER_ensures((la) == 0 && g_slen == 0 ==> RET)
#define SPEC_ID(c) (c)

bool aws_byte_cursor_eq(const struct aws_byte_cursor *a, const struct aws_byte_cursor *b)
__CPROVER_requires(CUR_OK(a) && CUR_OK(b))
EQ_EXACT(a->ptr, a->len, b->ptr, b->len)
;
bool aws_byte_cursor_eq_ignore_case(const struct aws_byte_cursor *a, const struct aws_byte_cursor *b)
__CPROVER_requires(CUR_OK(a) && CUR_OK(b))
EQ_NOCASE(a->ptr, a->len, b->ptr, b->len)
;
bool aws_byte_buf_eq(const struct aws_byte_buf *const a, const struct aws_byte_buf *const b)
__CPROVER_requires(BUF_OK(a) && BUF_OK(b))
EQ_EXACT(a->buffer, a->len, b->buffer, b->len)
;
bool aws_byte_buf_eq_ignore_case(const struct aws_byte_buf *const a, const struct aws_byte_buf *const b)
__CPROVER_requires(BUF_OK(a) && BUF_OK(b))
EQ_NOCASE(a->buffer, a->len, b->buffer, b->len)
;
bool aws_byte_buf_eq_c_str(const struct aws_byte_buf *const buf, const char *const c_str)
__CPROVER_requires(BUF_OK(buf))
EQ_CSTR(buf->buffer, buf->len, SPEC_ID)
;
bool aws_byte_buf_eq_c_str_ignore_case(const struct aws_byte_buf *const buf, const char *const c_str)
__CPROVER_requires(BUF_OK(buf))
EQ_CSTR(buf->buffer, buf->len, SPEC_LOWER)
;
bool aws_byte_cursor_eq_byte_buf(const struct aws_byte_cursor *const a, const struct aws_byte_buf *const b)
__CPROVER_requires(CUR_OK(a) && BUF_OK(b))
EQ_EXACT(a->ptr, a->len, b->buffer, b->len)
;
bool aws_byte_cursor_eq_byte_buf_ignore_case(const struct aws_byte_cursor *const a, const struct aws_byte_buf *const b)
__CPROVER_requires(CUR_OK(a) && BUF_OK(b))
EQ_NOCASE(a->ptr, a->len, b->buffer, b->len)
;
bool aws_byte_cursor_eq_c_str(const struct aws_byte_cursor *const cursor, const char *const c_str)
__CPROVER_requires(CUR_OK(cursor))
EQ_CSTR(cursor->ptr, cursor->len, SPEC_ID)
;
bool aws_byte_cursor_eq_c_str_ignore_case(const struct aws_byte_cursor *const cursor, const char *const c_str)
__CPROVER_requires(CUR_OK(cursor))
EQ_CSTR(cursor->ptr, cursor->len, SPEC_LOWER)
;

bool aws_byte_cursor_starts_with(const struct aws_byte_cursor *input, const struct aws_byte_cursor *prefix)
__CPROVER_requires(CUR_OK(input) && CUR_OK(prefix))
__CPROVER_assigns(g_mm)
__CPROVER_ensures(RET ==> prefix->len <= input->len && (g_j < prefix->len ==> input->ptr[g_j] == prefix->ptr[g_j]))
__CPROVER_ensures(!RET ==> prefix->len > input->len || (g_mm < prefix->len && input->ptr[g_mm] != prefix->ptr[g_mm]))
;
bool aws_byte_cursor_starts_with_ignore_case(const struct aws_byte_cursor *input, const struct aws_byte_cursor *prefix)
__CPROVER_requires(CUR_OK(input) && CUR_OK(prefix))
__CPROVER_assigns()
__CPROVER_ensures(RET ==> prefix->len <= input->len && (g_j < prefix->len ==> SPEC_LOWER(input->ptr[g_j]) == SPEC_LOWER(prefix->ptr[g_j])))
__CPROVER_ensures(prefix->len == 0 ==> RET)
;

/* memcmp order, then the shorter one first.  0 <==> equal; the sign follows the first differing byte (position g_mm
 * reported by the assumed memcmp contract) or, when one is a prefix of the other, the lengths. */
#define CL_MIN (lhs->len < rhs->len ? lhs->len : rhs->len)
int aws_byte_cursor_compare_lexical(const struct aws_byte_cursor *lhs, const struct aws_byte_cursor *rhs)
__CPROVER_requires(__CPROVER_is_fresh(lhs, sizeof(*lhs)) && __CPROVER_is_fresh(lhs->ptr, lhs->len))
__CPROVER_requires(__CPROVER_is_fresh(rhs, sizeof(*rhs)) && __CPROVER_is_fresh(rhs->ptr, rhs->len))
__CPROVER_assigns(g_mm)
__CPROVER_ensures(RET == 0 ==> lhs->len == rhs->len && (g_j < lhs->len ==> lhs->ptr[g_j] == rhs->ptr[g_j]))
__CPROVER_ensures(RET != 0 ==>
    (g_mm < CL_MIN && lhs->ptr[g_mm] != rhs->ptr[g_mm] && ((RET < 0) == (lhs->ptr[g_mm] < rhs->ptr[g_mm])) &&
     (g_j < g_mm ==> lhs->ptr[g_j] == rhs->ptr[g_j])) ||
    (lhs->len != rhs->len && ((RET < 0) == (lhs->len < rhs->len)) && (RET == -1 || RET == 1) &&
     (g_j < CL_MIN ==> lhs->ptr[g_j] == rhs->ptr[g_j])))
;

/* order of the bytes mapped through lookup_table.  0 ==> equal lengths and every mapped byte equal; -1/0/1 only; the
 * cases decided by an empty side or by the first byte are exact.  "sign follows the FIRST differing byte" in general
 * needs an existential and is not stated. */
int aws_byte_cursor_compare_lookup(const struct aws_byte_cursor *lhs, const struct aws_byte_cursor *rhs, const uint8_t *lookup_table)
__CPROVER_requires(CUR_OK(lhs) && CUR_OK(rhs))
__CPROVER_requires(__CPROVER_is_fresh(lookup_table, 256))
__CPROVER_assigns()
__CPROVER_ensures(RET == -1 || RET == 0 || RET == 1)
__CPROVER_ensures(RET == 0 ==> lhs->len == rhs->len && (g_j < lhs->len ==> lookup_table[lhs->ptr[g_j]] == lookup_table[rhs->ptr[g_j]]))
__CPROVER_ensures(lhs->len == 0 ==> RET == (rhs->len == 0 ? 0 : -1))
__CPROVER_ensures(rhs->len == 0 && lhs->len > 0 ==> RET == 1)
__CPROVER_ensures(lhs->len > 0 && rhs->len > 0 && lookup_table[lhs->ptr[0]] != lookup_table[rhs->ptr[0]] ==>
                  RET == (lookup_table[lhs->ptr[0]] < lookup_table[rhs->ptr[0]] ? -1 : 1))
;

/* memory safety and frame only */
uint64_t aws_hash_array_ignore_case(const void *array, const size_t len)
__CPROVER_requires(ARR_OK(array, len))
__CPROVER_assigns()
__CPROVER_ensures(len == 0 ==> RET == 0xcbf29ce484222325ULL)
;
uint64_t aws_hash_byte_cursor_ptr_ignore_case(const void *item)
__CPROVER_requires(CUR_OK((const struct aws_byte_cursor *)item))
__CPROVER_assigns()
__CPROVER_ensures(1)
;

/* ------------------------------------------------------------------ splitting / searching
 * Results are sub-views of the input: stated position-wise (PEQ to input->ptr + offset, so that a caller of the
 * replaced contract can keep "the view lies inside the input"). */
#define VIEW_OFF(input, p) ((size_t)(POFF(p) - POFF((input)->ptr)))
/* view {p, n} lies inside the input view */
#define VIEW_IN(input, p, n)                                                                                           \
    (__CPROVER_same_object((p), (input)->ptr) && POFF(p) >= POFF((input)->ptr) && VIEW_OFF(input, p) <= (input)->len && \
     (n) <= (input)->len - VIEW_OFF(input, p))

/* substr is zeroed before the first call; afterwards it is the previous piece (a view inside input).  For an input
 * without storage (NULL, 0) the first call hands out an empty piece with some non-NULL pointer, the second ends. */
/* When the previous piece ends exactly at the end of the input, line 229 forms input_end + 1 (two past the end of an
 * object of exactly input->len bytes) before comparing it with input_end: formally undefined pointer arithmetic, flagged by
 * CBMC's pointer checks although no byte is accessed.  The enforcing proof is therefore split in two units that together
 * cover every input: next_split (storage of exactly len bytes, every other case) and next_split_end (that case alone, with
 * one addressable byte after the view, as for a view into a C string; the path returns without any dereference). */
#if defined(VERIF_NEXT_SPLIT_END)
#    define NS_INPUT __CPROVER_requires(__CPROVER_is_fresh(input_str, sizeof(*input_str)) && input_str->len < VERIF_HUGE && __CPROVER_is_fresh(input_str->ptr, input_str->len + 1))
#    define NS_CASE __CPROVER_requires(substr->ptr != NULL && VIEW_OFF(input_str, substr->ptr) + substr->len == input_str->len)
#elif defined(VERIF_NEXT_SPLIT_NOT_END)
#    define NS_INPUT __CPROVER_requires(CUR_OK(input_str))
#    define NS_CASE __CPROVER_requires(!(substr->ptr != NULL && input_str->ptr != NULL && VIEW_OFF(input_str, substr->ptr) + substr->len == input_str->len))
#else
#    define NS_INPUT __CPROVER_requires(CUR_OK(input_str))
#    define NS_CASE
#endif
bool aws_byte_cursor_next_split(const struct aws_byte_cursor *AWS_RESTRICT input_str, char split_on, struct aws_byte_cursor *AWS_RESTRICT substr)
NS_INPUT
__CPROVER_requires(__CPROVER_is_fresh(substr, sizeof(*substr)))
__CPROVER_requires(substr->ptr == NULL ||
                   (input_str->ptr == NULL && substr->len == 0 && __CPROVER_is_fresh(substr->ptr, 1)) ||
                   (input_str->ptr != NULL && __CPROVER_pointer_in_range_dfcc(input_str->ptr, substr->ptr, input_str->ptr + input_str->len) &&
                    substr->len <= input_str->len - VIEW_OFF(input_str, substr->ptr)))
NS_CASE
__CPROVER_assigns(*substr, g_mm)
/* exact result: false when the previous piece ended at the end of the input (or the input has no storage) */
__CPROVER_ensures(RET == (OLD(substr->ptr) == NULL ||
                          (input_str->ptr != NULL && VIEW_OFF(input_str, OLD(substr->ptr)) + OLD(substr->len) < input_str->len)))
__CPROVER_ensures(!RET ==> substr->ptr == NULL && substr->len == 0)
__CPROVER_ensures(RET && input_str->ptr == NULL ==> substr->len == 0 && __CPROVER_is_fresh(substr->ptr, 1))
__CPROVER_ensures(RET && input_str->ptr != NULL && OLD(substr->ptr) == NULL ==> PEQ(substr->ptr, input_str->ptr))
__CPROVER_ensures(RET && input_str->ptr != NULL && OLD(substr->ptr) != NULL ==> PEQ(substr->ptr, OLD(substr->ptr) + (OLD(substr->len) + 1)))
__CPROVER_ensures(RET && input_str->ptr != NULL ==> VIEW_IN(input_str, substr->ptr, substr->len))
/* the piece contains no split character and is followed by one unless it ends the input */
__CPROVER_ensures(RET && g_j < substr->len ==> substr->ptr[g_j] != (uint8_t)split_on)
__CPROVER_ensures(RET && input_str->ptr != NULL && VIEW_OFF(input_str, substr->ptr) + substr->len < input_str->len ==>
                  substr->ptr[substr->len] == (uint8_t)split_on)
;

/* ASSUMED local contract of aws_array_list_push_back (proved in property C09 with a different header): may grow the
 * list, appends one element or fails, touches only the list and its storage. */
int c01_push_back_contract(struct aws_array_list *AWS_RESTRICT list, const void *val)
__CPROVER_requires(__CPROVER_rw_ok(list, sizeof(*list)) && list->item_size > 0 && __CPROVER_r_ok(val, list->item_size))
__CPROVER_requires(list->data == NULL ? list->current_size == 0 : __CPROVER_rw_ok(list->data, list->current_size))
__CPROVER_assigns(list->length, list->data, list->current_size)
__CPROVER_assigns(list->data != NULL : __CPROVER_object_whole(list->data))
/* no frees clause: a frees clause of a contract replaced inside a loop that has a loop contract sends CBMC 6.11's symex into an
 * unbounded unwinding of __CPROVER_contracts_write_set_deallocate_freeable; the old storage of a grown list therefore stays
 * allocated in the model (the caller never touches the storage, so no use-after-free can hide behind this) */
__CPROVER_ensures(RET == AWS_OP_SUCCESS || RET == AWS_OP_ERR)
__CPROVER_ensures(list->length == OLD(list->length) + (RET == AWS_OP_SUCCESS ? 1 : 0))
__CPROVER_ensures(list->current_size >= OLD(list->current_size))
__CPROVER_ensures((list->current_size == OLD(list->current_size) && PEQ(list->data, OLD(list->data))) ||
                  (list->alloc != NULL && __CPROVER_is_fresh(list->data, list->current_size)))
;

/* one of the two multi-part operations of the property (may stop part-way when the list fills up):
 * validity + frame + count.  Only the list is written; the input is read only inside its length.
 * NOT ENFORCED: CBMC 6.11 does not finish the proof of aws_byte_cursor_split_on_char_n against this contract (loop contract in
 * overlay/byte_buf.loops, next_split and push_back replaced): the contract is ASSUMED by unit split_on_char; bounded evidence
 * in unit split_bounded. */
#define LIST_OK(l)                                                                                                     \
    (__CPROVER_is_fresh((l), sizeof(*(l))) && (l)->item_size >= sizeof(struct aws_byte_cursor) &&                      \
     ((l)->current_size == 0 ? (l)->data == NULL : __CPROVER_is_fresh((l)->data, (l)->current_size)))
int aws_byte_cursor_split_on_char_n(const struct aws_byte_cursor *AWS_RESTRICT input_str, char split_on, size_t n, struct aws_array_list *AWS_RESTRICT output)
__CPROVER_requires(CUR_OK(input_str))
__CPROVER_requires(LIST_OK(output))
__CPROVER_assigns(g_mm, output->length, output->data, output->current_size)
__CPROVER_assigns(output->data != NULL : __CPROVER_object_whole(output->data))
__CPROVER_frees(output->alloc != NULL : output->data)
__CPROVER_ensures(RET == AWS_OP_SUCCESS || RET == AWS_OP_ERR)
__CPROVER_ensures(output->length >= OLD(output->length))
__CPROVER_ensures(RET == AWS_OP_SUCCESS ==> output->length >= OLD(output->length) + 1)
__CPROVER_ensures(n > 0 && n < SIZE_MAX ==> output->length - OLD(output->length) <= n + 1)
__CPROVER_ensures(output->current_size >= OLD(output->current_size))
;
int aws_byte_cursor_split_on_char(const struct aws_byte_cursor *AWS_RESTRICT input_str, char split_on, struct aws_array_list *AWS_RESTRICT output)
__CPROVER_requires(CUR_OK(input_str))
__CPROVER_requires(LIST_OK(output))
__CPROVER_assigns(g_mm, output->length, output->data, output->current_size)
__CPROVER_assigns(output->data != NULL : __CPROVER_object_whole(output->data))
__CPROVER_frees(output->alloc != NULL : output->data)
__CPROVER_ensures(RET == AWS_OP_SUCCESS || RET == AWS_OP_ERR)
__CPROVER_ensures(output->length >= OLD(output->length))
__CPROVER_ensures(RET == AWS_OP_SUCCESS ==> output->length >= OLD(output->length) + 1)
__CPROVER_ensures(output->current_size >= OLD(output->current_size))
;

/* success: *first_find is the suffix of the input that starts with to_find; failure: *first_find untouched.
 * Not stated (existential / universal over positions): that it is the FIRST occurrence, and that a reported
 * "not found" means there is none. */
int aws_byte_cursor_find_exact(const struct aws_byte_cursor *AWS_RESTRICT input_str, const struct aws_byte_cursor *AWS_RESTRICT to_find, struct aws_byte_cursor *first_find)
__CPROVER_requires(CUR_OK(input_str) && CUR_OK(to_find))
__CPROVER_requires(__CPROVER_is_fresh(first_find, sizeof(*first_find)))
__CPROVER_assigns(g_mm)
__CPROVER_assigns(to_find->len >= 1 && to_find->len <= input_str->len : *first_find)
__CPROVER_ensures(RET == AWS_OP_SUCCESS || RET == AWS_OP_ERR)
__CPROVER_ensures(to_find->len == 0 || to_find->len > input_str->len ==> RET == AWS_OP_ERR)
__CPROVER_ensures(RET == AWS_OP_ERR ==> first_find->ptr == OLD(first_find->ptr) && first_find->len == OLD(first_find->len))
__CPROVER_ensures(RET == AWS_OP_SUCCESS ==> first_find->len >= to_find->len && first_find->len <= input_str->len &&
                  PEQ(first_find->ptr, input_str->ptr + (input_str->len - first_find->len)))
__CPROVER_ensures(RET == AWS_OP_SUCCESS && g_j < to_find->len ==> first_find->ptr[g_j] == to_find->ptr[g_j])
;

/* ------------------------------------------------------------------ number parsing
 * The cursor is passed by value (nothing of the caller's view can change).  On every failure *dst is 0 (the code zeroes
 * it first and stores the result only at the end), never a half-computed value.
 *   success ==> non-empty and every byte is a digit of the base              [= one bad digit ==> failure]
 *   base 16 : the value is given digit by digit (nibble p of *dst is the digit p places from the right; digits more
 *             than 16 places from the right are 0): complete characterisation of the value
 *   base 10 : last digit == *dst % 10, one-digit strings exact; the full value is compared with a reference
 *             implementation for all strings of up to 21 characters in the bounded unit parse_u64_bounded
 * Not stated (needs the universal "all digits valid and the value fits" as a hypothesis): that such a string is accepted. */
#define RU_PLACE (cursor.len - 1 - g_j)
#ifdef VERIF_RU_NO_VALUE
#define RU_VALUE_CLAUSES(BASE)
#else
#define RU_VALUE_CLAUSES(BASE) \
    __CPROVER_ensures(RET == AWS_OP_SUCCESS && (BASE) == 10 ==> *dst % 10 == SPEC_HEXVAL(cursor.ptr[cursor.len - 1]))  \
    __CPROVER_ensures(RET == AWS_OP_SUCCESS && (BASE) == 16 && g_j < cursor.len ==>                                    \
                      (RU_PLACE >= 16 ? SPEC_HEXVAL(cursor.ptr[g_j]) == 0                                              \
                                      : ((*dst >> (4 * RU_PLACE)) & 0xF) == SPEC_HEXVAL(cursor.ptr[g_j])))
#endif
#define READ_UNSIGNED_CONTRACT(BASE)                                                                                   \
    __CPROVER_requires((cursor.len == 0 && cursor.ptr == NULL) || __CPROVER_is_fresh(cursor.ptr, cursor.len))          \
    __CPROVER_requires(__CPROVER_is_fresh(dst, sizeof(*dst)))                                                          \
    __CPROVER_assigns(*dst)                                                                                            \
    __CPROVER_ensures(RET == AWS_OP_SUCCESS || RET == AWS_OP_ERR)                                                      \
    __CPROVER_ensures(cursor.len == 0 ==> RET == AWS_OP_ERR)                                                           \
    __CPROVER_ensures(RET != AWS_OP_SUCCESS ==> *dst == 0)                                                             \
    __CPROVER_ensures(RET == AWS_OP_SUCCESS ==> cursor.len > 0 && (g_j < cursor.len ==> SPEC_HEXVAL(cursor.ptr[g_j]) < (BASE))) \
    __CPROVER_ensures(RET == AWS_OP_SUCCESS && cursor.len == 1 ==> *dst == SPEC_HEXVAL(cursor.ptr[0]))                 \
    RU_VALUE_CLAUSES(BASE)

static int s_read_unsigned(struct aws_byte_cursor cursor, uint64_t *dst, uint8_t base)
__CPROVER_requires(base == 10 || base == 16)
READ_UNSIGNED_CONTRACT(base)
;
int aws_byte_cursor_utf8_parse_u64(struct aws_byte_cursor cursor, uint64_t *dst)
READ_UNSIGNED_CONTRACT(10)
;
int aws_byte_cursor_utf8_parse_u64_hex(struct aws_byte_cursor cursor, uint64_t *dst)
READ_UNSIGNED_CONTRACT(16)
;

/* appends one 0 byte, growing when full (aws_byte_buf_append_dynamic with the file-static cursor "\0"; the harness has
 * to give that static its initial value because DFCC makes every mutable static nondeterministic) */
int aws_byte_buf_append_null_terminator(struct aws_byte_buf *buf)
__CPROVER_requires(BUF_OK(buf) && buf->allocator != NULL)
REQ_WITNESS_BUF(buf)
__CPROVER_requires(g_on ==> (g_j < 1 ==> g_src == 0))
__CPROVER_assigns(buf->len < SIZE_MAX : buf->len, buf->buffer, buf->capacity)
__CPROVER_assigns(buf->len < buf->capacity : __CPROVER_object_upto(buf->buffer + buf->len, 1))
__CPROVER_assigns(buf->len < SIZE_MAX && buf->len == buf->capacity && buf->capacity > 0 : __CPROVER_object_upto(buf->buffer, buf->capacity))
__CPROVER_frees(buf->len < SIZE_MAX && buf->len == buf->capacity : buf->buffer)
__CPROVER_ensures(RET == AWS_OP_SUCCESS || RET == AWS_OP_ERR)
__CPROVER_ensures((RET == AWS_OP_SUCCESS) == (OLD(buf->len) < SIZE_MAX))
__CPROVER_ensures(RET != AWS_OP_SUCCESS ==> buf->len == OLD(buf->len) && buf->capacity == OLD(buf->capacity) && PEQ(buf->buffer, OLD(buf->buffer)))
__CPROVER_ensures(RET == AWS_OP_SUCCESS && OLD(buf->len) < OLD(buf->capacity) ==> buf->capacity == OLD(buf->capacity) && PEQ(buf->buffer, OLD(buf->buffer)))
__CPROVER_ensures(RET == AWS_OP_SUCCESS && OLD(buf->len) == OLD(buf->capacity) ==> buf->capacity > OLD(buf->capacity) && __CPROVER_is_fresh(buf->buffer, buf->capacity))
__CPROVER_ensures(buf->allocator == OLD(buf->allocator))
__CPROVER_ensures(RET == AWS_OP_SUCCESS ==> buf->len == OLD(buf->len) + 1 && buf->len <= buf->capacity)
__CPROVER_ensures(g_on && RET == AWS_OP_SUCCESS && g_j < 1 ==> buf->buffer[OLD(buf->len) + g_j] == 0)
__CPROVER_ensures(g_on && RET == AWS_OP_SUCCESS && g_k < OLD(buf->len) ==> buf->buffer[g_k] == g_old)
;

#endif
