/* Function contracts for source/priority_queue.c (property C06).
 *
 * Level: BOUNDED in the queue length (VERIF_PQ_N elements), per element size (VERIF_ITEM_SIZE, instantiated with 8 and
 * 136 = beyond the 128-byte swap slice), inductive over histories: every operation is checked from EVERY state that
 * satisfies the representation invariant PQ_INV (not from scripted histories) and must re-establish it, so the result
 * covers all operation sequences that stay within the bound.
 *
 * Representation invariant  PQ_INV(q) = PQ_STATE(q) && PQ_HO(q)
 *   PQ_SHAPE   container: item_size == ISZ, length <= N, length*ISZ <= current_size == cap*ISZ, storage valid,
 *              static (alloc == NULL, cap >= 1, never any handle array) or dynamic (alloc == the ghost allocator);
 *              handle array ("backpointers"): all-zero struct, or live: item_size == 8, same allocator, same length as
 *              the container, storage valid and >= 1 slot
 *   PQ_HANDLES handle array live ==> for every slot i < length: bp[i] == NULL, or bp[i] points to a node of the ghost
 *              handle pool g_nodes[] and bp[i]->current_index == i            ("handles always track their element")
 *   PQ_HO      heap order: rank(a[parent(i)]) <= rank(a[i]) for every 1 <= i < length
 * "for every i" is an explicit conjunction over the N slots (no quantifier reaches the SAT back end, no spec loops).
 *
 * Comparator (DESIGN §4.6): pq_rank_cmp orders elements by the first byte of the element (the key), ascending or
 * descending (nondeterministic g_desc: min-heap and max-heap use of the queue).  The remaining ISZ-1 bytes are payload
 * the comparator does not look at; elements with equal keys and different payloads are the "duplicates" (ties).
 * (An arbitrary 256-entry rank table - every total preorder of the keys - was tried: heap-order obligations then do not
 * finish.)
 *
 * Abstract view and ghost witnesses (DESIGN §4.3/§4.4), switched on by g_on, pinned to the pre-state in `requires`:
 *   g_pj                     arbitrary byte position inside an element
 *   g_ki,g_ki_key,g_ki_b,g_ki_bp   arbitrary slot: its element (key, byte g_pj) and its handle pointer before the call
 *   g_pos                    CURSOR: the slot that currently holds the element that was in slot g_ki before the call.
 *                            "contents equal a reference multiset" is stated pointwise: after the call the element (and
 *                            handle) of the arbitrary old slot g_ki is in slot g_pos, unless it is the one taken out; the
 *                            pushed element is followed the same way (g_ki == old length).  The cursor is moved only at
 *                            the element swap (ghost hook around the call of aws_array_list_swap in s_swap, see the
 *                            unit), as the image under the transposition (a b); old slot -> new slot is therefore a
 *                            composition of transpositions (a bijection), which is what makes the pointwise statement a
 *                            multiset statement.  That the cursor slot really holds the ghost element afterwards is an
 *                            obligation, not an assumption.  (Counting formulations - "number of stored elements of a
 *                            class is unchanged" - were tried and are out of reach of the SAT back end even for one
 *                            symbolic swap of 7 elements.)
 *   g_h,g_h_idx,g_h_inq,g_h_key,g_h_b   arbitrary handle of the pool: its index field, whether it is in the queue,
 *                            and the element (key, byte g_pj) it identifies before the call
 *   g_out,g_out_b            arbitrary byte of the element storage: "storage outside the live elements untouched"
 *   g0_*                     pre-state values of the struct fields (instead of __CPROVER_old, see below)
 * A handle h is "in the queue" iff  bp live && g_nodes[h].current_index < length && bp[current_index] == &g_nodes[h].
 *
 * HOW THE CONTRACTS ARE DISCHARGED.  Each contract is a clause list  PQ_C_<function>(REQ, ENS, args..)  that is used twice:
 *   - as a CBMC function contract on the re-declaration below (REQ -> __CPROVER_requires, ENS -> __CPROVER_ensures), and
 *   - in the proof unit as assume(requires); call the REAL function; assert(ensures)  (REQ -> assume, ENS -> named assert).
 * DFCC enforcement (--enforce-contract) of these contracts was measured: the instrumented formula is 5-10 times larger
 * and no unit except s_swap finished within 15 minutes at 7 elements, so the deciding step is the assume/assert form
 * of the SAME clause text (as DESIGN §5/C02 anticipates).  Consequently the `assigns` clauses below are NOT checked by
 * DFCC; the frame is stated as explicit postconditions instead (struct fields via g0_*, storage via g_out, handles via
 * g_h, slots via g_ki).  Pre-state values are pinned ghost variables, so the same text works in both forms.
 * The proof units build the pre-state in the harness (concrete objects, nondeterministic sizes/contents/handle
 * assignment); the requires clauses cut it down to PQ_INV.  All real callees (sift, swap, the inline array-list functions,
 * aws_array_list_swap/mem_swap) are inlined; only the allocator entry points and the error slot are modelled.
 */
#ifndef VERIF_CONTRACTS_PRIORITY_QUEUE_H
#define VERIF_CONTRACTS_PRIORITY_QUEUE_H
#ifndef VERIF_TRACK_ERRORS
#    error "contracts/priority_queue.h needs VERIF_TRACK_ERRORS"
#endif
#include "contracts/array_list.h" /* ISZ, RET/OLD/PEQ, allocator contracts, AL_ERR_FRAME */
#include <aws/common/priority_queue.h>

#ifndef VERIF_PQ_N
#    define VERIF_PQ_N 7
#endif
#define PQN ((size_t)(VERIF_PQ_N))
#define PQK (VERIF_PQ_N + 1) /* handle pool: one handle per slot plus one that is never in the queue */
/* capacity bound (elements / handle slots) of the pre-state.  2N: the set {length <= N, capacity <= 2N} is closed under
 * every operation that keeps length <= N (storage grows only when length == capacity < N, to at most 2N-2). */
#ifdef VERIF_PQ_CAPMAX
#    define PQ_CAPMAX ((size_t)(VERIF_PQ_CAPMAX))
#else
#    define PQ_CAPMAX (2 * PQN)
#endif
#define PQ_PSZ (sizeof(struct aws_priority_queue_node *))

#if VERIF_PQ_N == 3
#    define PQ_ALL(M, q, x) (M(q, x, 0) && M(q, x, 1) && M(q, x, 2))
#elif VERIF_PQ_N == 7
#    define PQ_ALL(M, q, x) (M(q, x, 0) && M(q, x, 1) && M(q, x, 2) && M(q, x, 3) && M(q, x, 4) && M(q, x, 5) && M(q, x, 6))
#elif VERIF_PQ_N == 15
#    define PQ_ALL(M, q, x)                                                                                            \
        (M(q, x, 0) && M(q, x, 1) && M(q, x, 2) && M(q, x, 3) && M(q, x, 4) && M(q, x, 5) && M(q, x, 6) && M(q, x, 7) && \
         M(q, x, 8) && M(q, x, 9) && M(q, x, 10) && M(q, x, 11) && M(q, x, 12) && M(q, x, 13) && M(q, x, 14))
#else
#    error "VERIF_PQ_N must be 3, 7 or 15 (complete binary tree of depth 2, 3 or 4)"
#endif

/* ---- ghost state ---- */
bool g_desc;                                 /* comparator: descending instead of ascending order of the key byte */
bool g_boolcmp;                              /* comparator style: the header allows "positive if b has higher priority, otherwise
                                              * negative OR ZERO", i.e. also `return a > b;` (0/1 only, never negative) */
struct aws_priority_queue_node g_nodes[PQK]; /* handle pool (arena, DESIGN §4.5) */
struct aws_allocator g_pq_alloc;             /* the allocator of dynamic queues (only its address matters) */
size_t g_pj;
size_t g_ki, g_pos;
uint8_t g_ki_key, g_ki_b;
struct aws_priority_queue_node *g_ki_bp;
size_t g_h, g_h_idx;
bool g_h_inq;
uint8_t g_h_key, g_h_b;
size_t g_out;
uint8_t g_out_b;
bool g_moved; /* sift: whether the element has to move */
/* pre-state of the struct fields */
size_t g0_len, g0_cur, g0_bpcur, g0_idx;
int g0_raise;
void *g0_data, *g0_bpdata;
struct aws_allocator *g0_alloc;

#define PQ_RANKOF(k) ((uint8_t)(g_desc ? ~(k) : (k)))
int pq_rank_cmp(const void *a, const void *b) {
    int ra = PQ_RANKOF(*(const uint8_t *)a), rb = PQ_RANKOF(*(const uint8_t *)b);
    return g_boolcmp ? (ra > rb) : ra - rb;
}

/* ---- accessors ---- */
#define PQ_LEN(q) ((q)->container.length)
#define PQ_CUR(q) ((q)->container.current_size)
#define PQ_DATA(q) ((uint8_t *)(q)->container.data)
#define PQ_B(q, i, j) (PQ_DATA(q)[(i) * ISZ + (j)])
#define PQ_KEY(q, i) PQ_B(q, i, 0)
#define PQ_RANK(q, i) PQ_RANKOF(PQ_KEY(q, i))
/* The handle array.  Every read through PQ_BPA below is guarded by PQ_BP_LIVE(q).  CBMC's symbolic execution still
 * dereferences the guarded expression, and a dereference of NULL (queue without handle array) costs a fresh "failed
 * object" symbol each time (quadratic: a 7-slot unit spends 4 minutes there).  Units whose queue has no handle array
 * before and after the call (the ensures clauses say so: backpointers.data stays NULL) are therefore compiled with
 * VERIF_PQ_NO_HANDLES, which routes the guarded-away reads to a dummy array; units in which the call creates the handle
 * array use VERIF_PQ_HANDLES_APPEAR (dummy before the call, real array after it, switched by the harness).  The values
 * read from the dummy are never used: the guard is false. */
struct aws_priority_queue_node *g_no_bp[VERIF_PQ_N];
bool g_phase_post;
#define PQ_BPR(q) ((struct aws_priority_queue_node **)(q)->backpointers.data) /* the real array (assigns clauses) */
#if defined(VERIF_PQ_NO_HANDLES)
#    define PQ_BPA(q) ((struct aws_priority_queue_node **)g_no_bp)
#elif defined(VERIF_PQ_HANDLES_APPEAR)
#    define PQ_BPA(q) ((struct aws_priority_queue_node **)(g_phase_post ? (q)->backpointers.data : (void *)g_no_bp))
#else
#    define PQ_BPA(q) ((struct aws_priority_queue_node **)(q)->backpointers.data)
#endif
#define PQ_DYN(q) ((q)->container.alloc != NULL)
#define PQ_BP_LIVE(q) ((q)->backpointers.data != NULL)
#define PQ_PARENT(i) (((i)-1) / 2)

/* ---- shape ---- */
#define PQ_BP_ZERO(q)                                                                                                  \
    ((q)->backpointers.alloc == NULL && (q)->backpointers.current_size == 0 && (q)->backpointers.length == 0 &&        \
     (q)->backpointers.item_size == 0 && (q)->backpointers.data == NULL)
#define PQ_BP_SHAPE(q)                                                                                                 \
    (PQ_DYN(q) && (q)->backpointers.alloc == &g_pq_alloc && (q)->backpointers.item_size == PQ_PSZ &&                   \
     (q)->backpointers.length == PQ_LEN(q) && (q)->backpointers.current_size >= PQ_PSZ &&                             \
     (q)->backpointers.current_size % PQ_PSZ == 0 && (q)->backpointers.length * PQ_PSZ <= (q)->backpointers.current_size && \
     (q)->backpointers.data != NULL && __CPROVER_w_ok((q)->backpointers.data, (q)->backpointers.current_size))
#define PQ_SHAPE(q)                                                                                                    \
    ((q)->pred == pq_rank_cmp && (q)->container.item_size == ISZ && PQ_LEN(q) <= PQN && PQ_CUR(q) % ISZ == 0 &&        \
     PQ_LEN(q) * ISZ <= PQ_CUR(q) && ((q)->container.alloc == NULL || (q)->container.alloc == &g_pq_alloc) &&          \
     (PQ_DYN(q) || PQ_CUR(q) >= ISZ) &&                                                                                \
     (PQ_CUR(q) == 0 ? (q)->container.data == NULL                                                                     \
                     : ((q)->container.data != NULL && __CPROVER_w_ok((q)->container.data, PQ_CUR(q)))) &&             \
     (PQ_BP_ZERO(q) || PQ_BP_SHAPE(q)))

/* ---- handles ---- */
#define PQ_IN_POOL(p)                                                                                                  \
    (__CPROVER_same_object((p), g_nodes) && __CPROVER_POINTER_OFFSET(p) < sizeof(g_nodes) &&                           \
     __CPROVER_POINTER_OFFSET(p) % sizeof(struct aws_priority_queue_node) == 0)
#define PQ_HIDX(p) ((size_t)__CPROVER_POINTER_OFFSET(p) / sizeof(struct aws_priority_queue_node))
#define PQ_H1(q, x, i) ((i) >= PQ_LEN(q) || PQ_BPA(q)[i] == NULL || (PQ_IN_POOL(PQ_BPA(q)[i]) && g_nodes[PQ_HIDX(PQ_BPA(q)[i])].current_index == (i)))
#define PQ_HANDLES(q) (!PQ_BP_LIVE(q) || PQ_ALL(PQ_H1, q, 0))
/* pool handle number h / handle pointer p identifies a slot of the queue */
#define PQ_INQ_P(q, p) (PQ_BP_LIVE(q) && (p)->current_index < PQ_LEN(q) && PQ_BPA(q)[(p)->current_index] == (p))
#define PQ_INQ(q, h) PQ_INQ_P(q, &g_nodes[h])

#define PQ_STATE(q) (PQ_SHAPE(q) && PQ_HANDLES(q))

/* ---- heap order ---- */
#define PQ_HO1(q, x, i) ((i) == 0 || (i) >= PQ_LEN(q) || PQ_RANK(q, PQ_PARENT(i)) <= PQ_RANK(q, i))
#define PQ_HO(q) PQ_ALL(PQ_HO1, q, 0)
/* heap order "except at node x": every parent/child edge that does not touch x holds, and the parent of x is a
 * predecessor of the children of x (so that x can be sifted either way) */
#define PQ_HOX1(q, x, i)                                                                                               \
    ((i) == 0 || (i) >= PQ_LEN(q) || (i) == (x) ||                                                                     \
     (PQ_PARENT(i) == (x) ? ((x) == 0 || PQ_RANK(q, PQ_PARENT(x)) <= PQ_RANK(q, i))                                    \
                          : PQ_RANK(q, PQ_PARENT(i)) <= PQ_RANK(q, i)))
#define PQ_HO_EXCEPT(q, x) PQ_ALL(PQ_HOX1, q, x)
/* ... and additionally the edge from the parent of x to x holds: only the order BELOW x may be broken */
#define PQ_HO_EXCEPT_DOWN(q, x) (PQ_HO_EXCEPT(q, x) && ((x) == 0 || PQ_RANK(q, PQ_PARENT(x)) <= PQ_RANK(q, x)))
#define PQ_LEFT(x) (2 * (x) + 1)
#define PQ_RIGHT(x) (2 * (x) + 2)
#define PQ_DOWN_MOVES(q, x)                                                                                            \
    ((PQ_LEFT(x) < PQ_LEN(q) && PQ_RANK(q, x) > PQ_RANK(q, PQ_LEFT(x))) ||                                             \
     (PQ_RIGHT(x) < PQ_LEN(q) && PQ_RANK(q, x) > PQ_RANK(q, PQ_RIGHT(x))))
#define PQ_UP_MOVES(q, x) ((x) > 0 && PQ_RANK(q, PQ_PARENT(x)) > PQ_RANK(q, x))
/* k is x or a descendant of x (1-based heap numbering: the ancestors of j are j >> d); depth <= 3 for N <= 15 */
#define PQ_DESC(x, k)                                                                                                  \
    ((k) == (x) || (((k) + 1) >> 1) == (x) + 1 || (((k) + 1) >> 2) == (x) + 1 || (((k) + 1) >> 3) == (x) + 1)

/* ---- the two ways a clause list is used as a CBMC contract ---- */
#define PQ_REQ(name, x) __CPROVER_requires(x)
#define PQ_ENS(name, x) __CPROVER_ensures(x)

/* ---- witnesses and field values pinned to the pre-state ---- */
#define PQ_C_PINS(REQ, q)                                                                                              \
    REQ("pin", g0_len == PQ_LEN(q) && g0_cur == PQ_CUR(q) && g0_data == (q)->container.data &&                         \
                   g0_alloc == (q)->container.alloc && g0_bpdata == (q)->backpointers.data &&                          \
                   g0_bpcur == (q)->backpointers.current_size && g0_raise == g_raise_count)                            \
    REQ("pin", g_on ==> g_pj < ISZ && g_h < PQK && g_pos == g_ki)                                                      \
    REQ("pin", g_on && g_ki < PQ_LEN(q) ==> g_ki_key == PQ_KEY(q, g_ki) && g_ki_b == PQ_B(q, g_ki, g_pj) &&            \
                                                g_ki_bp == (PQ_BP_LIVE(q) ? PQ_BPA(q)[g_ki] : NULL))                   \
    REQ("pin", g_on ==> g_h_idx == g_nodes[g_h].current_index && g_h_inq == PQ_INQ(q, g_h))                            \
    REQ("pin", g_on && g_h_inq ==> g_h_key == PQ_KEY(q, g_h_idx) && g_h_b == PQ_B(q, g_h_idx, g_pj))                   \
    REQ("pin", g_on && g_out < PQ_CUR(q) ==> g_out_b == PQ_DATA(q)[g_out])
/* slot i holds the ghost element (and its handle, if the queue has handles) */
#define PQ_SLOT_IS(q, i) (PQ_KEY(q, i) == g_ki_key && PQ_B(q, i, g_pj) == g_ki_b && (PQ_BP_LIVE(q) ==> PQ_BPA(q)[i] == g_ki_bp))
/* the ghost slot is exactly as before (element and handle), and the cursor did not move */
#define PQ_SLOT_SAME(q) (PQ_SLOT_IS(q, g_ki) && g_pos == g_ki)
/* the element of the old ghost slot is still stored: the cursor is a slot of the queue and holds it */
#define PQ_CURSOR_OK(q) (g_pos < PQ_LEN(q) && PQ_SLOT_IS(q, g_pos))
/* the ghost handle still identifies the element it identified before the call */
#define PQ_H_TRACKS(q)                                                                                                 \
    (PQ_INQ(q, g_h) && PQ_KEY(q, g_nodes[g_h].current_index) == g_h_key && PQ_B(q, g_nodes[g_h].current_index, g_pj) == g_h_b)
#define PQ_H_UNTOUCHED (g_nodes[g_h].current_index == g_h_idx)
/* struct fields that only growth / clean-up may change */
#define PQ_FIELDS_KEPT(q)                                                                                              \
    (PQ_CUR(q) == g0_cur && (q)->container.data == g0_data && (q)->container.alloc == g0_alloc &&                      \
     (q)->backpointers.data == g0_bpdata && (q)->backpointers.current_size == g0_bpcur)
/* storage byte g_out is as before */
#define PQ_OUT_SAME(q) (PQ_DATA(q)[g_out] == g_out_b)

/* what every operation that takes no element out and puts none in promises about handles */
#define PQ_C_NO_HANDLE_LEAVES(ENS, q)                                                                                  \
    ENS("every handle in the queue keeps identifying its own element", g_on && g_h_inq ==> PQ_H_TRACKS(q))            \
    ENS("handles outside the queue are untouched", g_on && !g_h_inq ==> PQ_H_UNTOUCHED && !PQ_INQ(q, g_h))

/* ---- frames (documentation: not checked, see head comment) ---- */
#define PQ_A_ELEMS(q) PQ_LEN(q) > 0 : __CPROVER_object_upto(PQ_DATA(q), PQ_LEN(q) * ISZ)
#define PQ_A_BPS(q) PQ_BP_LIVE(q) && PQ_LEN(q) > 0 : __CPROVER_object_upto((uint8_t *)(q)->backpointers.data, PQ_LEN(q) * PQ_PSZ)
#define PQ_A_POOL(q) PQ_BP_LIVE(q) : __CPROVER_object_whole(g_nodes)
#define PQ_A_SIFT(q)                                                                                                   \
    __CPROVER_assigns(PQ_A_ELEMS(q))                                                                                   \
    __CPROVER_assigns(PQ_A_BPS(q))                                                                                     \
    __CPROVER_assigns(PQ_A_POOL(q))                                                                                    \
    __CPROVER_assigns(g_pos)

/* ------------------------------------------------------------------ s_swap */
/* exchanges two elements together with their handles and rewrites the handles' indices; nothing else moves */
#define PQ_C_swap(REQ, ENS, queue, a, b)                                                                               \
    REQ("state", PQ_STATE(queue))                                                                                      \
    REQ("indices", a < PQ_LEN(queue) && b < PQ_LEN(queue) && a != b)                                                   \
    PQ_C_PINS(REQ, queue)                                                                                              \
    REQ("pin", g_on ==> g_ki < PQ_LEN(queue))                                                                          \
    ENS("representation invariant (shape, handles) kept", PQ_STATE(queue) && PQ_FIELDS_KEPT(queue) && PQ_LEN(queue) == g0_len) \
    ENS("the element (and handle) of every slot is where the transposition (a b) puts it",                             \
        g_on ==> g_pos == (g_ki == a ? b : (g_ki == b ? a : g_ki)) && PQ_CURSOR_OK(queue))                             \
    PQ_C_NO_HANDLE_LEAVES(ENS, queue)                                                                                  \
    ENS("the handles of a and b have exchanged their index, all others keep it",                                       \
        g_on && g_h_inq ==> g_nodes[g_h].current_index == (g_h_idx == a ? b : (g_h_idx == b ? a : g_h_idx)))           \
    ENS("storage outside slots a and b untouched",                                                                     \
        g_on && g_out < g0_cur && !(g_out >= a * ISZ && g_out < a * ISZ + ISZ) && !(g_out >= b * ISZ && g_out < b * ISZ + ISZ) ==> PQ_OUT_SAME(queue))

static void s_swap(struct aws_priority_queue *queue, size_t a, size_t b)
PQ_C_swap(PQ_REQ, PQ_ENS, queue, a, b)
__CPROVER_assigns(__CPROVER_object_upto(PQ_DATA(queue) + a * ISZ, ISZ), __CPROVER_object_upto(PQ_DATA(queue) + b * ISZ, ISZ), g_pos)
__CPROVER_assigns(PQ_BP_LIVE(queue) : PQ_BPR(queue)[a], PQ_BPR(queue)[b])
__CPROVER_assigns(PQ_BP_LIVE(queue) && PQ_BPR(queue)[a] != NULL : PQ_BPR(queue)[a]->current_index)
__CPROVER_assigns(PQ_BP_LIVE(queue) && PQ_BPR(queue)[b] != NULL : PQ_BPR(queue)[b]->current_index)
;

/* ------------------------------------------------------------------ sift */
#define PQ_C_SIFT_COMMON(ENS, queue)                                                                                   \
    ENS("every element (with its handle) is still stored, at the cursor", g_on ==> PQ_CURSOR_OK(queue))                \
    PQ_C_NO_HANDLE_LEAVES(ENS, queue)                                                                                  \
    ENS("storage outside the live elements untouched", g_on && g_out >= g0_len * ISZ && g_out < g0_cur ==> PQ_OUT_SAME(queue))

/* precondition: only the order below `root` may be broken.  Restores heap order; every element (with its handle) is
 * still stored; slots outside the subtree of root untouched; result says whether the element moved. */
#define PQ_C_sift_down(REQ, ENS, queue, root, ret)                                                                     \
    REQ("state", PQ_STATE(queue))                                                                                      \
    REQ("index", root < PQ_LEN(queue))                                                                                 \
    REQ("heap order except below root", PQ_HO_EXCEPT_DOWN(queue, root))                                                \
    PQ_C_PINS(REQ, queue)                                                                                              \
    REQ("pin", g_on ==> g_ki < PQ_LEN(queue) && g_moved == PQ_DOWN_MOVES(queue, root))                                 \
    ENS("representation invariant (shape, handles) kept", PQ_STATE(queue) && PQ_FIELDS_KEPT(queue) && PQ_LEN(queue) == g0_len) \
    ENS("heap order restored", PQ_HO(queue))                                                                           \
    ENS("result says whether the element moved", g_on ==> ret == g_moved)                                              \
    ENS("slots outside the subtree of root (all slots if nothing moves) are untouched",                                \
        g_on && (!PQ_DESC(root, g_ki) || !g_moved) ==> PQ_SLOT_SAME(queue))                                            \
    PQ_C_SIFT_COMMON(ENS, queue)

static bool s_sift_down(struct aws_priority_queue *queue, size_t root)
PQ_C_sift_down(PQ_REQ, PQ_ENS, queue, root, RET)
PQ_A_SIFT(queue)
;

/* precondition: heap order except at `index` (the code's own s_sift_either calls it like that).  If the element moves
 * up the heap order is restored; if not, nothing changes and only the order below index may still be broken. */
#define PQ_C_sift_up(REQ, ENS, queue, index, ret)                                                                      \
    REQ("state", PQ_STATE(queue))                                                                                      \
    REQ("index", index < PQ_LEN(queue))                                                                                \
    REQ("heap order except at index", PQ_HO_EXCEPT(queue, index))                                                      \
    PQ_C_PINS(REQ, queue)                                                                                              \
    REQ("pin", g_on ==> g_ki < PQ_LEN(queue) && g_moved == PQ_UP_MOVES(queue, index))                                  \
    ENS("representation invariant (shape, handles) kept", PQ_STATE(queue) && PQ_FIELDS_KEPT(queue) && PQ_LEN(queue) == g0_len) \
    ENS("heap order restored if the element moved", ret ==> PQ_HO(queue))                                              \
    ENS("otherwise only the order below index may be broken", !ret ==> PQ_HO_EXCEPT_DOWN(queue, index))                \
    ENS("result says whether the element moved", g_on ==> ret == g_moved)                                              \
    ENS("slots that are not index or an ancestor of it (all slots if nothing moves) are untouched",                    \
        g_on && (!PQ_DESC(g_ki, index) || !g_moved) ==> PQ_SLOT_SAME(queue))                                           \
    PQ_C_SIFT_COMMON(ENS, queue)

static bool s_sift_up(struct aws_priority_queue *queue, size_t index)
PQ_C_sift_up(PQ_REQ, PQ_ENS, queue, index, RET)
PQ_A_SIFT(queue)
;

#define PQ_C_sift_either(REQ, ENS, queue, index)                                                                       \
    REQ("state", PQ_STATE(queue))                                                                                      \
    REQ("index", index < PQ_LEN(queue))                                                                                \
    REQ("heap order except at index", PQ_HO_EXCEPT(queue, index))                                                      \
    PQ_C_PINS(REQ, queue)                                                                                              \
    REQ("pin", g_on ==> g_ki < PQ_LEN(queue))                                                                          \
    ENS("representation invariant (shape, handles) kept", PQ_STATE(queue) && PQ_FIELDS_KEPT(queue) && PQ_LEN(queue) == g0_len) \
    ENS("heap order restored", PQ_HO(queue))                                                                           \
    ENS("slots that are neither above nor below index are untouched",                                                  \
        g_on && !PQ_DESC(g_ki, index) && !PQ_DESC(index, g_ki) ==> PQ_SLOT_SAME(queue))                                \
    PQ_C_SIFT_COMMON(ENS, queue)

static void s_sift_either(struct aws_priority_queue *queue, size_t index)
PQ_C_sift_either(PQ_REQ, PQ_ENS, queue, index)
PQ_A_SIFT(queue)
;

/* ------------------------------------------------------------------ removal */
/* ok = success condition, oidx = removed slot, both over pinned pre-state values */
#define PQ_C_REMOVED(ENS, q, item, ok, oidx)                                                                           \
    ENS("representation invariant and heap order kept", PQ_STATE(q) && PQ_HO(q) && PQ_FIELDS_KEPT(q))                  \
    ENS("size decreases by one exactly on success", PQ_LEN(q) == g0_len - ((ok) ? 1 : 0))                              \
    ENS("the element handed out is the one that was in the slot",                                                      \
        g_on && (ok) && g_ki == (oidx) ==> ((uint8_t *)item)[0] == g_ki_key && ((uint8_t *)item)[g_pj] == g_ki_b)      \
    ENS("every other element (with its handle) is still stored, at the cursor",                                        \
        g_on && (ok) && g_ki != (oidx) && g_ki < g0_len ==> PQ_CURSOR_OK(q))                                           \
    ENS("the handle of the removed element is marked not-in-queue",                                                    \
        g_on && g_h_inq && (ok) && g_h_idx == (oidx) ==> g_nodes[g_h].current_index == SIZE_MAX && !PQ_INQ(q, g_h))    \
    ENS("every other handle keeps identifying its own element", g_on && g_h_inq && !((ok) && g_h_idx == (oidx)) ==> PQ_H_TRACKS(q)) \
    ENS("handles outside the queue are untouched", g_on && !g_h_inq ==> PQ_H_UNTOUCHED && !PQ_INQ(q, g_h))             \
    ENS("refusal changes nothing", g_on && !(ok) ==> (g_ki < PQ_LEN(q) ==> PQ_SLOT_SAME(q)) && PQ_H_UNTOUCHED && (g_out < g0_cur ==> PQ_OUT_SAME(q))) \
    ENS("storage outside the live elements untouched", g_on && g_out >= g0_len * ISZ && g_out < g0_cur ==> PQ_OUT_SAME(q))
#define PQ_A_REMOVE(q, ok)                                                                                             \
    __CPROVER_assigns((ok) : __CPROVER_object_upto((uint8_t *)item, ISZ), (q)->container.length, g_pos)                \
    __CPROVER_assigns((ok) && PQ_LEN(q) > 0 : __CPROVER_object_upto(PQ_DATA(q), PQ_LEN(q) * ISZ))                      \
    __CPROVER_assigns((ok) && PQ_BP_LIVE(q) : (q)->backpointers.length, __CPROVER_object_whole(g_nodes))               \
    __CPROVER_assigns((ok) && PQ_BP_LIVE(q) && PQ_LEN(q) > 0 : __CPROVER_object_upto((uint8_t *)(q)->backpointers.data, PQ_LEN(q) * PQ_PSZ))

#define PQ_C_remove_node(REQ, ENS, queue, item, item_index, ret)                                                       \
    REQ("state", PQ_STATE(queue) && PQ_HO(queue))                                                                      \
    REQ("item", __CPROVER_w_ok(item, ISZ))                                                                             \
    REQ("index", item_index < PQ_LEN(queue))                                                                           \
    PQ_C_PINS(REQ, queue)                                                                                              \
    ENS("succeeds", ret == AWS_OP_SUCCESS)                                                                             \
    PQ_C_REMOVED(ENS, queue, item, 1, item_index)

static int s_remove_node(struct aws_priority_queue *queue, void *item, size_t item_index)
PQ_C_remove_node(PQ_REQ, PQ_ENS, queue, item, item_index, RET)
PQ_A_REMOVE(queue, 1)
;

/* pop: refuses an empty queue; otherwise hands out slot 0, which is a minimum of everything stored */
#define PQ_C_pop(REQ, ENS, queue, item, ret)                                                                           \
    REQ("state", PQ_STATE(queue) && PQ_HO(queue))                                                                      \
    REQ("item", __CPROVER_w_ok(item, ISZ))                                                                             \
    PQ_C_PINS(REQ, queue)                                                                                              \
    ENS("succeeds exactly on a non-empty queue", (ret == AWS_OP_SUCCESS) == (g0_len > 0) && (ret == AWS_OP_SUCCESS || ret == AWS_OP_ERR)) \
    ENS("empty queue refused with PRIORITY_QUEUE_EMPTY", ret != AWS_OP_SUCCESS ==> g_last_error == AWS_ERROR_PRIORITY_QUEUE_EMPTY) \
    ENS("no error raised on success", ret == AWS_OP_SUCCESS ==> g_raise_count == g0_raise)                             \
    PQ_C_REMOVED(ENS, queue, item, g0_len > 0, 0)                                                                      \
    ENS("the popped element is a minimum of everything that was stored",                                               \
        g_on && ret == AWS_OP_SUCCESS && g_ki < g0_len ==> PQ_RANKOF(((uint8_t *)item)[0]) <= PQ_RANKOF(g_ki_key))

int aws_priority_queue_pop(struct aws_priority_queue *queue, void *item)
PQ_C_pop(PQ_REQ, PQ_ENS, queue, item, RET)
PQ_A_REMOVE(queue, PQ_LEN(queue) > 0)
AL_ERR_FRAME(PQ_LEN(queue) == 0)
;

/* remove by handle.  The handle is a pool handle that is in the queue, or one whose index field is not a slot of the
 * queue (SIZE_MAX after pop/remove/clear/node_init: "stale"), or any handle when the queue never had handles.
 * success <=> the handle is in the queue; a stale handle is refused with BAD_NODE and nothing changes. */
#define PQ_REMOVE_OK (g0_bpdata != NULL && g0_idx < g0_len)
#define PQ_C_remove(REQ, ENS, queue, item, node, ret)                                                                  \
    REQ("state", PQ_STATE(queue) && PQ_HO(queue))                                                                      \
    REQ("item", __CPROVER_w_ok(item, ISZ))                                                                             \
    REQ("handle is a pool handle", PQ_IN_POOL(node))                                                                   \
    REQ("handle is in the queue, or stale, or the queue never had handles",                                            \
        PQ_INQ_P(queue, node) || !PQ_BP_LIVE(queue) || (node)->current_index >= PQ_LEN(queue))                         \
    PQ_C_PINS(REQ, queue)                                                                                              \
    REQ("pin", g0_idx == (node)->current_index)                                                                        \
    ENS("succeeds exactly when the handle is in the queue", (ret == AWS_OP_SUCCESS) == PQ_REMOVE_OK && (ret == AWS_OP_SUCCESS || ret == AWS_OP_ERR)) \
    ENS("stale handle refused with PRIORITY_QUEUE_BAD_NODE and left alone",                                            \
        ret != AWS_OP_SUCCESS ==> g_last_error == AWS_ERROR_PRIORITY_QUEUE_BAD_NODE && (node)->current_index == g0_idx) \
    ENS("the handle is marked not-in-queue on success", ret == AWS_OP_SUCCESS ==> (node)->current_index == SIZE_MAX)   \
    ENS("no error raised on success", ret == AWS_OP_SUCCESS ==> g_raise_count == g0_raise)                             \
    PQ_C_REMOVED(ENS, queue, item, PQ_REMOVE_OK, g0_idx)

int aws_priority_queue_remove(struct aws_priority_queue *queue, void *item, const struct aws_priority_queue_node *node)
PQ_C_remove(PQ_REQ, PQ_ENS, queue, item, node, RET)
PQ_A_REMOVE(queue, PQ_BP_LIVE(queue) && node->current_index < PQ_LEN(queue))
AL_ERR_FRAME(!(PQ_BP_LIVE(queue) && node->current_index < PQ_LEN(queue)))
;

/* top: pointer to slot 0 (a minimum), nothing written but *item */
#define PQ_C_top(REQ, ENS, queue, item, ret)                                                                           \
    REQ("state", PQ_STATE(queue) && PQ_HO(queue))                                                                      \
    REQ("item", __CPROVER_w_ok(item, sizeof(*(item))))                                                                 \
    PQ_C_PINS(REQ, queue)                                                                                              \
    ENS("succeeds exactly on a non-empty queue", (ret == AWS_OP_SUCCESS) == (g0_len > 0) && (ret == AWS_OP_SUCCESS || ret == AWS_OP_ERR)) \
    ENS("empty queue refused with PRIORITY_QUEUE_EMPTY", ret != AWS_OP_SUCCESS ==> g_last_error == AWS_ERROR_PRIORITY_QUEUE_EMPTY) \
    ENS("result points at slot 0", ret == AWS_OP_SUCCESS ==> *(item) == (queue)->container.data && g_raise_count == g0_raise) \
    ENS("slot 0 is a minimum of everything stored",                                                                    \
        g_on && ret == AWS_OP_SUCCESS && g_ki < g0_len ==> PQ_RANK(queue, 0) <= PQ_RANKOF(g_ki_key))                   \
    ENS("queue unchanged", PQ_STATE(queue) && PQ_HO(queue) && PQ_FIELDS_KEPT(queue) && PQ_LEN(queue) == g0_len &&      \
                           (g_on ==> (g_ki < g0_len ==> PQ_SLOT_SAME(queue)) && PQ_H_UNTOUCHED && (g_out < g0_cur ==> PQ_OUT_SAME(queue))))

int aws_priority_queue_top(const struct aws_priority_queue *queue, void **item)
PQ_C_top(PQ_REQ, PQ_ENS, queue, item, RET)
__CPROVER_assigns(PQ_LEN(queue) > 0 : *item)
AL_ERR_FRAME(PQ_LEN(queue) == 0)
;

/* ------------------------------------------------------------------ push */
#define PQ_FULL0 (g0_len * ISZ + ISZ > g0_cur)
#define PQ_DYN0 (g0_alloc != NULL)
#define PQ_PUSH_OK(bp) (PQ_DYN0 || (!PQ_FULL0 && (bp) == NULL))
#define PQ_FULL(q) (PQ_LEN(q) * ISZ + ISZ > PQ_CUR(q))

/* bp: the handle expression (NULL for plain push).  The ghost slot g_ki ranges over the old slots AND the slot
 * `old length`, which stands for the pushed element.
 * success <=> dynamic queue, or static queue with room and no handle.  A full static queue refuses with
 * LIST_EXCEEDS_MAX_SIZE, a static queue refuses a handle with UNSUPPORTED_OPERATION (after rolling the element back);
 * either way every slot and every handle are as before. */
#define PQ_C_push(REQ, ENS, q, item, bp, ret)                                                                          \
    REQ("state", PQ_STATE(q) && PQ_HO(q))                                                                              \
    REQ("bound", PQ_LEN(q) < PQN && PQ_CUR(q) <= PQ_CAPMAX * ISZ && (q)->backpointers.current_size <= PQ_CAPMAX * PQ_PSZ) \
    REQ("item", __CPROVER_r_ok(item, ISZ))                                                                             \
    REQ("new handle is a pool handle that is not in the queue", (bp) == NULL || (PQ_IN_POOL(bp) && !PQ_INQ_P(q, bp)))  \
    PQ_C_PINS(REQ, q)                                                                                                  \
    REQ("pin", g_on ==> g_ki <= PQ_LEN(q))                                                                             \
    REQ("pin", g_on && g_ki == PQ_LEN(q) ==> g_ki_key == ((const uint8_t *)item)[0] &&                                 \
                                                 g_ki_b == ((const uint8_t *)item)[g_pj] && g_ki_bp == (bp))           \
    ENS("succeeds exactly for a dynamic queue, or a static queue with room and no handle",                             \
        (ret == AWS_OP_SUCCESS) == PQ_PUSH_OK(bp) && (ret == AWS_OP_SUCCESS || ret == AWS_OP_ERR))                     \
    ENS("full static queue refuses with LIST_EXCEEDS_MAX_SIZE", ret != AWS_OP_SUCCESS && PQ_FULL0 ==> g_last_error == AWS_ERROR_LIST_EXCEEDS_MAX_SIZE) \
    ENS("static queue refuses a handle with UNSUPPORTED_OPERATION", ret != AWS_OP_SUCCESS && !PQ_FULL0 ==> g_last_error == AWS_ERROR_UNSUPPORTED_OPERATION) \
    ENS("no error raised on success", ret == AWS_OP_SUCCESS ==> g_raise_count == g0_raise)                             \
    ENS("representation invariant and heap order kept", PQ_STATE(q) && PQ_HO(q))                                       \
    ENS("size increases by one exactly on success", PQ_LEN(q) == g0_len + (ret == AWS_OP_SUCCESS ? 1 : 0))             \
    ENS("storage doubles (or becomes one element) when a dynamic queue is full, otherwise stays",                      \
        PQ_DYN0 && PQ_FULL0 ? PQ_CUR(q) == (g0_cur * 2 > (g0_len + 1) * ISZ ? g0_cur * 2 : (g0_len + 1) * ISZ)         \
                            : (PQ_CUR(q) == g0_cur && (q)->container.data == g0_data))                                 \
    ENS("allocator kept", (q)->container.alloc == g0_alloc)                                                            \
    ENS("the handle array appears with the first handle and never goes away",                                          \
        PQ_BP_LIVE(q) == (g0_bpdata != NULL || (ret == AWS_OP_SUCCESS && (bp) != NULL)))                               \
    ENS("every old element and the pushed one (with their handles, none for old elements if the handle array is new) are stored, at the cursor", \
        g_on && ret == AWS_OP_SUCCESS ==> PQ_CURSOR_OK(q))                                                             \
    ENS("the new handle identifies the pushed element",                                                                \
        g_on && ret == AWS_OP_SUCCESS && (bp) != NULL ==>                                                              \
            PQ_INQ_P(q, bp) && PQ_KEY(q, (bp)->current_index) == ((const uint8_t *)item)[0] &&                         \
                PQ_B(q, (bp)->current_index, g_pj) == ((const uint8_t *)item)[g_pj])                                   \
    ENS("every handle in the queue keeps identifying its own element", g_on && g_h_inq ==> PQ_H_TRACKS(q))            \
    ENS("handles outside the queue (other than the new one) are untouched",                                            \
        g_on && !g_h_inq && !(ret == AWS_OP_SUCCESS && (bp) == &g_nodes[g_h]) ==> PQ_H_UNTOUCHED && !PQ_INQ(q, g_h))   \
    ENS("refusal changes nothing",                                                                                     \
        g_on && ret != AWS_OP_SUCCESS ==> (g_ki < PQ_LEN(q) ==> PQ_SLOT_SAME(q)) && PQ_H_UNTOUCHED &&                  \
                                              (g_out < g0_len * ISZ ==> PQ_OUT_SAME(q)) && (q)->backpointers.data == g0_bpdata) \
    ENS("storage beyond the new element untouched when nothing grows",                                                 \
        g_on && !PQ_FULL0 && g_out >= g0_len * ISZ + ISZ && g_out < g0_cur ==> PQ_OUT_SAME(q))

#define PQ_A_PUSH(q, bp)                                                                                               \
    __CPROVER_assigns(PQ_DYN(q) || !PQ_FULL(q) : (q)->container.length, g_pos)                                         \
    __CPROVER_assigns(!PQ_FULL(q) : __CPROVER_object_upto(PQ_DATA(q), (PQ_LEN(q) + 1) * ISZ))                          \
    __CPROVER_assigns(PQ_DYN(q) && PQ_FULL(q) : (q)->container.data, (q)->container.current_size)                      \
    __CPROVER_frees(PQ_DYN(q) && PQ_FULL(q) && (q)->container.data != NULL : (q)->container.data)                      \
    __CPROVER_assigns(PQ_DYN(q) && (PQ_BP_LIVE(q) || (bp) != NULL) : (q)->backpointers, __CPROVER_object_whole(g_nodes)) \
    __CPROVER_assigns(PQ_BP_LIVE(q) : __CPROVER_object_upto((uint8_t *)(q)->backpointers.data, (q)->backpointers.current_size)) \
    __CPROVER_frees(PQ_BP_LIVE(q) : (q)->backpointers.data)                                                            \
    AL_ERR_FRAME(!(PQ_DYN(q) || (!PQ_FULL(q) && (bp) == NULL)))

int aws_priority_queue_push_ref(struct aws_priority_queue *queue, void *item, struct aws_priority_queue_node *backpointer)
PQ_C_push(PQ_REQ, PQ_ENS, queue, item, backpointer, RET)
PQ_A_PUSH(queue, backpointer)
;

#define PQ_NO_HANDLE ((struct aws_priority_queue_node *)NULL)
int aws_priority_queue_push(struct aws_priority_queue *queue, void *item)
PQ_C_push(PQ_REQ, PQ_ENS, queue, item, PQ_NO_HANDLE, RET)
PQ_A_PUSH(queue, PQ_NO_HANDLE)
;

/* ------------------------------------------------------------------ clear */
/* empties the queue, marks every handle that was in it as not-in-queue, keeps the storage */
#define PQ_C_clear(REQ, ENS, queue)                                                                                    \
    REQ("state", PQ_STATE(queue) && PQ_HO(queue))                                                                      \
    PQ_C_PINS(REQ, queue)                                                                                              \
    ENS("representation invariant kept, queue empty, storage kept", PQ_STATE(queue) && PQ_HO(queue) && PQ_FIELDS_KEPT(queue) && PQ_LEN(queue) == 0) \
    ENS("every handle that was in the queue is marked not-in-queue", g_on && g_h_inq ==> g_nodes[g_h].current_index == SIZE_MAX) \
    ENS("handles outside the queue are untouched", g_on && !g_h_inq ==> PQ_H_UNTOUCHED)                                \
    ENS("no handle is in the queue", g_on ==> !PQ_INQ(queue, g_h))

void aws_priority_queue_clear(struct aws_priority_queue *queue)
PQ_C_clear(PQ_REQ, PQ_ENS, queue)
__CPROVER_assigns(queue->container.data != NULL : queue->container.length)
__CPROVER_assigns(PQ_BP_LIVE(queue) : queue->backpointers.length, __CPROVER_object_whole(g_nodes))
;

/* ------------------------------------------------------------------ observers and clean-up */
#define PQ_C_size(REQ, ENS, queue, ret)                                                                                \
    REQ("state", PQ_STATE(queue))                                                                                      \
    ENS("size is the number of stored elements", ret == PQ_LEN(queue))
size_t aws_priority_queue_size(const struct aws_priority_queue *queue)
PQ_C_size(PQ_REQ, PQ_ENS, queue, RET)
__CPROVER_assigns()
;

#define PQ_C_capacity(REQ, ENS, queue, ret)                                                                            \
    REQ("state", PQ_STATE(queue))                                                                                      \
    ENS("capacity is the storage size in elements and at least the size", ret == PQ_CUR(queue) / ISZ && ret >= PQ_LEN(queue))
size_t aws_priority_queue_capacity(const struct aws_priority_queue *queue)
PQ_C_capacity(PQ_REQ, PQ_ENS, queue, RET)
__CPROVER_assigns()
;

/* releases both arrays of a dynamic queue, nothing of a static one; the struct's lists are zeroed */
#define PQ_C_clean_up(REQ, ENS, queue)                                                                                 \
    REQ("state", PQ_STATE(queue))                                                                                      \
    ENS("both lists zeroed", PQ_BP_ZERO(queue) && (queue)->container.alloc == NULL && PQ_LEN(queue) == 0 && PQ_CUR(queue) == 0 && \
                             (queue)->container.data == NULL && (queue)->container.item_size == 0)
void aws_priority_queue_clean_up(struct aws_priority_queue *queue)
PQ_C_clean_up(PQ_REQ, PQ_ENS, queue)
__CPROVER_assigns(queue->container, queue->backpointers)
__CPROVER_frees(PQ_DYN(queue) && queue->container.data != NULL : queue->container.data)
__CPROVER_frees(PQ_BP_LIVE(queue) : queue->backpointers.data)
;

/* ------------------------------------------------------------------ loop-free, any size: enforced with DFCC (mode proof) */
void aws_priority_queue_node_init(struct aws_priority_queue_node *node)
__CPROVER_requires(__CPROVER_is_fresh(node, sizeof(*node)))
__CPROVER_assigns(node->current_index)
__CPROVER_ensures(node->current_index == SIZE_MAX)
;

bool aws_priority_queue_node_is_in_queue(const struct aws_priority_queue_node *node)
__CPROVER_requires(__CPROVER_is_fresh(node, sizeof(*node)))
__CPROVER_assigns()
__CPROVER_ensures(RET == (node->current_index != SIZE_MAX))
;

/* fixed-capacity queue over caller storage: empty, no handle array, capacity == item_count (any item_count) */
void aws_priority_queue_init_static(
    struct aws_priority_queue *queue,
    void *heap,
    size_t item_count,
    size_t item_size,
    aws_priority_queue_compare_fn *pred)
__CPROVER_requires(__CPROVER_is_fresh(queue, sizeof(*queue)))
__CPROVER_requires(item_size == ISZ && item_count > 0 && item_count <= SIZE_MAX / ISZ)
__CPROVER_requires(__CPROVER_is_fresh(heap, item_count * ISZ))
__CPROVER_assigns(*queue)
__CPROVER_ensures(queue->pred == pred && PQ_BP_ZERO(queue))
__CPROVER_ensures(queue->container.alloc == NULL && PQ_LEN(queue) == 0 && queue->container.item_size == ISZ &&
                  PQ_CUR(queue) == item_count * ISZ && PEQ(queue->container.data, heap))
;

int aws_priority_queue_init_dynamic(
    struct aws_priority_queue *queue,
    struct aws_allocator *alloc,
    size_t default_size,
    size_t item_size,
    aws_priority_queue_compare_fn *pred)
__CPROVER_requires(__CPROVER_is_fresh(queue, sizeof(*queue)))
__CPROVER_requires(alloc != NULL && item_size == ISZ)
__CPROVER_assigns(*queue)
AL_ERR_FRAME(default_size > SIZE_MAX / ISZ)
__CPROVER_ensures(RET == AWS_OP_SUCCESS || RET == AWS_OP_ERR)
__CPROVER_ensures((RET == AWS_OP_SUCCESS) == (default_size <= SIZE_MAX / ISZ))
__CPROVER_ensures(queue->pred == pred && PQ_BP_ZERO(queue))
__CPROVER_ensures(RET == AWS_OP_SUCCESS ==> queue->container.alloc == alloc && PQ_LEN(queue) == 0 &&
                  queue->container.item_size == ISZ && PQ_CUR(queue) == default_size * ISZ &&
                  (default_size == 0 ? queue->container.data == NULL : __CPROVER_is_fresh(queue->container.data, PQ_CUR(queue))))
__CPROVER_ensures(RET != AWS_OP_SUCCESS ==> g_last_error == AWS_ERROR_OVERFLOW_DETECTED && queue->container.alloc == NULL &&
                  PQ_LEN(queue) == 0 && queue->container.item_size == 0 && PQ_CUR(queue) == 0 && queue->container.data == NULL)
;

#endif
