/* Function contracts for source/priority_queue.c (property C06).
 *
 * Level: BOUNDED in the queue length (VERIF_PQ_N elements, 7 in the quick tier, 15 in the thorough tier), per element
 * size (VERIF_ITEM_SIZE, instantiated with 8 and 136 = beyond the 128-byte swap slice), inductive over histories:
 * every operation is checked from EVERY state that satisfies the representation invariant PQ_INV (not from scripted
 * histories) and must re-establish it, so the result covers all operation sequences that stay within the bound.
 *
 * Representation invariant  PQ_INV(q) = PQ_STATE(q) && PQ_HO(q)
 *   PQ_SHAPE   container: item_size == ISZ, length <= N, length*ISZ <= current_size == cap*ISZ, storage valid,
 *              static (alloc == NULL, cap >= 1, never any handle array) or dynamic (alloc == the ghost allocator);
 *              handle array ("backpointers"): all-zero struct, or live: item_size == 8, same allocator, same length as
 *              the container, storage valid and >= 1 slot
 *   PQ_HANDLES handle array live ==> for every slot i < length: bp[i] == NULL, or bp[i] points to a node of the ghost
 *              handle pool g_nodes[] and bp[i]->current_index == i            ("handles always track their element")
 *   PQ_HO      heap order: rank(a[parent(i)]) <= rank(a[i]) for every 1 <= i < length
 * "for every i" is an explicit conjunction over the N slots (no quantifier reaches the SAT back end, no spec loops).
 *
 * Comparator (DESIGN §4.6): pq_rank_cmp orders elements by a rank of the first byte of the element (the key):
 * rank(k) = (g_desc ? ~k : k) >> g_shift with nondeterministic g_desc, g_shift, i.e. ascending or descending order of
 * the key, with distinct keys comparing equal in blocks of 1, 2, 4 .. 128 (g_shift = 7: only two ranks, almost everything
 * ties).  The remaining ISZ-1 bytes are payload the comparator does not look at.  (An arbitrary 256-entry rank table -
 * every total preorder of the keys - was tried: heap-order obligations then do not finish.)
 *
 * Abstract view and ghost witnesses (DESIGN §4.3/§4.4), switched on by g_on, pinned to the pre-state in `requires`:
 *   g_pj                     arbitrary byte position inside an element
 *   g_ki,g_ki_key,g_ki_b,g_ki_bp   arbitrary slot: its element (key, byte g_pj) and its handle pointer before the call
 *   g_pos                    CURSOR: the slot that currently holds the element that was in slot g_ki before the call.
 *                            "contents equal a reference multiset" is stated pointwise: after the call the element (and
 *                            handle) of the arbitrary old slot g_ki is in slot g_pos, unless it is the one taken out; the
 *                            pushed element is followed the same way (g_ki == old length).  The cursor is moved only by
 *                            the element swap (s_swap, see pq_swap_tracked), as the image under the transposition (a b);
 *                            old slot -> new slot is therefore a composition of transpositions (a bijection), which is
 *                            what makes the pointwise statement a multiset statement.  (Counting formulations -
 *                            "number of stored elements of a class is unchanged" - were tried and are out of reach of
 *                            the SAT back end even for one symbolic swap of 7 elements.)
 *   g_h,g_h_idx,g_h_inq,g_h_key,g_h_b   arbitrary handle of the pool: its index field, whether it is in the queue,
 *                            and the element (key, byte g_pj) it identifies before the call
 * A handle h is "in the queue" iff  bp live && g_nodes[h].current_index < length && bp[current_index] == &g_nodes[h].
 *
 * The proof units build the pre-state in the harness (concrete objects, nondeterministic sizes/contents/handle
 * assignment) and the `requires` clauses cut it down to PQ_INV; the contracts are enforced with DFCC on the REAL bodies
 * with all real callees (sift, swap, the inline array-list functions, aws_array_list_swap/mem_swap) inlined.  Only the
 * allocator entry points and the error slot are replaced by contracts.
 */
#ifndef VERIF_CONTRACTS_PRIORITY_QUEUE_H
#define VERIF_CONTRACTS_PRIORITY_QUEUE_H
#ifndef VERIF_TRACK_ERRORS
#    error "contracts/priority_queue.h needs VERIF_TRACK_ERRORS"
#endif
#include "contracts/array_list.h" /* ISZ, aws_last_error, allocator contracts, AL_ERR_FRAME */
#include <aws/common/priority_queue.h>

#ifndef VERIF_PQ_N
#    define VERIF_PQ_N 7
#endif
#define PQN ((size_t)(VERIF_PQ_N))
#define PQK (VERIF_PQ_N + 1) /* handle pool: one handle per slot plus one that is never in the queue */
#define PQ_CAPMAX PQN        /* capacity bound of the PRE-state (growth may double it once) */
#define PQ_PSZ (sizeof(struct aws_priority_queue_node *))

#if VERIF_PQ_N == 3
#    define PQ_ALL(M, q, x) (M(q, x, 0) && M(q, x, 1) && M(q, x, 2))
#elif VERIF_PQ_N == 7
#    define PQ_ALL(M, q, x) (M(q, x, 0) && M(q, x, 1) && M(q, x, 2) && M(q, x, 3) && M(q, x, 4) && M(q, x, 5) && M(q, x, 6))
#elif VERIF_PQ_N == 15
#    define PQ_ALL(M, q, x)                                                                                            \
        (M(q, x, 0) && M(q, x, 1) && M(q, x, 2) && M(q, x, 3) && M(q, x, 4) && M(q, x, 5) && M(q, x, 6) && M(q, x, 7) && \
         M(q, x, 8) && M(q, x, 9) && M(q, x, 10) && M(q, x, 11) && M(q, x, 12) && M(q, x, 13) && M(q, x, 14))
#else
#    error "VERIF_PQ_N must be 3, 7 or 15 (complete binary tree of depth 2, 3 or 4)"
#endif

/* ---- ghost state ---- */
bool g_desc;                                   /* comparator: descending instead of ascending order of the key byte */
uint8_t g_shift;                               /* comparator: keys that agree in their upper 8-g_shift bits compare equal */
struct aws_priority_queue_node g_nodes[PQK];   /* handle pool (arena, DESIGN §4.5) */
struct aws_allocator g_pq_alloc;               /* the allocator of dynamic queues (only its address matters) */
size_t g_pj;
size_t g_ki, g_pos;
uint8_t g_ki_key, g_ki_b;
struct aws_priority_queue_node *g_ki_bp;
size_t g_h, g_h_idx;
bool g_h_inq;
uint8_t g_h_key, g_h_b;
bool g_moved;           /* sift: whether the element has to move */

#define PQ_RANKOF(k) ((uint8_t)((uint8_t)(g_desc ? ~(k) : (k)) >> (g_shift & 7)))
int pq_rank_cmp(const void *a, const void *b) {
    int ra = PQ_RANKOF(*(const uint8_t *)a), rb = PQ_RANKOF(*(const uint8_t *)b);
    return ra - rb;
}

/* ---- accessors ---- */
#define PQ_LEN(q) ((q)->container.length)
#define PQ_CUR(q) ((q)->container.current_size)
#define PQ_DATA(q) ((uint8_t *)(q)->container.data)
#define PQ_B(q, i, j) (PQ_DATA(q)[(i) * ISZ + (j)])
#define PQ_KEY(q, i) PQ_B(q, i, 0)
#define PQ_RANK(q, i) PQ_RANKOF(PQ_KEY(q, i))
#define PQ_BPA(q) ((struct aws_priority_queue_node **)(q)->backpointers.data)
#define PQ_DYN(q) ((q)->container.alloc != NULL)
#define PQ_BP_LIVE(q) ((q)->backpointers.data != NULL)
#define PQ_PARENT(i) (((i)-1) / 2)

/* ---- shape ---- */
#define PQ_BP_ZERO(q)                                                                                                  \
    ((q)->backpointers.alloc == NULL && (q)->backpointers.current_size == 0 && (q)->backpointers.length == 0 &&        \
     (q)->backpointers.item_size == 0 && (q)->backpointers.data == NULL)
#define PQ_BP_SHAPE(q)                                                                                                 \
    (PQ_DYN(q) && (q)->backpointers.alloc == &g_pq_alloc && (q)->backpointers.item_size == PQ_PSZ &&                   \
     (q)->backpointers.length == PQ_LEN(q) && (q)->backpointers.current_size >= PQ_PSZ &&                             \
     (q)->backpointers.current_size % PQ_PSZ == 0 && (q)->backpointers.length * PQ_PSZ <= (q)->backpointers.current_size && \
     (q)->backpointers.data != NULL && __CPROVER_w_ok((q)->backpointers.data, (q)->backpointers.current_size))
#define PQ_SHAPE(q)                                                                                                    \
    ((q)->pred == pq_rank_cmp && (q)->container.item_size == ISZ && PQ_LEN(q) <= PQN && PQ_CUR(q) % ISZ == 0 &&        \
     PQ_LEN(q) * ISZ <= PQ_CUR(q) && ((q)->container.alloc == NULL || (q)->container.alloc == &g_pq_alloc) &&          \
     (PQ_DYN(q) || PQ_CUR(q) >= ISZ) &&                                                                                \
     (PQ_CUR(q) == 0 ? (q)->container.data == NULL                                                                     \
                     : ((q)->container.data != NULL && __CPROVER_w_ok((q)->container.data, PQ_CUR(q)))) &&             \
     (PQ_BP_ZERO(q) || PQ_BP_SHAPE(q)))

/* ---- handles ---- */
#define PQ_IN_POOL(p)                                                                                                  \
    (__CPROVER_same_object((p), g_nodes) && __CPROVER_POINTER_OFFSET(p) < sizeof(g_nodes) &&                           \
     __CPROVER_POINTER_OFFSET(p) % sizeof(struct aws_priority_queue_node) == 0)
#define PQ_HIDX(p) ((size_t)__CPROVER_POINTER_OFFSET(p) / sizeof(struct aws_priority_queue_node))
#define PQ_H1(q, x, i) ((i) >= PQ_LEN(q) || PQ_BPA(q)[i] == NULL || (PQ_IN_POOL(PQ_BPA(q)[i]) && g_nodes[PQ_HIDX(PQ_BPA(q)[i])].current_index == (i)))
#define PQ_HANDLES(q) (!PQ_BP_LIVE(q) || PQ_ALL(PQ_H1, q, 0))
/* pool handle number h / handle pointer p identifies a slot of the queue */
#define PQ_INQ_P(q, p) (PQ_BP_LIVE(q) && (p)->current_index < PQ_LEN(q) && PQ_BPA(q)[(p)->current_index] == (p))
#define PQ_INQ(q, h) PQ_INQ_P(q, &g_nodes[h])

#define PQ_STATE(q) (PQ_SHAPE(q) && PQ_HANDLES(q))

/* ---- heap order ---- */
#define PQ_HO1(q, x, i) ((i) == 0 || (i) >= PQ_LEN(q) || PQ_RANK(q, PQ_PARENT(i)) <= PQ_RANK(q, i))
#define PQ_HO(q) PQ_ALL(PQ_HO1, q, 0)
/* heap order "except at node x": every parent/child edge that does not touch x holds, and the parent of x is a
 * predecessor of the children of x (so that x can be sifted either way) */
#define PQ_HOX1(q, x, i)                                                                                               \
    ((i) == 0 || (i) >= PQ_LEN(q) || (i) == (x) ||                                                                     \
     (PQ_PARENT(i) == (x) ? ((x) == 0 || PQ_RANK(q, PQ_PARENT(x)) <= PQ_RANK(q, i))                                    \
                          : PQ_RANK(q, PQ_PARENT(i)) <= PQ_RANK(q, i)))
#define PQ_HO_EXCEPT(q, x) PQ_ALL(PQ_HOX1, q, x)
/* ... and additionally the edge from the parent of x to x holds: only the order BELOW x may be broken */
#define PQ_HO_EXCEPT_DOWN(q, x) (PQ_HO_EXCEPT(q, x) && ((x) == 0 || PQ_RANK(q, PQ_PARENT(x)) <= PQ_RANK(q, x)))
#define PQ_LEFT(x) (2 * (x) + 1)
#define PQ_RIGHT(x) (2 * (x) + 2)
#define PQ_DOWN_MOVES(q, x)                                                                                            \
    ((PQ_LEFT(x) < PQ_LEN(q) && PQ_RANK(q, x) > PQ_RANK(q, PQ_LEFT(x))) ||                                             \
     (PQ_RIGHT(x) < PQ_LEN(q) && PQ_RANK(q, x) > PQ_RANK(q, PQ_RIGHT(x))))
#define PQ_UP_MOVES(q, x) ((x) > 0 && PQ_RANK(q, PQ_PARENT(x)) > PQ_RANK(q, x))
/* k is x or a descendant of x (1-based heap numbering: the ancestors of j are j >> d); depth <= 3 for N <= 15 */
#define PQ_DESC(x, k)                                                                                                  \
    ((k) == (x) || (((k) + 1) >> 1) == (x) + 1 || (((k) + 1) >> 2) == (x) + 1 || (((k) + 1) >> 3) == (x) + 1)

/* ---- witnesses pinned to the pre-state ---- */
/* kimax: largest meaningful ghost slot (length-1 for everything but push, where the slot `length` is the new element) */
#define PQ_REQ_WITNESSES(q)                                                                                            \
    __CPROVER_requires(g_on ==> g_pj < ISZ && g_h < PQK && g_pos == g_ki)                                              \
    __CPROVER_requires(g_on && g_ki < PQ_LEN(q) ==> g_ki_key == PQ_KEY(q, g_ki) && g_ki_b == PQ_B(q, g_ki, g_pj) &&    \
                                                     g_ki_bp == (PQ_BP_LIVE(q) ? PQ_BPA(q)[g_ki] : NULL))              \
    __CPROVER_requires(g_on ==> g_h_idx == g_nodes[g_h].current_index && g_h_inq == PQ_INQ(q, g_h))                    \
    __CPROVER_requires(g_on && g_h_inq ==> g_h_key == PQ_KEY(q, g_h_idx) && g_h_b == PQ_B(q, g_h_idx, g_pj))
/* slot i holds the ghost element (and its handle, if the queue has handles) */
#define PQ_SLOT_IS(q, i) (PQ_KEY(q, i) == g_ki_key && PQ_B(q, i, g_pj) == g_ki_b && (PQ_BP_LIVE(q) ==> PQ_BPA(q)[i] == g_ki_bp))
/* the ghost slot is exactly as before (element and handle), and the cursor did not move */
#define PQ_SLOT_SAME(q) (PQ_SLOT_IS(q, g_ki) && g_pos == g_ki)
/* the element of the old ghost slot is still stored: the cursor is a slot of the queue and holds it */
#define PQ_CURSOR_OK(q) (g_pos < PQ_LEN(q) && PQ_SLOT_IS(q, g_pos))
/* the ghost handle still identifies the element it identified before the call */
#define PQ_H_TRACKS(q)                                                                                                 \
    (PQ_INQ(q, g_h) && PQ_KEY(q, g_nodes[g_h].current_index) == g_h_key && PQ_B(q, g_nodes[g_h].current_index, g_pj) == g_h_b)
#define PQ_H_UNTOUCHED (g_nodes[g_h].current_index == g_h_idx)
#define PQ_ENS_NO_HANDLE_LEAVES(q)                                                                                     \
    __CPROVER_ensures(g_on && g_h_inq ==> PQ_H_TRACKS(q))                                                              \
    __CPROVER_ensures(g_on && !g_h_inq ==> PQ_H_UNTOUCHED && !PQ_INQ(q, g_h))

/* ---- frames ---- */
#define PQ_A_ELEMS(q) PQ_LEN(q) > 0 : __CPROVER_object_upto(PQ_DATA(q), PQ_LEN(q) * ISZ)
#define PQ_A_BPS(q) PQ_BP_LIVE(q) && PQ_LEN(q) > 0 : __CPROVER_object_upto((uint8_t *)(q)->backpointers.data, PQ_LEN(q) * PQ_PSZ)
#define PQ_A_POOL(q) PQ_BP_LIVE(q) : __CPROVER_object_whole(g_nodes)

/* ------------------------------------------------------------------ s_swap */
/* Exchanges two elements together with their handles and rewrites the handles' indices; nothing else moves; the
 * ghost cursor follows (see the hook in the unit).  Written with __CPROVER_old; two flavours because old(bp[a]) is
 * evaluated unguarded: queue with / without a handle array (enforced as s_swap/pq_swap_live, s_swap/pq_swap_plain). */
#define PQ_SWAP_COMMON(queue, a, b)                                                                                    \
    __CPROVER_requires(PQ_STATE(queue))                                                                                \
    __CPROVER_requires(a < PQ_LEN(queue) && b < PQ_LEN(queue) && a != b && g_pj < ISZ)                                 \
    __CPROVER_assigns(__CPROVER_object_upto(PQ_DATA(queue) + a * ISZ, ISZ), __CPROVER_object_upto(PQ_DATA(queue) + b * ISZ, ISZ), g_pos) \
    __CPROVER_ensures(PQ_STATE(queue))                                                                                 \
    __CPROVER_ensures(PQ_KEY(queue, a) == OLD(PQ_KEY(queue, b)) && PQ_KEY(queue, b) == OLD(PQ_KEY(queue, a)))          \
    __CPROVER_ensures(PQ_B(queue, a, g_pj) == OLD(PQ_B(queue, b, g_pj)) && PQ_B(queue, b, g_pj) == OLD(PQ_B(queue, a, g_pj))) \
    __CPROVER_ensures(g_pos == (OLD(g_pos) == a ? b : (OLD(g_pos) == b ? a : OLD(g_pos))))

void pq_swap_plain(struct aws_priority_queue *queue, size_t a, size_t b)
__CPROVER_requires(!PQ_BP_LIVE(queue))
PQ_SWAP_COMMON(queue, a, b)
;

void pq_swap_live(struct aws_priority_queue *queue, size_t a, size_t b)
__CPROVER_requires(PQ_BP_LIVE(queue))
PQ_SWAP_COMMON(queue, a, b)
__CPROVER_assigns(PQ_BPA(queue)[a], PQ_BPA(queue)[b])
__CPROVER_assigns(PQ_BPA(queue)[a] != NULL : PQ_BPA(queue)[a]->current_index)
__CPROVER_assigns(PQ_BPA(queue)[b] != NULL : PQ_BPA(queue)[b]->current_index)
/* the handles travel with their elements (and, by PQ_STATE, say so: bp[i]->current_index == i) */
__CPROVER_ensures(PEQ(PQ_BPA(queue)[a], OLD(PQ_BPA(queue)[b])) && PEQ(PQ_BPA(queue)[b], OLD(PQ_BPA(queue)[a])))
;

/* ------------------------------------------------------------------ sift */
#define PQ_A_SIFT(q)                                                                                                   \
    __CPROVER_assigns(PQ_A_ELEMS(q))                                                                                   \
    __CPROVER_assigns(PQ_A_BPS(q))                                                                                     \
    __CPROVER_assigns(PQ_A_POOL(q))                                                                                    \
    __CPROVER_assigns(g_pos)

/* precondition: only the order below `root` may be broken.  Restores heap order; every element (with its handle) is
 * still stored; slots outside the subtree of root untouched; result says whether the element moved. */
static bool s_sift_down(struct aws_priority_queue *queue, size_t root)
__CPROVER_requires(PQ_STATE(queue))
__CPROVER_requires(root < PQ_LEN(queue))
__CPROVER_requires(PQ_HO_EXCEPT_DOWN(queue, root))
PQ_REQ_WITNESSES(queue)
__CPROVER_requires(g_on ==> g_ki < PQ_LEN(queue) && g_moved == PQ_DOWN_MOVES(queue, root))
PQ_A_SIFT(queue)
__CPROVER_ensures(PQ_STATE(queue) && PQ_HO(queue))
__CPROVER_ensures(g_on ==> RET == g_moved)
__CPROVER_ensures(g_on ==> PQ_CURSOR_OK(queue))
__CPROVER_ensures(g_on && (!PQ_DESC(root, g_ki) || !g_moved) ==> PQ_SLOT_SAME(queue))
PQ_ENS_NO_HANDLE_LEAVES(queue)
;

/* precondition: heap order except at `index` (the code's own s_sift_either calls it like that).  If the element moves
 * up the heap order is restored; if not, nothing changes and only the order below index may still be broken. */
static bool s_sift_up(struct aws_priority_queue *queue, size_t index)
__CPROVER_requires(PQ_STATE(queue))
__CPROVER_requires(index < PQ_LEN(queue))
__CPROVER_requires(PQ_HO_EXCEPT(queue, index))
PQ_REQ_WITNESSES(queue)
__CPROVER_requires(g_on ==> g_ki < PQ_LEN(queue) && g_moved == PQ_UP_MOVES(queue, index))
PQ_A_SIFT(queue)
__CPROVER_ensures(PQ_STATE(queue))
__CPROVER_ensures(RET ==> PQ_HO(queue))
__CPROVER_ensures(!RET ==> PQ_HO_EXCEPT_DOWN(queue, index))
__CPROVER_ensures(g_on ==> RET == g_moved)
__CPROVER_ensures(g_on ==> PQ_CURSOR_OK(queue))
/* only index and its ancestors can change */
__CPROVER_ensures(g_on && (!PQ_DESC(g_ki, index) || !g_moved) ==> PQ_SLOT_SAME(queue))
PQ_ENS_NO_HANDLE_LEAVES(queue)
;

static void s_sift_either(struct aws_priority_queue *queue, size_t index)
__CPROVER_requires(PQ_STATE(queue))
__CPROVER_requires(index < PQ_LEN(queue))
__CPROVER_requires(PQ_HO_EXCEPT(queue, index))
PQ_REQ_WITNESSES(queue)
__CPROVER_requires(g_on ==> g_ki < PQ_LEN(queue))
PQ_A_SIFT(queue)
__CPROVER_ensures(PQ_STATE(queue) && PQ_HO(queue))
__CPROVER_ensures(g_on ==> PQ_CURSOR_OK(queue))
__CPROVER_ensures(g_on && !PQ_DESC(g_ki, index) && !PQ_DESC(index, g_ki) ==> PQ_SLOT_SAME(queue))
PQ_ENS_NO_HANDLE_LEAVES(queue)
;

/* ------------------------------------------------------------------ removal */
#define PQ_A_REMOVE(q, ok)                                                                                             \
    __CPROVER_assigns((ok) : __CPROVER_object_upto((uint8_t *)item, ISZ), (q)->container.length, g_pos)                \
    __CPROVER_assigns((ok) && PQ_LEN(q) > 0 : __CPROVER_object_upto(PQ_DATA(q), PQ_LEN(q) * ISZ))                      \
    __CPROVER_assigns((ok) && PQ_BP_LIVE(q) : (q)->backpointers.length, __CPROVER_object_whole(g_nodes))               \
    __CPROVER_assigns((ok) && PQ_BP_LIVE(q) && PQ_LEN(q) > 0 : __CPROVER_object_upto((uint8_t *)(q)->backpointers.data, PQ_LEN(q) * PQ_PSZ))
/* ok = success condition over OLD values, oidx = removed slot over OLD values */
#define PQ_ENS_REMOVE(q, ok, oidx)                                                                                     \
    __CPROVER_ensures(PQ_STATE(q) && PQ_HO(q))                                                                         \
    __CPROVER_ensures(PQ_LEN(q) == OLD(PQ_LEN(q)) - ((ok) ? 1 : 0))                                                    \
    __CPROVER_ensures(PQ_CUR(q) == OLD(PQ_CUR(q)))                                                                     \
    /* the element handed out is the one that was in the slot; every other element (with its handle) is still stored */ \
    __CPROVER_ensures(g_on && (ok) && g_ki == (oidx) ==> ((uint8_t *)item)[0] == g_ki_key && ((uint8_t *)item)[g_pj] == g_ki_b) \
    __CPROVER_ensures(g_on && (ok) && g_ki != (oidx) && g_ki < OLD(PQ_LEN(q)) ==> PQ_CURSOR_OK(q))                     \
    /* its handle is marked not-in-queue; every other handle keeps identifying its own element */                     \
    __CPROVER_ensures(g_on && g_h_inq && (ok) && g_h_idx == (oidx) ==> g_nodes[g_h].current_index == SIZE_MAX && !PQ_INQ(q, g_h)) \
    __CPROVER_ensures(g_on && g_h_inq && !((ok) && g_h_idx == (oidx)) ==> PQ_H_TRACKS(q))                              \
    __CPROVER_ensures(g_on && !g_h_inq ==> PQ_H_UNTOUCHED && !PQ_INQ(q, g_h))                                          \
    /* refusal changes nothing */                                                                                      \
    __CPROVER_ensures(g_on && !(ok) && g_ki < PQ_LEN(q) ==> PQ_SLOT_SAME(q))                                           \
    __CPROVER_ensures(g_on && !(ok) && g_h_inq ==> PQ_H_UNTOUCHED)

static int s_remove_node(struct aws_priority_queue *queue, void *item, size_t item_index)
__CPROVER_requires(PQ_STATE(queue) && PQ_HO(queue))
__CPROVER_requires(__CPROVER_w_ok(item, ISZ))
__CPROVER_requires(item_index < PQ_LEN(queue))
PQ_REQ_WITNESSES(queue)
PQ_A_REMOVE(queue, 1)
__CPROVER_ensures(RET == AWS_OP_SUCCESS)
PQ_ENS_REMOVE(queue, 1, item_index)
;

/* pop: refuses an empty queue; otherwise hands out slot 0, which is a minimum of everything stored */
int aws_priority_queue_pop(struct aws_priority_queue *queue, void *item)
__CPROVER_requires(PQ_STATE(queue) && PQ_HO(queue))
__CPROVER_requires(__CPROVER_w_ok(item, ISZ))
PQ_REQ_WITNESSES(queue)
PQ_A_REMOVE(queue, PQ_LEN(queue) > 0)
AL_ERR_FRAME(PQ_LEN(queue) == 0)
__CPROVER_ensures(RET == AWS_OP_SUCCESS || RET == AWS_OP_ERR)
__CPROVER_ensures((RET == AWS_OP_SUCCESS) == (OLD(PQ_LEN(queue)) > 0))
__CPROVER_ensures(RET != AWS_OP_SUCCESS ==> g_last_error == AWS_ERROR_PRIORITY_QUEUE_EMPTY)
__CPROVER_ensures(RET == AWS_OP_SUCCESS ==> AL_NO_ERR_RAISED)
PQ_ENS_REMOVE(queue, OLD(PQ_LEN(queue)) > 0, 0)
__CPROVER_ensures(g_on && RET == AWS_OP_SUCCESS && g_ki < OLD(PQ_LEN(queue)) ==> PQ_RANKOF(((uint8_t *)item)[0]) <= PQ_RANKOF(g_ki_key))
;

/* remove by handle.  The handle is a pool handle that is in the queue, or one whose index field is not a slot of the
 * queue (SIZE_MAX after pop/remove/clear/node_init: "stale"), or any handle when the queue never had handles.
 * success <=> the handle is in the queue; a stale handle is refused with BAD_NODE and nothing changes. */
#define PQ_REMOVE_OK_(live, idx, len) ((live) && (idx) < (len))
int aws_priority_queue_remove(struct aws_priority_queue *queue, void *item, const struct aws_priority_queue_node *node)
__CPROVER_requires(PQ_STATE(queue) && PQ_HO(queue))
__CPROVER_requires(__CPROVER_w_ok(item, ISZ))
__CPROVER_requires(PQ_IN_POOL(node))
__CPROVER_requires(PQ_INQ_P(queue, node) || !PQ_BP_LIVE(queue) || node->current_index >= PQ_LEN(queue))
PQ_REQ_WITNESSES(queue)
PQ_A_REMOVE(queue, PQ_REMOVE_OK_(PQ_BP_LIVE(queue), node->current_index, PQ_LEN(queue)))
AL_ERR_FRAME(!PQ_REMOVE_OK_(PQ_BP_LIVE(queue), node->current_index, PQ_LEN(queue)))
__CPROVER_ensures(RET == AWS_OP_SUCCESS || RET == AWS_OP_ERR)
__CPROVER_ensures((RET == AWS_OP_SUCCESS) == PQ_REMOVE_OK_(OLD(queue->backpointers.data) != NULL, OLD(node->current_index), OLD(PQ_LEN(queue))))
__CPROVER_ensures(RET != AWS_OP_SUCCESS ==> g_last_error == AWS_ERROR_PRIORITY_QUEUE_BAD_NODE && node->current_index == OLD(node->current_index))
__CPROVER_ensures(RET == AWS_OP_SUCCESS ==> AL_NO_ERR_RAISED && node->current_index == SIZE_MAX)
PQ_ENS_REMOVE(queue, PQ_REMOVE_OK_(OLD(queue->backpointers.data) != NULL, OLD(node->current_index), OLD(PQ_LEN(queue))), OLD(node->current_index))
;

/* top: pointer to slot 0 (a minimum), nothing written but *item */
int aws_priority_queue_top(const struct aws_priority_queue *queue, void **item)
__CPROVER_requires(PQ_STATE(queue) && PQ_HO(queue))
__CPROVER_requires(__CPROVER_w_ok(item, sizeof(*item)))
PQ_REQ_WITNESSES(queue)
__CPROVER_assigns(PQ_LEN(queue) > 0 : *item)
AL_ERR_FRAME(PQ_LEN(queue) == 0)
__CPROVER_ensures(RET == AWS_OP_SUCCESS || RET == AWS_OP_ERR)
__CPROVER_ensures((RET == AWS_OP_SUCCESS) == (PQ_LEN(queue) > 0))
__CPROVER_ensures(RET != AWS_OP_SUCCESS ==> g_last_error == AWS_ERROR_PRIORITY_QUEUE_EMPTY)
__CPROVER_ensures(RET == AWS_OP_SUCCESS ==> AL_NO_ERR_RAISED && *item == queue->container.data)
__CPROVER_ensures(g_on && RET == AWS_OP_SUCCESS && g_ki < PQ_LEN(queue) ==> PQ_RANKOF(*(uint8_t *)*item) <= PQ_RANKOF(g_ki_key))
;

/* ------------------------------------------------------------------ push */
#define PQ_FULL_(len, cur) ((len) * ISZ + ISZ > (cur))
#define PQ_PUSH_OK_(dyn, len, cur, bp) ((dyn) || (!PQ_FULL_(len, cur) && (bp) == NULL))
#define PQ_FULL(q) PQ_FULL_(PQ_LEN(q), PQ_CUR(q))
#define PQ_PUSH_OK(q, bp) PQ_PUSH_OK_(PQ_DYN(q), PQ_LEN(q), PQ_CUR(q), bp)
#define PQ_OLD_FULL(q) PQ_FULL_(OLD(PQ_LEN(q)), OLD(PQ_CUR(q)))
#define PQ_OLD_DYN(q) (OLD((q)->container.alloc) != NULL)
#define PQ_OLD_PUSH_OK(q, bp) PQ_PUSH_OK_(PQ_OLD_DYN(q), OLD(PQ_LEN(q)), OLD(PQ_CUR(q)), bp)
#define PQ_OLD_BP_LIVE(q) (OLD((q)->backpointers.data) != NULL)

/* bp: the handle expression (NULL for plain push).  The ghost slot g_ki ranges over the old slots AND the slot
 * `old length`, which stands for the pushed element.
 * success <=> dynamic queue, or static queue with room and no handle.  A full static queue refuses with
 * LIST_EXCEEDS_MAX_SIZE, a static queue refuses a handle with UNSUPPORTED_OPERATION (after rolling the element back);
 * either way every slot and every handle are as before. */
#define PQ_PUSH_CONTRACT(q, bp)                                                                                        \
    __CPROVER_requires(PQ_STATE(q) && PQ_HO(q))                                                                        \
    __CPROVER_requires(PQ_LEN(q) < PQN && PQ_CUR(q) <= PQ_CAPMAX * ISZ && (q)->backpointers.current_size <= PQ_CAPMAX * PQ_PSZ) \
    __CPROVER_requires(__CPROVER_r_ok(item, ISZ))                                                                      \
    PQ_REQ_WITNESSES(q)                                                                                                \
    __CPROVER_requires(g_on ==> g_ki <= PQ_LEN(q))                                                                     \
    __CPROVER_requires(g_on && g_ki == PQ_LEN(q) ==> g_ki_key == ((const uint8_t *)item)[0] &&                         \
                                                      g_ki_b == ((const uint8_t *)item)[g_pj] && g_ki_bp == (bp))      \
    __CPROVER_assigns(PQ_DYN(q) || !PQ_FULL(q) : (q)->container.length, g_pos)                                         \
    __CPROVER_assigns(!PQ_FULL(q) : __CPROVER_object_upto(PQ_DATA(q), (PQ_LEN(q) + 1) * ISZ))                          \
    __CPROVER_assigns(PQ_DYN(q) && PQ_FULL(q) : (q)->container.data, (q)->container.current_size)                      \
    __CPROVER_frees(PQ_DYN(q) && PQ_FULL(q) && (q)->container.data != NULL : (q)->container.data)                      \
    __CPROVER_assigns(PQ_DYN(q) && (PQ_BP_LIVE(q) || (bp) != NULL) : (q)->backpointers, __CPROVER_object_whole(g_nodes)) \
    __CPROVER_assigns(PQ_BP_LIVE(q) : __CPROVER_object_upto((uint8_t *)(q)->backpointers.data, (q)->backpointers.current_size)) \
    __CPROVER_frees(PQ_BP_LIVE(q) : (q)->backpointers.data)                                                            \
    AL_ERR_FRAME(!PQ_PUSH_OK(q, bp))                                                                                   \
    __CPROVER_ensures(RET == AWS_OP_SUCCESS || RET == AWS_OP_ERR)                                                      \
    __CPROVER_ensures((RET == AWS_OP_SUCCESS) == PQ_OLD_PUSH_OK(q, bp))                                                \
    __CPROVER_ensures(RET != AWS_OP_SUCCESS && PQ_OLD_FULL(q) ==> g_last_error == AWS_ERROR_LIST_EXCEEDS_MAX_SIZE)     \
    __CPROVER_ensures(RET != AWS_OP_SUCCESS && !PQ_OLD_FULL(q) ==> g_last_error == AWS_ERROR_UNSUPPORTED_OPERATION)    \
    __CPROVER_ensures(RET == AWS_OP_SUCCESS ==> AL_NO_ERR_RAISED)                                                      \
    __CPROVER_ensures(PQ_STATE(q) && PQ_HO(q))                                                                         \
    __CPROVER_ensures(PQ_LEN(q) == OLD(PQ_LEN(q)) + (RET == AWS_OP_SUCCESS ? 1 : 0))                                   \
    /* storage: doubles (or becomes exactly one element) when a dynamic queue is full, otherwise stays */             \
    __CPROVER_ensures(PQ_OLD_DYN(q) && PQ_OLD_FULL(q)                                                                  \
                          ? PQ_CUR(q) == (OLD(PQ_CUR(q)) * 2 > (OLD(PQ_LEN(q)) + 1) * ISZ ? OLD(PQ_CUR(q)) * 2 : (OLD(PQ_LEN(q)) + 1) * ISZ) \
                          : (PQ_CUR(q) == OLD(PQ_CUR(q)) && (q)->container.data == OLD((q)->container.data)))         \
    __CPROVER_ensures((q)->container.alloc == OLD((q)->container.alloc))                                               \
    /* the handle array appears with the first handle and never goes away */                                          \
    __CPROVER_ensures(PQ_BP_LIVE(q) == (PQ_OLD_BP_LIVE(q) || (RET == AWS_OP_SUCCESS && (bp) != NULL)))                 \
    /* every old element AND the pushed one (g_ki == old length) is stored, together with its handle (NULL for the   \
     * old elements when the handle array is created by this call: zero-fill) */                                      \
    __CPROVER_ensures(g_on && RET == AWS_OP_SUCCESS ==> PQ_CURSOR_OK(q))                                               \
    /* the new handle identifies the pushed element */                                                                \
    __CPROVER_ensures(g_on && RET == AWS_OP_SUCCESS && (bp) != NULL ==>                                                \
                      PQ_INQ_P(q, bp) && PQ_KEY(q, (bp)->current_index) == ((const uint8_t *)item)[0] &&               \
                      PQ_B(q, (bp)->current_index, g_pj) == ((const uint8_t *)item)[g_pj])                             \
    /* every handle that was in the queue keeps identifying its element; outside handles are untouched */             \
    __CPROVER_ensures(g_on && g_h_inq ==> PQ_H_TRACKS(q))                                                              \
    __CPROVER_ensures(g_on && !g_h_inq && !(RET == AWS_OP_SUCCESS && (bp) == &g_nodes[g_h]) ==> PQ_H_UNTOUCHED && !PQ_INQ(q, g_h)) \
    /* refusal changes nothing */                                                                                      \
    __CPROVER_ensures(g_on && RET != AWS_OP_SUCCESS && g_ki < PQ_LEN(q) ==> PQ_SLOT_SAME(q))                           \
    __CPROVER_ensures(g_on && RET != AWS_OP_SUCCESS && g_h_inq ==> PQ_H_UNTOUCHED)

int aws_priority_queue_push_ref(struct aws_priority_queue *queue, void *item, struct aws_priority_queue_node *backpointer)
__CPROVER_requires(backpointer == NULL || (PQ_IN_POOL(backpointer) && !PQ_INQ_P(queue, backpointer)))
PQ_PUSH_CONTRACT(queue, backpointer)
;

int aws_priority_queue_push(struct aws_priority_queue *queue, void *item)
PQ_PUSH_CONTRACT(queue, ((struct aws_priority_queue_node *)NULL))
;

/* ------------------------------------------------------------------ clear */
/* empties the queue, marks every handle that was in it as not-in-queue, keeps the storage */
void aws_priority_queue_clear(struct aws_priority_queue *queue)
__CPROVER_requires(PQ_STATE(queue) && PQ_HO(queue))
PQ_REQ_WITNESSES(queue)
__CPROVER_assigns(queue->container.data != NULL : queue->container.length)
__CPROVER_assigns(PQ_BP_LIVE(queue) : queue->backpointers.length, __CPROVER_object_whole(g_nodes))
__CPROVER_ensures(PQ_STATE(queue) && PQ_HO(queue))
__CPROVER_ensures(PQ_LEN(queue) == 0 && PQ_CUR(queue) == OLD(PQ_CUR(queue)))
__CPROVER_ensures(g_on && g_h_inq ==> g_nodes[g_h].current_index == SIZE_MAX)
__CPROVER_ensures(g_on && !g_h_inq ==> PQ_H_UNTOUCHED)
__CPROVER_ensures(g_on ==> !PQ_INQ(queue, g_h))
;

/* ------------------------------------------------------------------ observers, init, clean-up (loop-free) */
size_t aws_priority_queue_size(const struct aws_priority_queue *queue)
__CPROVER_requires(PQ_STATE(queue))
__CPROVER_assigns()
__CPROVER_ensures(RET == PQ_LEN(queue))
;

size_t aws_priority_queue_capacity(const struct aws_priority_queue *queue)
__CPROVER_requires(PQ_STATE(queue))
__CPROVER_assigns()
__CPROVER_ensures(RET == PQ_CUR(queue) / ISZ && RET >= PQ_LEN(queue))
;

void aws_priority_queue_node_init(struct aws_priority_queue_node *node)
__CPROVER_requires(__CPROVER_is_fresh(node, sizeof(*node)))
__CPROVER_assigns(node->current_index)
__CPROVER_ensures(node->current_index == SIZE_MAX)
;

bool aws_priority_queue_node_is_in_queue(const struct aws_priority_queue_node *node)
__CPROVER_requires(__CPROVER_is_fresh(node, sizeof(*node)))
__CPROVER_assigns()
__CPROVER_ensures(RET == (node->current_index != SIZE_MAX))
;

/* fixed-capacity queue over caller storage: empty, no handle array, capacity == item_count (any item_count) */
void aws_priority_queue_init_static(
    struct aws_priority_queue *queue,
    void *heap,
    size_t item_count,
    size_t item_size,
    aws_priority_queue_compare_fn *pred)
__CPROVER_requires(__CPROVER_is_fresh(queue, sizeof(*queue)))
__CPROVER_requires(item_size == ISZ && item_count > 0 && item_count <= SIZE_MAX / ISZ)
__CPROVER_requires(__CPROVER_is_fresh(heap, item_count * ISZ))
__CPROVER_assigns(*queue)
__CPROVER_ensures(queue->pred == pred && PQ_BP_ZERO(queue))
__CPROVER_ensures(queue->container.alloc == NULL && PQ_LEN(queue) == 0 && queue->container.item_size == ISZ &&
                  PQ_CUR(queue) == item_count * ISZ && PEQ(queue->container.data, heap))
;

int aws_priority_queue_init_dynamic(
    struct aws_priority_queue *queue,
    struct aws_allocator *alloc,
    size_t default_size,
    size_t item_size,
    aws_priority_queue_compare_fn *pred)
__CPROVER_requires(__CPROVER_is_fresh(queue, sizeof(*queue)))
__CPROVER_requires(alloc != NULL && item_size == ISZ)
__CPROVER_assigns(*queue)
AL_ERR_FRAME(default_size > SIZE_MAX / ISZ)
__CPROVER_ensures(RET == AWS_OP_SUCCESS || RET == AWS_OP_ERR)
__CPROVER_ensures((RET == AWS_OP_SUCCESS) == (default_size <= SIZE_MAX / ISZ))
__CPROVER_ensures(queue->pred == pred && PQ_BP_ZERO(queue))
__CPROVER_ensures(RET == AWS_OP_SUCCESS ==> queue->container.alloc == alloc && PQ_LEN(queue) == 0 &&
                  queue->container.item_size == ISZ && PQ_CUR(queue) == default_size * ISZ &&
                  (default_size == 0 ? queue->container.data == NULL : __CPROVER_is_fresh(queue->container.data, PQ_CUR(queue))))
__CPROVER_ensures(RET != AWS_OP_SUCCESS ==> g_last_error == AWS_ERROR_OVERFLOW_DETECTED && queue->container.alloc == NULL &&
                  PQ_LEN(queue) == 0 && queue->container.item_size == 0 && PQ_CUR(queue) == 0 && queue->container.data == NULL)
;

/* releases both arrays of a dynamic queue, nothing of a static one; the struct's lists are zeroed */
void aws_priority_queue_clean_up(struct aws_priority_queue *queue)
__CPROVER_requires(PQ_STATE(queue))
__CPROVER_assigns(queue->container, queue->backpointers)
__CPROVER_frees(PQ_DYN(queue) && queue->container.data != NULL : queue->container.data)
__CPROVER_frees(PQ_BP_LIVE(queue) : queue->backpointers.data)
__CPROVER_ensures(PQ_BP_ZERO(queue) && queue->container.alloc == NULL && PQ_LEN(queue) == 0 && PQ_CUR(queue) == 0 &&
                  queue->container.data == NULL && queue->container.item_size == 0)
;

#endif
