/* Function contracts for source/cbor.c (property C10; the decoder contracts are also the C04 shape for CBOR).
 *
 * INCLUDE ORDER: struct aws_cbor_encoder / aws_cbor_decoder are private to source/cbor.c, so this header is included
 * AFTER `#include "source/cbor.c"` (a contract on a re-declaration that follows the definition is picked up as well).
 *
 * The specification side is written from RFC 8949 section 3 only (it never looks at libcbor):
 *   head  = initial byte (major type << 5 | additional information) followed by the argument in network byte order
 *           in 0/1/2/4/8 bytes (additional information <24 / 24 / 25 / 26 / 27);
 *   CBOR_HEAD_*  : the SHORTEST head for (major, argument)  -> postcondition of every encoder function
 *   CBOR_IN_*    : what an independent reader sees in a byte string -> postcondition of the decoder
 * The round trip is the composition of the two (units/C10: lemma_* units) plus direct runs through the real code.
 */
#ifndef VERIF_CONTRACTS_CBOR_H
#define VERIF_CONTRACTS_CBOR_H
#include "contracts/common.h"
#include "contracts/byte_buf.h"

/* ------------------------------------------------------------------ RFC 8949 encoder-side spec (shortest head) */
#define CBOR_AI(v) ((uint8_t)((v) < 24 ? (v) : (v) <= 0xFFu ? 24 : (v) <= 0xFFFFu ? 25 : (v) <= 0xFFFFFFFFull ? 26 : 27))
/* 1 / 2 / 3 / 5 / 9 bytes; written without ?: because assigns-clause conditions must not contain ternaries */
#define CBOR_HEAD_LEN(v)                                                                                               \
    ((size_t)1 + (size_t)((v) >= 24) + (size_t)((v) > 0xFFu) + 2 * (size_t)((v) > 0xFFFFu) + 4 * (size_t)((v) > 0xFFFFFFFFull))
/* j-th byte (0-based) of the shortest head of (major, v); meaningful for j < CBOR_HEAD_LEN(v) */
#define CBOR_HEAD_BYTE(major, v, j)                                                                                    \
    ((j) == 0 ? (uint8_t)(((major) << 5) | CBOR_AI(v))                                                                 \
              : (uint8_t)((uint64_t)(v) >> (8 * (CBOR_HEAD_LEN(v) - 1 - (j)))))
/* j-th byte of a head with a fixed-width argument of w bytes (floats): initial byte b0, then `bits` big-endian */
#define CBOR_FIXED_BYTE(b0, w, bits, j) ((j) == 0 ? (uint8_t)(b0) : (uint8_t)((uint64_t)(bits) >> (8 * ((w) - (j)))))

#define F32_BITS(f) (((union { float f_; uint32_t u_; }){.f_ = (f)}).u_)
#define F64_BITS(d) (((union { double d_; uint64_t u_; }){.d_ = (d)}).u_)
#define BITS_F32(u) (((union { float f_; uint32_t u_; }){.u_ = (u)}).f_)
#define BITS_F64(u) (((union { double d_; uint64_t u_; }){.u_ = (u)}).d_)

/* ------------------------------------------------------------------ encoder */

#define ENC_OK(e)                                                                                                      \
    (__CPROVER_is_fresh((e), sizeof(*(e))) && (e)->allocator != NULL && (e)->encoded_buf.allocator != NULL &&          \
     BUF_FIELDS_OK(&(e)->encoded_buf))
#define EB(e) ((e)->encoded_buf)

/* Frame and shape shared by every aws_cbor_encoder_write_*: appends exactly N bytes at the old length.
 *  - only len/capacity/buffer of the encoder and the N bytes behind the old length (when they fit in place) may change;
 *    the old storage may be given back to the allocator (growth);
 *  - every byte written before the call is still there (witness g_k/g_old);
 *  - no abort: the unit stubs aws_fatal_assert with assert(false). */
#define ENC_APPEND_CONTRACT(N)                                                                                         \
    __CPROVER_requires(ENC_OK(encoder))                                                                                \
    __CPROVER_requires(g_on ==> (g_k < EB(encoder).capacity ==> g_old == EB(encoder).buffer[g_k]))                     \
    __CPROVER_assigns(EB(encoder).len, EB(encoder).capacity, EB(encoder).buffer)                                       \
    __CPROVER_assigns(EB(encoder).capacity - EB(encoder).len >= (N) && (N) > 0 : __CPROVER_object_upto(EB(encoder).buffer + EB(encoder).len, (N))) \
    __CPROVER_frees(EB(encoder).buffer)                                                                                \
    __CPROVER_ensures(EB(encoder).len == OLD(EB(encoder).len) + (N))                                                   \
    __CPROVER_ensures(EB(encoder).len <= EB(encoder).capacity && EB(encoder).capacity >= OLD(EB(encoder).capacity))    \
    __CPROVER_ensures(EB(encoder).capacity == OLD(EB(encoder).capacity) ? PEQ(EB(encoder).buffer, OLD(EB(encoder).buffer)) \
                                                                        : __CPROVER_is_fresh(EB(encoder).buffer, EB(encoder).capacity)) \
    __CPROVER_ensures(g_on && g_k < OLD(EB(encoder).len) ==> EB(encoder).buffer[g_k] == g_old)

#define ENS_HEAD_AT(e, major, v, j)                                                                                    \
    ((j) < CBOR_HEAD_LEN(v) ==> EB(e).buffer[OLD(EB(e).len) + (j)] == CBOR_HEAD_BYTE(major, v, j))
/* all (at most 9) bytes of the head, spelled out: the decoder needs them simultaneously */
#define ENS_HEAD(e, major, v)                                                                                          \
    __CPROVER_ensures(ENS_HEAD_AT(e, major, v, 0) && ENS_HEAD_AT(e, major, v, 1) && ENS_HEAD_AT(e, major, v, 2) &&     \
                      ENS_HEAD_AT(e, major, v, 3) && ENS_HEAD_AT(e, major, v, 4) && ENS_HEAD_AT(e, major, v, 5) &&     \
                      ENS_HEAD_AT(e, major, v, 6) && ENS_HEAD_AT(e, major, v, 7) && ENS_HEAD_AT(e, major, v, 8))

void aws_cbor_encoder_write_uint(struct aws_cbor_encoder *encoder, uint64_t value)
ENC_APPEND_CONTRACT(CBOR_HEAD_LEN(value))
ENS_HEAD(encoder, 0, value)
;

#endif
