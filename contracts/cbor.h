/* Function contracts for source/cbor.c and the libcbor leaf encoders it uses (property C10; the decoder contracts
 * are also the C04 shape for CBOR).
 *
 * INCLUDE ORDER: struct aws_cbor_encoder / aws_cbor_decoder are private to source/cbor.c, so this header is included
 * AFTER `#include "source/cbor.c"` (a contract on a re-declaration that follows the definition is picked up as well).
 *
 * The specification side is written from RFC 8949 section 3 only (it never looks at libcbor):
 *   head  = initial byte (major type << 5 | additional information) followed by the argument in network byte order
 *           in 0/1/2/4/8 bytes (additional information <24 / 24 / 25 / 26 / 27);
 *   CBOR_HEAD_*  : the SHORTEST head for (major, argument)            -> postcondition of every encoder function
 *   CBOR_IN_*    : what an independent reader sees in a byte string   -> postcondition of the decoder
 * The round trip is the composition of the two (units/C10: lemma_* units) plus direct runs through the real code
 * (rt_* units).
 *
 * Content is stated for ONE arbitrary byte index g_j (ghost witness, DESIGN 4.3): reading nine bytes at a symbolic
 * offset of an unbounded object in one clause is out of reach for the SAT back end (probed: no answer in 20 min),
 * one witness byte takes a second.
 */
#ifndef VERIF_CONTRACTS_CBOR_H
#define VERIF_CONTRACTS_CBOR_H
#include "contracts/common.h"
#include "contracts/byte_buf.h"

/* ------------------------------------------------------------------ RFC 8949 encoder-side spec (shortest head) */
#define CBOR_AI(v) ((uint8_t)((v) < 24 ? (v) : (v) <= 0xFFu ? 24 : (v) <= 0xFFFFu ? 25 : (v) <= 0xFFFFFFFFull ? 26 : 27))
/* 1 / 2 / 3 / 5 / 9 bytes; written without ?: because assigns-clause conditions must not contain ternaries */
#define CBOR_HEAD_LEN(v)                                                                                               \
    ((size_t)1 + (size_t)((v) >= 24) + (size_t)((v) > 0xFFu) + 2 * (size_t)((v) > 0xFFFFu) + 4 * (size_t)((v) > 0xFFFFFFFFull))
/* j-th byte (0-based) of the shortest head whose initial byte is b0base | additional information (b0base = major << 5);
 * meaningful for j < CBOR_HEAD_LEN(v) */
#define CBOR_HEAD_BYTE(b0base, v, j)                                                                                   \
    ((j) == 0 ? (uint8_t)((b0base) + CBOR_AI(v))                                                                       \
              : (uint8_t)((uint64_t)(v) >> (8 * (CBOR_HEAD_LEN(v) - 1 - (j)))))
/* j-th byte of a head with a fixed-width argument of w bytes (floats): initial byte b0, then `bits` big-endian */
#define CBOR_FIXED_BYTE(b0, w, bits, j) ((j) == 0 ? (uint8_t)(b0) : (uint8_t)((uint64_t)(bits) >> (8 * ((w) - (j)))))

#define F32_BITS(f) (((union { float f_; uint32_t u_; }){.f_ = (f)}).u_)
#define F64_BITS(d) (((union { double d_; uint64_t u_; }){.d_ = (d)}).u_)
#define BITS_F32(u) (((union { float f_; uint32_t u_; }){.u_ = (u)}).f_)
#define BITS_F64(u) (((union { double d_; uint64_t u_; }){.u_ = (u)}).d_)

#define CBOR_MT_UINT 0x00
#define CBOR_MT_NEGINT 0x20
#define CBOR_MT_BYTES 0x40
#define CBOR_MT_TEXT 0x60
#define CBOR_MT_ARRAY 0x80
#define CBOR_MT_MAP 0xA0
#define CBOR_MT_TAG 0xC0
#define CBOR_MT_7 0xE0

/* ------------------------------------------------------------------ replay variables (DESIGN 3.5)
 * The driver extracts the LAST value of every object field from the counterexample trace, i.e. the post-state of the
 * encoder / decoder object, and prints floating-point arguments with seven digits.  The pre-state the native replay
 * (replay/cbor_replay.c) needs is therefore recorded in ghost scalars that the harness leaves arbitrary and a
 * ghost-guarded requires clause ties to the input (r_len == encoder->encoded_buf.len, ...): the ghosts are free, so the
 * clause restricts no input; the guard r_who is set by the harness of the unit only (R_NONE after C10_RESET), and at a
 * replaced call site inside the function under proof the object is still in its pre-state, so the clause holds there.
 * Scalars that a harness owns (the double argument's bit pattern, the length of a string argument, the operands of the
 * rt_* units) are plain assignments in the harness. */
enum { R_NONE = 0, R_ENC = 1, R_DEC = 2 };
int r_who;
size_t r_len, r_cap;          /* encoder: fill level and capacity before the call */
uint64_t r_bits;              /* bit pattern of the float / double argument */
size_t r_from_len;            /* length of the string argument */
size_t r_src_len;             /* decoder: bytes left, sticky error, cached element (type; the union's first 8 bytes: integer */
int r_err, r_ctype;           /*   value / boolean / double bits / string length) and the first nine input bytes (the    */
uint64_t r_cu64;              /*   longest head) before the call                                                         */
uint8_t r_b0, r_b1, r_b2, r_b3, r_b4, r_b5, r_b6, r_b7, r_b8;
uint64_t r_v, r_v2;           /* rt_* units: operands */
#define R_ENC_ON() do { r_who = R_ENC; r_len = nondet_size_t(); r_cap = nondet_size_t(); } while (0)
#define R_DEC_ON() do { r_who = R_DEC; r_src_len = nondet_size_t(); r_err = nondet_int(); r_ctype = nondet_int(); r_cu64 = nondet_u64(); \
                        r_b0 = nondet_u8(); r_b1 = nondet_u8(); r_b2 = nondet_u8(); r_b3 = nondet_u8(); r_b4 = nondet_u8(); \
                        r_b5 = nondet_u8(); r_b6 = nondet_u8(); r_b7 = nondet_u8(); r_b8 = nondet_u8(); } while (0)

#define C10_RESET() do { GHOST_RESET(); r_who = R_NONE; } while (0)

/* ------------------------------------------------------------------ libcbor leaf encoders (internal/encoders.c, encoding.c)
 * Each writes a head into [buffer, buffer + buffer_size) iff it fits and returns the number of bytes, 0 otherwise
 * (then nothing is written).  Enforced in the libcbor_* units, replaced in the aws_cbor_encoder_* units. */
#define LEAF_CONTRACT(N, BYTE_AT_GJ)                                                                                   \
    __CPROVER_requires(__CPROVER_is_fresh(buffer, buffer_size))                                                        \
    __CPROVER_assigns(buffer_size >= (N) : __CPROVER_object_upto(buffer, (N)))                                         \
    __CPROVER_ensures(RET == (buffer_size >= (N) ? (N) : 0))                                                           \
    __CPROVER_ensures(g_on && RET != 0 && g_j < (N) ==> buffer[g_j] == (BYTE_AT_GJ))

size_t _cbor_encode_uint(uint64_t value, unsigned char *buffer, size_t buffer_size, uint8_t offset)
LEAF_CONTRACT(CBOR_HEAD_LEN(value), CBOR_HEAD_BYTE(offset, value, g_j))
;
size_t _cbor_encode_uint8(uint8_t value, unsigned char *buffer, size_t buffer_size, uint8_t offset)
LEAF_CONTRACT(CBOR_HEAD_LEN(value), CBOR_HEAD_BYTE(offset, value, g_j))
;
/* fixed widths (used for floats): never shortened */
size_t _cbor_encode_uint32(uint32_t value, unsigned char *buffer, size_t buffer_size, uint8_t offset)
LEAF_CONTRACT((size_t)5, CBOR_FIXED_BYTE(0x1A + offset, 4, value, g_j))
;
size_t _cbor_encode_uint64(uint64_t value, unsigned char *buffer, size_t buffer_size, uint8_t offset)
LEAF_CONTRACT((size_t)9, CBOR_FIXED_BYTE(0x1B + offset, 8, value, g_j))
;
size_t _cbor_encode_byte(uint8_t value, unsigned char *buffer, size_t buffer_size)
LEAF_CONTRACT((size_t)1, value)
;

/* ------------------------------------------------------------------ encoder */

#define ENC_OK(e)                                                                                                      \
    (__CPROVER_is_fresh((e), sizeof(*(e))) && (e)->allocator != NULL && (e)->encoded_buf.allocator != NULL &&          \
     BUF_FIELDS_OK(&(e)->encoded_buf))
#define EB(e) ((e)->encoded_buf)

/* Frame and shape shared by every aws_cbor_encoder_write_*: appends exactly N bytes at the old length.
 * RES is the room the function asks aws_byte_buf_reserve_smart_relative for (9 for every head, 5 for a single, 1 for the
 * one-byte items, 9 + length for strings): the storage is re-allocated exactly when capacity - len < RES.
 *  - only the encoder's buffer descriptor may change, plus - when nothing is re-allocated - the N bytes behind the old
 *    length; when it is re-allocated the old storage goes back to the allocator;
 *  - len grows by exactly N, capacity never shrinks, the allocator fields stay, the storage stays valid
 *    (same block and capacity, or a fresh block of `capacity` bytes);
 *  - every byte written before the call is still there (witness g_k/g_old);
 *  - no abort: the unit stubs aws_fatal_assert with assert(false).
 * N and RES must be free of ?: where they occur in assigns/frees clauses (CBMC rejects ternaries there). */
#define ENC_ROOM(e) ((e)->encoded_buf.capacity - (e)->encoded_buf.len)
#define ENC_ROOM_OLD(e) (OLD((e)->encoded_buf.capacity) - OLD((e)->encoded_buf.len))
#define ENC_APPEND_CONTRACT_F(N, RES, INPLACE)                                                                         \
    __CPROVER_requires(ENC_OK(encoder))                                                                                \
    __CPROVER_requires(g_on ==> g_k < EB(encoder).len && g_old == EB(encoder).buffer[g_k])                             \
    __CPROVER_requires(r_who == R_ENC ==> r_len == EB(encoder).len && r_cap == EB(encoder).capacity) /* replay only */ \
    __CPROVER_assigns(EB(encoder))                                                                                     \
    INPLACE                                                                                                            \
    __CPROVER_frees(ENC_ROOM(encoder) < (RES) : EB(encoder).buffer)                                                    \
    __CPROVER_ensures(EB(encoder).len == OLD(EB(encoder).len) + (N) && EB(encoder).allocator == OLD(EB(encoder).allocator)) \
    __CPROVER_ensures(EB(encoder).len <= EB(encoder).capacity && EB(encoder).capacity >= OLD(EB(encoder).capacity))    \
    __CPROVER_ensures(ENC_ROOM_OLD(encoder) >= (RES)                                                                   \
                          ? EB(encoder).capacity == OLD(EB(encoder).capacity) && PEQ(EB(encoder).buffer, OLD(EB(encoder).buffer)) \
                          : __CPROVER_is_fresh(EB(encoder).buffer, EB(encoder).capacity))                              \
    __CPROVER_ensures(g_on ==> EB(encoder).buffer[g_k] == g_old)
#define ENC_INPLACE(N, RES)                                                                                            \
    __CPROVER_assigns(ENC_ROOM(encoder) >= (RES) && (N) > 0 : __CPROVER_object_upto(EB(encoder).buffer + EB(encoder).len, (N)))
#define ENC_APPEND_CONTRACT(N, RES) ENC_APPEND_CONTRACT_F(N, RES, ENC_INPLACE(N, RES))

/* the byte at index g_j of the appended region */
#define ENC_NEW(e) ((e)->encoded_buf.buffer[OLD((e)->encoded_buf.len) + g_j])
#define ENS_HEAD(b0base, v)                                                                                            \
    __CPROVER_ensures(g_on && g_j < CBOR_HEAD_LEN(v) ==> ENC_NEW(encoder) == CBOR_HEAD_BYTE(b0base, v, g_j))

void aws_cbor_encoder_write_uint(struct aws_cbor_encoder *encoder, uint64_t value)
ENC_APPEND_CONTRACT(CBOR_HEAD_LEN(value), 9)
ENS_HEAD(CBOR_MT_UINT, value)
;
void aws_cbor_encoder_write_negint(struct aws_cbor_encoder *encoder, uint64_t value)
ENC_APPEND_CONTRACT(CBOR_HEAD_LEN(value), 9)
ENS_HEAD(CBOR_MT_NEGINT, value)
;
void aws_cbor_encoder_write_tag(struct aws_cbor_encoder *encoder, uint64_t tag_number)
ENC_APPEND_CONTRACT(CBOR_HEAD_LEN(tag_number), 9)
ENS_HEAD(CBOR_MT_TAG, tag_number)
;
void aws_cbor_encoder_write_array_start(struct aws_cbor_encoder *encoder, size_t number_entries)
ENC_APPEND_CONTRACT(CBOR_HEAD_LEN(number_entries), 9)
ENS_HEAD(CBOR_MT_ARRAY, number_entries)
;
void aws_cbor_encoder_write_map_start(struct aws_cbor_encoder *encoder, size_t number_entries)
ENC_APPEND_CONTRACT(CBOR_HEAD_LEN(number_entries), 9)
ENS_HEAD(CBOR_MT_MAP, number_entries)
;

/* one-byte items */
#define ENC_ONE_BYTE(b)                                                                                                \
    ENC_APPEND_CONTRACT((size_t)1, 1)                                                                                  \
    __CPROVER_ensures(g_on && g_j < 1 ==> ENC_NEW(encoder) == (uint8_t)(b))
void aws_cbor_encoder_write_bool(struct aws_cbor_encoder *encoder, bool value)
ENC_ONE_BYTE(value ? 0xF5 : 0xF4)
;
void aws_cbor_encoder_write_null(struct aws_cbor_encoder *encoder)
ENC_ONE_BYTE(0xF6)
;
void aws_cbor_encoder_write_undefined(struct aws_cbor_encoder *encoder)
ENC_ONE_BYTE(0xF7)
;
void aws_cbor_encoder_write_indef_bytes_start(struct aws_cbor_encoder *encoder)
ENC_ONE_BYTE(0x5F)
;
void aws_cbor_encoder_write_indef_text_start(struct aws_cbor_encoder *encoder)
ENC_ONE_BYTE(0x7F)
;
void aws_cbor_encoder_write_indef_array_start(struct aws_cbor_encoder *encoder)
ENC_ONE_BYTE(0x9F)
;
void aws_cbor_encoder_write_indef_map_start(struct aws_cbor_encoder *encoder)
ENC_ONE_BYTE(0xBF)
;
void aws_cbor_encoder_write_break(struct aws_cbor_encoder *encoder)
ENC_ONE_BYTE(0xFF)
;

/* floats.  A single is 0xFA + the IEEE-754 binary32 bits, a double 0xFB + the binary64 bits, big-endian. */
void aws_cbor_encoder_write_single_float(struct aws_cbor_encoder *encoder, float value)
ENC_APPEND_CONTRACT((size_t)5, 5)
__CPROVER_ensures(g_on && g_j < 5 ==> ENC_NEW(encoder) == CBOR_FIXED_BYTE(0xFA, 4, F32_BITS(value), g_j))
;

/* aws_cbor_encoder_write_float(double): "stored in the smallest form that loses nothing", never as a half:
 *   INT    finite, -2^63 <= v < 2^63 and v has no fractional part  -> integer head (major 0 for v >= 0, major 1 with
 *          argument -1 - v for v < 0); -0.0 is written as the integer 0
 *   SINGLE otherwise, if not finite (NaN, +-inf) or (double)(float)v == v -> single
 *   DOUBLE otherwise
 * 2^63 itself is a SINGLE by this specification ((float)2^63 is exact); the source converts it to int64_t first,
 * which is undefined behaviour in C (DESIGN section 6, F5).
 * (&& short-circuits, so the spec itself converts to int64_t only inside the int64 range.) */
#define TWO63 9223372036854775808.0
#define FL_IN_I64(v) ((v) >= -TWO63 && (v) < TWO63)
#define FL_INT(v) (__CPROVER_isfinited(v) && FL_IN_I64(v) && (double)(int64_t)(v) == (v))
#define FL_I64(v) ((int64_t)(v)) /* only under FL_INT(v) */
#define FL_SINGLE(v) (!FL_INT(v) && (!__CPROVER_isfinited(v) || (double)(float)(v) == (v)))
#define FL_DOUBLE(v) (!FL_INT(v) && !FL_SINGLE(v))
/* argument of the integer head */
#define FL_INT_ARG(v) (FL_I64(v) < 0 ? (uint64_t)(-1 - FL_I64(v)) : (uint64_t)FL_I64(v))
#define FL_LEN(v) (FL_INT(v) ? CBOR_HEAD_LEN(FL_INT_ARG(v)) : FL_SINGLE(v) ? (size_t)5 : (size_t)9)
#define FL_RES(v) ((size_t)9 - 4 * (size_t)FL_SINGLE(v))
void aws_cbor_encoder_write_float(struct aws_cbor_encoder *encoder, double value)
ENC_APPEND_CONTRACT_F(FL_LEN(value), FL_RES(value),
    __CPROVER_assigns(ENC_ROOM(encoder) >= 9 : __CPROVER_object_upto(EB(encoder).buffer + EB(encoder).len, 9))
    __CPROVER_assigns(ENC_ROOM(encoder) >= 5 && FL_SINGLE(value) : __CPROVER_object_upto(EB(encoder).buffer + EB(encoder).len, 5)))
__CPROVER_ensures(g_on && FL_INT(value) && g_j < FL_LEN(value) ==>
                  ENC_NEW(encoder) == CBOR_HEAD_BYTE(FL_I64(value) < 0 ? CBOR_MT_NEGINT : CBOR_MT_UINT, FL_INT_ARG(value), g_j))
__CPROVER_ensures(g_on && FL_SINGLE(value) && g_j < 5 ==> ENC_NEW(encoder) == CBOR_FIXED_BYTE(0xFA, 4, F32_BITS((float)value), g_j))
__CPROVER_ensures(g_on && FL_DOUBLE(value) && g_j < 9 ==> ENC_NEW(encoder) == CBOR_FIXED_BYTE(0xFB, 8, F64_BITS(value), g_j))
;

/* byte / text strings: head with the length, then the bytes themselves.  The same witness index g_j is used once for
 * the head (g_j < head length) and once for the payload (g_j < from.len). */
#define ENC_STRING_CONTRACT(b0base)                                                                                    \
    __CPROVER_requires((from.len == 0 && from.ptr == NULL) || __CPROVER_is_fresh(from.ptr, from.len))                  \
    ENC_APPEND_CONTRACT(CBOR_HEAD_LEN(from.len) + from.len, 9 + from.len)                                              \
    ENS_HEAD(b0base, from.len)                                                                                         \
    __CPROVER_ensures(g_on && g_j < from.len ==>                                                                       \
                      EB(encoder).buffer[OLD(EB(encoder).len) + CBOR_HEAD_LEN(from.len) + g_j] == from.ptr[g_j])
void aws_cbor_encoder_write_bytes(struct aws_cbor_encoder *encoder, struct aws_byte_cursor from)
ENC_STRING_CONTRACT(CBOR_MT_BYTES)
;
void aws_cbor_encoder_write_text(struct aws_cbor_encoder *encoder, struct aws_byte_cursor from)
ENC_STRING_CONTRACT(CBOR_MT_TEXT)
;

/* ------------------------------------------------------------------ RFC 8949 reader-side spec
 * p points at the first byte of an encoded item, n bytes are available.  Written from RFC 8949 section 3 / appendix B;
 * CBOR_IN_ACCEPT additionally encodes which well-formed heads this decoder has a representation for (it has none for
 * simple values other than false/true/null/undefined and rejects them, as libcbor does). */
#define CBOR_IN_MT(p) ((p)[0] >> 5)
#define CBOR_IN_AI(p) ((p)[0] & 0x1F)
#define CBOR_AI_ARGLEN(ai) ((size_t)((ai) < 24 ? 0 : (ai) == 24 ? 1 : (ai) == 25 ? 2 : (ai) == 26 ? 4 : (ai) == 27 ? 8 : 0))
#define CBOR_IN_ARGLEN(p) CBOR_AI_ARGLEN(CBOR_IN_AI(p))
#define CBOR_IN_HEADLEN(p) ((size_t)1 + CBOR_IN_ARGLEN(p))
#define CBOR_BE16(q) ((uint64_t)(((uint64_t)(q)[0] << 8) | (uint64_t)(q)[1]))
#define CBOR_BE32(q) ((uint64_t)(((uint64_t)(q)[0] << 24) | ((uint64_t)(q)[1] << 16) | ((uint64_t)(q)[2] << 8) | (uint64_t)(q)[3]))
#define CBOR_BE64(q) ((CBOR_BE32(q) << 32) | CBOR_BE32((q) + 4))
/* the argument; evaluate only when CBOR_IN_HEADLEN(p) bytes are available */
#define CBOR_IN_ARG(p)                                                                                                 \
    (CBOR_IN_AI(p) < 24 ? (uint64_t)CBOR_IN_AI(p)                                                                      \
     : CBOR_IN_AI(p) == 24 ? (uint64_t)(p)[1]                                                                          \
     : CBOR_IN_AI(p) == 25 ? CBOR_BE16((p) + 1)                                                                        \
     : CBOR_IN_AI(p) == 26 ? CBOR_BE32((p) + 1)                                                                        \
                           : CBOR_BE64((p) + 1))
/* heads the decoder accepts */
#define CBOR_IN_ACCEPT(p)                                                                                              \
    ((CBOR_IN_MT(p) == 0 || CBOR_IN_MT(p) == 1 || CBOR_IN_MT(p) == 6)                                                  \
         ? CBOR_IN_AI(p) <= 27                                                                                         \
         : (CBOR_IN_MT(p) >= 2 && CBOR_IN_MT(p) <= 5)                                                                  \
               ? (CBOR_IN_AI(p) <= 27 || CBOR_IN_AI(p) == 31)                                                          \
               : ((CBOR_IN_AI(p) >= 20 && CBOR_IN_AI(p) <= 23) || (CBOR_IN_AI(p) >= 25 && CBOR_IN_AI(p) <= 27) ||      \
                  CBOR_IN_AI(p) == 31))
#define CBOR_IN_IS_STRING(p) ((CBOR_IN_MT(p) == 2 || CBOR_IN_MT(p) == 3) && CBOR_IN_AI(p) <= 27)
/* the element (head, plus the payload of a definite string) is completely inside the n available bytes */
#define CBOR_IN_OK(p, n)                                                                                               \
    ((n) >= 1 && CBOR_IN_ACCEPT(p) && (n) >= CBOR_IN_HEADLEN(p) &&                                                     \
     (!CBOR_IN_IS_STRING(p) || CBOR_IN_ARG(p) <= (n) - CBOR_IN_HEADLEN(p)))
#define CBOR_IN_ELEMLEN(p) (CBOR_IN_HEADLEN(p) + (CBOR_IN_IS_STRING(p) ? (size_t)CBOR_IN_ARG(p) : (size_t)0))
#define CBOR_IN_TYPE(p)                                                                                                \
    (CBOR_IN_MT(p) == 0   ? AWS_CBOR_TYPE_UINT                                                                         \
     : CBOR_IN_MT(p) == 1 ? AWS_CBOR_TYPE_NEGINT                                                                       \
     : CBOR_IN_MT(p) == 2 ? (CBOR_IN_AI(p) == 31 ? AWS_CBOR_TYPE_INDEF_BYTES_START : AWS_CBOR_TYPE_BYTES)              \
     : CBOR_IN_MT(p) == 3 ? (CBOR_IN_AI(p) == 31 ? AWS_CBOR_TYPE_INDEF_TEXT_START : AWS_CBOR_TYPE_TEXT)                \
     : CBOR_IN_MT(p) == 4 ? (CBOR_IN_AI(p) == 31 ? AWS_CBOR_TYPE_INDEF_ARRAY_START : AWS_CBOR_TYPE_ARRAY_START)        \
     : CBOR_IN_MT(p) == 5 ? (CBOR_IN_AI(p) == 31 ? AWS_CBOR_TYPE_INDEF_MAP_START : AWS_CBOR_TYPE_MAP_START)            \
     : CBOR_IN_MT(p) == 6 ? AWS_CBOR_TYPE_TAG                                                                          \
     : CBOR_IN_AI(p) <= 21 ? AWS_CBOR_TYPE_BOOL                                                                        \
     : CBOR_IN_AI(p) == 22 ? AWS_CBOR_TYPE_NULL                                                                        \
     : CBOR_IN_AI(p) == 23 ? AWS_CBOR_TYPE_UNDEFINED                                                                   \
     : CBOR_IN_AI(p) == 31 ? AWS_CBOR_TYPE_BREAK                                                                       \
                           : AWS_CBOR_TYPE_FLOAT)

/* ------------------------------------------------------------------ decoder */
#define DCC(d) ((d)->cached_context)
#define DEC_TYPE_IS_STRING(t) ((t) == AWS_CBOR_TYPE_BYTES || (t) == AWS_CBOR_TYPE_TEXT)
#define DEC_OK(d) (__CPROVER_is_fresh((d), sizeof(*(d))) && CUR_FIELDS_OK(&(d)->src))
/* replay only (see "replay variables" above): ties the free ghosts to the decoder's pre-state */
#define DEC_REPLAY_BYTE(d, i, r) ((d)->src.len > (i) ==> (r) == (d)->src.ptr[i])
#define DEC_REPLAY_REQ(d)                                                                                              \
    __CPROVER_requires(r_who == R_DEC ==> r_src_len == (d)->src.len && r_err == (d)->error_code &&                     \
                       r_ctype == (int)DCC(d).type && r_cu64 == DCC(d).u.unsigned_int_val)                             \
    __CPROVER_requires(r_who == R_DEC ==> DEC_REPLAY_BYTE(d, 0, r_b0) && DEC_REPLAY_BYTE(d, 1, r_b1) && DEC_REPLAY_BYTE(d, 2, r_b2) && \
                       DEC_REPLAY_BYTE(d, 3, r_b3) && DEC_REPLAY_BYTE(d, 4, r_b4) && DEC_REPLAY_BYTE(d, 5, r_b5) &&    \
                       DEC_REPLAY_BYTE(d, 6, r_b6) && DEC_REPLAY_BYTE(d, 7, r_b7) && DEC_REPLAY_BYTE(d, 8, r_b8))
/* the cached element carries exactly what the reader-side spec sees at p (type, and the value that belongs to it) */
#define DEC_CACHE_IS(d, p)                                                                                             \
    (DCC(d).type == CBOR_IN_TYPE(p) &&                                                                                 \
     ((DCC(d).type == AWS_CBOR_TYPE_UINT || DCC(d).type == AWS_CBOR_TYPE_NEGINT || DCC(d).type == AWS_CBOR_TYPE_TAG ||  \
       DCC(d).type == AWS_CBOR_TYPE_ARRAY_START || DCC(d).type == AWS_CBOR_TYPE_MAP_START)                              \
          ? DCC(d).u.unsigned_int_val == CBOR_IN_ARG(p)                                                                \
      : DCC(d).type == AWS_CBOR_TYPE_BOOL ? DCC(d).u.boolean_val == (CBOR_IN_AI(p) == 21)                               \
      : (DCC(d).type == AWS_CBOR_TYPE_BYTES || DCC(d).type == AWS_CBOR_TYPE_TEXT)                                       \
          ? DCC(d).u.bytes_val.len == CBOR_IN_ARG(p) /* .ptr: see DEC_CACHE_PTR */                                     \
      : (DCC(d).type == AWS_CBOR_TYPE_FLOAT && CBOR_IN_AI(p) == 27) ? F64_BITS(DCC(d).u.float_val) == CBOR_IN_ARG(p)    \
      : (DCC(d).type == AWS_CBOR_TYPE_FLOAT && CBOR_IN_AI(p) == 26)                                                     \
          ? F64_BITS(DCC(d).u.float_val) == F64_BITS((double)BITS_F32((uint32_t)CBOR_IN_ARG(p)))                        \
          : 1 /* half floats: value not specified here; simple one-byte items carry no value */))

/* a cached string points at its payload inside the input (pointer predicate, kept out of the nested ?:) */
#define DEC_CACHE_PTR(d, p)                                                                                            \
    ((DCC(d).type == AWS_CBOR_TYPE_BYTES || DCC(d).type == AWS_CBOR_TYPE_TEXT) ==> PEQ(DCC(d).u.bytes_val.ptr, (uint8_t *)(p) + CBOR_IN_HEADLEN(p)))

/* s_cbor_decode_next_element: called with an empty cache and no sticky error.  Reads one element at src.
 *   element complete and accepted -> 0, src advanced by exactly the element, cache = what the spec sees
 *   otherwise                     -> -1, error AWS_ERROR_INVALID_CBOR raised and made sticky, src and cache untouched
 * The input bytes are never written (not in the assigns clause). */
static int s_cbor_decode_next_element(struct aws_cbor_decoder *decoder)
__CPROVER_requires(DEC_OK(decoder) && decoder->error_code == 0 && DCC(decoder).type == AWS_CBOR_TYPE_UNKNOWN)
DEC_REPLAY_REQ(decoder)
__CPROVER_assigns(decoder->src, decoder->cached_context, decoder->error_code, g_last_error, g_raise_count)
__CPROVER_ensures(RET == AWS_OP_SUCCESS || RET == AWS_OP_ERR)
__CPROVER_ensures((RET == AWS_OP_SUCCESS) == CBOR_IN_OK(OLD(decoder->src.ptr), OLD(decoder->src.len)))
__CPROVER_ensures(RET == AWS_OP_SUCCESS ==>
                  decoder->error_code == 0 && g_raise_count == OLD(g_raise_count) &&
                  decoder->src.len == OLD(decoder->src.len) - CBOR_IN_ELEMLEN(OLD(decoder->src.ptr)) &&
                  PEQ(decoder->src.ptr, OLD(decoder->src.ptr) + CBOR_IN_ELEMLEN(OLD(decoder->src.ptr))) &&
                  DEC_CACHE_IS(decoder, OLD(decoder->src.ptr)))
__CPROVER_ensures(RET == AWS_OP_SUCCESS ==> DEC_CACHE_PTR(decoder, OLD(decoder->src.ptr)))
__CPROVER_ensures(RET != AWS_OP_SUCCESS ==>
                  decoder->error_code == AWS_ERROR_INVALID_CBOR && g_last_error == AWS_ERROR_INVALID_CBOR && g_raise_count == OLD(g_raise_count) + 1 &&
                  decoder->src.len == OLD(decoder->src.len) && PEQ(decoder->src.ptr, OLD(decoder->src.ptr)) &&
                  DCC(decoder).type == AWS_CBOR_TYPE_UNKNOWN)
;

/* half floats are decoded with ldexp(), which has no body in CBMC: ASSUMED contract (reads two bytes, any result).
 * The encoder never writes a half, so no round-trip clause depends on it. */
float _cbor_load_half(cbor_data source)
__CPROVER_requires(__CPROVER_r_ok(source, 2))
__CPROVER_assigns()
__CPROVER_ensures(1)
;

/* aws_cbor_decoder_pop_next_<X>(decoder, out): three situations, told apart in the pre-state
 *   sticky error          -> -1 with that error raised, nothing changes
 *   an element is cached  -> if it has type X: 0, *out = its value, cache emptied; else -1 (UNEXPECTED_TYPE), cache kept;
 *                            the input position does not move
 *   cache empty           -> decode one element (see s_cbor_decode_next_element); on a type mismatch the element stays
 *                            cached, so nothing is lost and the matching pop still gets it
 * OUT_OLD: *out equals the value cached before the call; OUT_IN: *out equals what the reader-side spec sees at p. */
#define DEC_SRC_SAME(d) ((d)->src.len == OLD((d)->src.len) && PEQ((d)->src.ptr, OLD((d)->src.ptr)))
#define DEC_SRC_ADVANCED(d)                                                                                            \
    ((d)->src.len == OLD((d)->src.len) - CBOR_IN_ELEMLEN(OLD((d)->src.ptr)) &&                                         \
     PEQ((d)->src.ptr, OLD((d)->src.ptr) + CBOR_IN_ELEMLEN(OLD((d)->src.ptr))))
#define DEC_POP_CONTRACT(EXPECTED, OUT_OLD, OUT_IN)                                                                    \
    __CPROVER_requires(DEC_OK(decoder))                                                                                \
    DEC_REPLAY_REQ(decoder)                                                                                            \
    __CPROVER_requires(__CPROVER_is_fresh(out, sizeof(*out)))                                                          \
    __CPROVER_assigns(g_last_error, g_raise_count)                                                                     \
    __CPROVER_assigns(decoder->error_code == 0 : DCC(decoder).type, *out)                                              \
    __CPROVER_assigns(decoder->error_code == 0 && DCC(decoder).type == AWS_CBOR_TYPE_UNKNOWN : decoder->src, decoder->cached_context, decoder->error_code) \
    __CPROVER_ensures(RET == AWS_OP_SUCCESS || RET == AWS_OP_ERR)                                                      \
    __CPROVER_ensures((RET == AWS_OP_ERR) == (g_raise_count == OLD(g_raise_count) + 1) && (RET == AWS_OP_SUCCESS) == (g_raise_count == OLD(g_raise_count))) \
    __CPROVER_ensures(OLD(decoder->error_code) != 0 ==> RET == AWS_OP_ERR && g_last_error == OLD(decoder->error_code)) \
    __CPROVER_ensures(OLD(decoder->error_code) == 0 && OLD(DCC(decoder).type) != AWS_CBOR_TYPE_UNKNOWN ==>             \
                      (OLD(DCC(decoder).type) == (EXPECTED)                                                            \
                           ? RET == AWS_OP_SUCCESS && DCC(decoder).type == AWS_CBOR_TYPE_UNKNOWN && (OUT_OLD)          \
                           : RET == AWS_OP_ERR && g_last_error == AWS_ERROR_CBOR_UNEXPECTED_TYPE && DCC(decoder).type == OLD(DCC(decoder).type))) \
    __CPROVER_ensures(OLD(decoder->error_code) == 0 && OLD(DCC(decoder).type) == AWS_CBOR_TYPE_UNKNOWN &&              \
                      !CBOR_IN_OK(OLD(decoder->src.ptr), OLD(decoder->src.len)) ==>                                    \
                      RET == AWS_OP_ERR && decoder->error_code == AWS_ERROR_INVALID_CBOR && g_last_error == AWS_ERROR_INVALID_CBOR && \
                      DEC_SRC_SAME(decoder) && DCC(decoder).type == AWS_CBOR_TYPE_UNKNOWN)                              \
    __CPROVER_ensures(OLD(decoder->error_code) == 0 && OLD(DCC(decoder).type) == AWS_CBOR_TYPE_UNKNOWN &&              \
                      CBOR_IN_OK(OLD(decoder->src.ptr), OLD(decoder->src.len)) ==>                                     \
                      decoder->error_code == 0 && DEC_SRC_ADVANCED(decoder) &&                                         \
                      (CBOR_IN_TYPE(OLD(decoder->src.ptr)) == (EXPECTED)                                               \
                           ? RET == AWS_OP_SUCCESS && DCC(decoder).type == AWS_CBOR_TYPE_UNKNOWN && (OUT_IN)           \
                           : RET == AWS_OP_ERR && g_last_error == AWS_ERROR_CBOR_UNEXPECTED_TYPE &&                     \
                                 DEC_CACHE_IS(decoder, OLD(decoder->src.ptr))))                                        \
    __CPROVER_ensures(OLD(decoder->error_code) == 0 && OLD(DCC(decoder).type) == AWS_CBOR_TYPE_UNKNOWN &&              \
                      CBOR_IN_OK(OLD(decoder->src.ptr), OLD(decoder->src.len)) && RET == AWS_OP_ERR ==>                \
                      DEC_CACHE_PTR(decoder, OLD(decoder->src.ptr)))

#define DEC_POP_U64(name, EXPECTED)                                                                                    \
    int aws_cbor_decoder_pop_next_##name(struct aws_cbor_decoder *decoder, uint64_t *out)                              \
    DEC_POP_CONTRACT(EXPECTED, *out == OLD(DCC(decoder).u.unsigned_int_val), *out == CBOR_IN_ARG(OLD(decoder->src.ptr)))
DEC_POP_U64(unsigned_int_val, AWS_CBOR_TYPE_UINT);
DEC_POP_U64(negative_int_val, AWS_CBOR_TYPE_NEGINT);
DEC_POP_U64(tag_val, AWS_CBOR_TYPE_TAG);
DEC_POP_U64(array_start, AWS_CBOR_TYPE_ARRAY_START);
DEC_POP_U64(map_start, AWS_CBOR_TYPE_MAP_START);

int aws_cbor_decoder_pop_next_boolean_val(struct aws_cbor_decoder *decoder, bool *out)
DEC_POP_CONTRACT(AWS_CBOR_TYPE_BOOL, (*out != 0) == (OLD(DCC(decoder).u.boolean_val) != 0), *out == (CBOR_IN_AI(OLD(decoder->src.ptr)) == 21))
;
/* a single is widened to double; bit patterns are compared so that NaN is covered */
#define DEC_F64_IN(p)                                                                                                  \
    (CBOR_IN_AI(p) == 27 ? F64_BITS(*out) == CBOR_IN_ARG(p)                                                            \
     : CBOR_IN_AI(p) == 26 ? F64_BITS(*out) == F64_BITS((double)BITS_F32((uint32_t)CBOR_IN_ARG(p))) : 1)
int aws_cbor_decoder_pop_next_float_val(struct aws_cbor_decoder *decoder, double *out)
DEC_POP_CONTRACT(AWS_CBOR_TYPE_FLOAT, F64_BITS(*out) == F64_BITS(OLD(DCC(decoder).u.float_val)), DEC_F64_IN(OLD(decoder->src.ptr)))
;
/* strings: the view handed out is the payload inside the input: it starts right behind the head and has the length
 * the head announces (the bytes are the input's bytes: "by content" needs nothing more) */
#define DEC_POP_STR(name, EXPECTED)                                                                                    \
    int aws_cbor_decoder_pop_next_##name(struct aws_cbor_decoder *decoder, struct aws_byte_cursor *out)                \
    DEC_POP_CONTRACT(EXPECTED,                                                                                         \
                     out->len == OLD(DCC(decoder).u.bytes_val.len) && out->ptr == OLD(DCC(decoder).u.bytes_val.ptr),\
                     out->len == CBOR_IN_ARG(OLD(decoder->src.ptr)) &&                                                 \
                         PEQ(out->ptr, OLD(decoder->src.ptr) + CBOR_IN_HEADLEN(OLD(decoder->src.ptr))))
DEC_POP_STR(bytes_val, AWS_CBOR_TYPE_BYTES);
DEC_POP_STR(text_val, AWS_CBOR_TYPE_TEXT);

/* peek: same three situations; never empties the cache */
int aws_cbor_decoder_peek_type(struct aws_cbor_decoder *decoder, enum aws_cbor_type *out_type)
__CPROVER_requires(DEC_OK(decoder))
DEC_REPLAY_REQ(decoder)
__CPROVER_requires(__CPROVER_is_fresh(out_type, sizeof(*out_type)))
__CPROVER_assigns(g_last_error, g_raise_count)
__CPROVER_assigns(decoder->error_code == 0 : *out_type)
__CPROVER_assigns(decoder->error_code == 0 && DCC(decoder).type == AWS_CBOR_TYPE_UNKNOWN : decoder->src, decoder->cached_context, decoder->error_code)
__CPROVER_ensures(RET == AWS_OP_SUCCESS || RET == AWS_OP_ERR)
__CPROVER_ensures((RET == AWS_OP_ERR) == (g_raise_count == OLD(g_raise_count) + 1) && (RET == AWS_OP_SUCCESS) == (g_raise_count == OLD(g_raise_count)))
__CPROVER_ensures(OLD(decoder->error_code) != 0 ==> RET == AWS_OP_ERR && g_last_error == OLD(decoder->error_code))
__CPROVER_ensures(OLD(decoder->error_code) == 0 && OLD(DCC(decoder).type) != AWS_CBOR_TYPE_UNKNOWN ==>
                  RET == AWS_OP_SUCCESS && *out_type == OLD(DCC(decoder).type))
__CPROVER_ensures(OLD(decoder->error_code) == 0 && OLD(DCC(decoder).type) == AWS_CBOR_TYPE_UNKNOWN &&
                  !CBOR_IN_OK(OLD(decoder->src.ptr), OLD(decoder->src.len)) ==>
                  RET == AWS_OP_ERR && decoder->error_code == AWS_ERROR_INVALID_CBOR && g_last_error == AWS_ERROR_INVALID_CBOR &&
                  DEC_SRC_SAME(decoder) && DCC(decoder).type == AWS_CBOR_TYPE_UNKNOWN)
__CPROVER_ensures(OLD(decoder->error_code) == 0 && OLD(DCC(decoder).type) == AWS_CBOR_TYPE_UNKNOWN &&
                  CBOR_IN_OK(OLD(decoder->src.ptr), OLD(decoder->src.len)) ==>
                  RET == AWS_OP_SUCCESS && decoder->error_code == 0 && DEC_SRC_ADVANCED(decoder) &&
                  *out_type == CBOR_IN_TYPE(OLD(decoder->src.ptr)) && DEC_CACHE_IS(decoder, OLD(decoder->src.ptr)))
__CPROVER_ensures(OLD(decoder->error_code) == 0 && OLD(DCC(decoder).type) == AWS_CBOR_TYPE_UNKNOWN &&
                  CBOR_IN_OK(OLD(decoder->src.ptr), OLD(decoder->src.len)) ==> DEC_CACHE_PTR(decoder, OLD(decoder->src.ptr)))
;

/* skip exactly one element (not its children): the cached one if there is one, else the next in the input */
int aws_cbor_decoder_consume_next_single_element(struct aws_cbor_decoder *decoder)
__CPROVER_requires(DEC_OK(decoder))
DEC_REPLAY_REQ(decoder)
__CPROVER_assigns(g_last_error, g_raise_count)
__CPROVER_assigns(decoder->error_code == 0 : DCC(decoder).type)
__CPROVER_assigns(decoder->error_code == 0 && DCC(decoder).type == AWS_CBOR_TYPE_UNKNOWN : decoder->src, decoder->cached_context, decoder->error_code)
__CPROVER_ensures(RET == AWS_OP_SUCCESS || RET == AWS_OP_ERR)
__CPROVER_ensures(OLD(decoder->error_code) != 0 ==> RET == AWS_OP_ERR && g_last_error == OLD(decoder->error_code))
__CPROVER_ensures(OLD(decoder->error_code) == 0 && OLD(DCC(decoder).type) != AWS_CBOR_TYPE_UNKNOWN ==>
                  RET == AWS_OP_SUCCESS && DCC(decoder).type == AWS_CBOR_TYPE_UNKNOWN)
__CPROVER_ensures(OLD(decoder->error_code) == 0 && OLD(DCC(decoder).type) == AWS_CBOR_TYPE_UNKNOWN &&
                  !CBOR_IN_OK(OLD(decoder->src.ptr), OLD(decoder->src.len)) ==>
                  RET == AWS_OP_ERR && decoder->error_code == AWS_ERROR_INVALID_CBOR && g_last_error == AWS_ERROR_INVALID_CBOR &&
                  DEC_SRC_SAME(decoder) && DCC(decoder).type == AWS_CBOR_TYPE_UNKNOWN)
__CPROVER_ensures(OLD(decoder->error_code) == 0 && OLD(DCC(decoder).type) == AWS_CBOR_TYPE_UNKNOWN &&
                  CBOR_IN_OK(OLD(decoder->src.ptr), OLD(decoder->src.len)) ==>
                  RET == AWS_OP_SUCCESS && decoder->error_code == 0 && DEC_SRC_ADVANCED(decoder) && DCC(decoder).type == AWS_CBOR_TYPE_UNKNOWN)
;

size_t aws_cbor_decoder_get_remaining_length(const struct aws_cbor_decoder *decoder)
__CPROVER_requires(DEC_OK(decoder))
__CPROVER_requires(r_who == R_DEC ==> r_src_len == decoder->src.len)
__CPROVER_assigns()
__CPROVER_ensures(RET == decoder->src.len)
;

/* ------------------------------------------------------------------ construction / observation (base case of the induction over call sequences) */
#include "contracts/allocator.h"
/* a new encoder satisfies ENC_OK, is empty and has 256 bytes of storage */
struct aws_cbor_encoder *aws_cbor_encoder_new(struct aws_allocator *allocator)
__CPROVER_requires(allocator != NULL)
__CPROVER_assigns()
__CPROVER_ensures(__CPROVER_is_fresh(RET, sizeof(*RET)) && RET->allocator == allocator && RET->encoded_buf.allocator == allocator &&
                  RET->encoded_buf.len == 0 && RET->encoded_buf.capacity == 256 && __CPROVER_is_fresh(RET->encoded_buf.buffer, 256))
;
/* a new decoder: empty cache, no error, src as given; every other byte zero (witness g_j over the object) */
struct aws_cbor_decoder *aws_cbor_decoder_new(struct aws_allocator *allocator, struct aws_byte_cursor src)
__CPROVER_requires(allocator != NULL)
__CPROVER_assigns()
__CPROVER_ensures(__CPROVER_is_fresh(RET, sizeof(*RET)) && RET->allocator == allocator && RET->src.len == src.len && RET->src.ptr == src.ptr &&
                  DCC(RET).type == AWS_CBOR_TYPE_UNKNOWN)
__CPROVER_ensures(g_j >= offsetof(struct aws_cbor_decoder, error_code) && g_j < offsetof(struct aws_cbor_decoder, error_code) + sizeof(int) ==>
                  ((const uint8_t *)RET)[g_j] == 0)
;
/* the encoded data is exactly the bytes appended so far */
struct aws_byte_cursor aws_cbor_encoder_get_encoded_data(const struct aws_cbor_encoder *encoder)
__CPROVER_requires(ENC_OK(encoder))
__CPROVER_assigns()
__CPROVER_ensures(RET.len == EB(encoder).len && RET.ptr == EB(encoder).buffer)
;
/* reset empties the encoder and keeps its storage */
void aws_cbor_encoder_reset(struct aws_cbor_encoder *encoder)
__CPROVER_requires(ENC_OK(encoder))
__CPROVER_assigns(EB(encoder).len)
__CPROVER_ensures(EB(encoder).len == 0 && EB(encoder).capacity == OLD(EB(encoder).capacity) && EB(encoder).buffer == OLD(EB(encoder).buffer))
;

#endif
