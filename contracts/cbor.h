/* Function contracts for source/cbor.c and the libcbor leaf encoders it uses (property C10; the decoder contracts
 * are also the C04 shape for CBOR).
 *
 * INCLUDE ORDER: struct aws_cbor_encoder / aws_cbor_decoder are private to source/cbor.c, so this header is included
 * AFTER `#include "source/cbor.c"` (a contract on a re-declaration that follows the definition is picked up as well).
 *
 * The specification side is written from RFC 8949 section 3 only (it never looks at libcbor):
 *   head  = initial byte (major type << 5 | additional information) followed by the argument in network byte order
 *           in 0/1/2/4/8 bytes (additional information <24 / 24 / 25 / 26 / 27);
 *   CBOR_HEAD_*  : the SHORTEST head for (major, argument)            -> postcondition of every encoder function
 *   CBOR_IN_*    : what an independent reader sees in a byte string   -> postcondition of the decoder
 * The round trip is the composition of the two (units/C10: lemma_* units) plus direct runs through the real code
 * (rt_* units).
 *
 * Content is stated for ONE arbitrary byte index g_j (ghost witness, DESIGN 4.3): reading nine bytes at a symbolic
 * offset of an unbounded object in one clause is out of reach for the SAT back end (probed: no answer in 20 min),
 * one witness byte takes a second.
 */
#ifndef VERIF_CONTRACTS_CBOR_H
#define VERIF_CONTRACTS_CBOR_H
#include "contracts/common.h"
#include "contracts/byte_buf.h"

/* ------------------------------------------------------------------ RFC 8949 encoder-side spec (shortest head) */
#define CBOR_AI(v) ((uint8_t)((v) < 24 ? (v) : (v) <= 0xFFu ? 24 : (v) <= 0xFFFFu ? 25 : (v) <= 0xFFFFFFFFull ? 26 : 27))
/* 1 / 2 / 3 / 5 / 9 bytes; written without ?: because assigns-clause conditions must not contain ternaries */
#define CBOR_HEAD_LEN(v)                                                                                               \
    ((size_t)1 + (size_t)((v) >= 24) + (size_t)((v) > 0xFFu) + 2 * (size_t)((v) > 0xFFFFu) + 4 * (size_t)((v) > 0xFFFFFFFFull))
/* j-th byte (0-based) of the shortest head whose initial byte is b0base | additional information (b0base = major << 5);
 * meaningful for j < CBOR_HEAD_LEN(v) */
#define CBOR_HEAD_BYTE(b0base, v, j)                                                                                   \
    ((j) == 0 ? (uint8_t)((b0base) + CBOR_AI(v))                                                                       \
              : (uint8_t)((uint64_t)(v) >> (8 * (CBOR_HEAD_LEN(v) - 1 - (j)))))
/* j-th byte of a head with a fixed-width argument of w bytes (floats): initial byte b0, then `bits` big-endian */
#define CBOR_FIXED_BYTE(b0, w, bits, j) ((j) == 0 ? (uint8_t)(b0) : (uint8_t)((uint64_t)(bits) >> (8 * ((w) - (j)))))

#define F32_BITS(f) (((union { float f_; uint32_t u_; }){.f_ = (f)}).u_)
#define F64_BITS(d) (((union { double d_; uint64_t u_; }){.d_ = (d)}).u_)
#define BITS_F32(u) (((union { float f_; uint32_t u_; }){.u_ = (u)}).f_)
#define BITS_F64(u) (((union { double d_; uint64_t u_; }){.u_ = (u)}).d_)

#define CBOR_MT_UINT 0x00
#define CBOR_MT_NEGINT 0x20
#define CBOR_MT_BYTES 0x40
#define CBOR_MT_TEXT 0x60
#define CBOR_MT_ARRAY 0x80
#define CBOR_MT_MAP 0xA0
#define CBOR_MT_TAG 0xC0
#define CBOR_MT_7 0xE0

#define C10_RESET() do { GHOST_RESET(); } while (0)

/* ------------------------------------------------------------------ libcbor leaf encoders (internal/encoders.c, encoding.c)
 * Each writes a head into [buffer, buffer + buffer_size) iff it fits and returns the number of bytes, 0 otherwise
 * (then nothing is written).  Enforced in the libcbor_* units, replaced in the aws_cbor_encoder_* units. */
#define LEAF_CONTRACT(N, BYTE_AT_GJ)                                                                                   \
    __CPROVER_requires(__CPROVER_is_fresh(buffer, buffer_size))                                                        \
    __CPROVER_assigns(buffer_size >= (N) : __CPROVER_object_upto(buffer, (N)))                                         \
    __CPROVER_ensures(RET == (buffer_size >= (N) ? (N) : 0))                                                           \
    __CPROVER_ensures(g_on && RET != 0 && g_j < (N) ==> buffer[g_j] == (BYTE_AT_GJ))

size_t _cbor_encode_uint(uint64_t value, unsigned char *buffer, size_t buffer_size, uint8_t offset)
LEAF_CONTRACT(CBOR_HEAD_LEN(value), CBOR_HEAD_BYTE(offset, value, g_j))
;
size_t _cbor_encode_uint8(uint8_t value, unsigned char *buffer, size_t buffer_size, uint8_t offset)
LEAF_CONTRACT(CBOR_HEAD_LEN(value), CBOR_HEAD_BYTE(offset, value, g_j))
;
/* fixed widths (used for floats): never shortened */
size_t _cbor_encode_uint32(uint32_t value, unsigned char *buffer, size_t buffer_size, uint8_t offset)
LEAF_CONTRACT((size_t)5, CBOR_FIXED_BYTE(0x1A + offset, 4, value, g_j))
;
size_t _cbor_encode_uint64(uint64_t value, unsigned char *buffer, size_t buffer_size, uint8_t offset)
LEAF_CONTRACT((size_t)9, CBOR_FIXED_BYTE(0x1B + offset, 8, value, g_j))
;
size_t _cbor_encode_byte(uint8_t value, unsigned char *buffer, size_t buffer_size)
LEAF_CONTRACT((size_t)1, value)
;

/* ------------------------------------------------------------------ encoder */

#define ENC_OK(e)                                                                                                      \
    (__CPROVER_is_fresh((e), sizeof(*(e))) && (e)->allocator != NULL && (e)->encoded_buf.allocator != NULL &&          \
     BUF_FIELDS_OK(&(e)->encoded_buf))
#define EB(e) ((e)->encoded_buf)

/* Frame and shape shared by every aws_cbor_encoder_write_*: appends exactly N bytes at the old length.
 * RES is the room the function asks aws_byte_buf_reserve_smart_relative for (9 for every head, 5 for a single, 1 for the
 * one-byte items, 9 + length for strings): the storage is re-allocated exactly when capacity - len < RES.
 *  - only the encoder's buffer descriptor may change, plus - when nothing is re-allocated - the N bytes behind the old
 *    length; when it is re-allocated the old storage goes back to the allocator;
 *  - len grows by exactly N, capacity never shrinks, the allocator fields stay, the storage stays valid
 *    (same block and capacity, or a fresh block of `capacity` bytes);
 *  - every byte written before the call is still there (witness g_k/g_old);
 *  - no abort: the unit stubs aws_fatal_assert with assert(false).
 * N and RES must be free of ?: where they occur in assigns/frees clauses (CBMC rejects ternaries there). */
#define ENC_ROOM(e) ((e)->encoded_buf.capacity - (e)->encoded_buf.len)
#define ENC_ROOM_OLD(e) (OLD((e)->encoded_buf.capacity) - OLD((e)->encoded_buf.len))
#define ENC_APPEND_CONTRACT_F(N, RES, INPLACE)                                                                         \
    __CPROVER_requires(ENC_OK(encoder))                                                                                \
    __CPROVER_requires(g_on ==> g_k < EB(encoder).len && g_old == EB(encoder).buffer[g_k])                             \
    __CPROVER_assigns(EB(encoder))                                                                                     \
    INPLACE                                                                                                            \
    __CPROVER_frees(ENC_ROOM(encoder) < (RES) : EB(encoder).buffer)                                                    \
    __CPROVER_ensures(EB(encoder).len == OLD(EB(encoder).len) + (N) && EB(encoder).allocator == OLD(EB(encoder).allocator)) \
    __CPROVER_ensures(EB(encoder).len <= EB(encoder).capacity && EB(encoder).capacity >= OLD(EB(encoder).capacity))    \
    __CPROVER_ensures(ENC_ROOM_OLD(encoder) >= (RES)                                                                   \
                          ? EB(encoder).capacity == OLD(EB(encoder).capacity) && PEQ(EB(encoder).buffer, OLD(EB(encoder).buffer)) \
                          : __CPROVER_is_fresh(EB(encoder).buffer, EB(encoder).capacity))                              \
    __CPROVER_ensures(g_on ==> EB(encoder).buffer[g_k] == g_old)
#define ENC_INPLACE(N, RES)                                                                                            \
    __CPROVER_assigns(ENC_ROOM(encoder) >= (RES) && (N) > 0 : __CPROVER_object_upto(EB(encoder).buffer + EB(encoder).len, (N)))
#define ENC_APPEND_CONTRACT(N, RES) ENC_APPEND_CONTRACT_F(N, RES, ENC_INPLACE(N, RES))

/* the byte at index g_j of the appended region */
#define ENC_NEW(e) ((e)->encoded_buf.buffer[OLD((e)->encoded_buf.len) + g_j])
#define ENS_HEAD(b0base, v)                                                                                            \
    __CPROVER_ensures(g_on && g_j < CBOR_HEAD_LEN(v) ==> ENC_NEW(encoder) == CBOR_HEAD_BYTE(b0base, v, g_j))

void aws_cbor_encoder_write_uint(struct aws_cbor_encoder *encoder, uint64_t value)
ENC_APPEND_CONTRACT(CBOR_HEAD_LEN(value), 9)
ENS_HEAD(CBOR_MT_UINT, value)
;
void aws_cbor_encoder_write_negint(struct aws_cbor_encoder *encoder, uint64_t value)
ENC_APPEND_CONTRACT(CBOR_HEAD_LEN(value), 9)
ENS_HEAD(CBOR_MT_NEGINT, value)
;
void aws_cbor_encoder_write_tag(struct aws_cbor_encoder *encoder, uint64_t tag_number)
ENC_APPEND_CONTRACT(CBOR_HEAD_LEN(tag_number), 9)
ENS_HEAD(CBOR_MT_TAG, tag_number)
;
void aws_cbor_encoder_write_array_start(struct aws_cbor_encoder *encoder, size_t number_entries)
ENC_APPEND_CONTRACT(CBOR_HEAD_LEN(number_entries), 9)
ENS_HEAD(CBOR_MT_ARRAY, number_entries)
;
void aws_cbor_encoder_write_map_start(struct aws_cbor_encoder *encoder, size_t number_entries)
ENC_APPEND_CONTRACT(CBOR_HEAD_LEN(number_entries), 9)
ENS_HEAD(CBOR_MT_MAP, number_entries)
;

/* one-byte items */
#define ENC_ONE_BYTE(b)                                                                                                \
    ENC_APPEND_CONTRACT((size_t)1, 1)                                                                                  \
    __CPROVER_ensures(g_on && g_j < 1 ==> ENC_NEW(encoder) == (uint8_t)(b))
void aws_cbor_encoder_write_bool(struct aws_cbor_encoder *encoder, bool value)
ENC_ONE_BYTE(value ? 0xF5 : 0xF4)
;
void aws_cbor_encoder_write_null(struct aws_cbor_encoder *encoder)
ENC_ONE_BYTE(0xF6)
;
void aws_cbor_encoder_write_undefined(struct aws_cbor_encoder *encoder)
ENC_ONE_BYTE(0xF7)
;
void aws_cbor_encoder_write_indef_bytes_start(struct aws_cbor_encoder *encoder)
ENC_ONE_BYTE(0x5F)
;
void aws_cbor_encoder_write_indef_text_start(struct aws_cbor_encoder *encoder)
ENC_ONE_BYTE(0x7F)
;
void aws_cbor_encoder_write_indef_array_start(struct aws_cbor_encoder *encoder)
ENC_ONE_BYTE(0x9F)
;
void aws_cbor_encoder_write_indef_map_start(struct aws_cbor_encoder *encoder)
ENC_ONE_BYTE(0xBF)
;
void aws_cbor_encoder_write_break(struct aws_cbor_encoder *encoder)
ENC_ONE_BYTE(0xFF)
;

/* floats.  A single is 0xFA + the IEEE-754 binary32 bits, a double 0xFB + the binary64 bits, big-endian. */
void aws_cbor_encoder_write_single_float(struct aws_cbor_encoder *encoder, float value)
ENC_APPEND_CONTRACT((size_t)5, 5)
__CPROVER_ensures(g_on && g_j < 5 ==> ENC_NEW(encoder) == CBOR_FIXED_BYTE(0xFA, 4, F32_BITS(value), g_j))
;

/* aws_cbor_encoder_write_float(double): "stored in the smallest form that loses nothing", never as a half:
 *   INT    finite, -2^63 <= v < 2^63 and v has no fractional part  -> integer head (major 0 for v >= 0, major 1 with
 *          argument -1 - v for v < 0); -0.0 is written as the integer 0
 *   SINGLE otherwise, if not finite (NaN, +-inf) or (double)(float)v == v -> single
 *   DOUBLE otherwise
 * 2^63 itself is a SINGLE by this specification ((float)2^63 is exact); the source converts it to int64_t first,
 * which is undefined behaviour in C (DESIGN section 6, F5).
 * (&& short-circuits, so the spec itself converts to int64_t only inside the int64 range.) */
#define TWO63 9223372036854775808.0
#define FL_IN_I64(v) ((v) >= -TWO63 && (v) < TWO63)
#define FL_INT(v) (__CPROVER_isfinited(v) && FL_IN_I64(v) && (double)(int64_t)(v) == (v))
#define FL_I64(v) ((int64_t)(v)) /* only under FL_INT(v) */
#define FL_SINGLE(v) (!FL_INT(v) && (!__CPROVER_isfinited(v) || (double)(float)(v) == (v)))
#define FL_DOUBLE(v) (!FL_INT(v) && !FL_SINGLE(v))
/* argument of the integer head */
#define FL_INT_ARG(v) (FL_I64(v) < 0 ? (uint64_t)(-1 - FL_I64(v)) : (uint64_t)FL_I64(v))
#define FL_LEN(v) (FL_INT(v) ? CBOR_HEAD_LEN(FL_INT_ARG(v)) : FL_SINGLE(v) ? (size_t)5 : (size_t)9)
#define FL_RES(v) ((size_t)9 - 4 * (size_t)FL_SINGLE(v))
void aws_cbor_encoder_write_float(struct aws_cbor_encoder *encoder, double value)
ENC_APPEND_CONTRACT_F(FL_LEN(value), FL_RES(value),
    __CPROVER_assigns(ENC_ROOM(encoder) >= 9 : __CPROVER_object_upto(EB(encoder).buffer + EB(encoder).len, 9))
    __CPROVER_assigns(ENC_ROOM(encoder) >= 5 && FL_SINGLE(value) : __CPROVER_object_upto(EB(encoder).buffer + EB(encoder).len, 5)))
__CPROVER_ensures(g_on && FL_INT(value) && g_j < FL_LEN(value) ==>
                  ENC_NEW(encoder) == CBOR_HEAD_BYTE(FL_I64(value) < 0 ? CBOR_MT_NEGINT : CBOR_MT_UINT, FL_INT_ARG(value), g_j))
__CPROVER_ensures(g_on && FL_SINGLE(value) && g_j < 5 ==> ENC_NEW(encoder) == CBOR_FIXED_BYTE(0xFA, 4, F32_BITS((float)value), g_j))
__CPROVER_ensures(g_on && FL_DOUBLE(value) && g_j < 9 ==> ENC_NEW(encoder) == CBOR_FIXED_BYTE(0xFB, 8, F64_BITS(value), g_j))
;

/* byte / text strings: head with the length, then the bytes themselves.  The same witness index g_j is used once for
 * the head (g_j < head length) and once for the payload (g_j < from.len). */
#define ENC_STRING_CONTRACT(b0base)                                                                                    \
    __CPROVER_requires((from.len == 0 && from.ptr == NULL) || __CPROVER_is_fresh(from.ptr, from.len))                  \
    ENC_APPEND_CONTRACT(CBOR_HEAD_LEN(from.len) + from.len, 9 + from.len)                                              \
    ENS_HEAD(b0base, from.len)                                                                                         \
    __CPROVER_ensures(g_on && g_j < from.len ==>                                                                       \
                      EB(encoder).buffer[OLD(EB(encoder).len) + CBOR_HEAD_LEN(from.len) + g_j] == from.ptr[g_j])
void aws_cbor_encoder_write_bytes(struct aws_cbor_encoder *encoder, struct aws_byte_cursor from)
ENC_STRING_CONTRACT(CBOR_MT_BYTES)
;
void aws_cbor_encoder_write_text(struct aws_cbor_encoder *encoder, struct aws_byte_cursor from)
ENC_STRING_CONTRACT(CBOR_MT_TEXT)
;

#endif
