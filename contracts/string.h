/* Function contracts for the buffer-facing helpers of source/string.c (property C01).
 *
 * An aws_string is ONE allocation: header {allocator, len} followed by len data bytes and a NUL terminator
 * (struct hack: `bytes[1]` is the first of len + 1 bytes), i.e. offsetof(struct aws_string, bytes) + len + 1 bytes.
 * Postconditions are taken from the property statement:
 *   - constructors: exactly that block is handed out (fresh, so every access of the constructor stayed inside it), length
 *     field exact, NUL at bytes[len], every data byte equal to the source byte (arbitrary witness index g_j), allocator
 *     recorded, nothing else written (assigns()).
 *   - comparisons / views: nothing written, exact results in the style of contracts/byte_buf.h
 *     (true ==> every byte equal; false ==> lengths differ or the byte at the reported position g_mm differs, where the
 *     callee reports a position).
 *   - aws_byte_buf_write_from_whole_string: frame conditional on the exact success condition (failure changes nothing),
 *     earlier bytes kept, new bytes equal to the string's.
 *   - aws_string_destroy_secure: every data byte (and the terminator) is zero at the moment the block is handed to
 *     aws_mem_release (witness g_zero_on / g_rz / g_rsize of contracts/allocator.h, checked as the PRECONDITION of the
 *     replaced aws_mem_release call).
 */
#ifndef VERIF_CONTRACTS_STRING_H
#define VERIF_CONTRACTS_STRING_H
#include "contracts/byte_buf.h"
#include <aws/common/string.h>

/* ghost: the lengths of the (up to two) string arguments.  `is_fresh(s, size)` needs the size before the object exists,
 * so the length is named by a ghost that the harness leaves arbitrary: STR_OK(s, g_la) = "s is a valid string of length
 * g_la".  A caller whose own contract uses the same ghost for the same argument discharges it at a replaced call. */
size_t g_la;
size_t g_lb;
#define STR_HDR (offsetof(struct aws_string, bytes))
#define STR_SIZE(n) (STR_HDR + (n) + 1)
#define STR_OK(s, L)                                                                                                   \
    ((L) < VERIF_HUGE && __CPROVER_is_fresh((s), STR_SIZE(L)) && (s)->len == (L) && (s)->bytes[(L)] == 0)
#define STR_OK_OR_NULL(s, L) ((s) == NULL || STR_OK(s, L))

/* result of a constructor: a fresh block of exactly the string's size, fields exact, terminated, contents = source */
#define ENS_NEW_STRING(alloc, src, n)                                                                                  \
    __CPROVER_ensures(__CPROVER_is_fresh(RET, STR_SIZE(n)))                                                            \
    __CPROVER_ensures(RET->allocator == (alloc) && RET->len == (n) && RET->bytes[(n)] == 0)                            \
    __CPROVER_ensures(g_j < (n) ==> RET->bytes[g_j] == (src)[g_j])

/* ------------------------------------------------------------------ constructors
 * (aws_mem_acquire aborts on OOM in this version of the library, so the constructors never return NULL) */

struct aws_string *aws_string_new_from_array(struct aws_allocator *allocator, const uint8_t *bytes, size_t len)
__CPROVER_requires(allocator != NULL)
__CPROVER_requires(len == 0 || __CPROVER_is_fresh(bytes, len))
__CPROVER_assigns()
ENS_NEW_STRING(allocator, bytes, len)
;

struct aws_string *aws_string_new_from_c_str(struct aws_allocator *allocator, const char *c_str)
__CPROVER_requires(allocator != NULL)
__CPROVER_requires(CSTR_OK(c_str))
__CPROVER_assigns()
ENS_NEW_STRING(allocator, U8P(c_str), g_slen)
;

struct aws_string *aws_string_new_from_string(struct aws_allocator *allocator, const struct aws_string *str)
__CPROVER_requires(allocator != NULL)
__CPROVER_requires(STR_OK(str, g_la))
__CPROVER_assigns()
ENS_NEW_STRING(allocator, str->bytes, str->len)
;

struct aws_string *aws_string_new_from_cursor(struct aws_allocator *allocator, const struct aws_byte_cursor *cursor)
__CPROVER_requires(allocator != NULL)
__CPROVER_requires(CUR_OK(cursor))
__CPROVER_assigns()
ENS_NEW_STRING(allocator, cursor->ptr, cursor->len)
;

struct aws_string *aws_string_new_from_buf(struct aws_allocator *allocator, const struct aws_byte_buf *buf)
__CPROVER_requires(allocator != NULL)
__CPROVER_requires(BUF_OK(buf))
__CPROVER_assigns()
ENS_NEW_STRING(allocator, buf->buffer, buf->len)
;

/* a string without allocator (static string) is handed back itself, otherwise a copy owned by `allocator` */
struct aws_string *aws_string_clone_or_reuse(struct aws_allocator *allocator, const struct aws_string *str)
__CPROVER_requires(allocator != NULL)
__CPROVER_requires(STR_OK(str, g_la))
__CPROVER_assigns()
__CPROVER_ensures(str->allocator == NULL ==> PEQ(RET, (struct aws_string *)str))
__CPROVER_ensures(str->allocator != NULL ==> __CPROVER_is_fresh(RET, STR_SIZE(str->len)) && RET->allocator == allocator)
__CPROVER_ensures(RET->len == str->len && RET->bytes[str->len] == 0)
__CPROVER_ensures(g_j < str->len ==> RET->bytes[g_j] == str->bytes[g_j])
;

/* ------------------------------------------------------------------ destruction */

/* nothing is written; the block goes back to its allocator iff there is one (NULL string: nothing happens) */
void aws_string_destroy(struct aws_string *str)
__CPROVER_requires(STR_OK_OR_NULL(str, g_la))
__CPROVER_assigns()
__CPROVER_frees(str != NULL && str->allocator != NULL : str)
__CPROVER_ensures(1)
;

/* The data bytes are zeroed BEFORE the block goes back: with g_zero_on the replaced aws_mem_release contract demands a
 * zero at offset g_rz of the released block for g_rz < g_rsize; the watched range is the string's data bytes and the
 * terminator, [STR_HDR, STR_HDR + len + 1) of the block (the header fields allocator / len are not contents).
 * Only the data bytes are written (the frame), also for a string without allocator (zeroed, not released). */
#ifdef VERIF_STR_NO_ALLOCATOR /* case unit: the path that zeroes a string without allocator and keeps it */
#    define DESTROY_SECURE_CASE __CPROVER_requires(str != NULL && str->allocator == NULL)
#else
#    define DESTROY_SECURE_CASE
#endif
bool g_str_owned; /* ghost: the string handed to aws_string_destroy_secure has an allocator (witness clauses only, under g_on) */
void aws_string_destroy_secure(struct aws_string *str)
__CPROVER_requires(STR_OK_OR_NULL(str, g_la))
DESTROY_SECURE_CASE
__CPROVER_requires(g_zero_on && str != NULL ==> g_rz >= STR_HDR && g_rsize == STR_SIZE(str->len))
__CPROVER_requires(g_on && str != NULL ==> g_str_owned == (str->allocator != NULL))
__CPROVER_assigns(str != NULL && str->len > 0 : __CPROVER_object_upto((uint8_t *)str + STR_HDR, str->len))
__CPROVER_frees(str != NULL && str->allocator != NULL : str)
/* a string without allocator stays with the caller: zeroed all the same.  (CBMC 6.11 does not capture history variables
 * of the const-qualified fields str->allocator / str->len, so the old values are named by ghosts: the length is g_la,
 * "has an allocator" is g_str_owned.) */
__CPROVER_ensures(g_on && str != NULL && !g_str_owned && g_rz >= STR_HDR && g_rz < STR_SIZE(g_la) ==> ((const uint8_t *)str)[g_rz] == 0)
;

/* ------------------------------------------------------------------ equality / comparison (nothing but g_mm written) */

/* both NULL (or the same string): equal; exactly one NULL: different */
#define ENS_NULLS(a, b)                                                                                                \
    __CPROVER_ensures((a) == NULL && (b) == NULL ==> RET)                                                              \
    __CPROVER_ensures(((a) == NULL) != ((b) == NULL) ==> !RET)
#define BOTH(a, b) ((a) != NULL && (b) != NULL)
/* second string argument: NULL, a separate valid string, or (aliasing the API allows) the very same string as the first */
#define STR_B_OK(a, b) (PEQ((b), (a)) || STR_OK_OR_NULL(b, g_lb))

bool aws_string_eq(const struct aws_string *a, const struct aws_string *b)
__CPROVER_requires(STR_OK_OR_NULL(a, g_la))
__CPROVER_requires(STR_B_OK(a, b))
__CPROVER_assigns(g_mm)
ENS_NULLS(a, b)
__CPROVER_ensures(a == b ==> RET)
__CPROVER_ensures(BOTH(a, b) && RET ==> a->len == b->len && (g_j < a->len ==> a->bytes[g_j] == b->bytes[g_j]))
__CPROVER_ensures(BOTH(a, b) && !RET ==> a->len != b->len || (g_mm < a->len && a->bytes[g_mm] != b->bytes[g_mm]))
;

bool aws_string_eq_ignore_case(const struct aws_string *a, const struct aws_string *b)
__CPROVER_requires(STR_OK_OR_NULL(a, g_la))
__CPROVER_requires(STR_B_OK(a, b))
__CPROVER_assigns()
ENS_NULLS(a, b)
__CPROVER_ensures(a == b ==> RET)
__CPROVER_ensures(BOTH(a, b) && RET ==> a->len == b->len && (g_j < a->len ==> SPEC_LOWER(a->bytes[g_j]) == SPEC_LOWER(b->bytes[g_j])))
__CPROVER_ensures(BOTH(a, b) && a->len == 0 && b->len == 0 ==> RET)
__CPROVER_ensures(BOTH(a, b) && a->len == b->len && a->len > 0 && SPEC_LOWER(a->bytes[0]) != SPEC_LOWER(b->bytes[0]) ==> !RET)
;

bool aws_string_eq_byte_cursor(const struct aws_string *str, const struct aws_byte_cursor *cur)
__CPROVER_requires(STR_OK_OR_NULL(str, g_la))
__CPROVER_requires(cur == NULL || CUR_OK(cur))
__CPROVER_assigns(g_mm)
ENS_NULLS(str, cur)
__CPROVER_ensures(BOTH(str, cur) && RET ==> str->len == cur->len && (g_j < str->len ==> str->bytes[g_j] == cur->ptr[g_j]))
__CPROVER_ensures(BOTH(str, cur) && !RET ==> str->len != cur->len || (g_mm < str->len && str->bytes[g_mm] != cur->ptr[g_mm]))
;

bool aws_string_eq_byte_cursor_ignore_case(const struct aws_string *str, const struct aws_byte_cursor *cur)
__CPROVER_requires(STR_OK_OR_NULL(str, g_la))
__CPROVER_requires(cur == NULL || CUR_OK(cur))
__CPROVER_assigns()
ENS_NULLS(str, cur)
__CPROVER_ensures(BOTH(str, cur) && RET ==> str->len == cur->len && (g_j < str->len ==> SPEC_LOWER(str->bytes[g_j]) == SPEC_LOWER(cur->ptr[g_j])))
__CPROVER_ensures(BOTH(str, cur) && str->len == 0 && cur->len == 0 ==> RET)
__CPROVER_ensures(BOTH(str, cur) && str->len == cur->len && str->len > 0 && SPEC_LOWER(str->bytes[0]) != SPEC_LOWER(cur->ptr[0]) ==> !RET)
;

bool aws_string_eq_byte_buf(const struct aws_string *str, const struct aws_byte_buf *buf)
__CPROVER_requires(STR_OK_OR_NULL(str, g_la))
__CPROVER_requires(buf == NULL || BUF_OK(buf))
__CPROVER_assigns(g_mm)
ENS_NULLS(str, buf)
__CPROVER_ensures(BOTH(str, buf) && RET ==> str->len == buf->len && (g_j < str->len ==> str->bytes[g_j] == buf->buffer[g_j]))
__CPROVER_ensures(BOTH(str, buf) && !RET ==> str->len != buf->len || (g_mm < str->len && str->bytes[g_mm] != buf->buffer[g_mm]))
;

bool aws_string_eq_byte_buf_ignore_case(const struct aws_string *str, const struct aws_byte_buf *buf)
__CPROVER_requires(STR_OK_OR_NULL(str, g_la))
__CPROVER_requires(buf == NULL || BUF_OK(buf))
__CPROVER_assigns()
ENS_NULLS(str, buf)
__CPROVER_ensures(BOTH(str, buf) && RET ==> str->len == buf->len && (g_j < str->len ==> SPEC_LOWER(str->bytes[g_j]) == SPEC_LOWER(buf->buffer[g_j])))
__CPROVER_ensures(BOTH(str, buf) && str->len == 0 && buf->len == 0 ==> RET)
__CPROVER_ensures(BOTH(str, buf) && str->len == buf->len && str->len > 0 && SPEC_LOWER(str->bytes[0]) != SPEC_LOWER(buf->buffer[0]) ==> !RET)
;

/* C string of length g_slen (witness g_sw: no NUL before g_slen), as in contracts/byte_buf.h.  true ==> same length
 * ("str->len >= g_slen" by instantiating g_sw with str->len) and every byte equal. */
#define STR_EQ_CSTR(FOLD)                                                                                              \
    __CPROVER_requires(STR_OK_OR_NULL(str, g_la))                                                                      \
    __CPROVER_requires(c_str == NULL || CSTR_OK(c_str))                                                                \
    __CPROVER_assigns()                                                                                                \
    ENS_NULLS(str, c_str)                                                                                              \
    __CPROVER_ensures(BOTH(str, c_str) && RET ==> str->len <= g_slen && !(g_sw == str->len && str->len < g_slen))      \
    __CPROVER_ensures(BOTH(str, c_str) && RET ==> (g_j < str->len ==> FOLD(str->bytes[g_j]) == FOLD(U8P(c_str)[g_j]))) \
    __CPROVER_ensures(BOTH(str, c_str) && str->len == 0 && g_slen == 0 ==> RET)

bool aws_string_eq_c_str(const struct aws_string *str, const char *c_str)
STR_EQ_CSTR(SPEC_ID)
;
bool aws_string_eq_c_str_ignore_case(const struct aws_string *str, const char *c_str)
STR_EQ_CSTR(SPEC_LOWER)
;

/* memcmp order, then the shorter one first; NULL sorts before every string.  0 <==> equal; the sign follows the first
 * differing byte (position g_mm reported by the assumed memcmp contract) or, when one is a prefix of the other, the
 * lengths. */
#define SC_MIN(a, b) ((a)->len < (b)->len ? (a)->len : (b)->len)
#define ENS_STRING_ORDER(G, a, b)                                                                                      \
    __CPROVER_ensures((G) && (a) == NULL && (b) == NULL ==> RET == 0)                                                  \
    __CPROVER_ensures((G) && (a) == NULL && (b) != NULL ==> RET == -1)                                                 \
    __CPROVER_ensures((G) && (a) != NULL && (b) == NULL ==> RET == 1)                                                  \
    __CPROVER_ensures((G) && BOTH(a, b) && RET == 0 ==> (a)->len == (b)->len && (g_j < (a)->len ==> (a)->bytes[g_j] == (b)->bytes[g_j])) \
    __CPROVER_ensures((G) && BOTH(a, b) && RET != 0 ==>                                                                \
        (g_mm < SC_MIN(a, b) && (a)->bytes[g_mm] != (b)->bytes[g_mm] && ((RET < 0) == ((a)->bytes[g_mm] < (b)->bytes[g_mm])) && \
         (g_j < g_mm ==> (a)->bytes[g_j] == (b)->bytes[g_j])) ||                                                       \
        ((a)->len != (b)->len && RET == ((a)->len < (b)->len ? -1 : 1) &&                                              \
         (g_j < SC_MIN(a, b) ==> (a)->bytes[g_j] == (b)->bytes[g_j])))

int aws_string_compare(const struct aws_string *a, const struct aws_string *b)
__CPROVER_requires(STR_OK_OR_NULL(a, g_la))
__CPROVER_requires(STR_B_OK(a, b))
__CPROVER_assigns(g_mm)
__CPROVER_ensures(a == b ==> RET == 0)
ENS_STRING_ORDER(true, a, b)
;

/* array-list comparator: a and b point to list elements of type (const struct aws_string *).  The two elements are
 * named by the ghost pointers g_sa / g_sb (set equal to *a / *b in the requires clauses): spelling the order clauses with
 * the double dereference (*a)->bytes[..] sends goto-symex into an expression blow-up. */
const struct aws_string *g_sa;
const struct aws_string *g_sb;
#define SLOT(p) (*(const struct aws_string *const *)(p))
/* the element is NULL or a valid string of length L; G names it */
#define SLOT_OK(p, G, L)                                                                                               \
    ((SLOT(p) == NULL && (G) == NULL) ||                                                                               \
     ((L) < VERIF_HUGE && __CPROVER_is_fresh(SLOT(p), STR_SIZE(L)) && PEQ((G), SLOT(p)) && (G)->len == (L) && (G)->bytes[(L)] == 0))
int aws_array_list_comparator_string(const void *a, const void *b)
__CPROVER_requires(a == NULL || (__CPROVER_is_fresh(a, sizeof(struct aws_string *)) && SLOT_OK(a, g_sa, g_la)))
__CPROVER_requires(b == NULL || (__CPROVER_is_fresh(b, sizeof(struct aws_string *)) && SLOT_OK(b, g_sb, g_lb)))
__CPROVER_assigns(g_mm)
__CPROVER_ensures(a == NULL && b == NULL ==> RET == 0)
__CPROVER_ensures(a == NULL && b != NULL ==> RET == -1)
__CPROVER_ensures(a != NULL && b == NULL ==> RET == 1)
ENS_STRING_ORDER(BOTH(a, b), g_sa, g_sb)
;

/* ------------------------------------------------------------------ buffer / cursor helpers */

/* all or nothing, like aws_byte_buf_write; a NULL buffer or NULL string is refused and nothing is touched */
#define WFS_OK(buf, src) ((buf) != NULL && (src) != NULL)
bool aws_byte_buf_write_from_whole_string(struct aws_byte_buf *AWS_RESTRICT buf, const struct aws_string *AWS_RESTRICT src)
__CPROVER_requires(buf == NULL || BUF_OK(buf))
__CPROVER_requires(STR_OK_OR_NULL(src, g_la))
__CPROVER_requires(g_on && buf != NULL ==> (g_k < buf->capacity ==> g_old == buf->buffer[g_k]))
__CPROVER_assigns(WFS_OK(buf, src) && src->len > 0 && WRITE_FITS(buf, src->len) : buf->len)
__CPROVER_assigns(WFS_OK(buf, src) && src->len > 0 && WRITE_FITS(buf, src->len) : __CPROVER_object_upto(buf->buffer + buf->len, src->len))
__CPROVER_ensures(!WFS_OK(buf, src) ==> !RET)
__CPROVER_ensures(WFS_OK(buf, src) ==> RET == (src->len == 0 || (OLD(buf->len) <= SIZE_HALF && src->len <= SIZE_HALF && OLD(buf->len) + src->len <= buf->capacity)))
__CPROVER_ensures(WFS_OK(buf, src) && RET ==> buf->len == OLD(buf->len) + src->len)
__CPROVER_ensures(buf != NULL && !RET ==> buf->len == OLD(buf->len))
__CPROVER_ensures(buf != NULL ==> BUF_SHAPE_KEPT(buf))
__CPROVER_ensures(g_on && WFS_OK(buf, src) && RET && g_j < src->len ==> buf->buffer[OLD(buf->len) + g_j] == src->bytes[g_j])
__CPROVER_ensures(g_on && buf != NULL ==> (g_k < OLD(buf->len) ==> buf->buffer[g_k] == g_old))
;

/* a view of exactly the data bytes (terminator excluded); NULL string: the empty view */
struct aws_byte_cursor aws_byte_cursor_from_string(const struct aws_string *src)
__CPROVER_requires(STR_OK_OR_NULL(src, g_la))
__CPROVER_assigns()
__CPROVER_ensures(src == NULL ==> RET.ptr == NULL && RET.len == 0)
__CPROVER_ensures(src != NULL ==> RET.len == src->len && PEQ(RET.ptr, (uint8_t *)src->bytes))
;

/* length of a C string that must end within max_read_len bytes.  The whole window [0, max_read_len) has to be readable
 * (the code hands it to memchr).  success ==> *str_len is the position of the FIRST NUL (no NUL before it, witness g_j);
 * failure ==> no NUL inside the window, or a NULL argument; a failing call leaves *str_len alone. */
int aws_secure_strlen(const char *str, size_t max_read_len, size_t *str_len)
__CPROVER_requires(str == NULL || __CPROVER_is_fresh(str, max_read_len))
__CPROVER_requires(str_len == NULL || __CPROVER_is_fresh(str_len, sizeof(*str_len)))
__CPROVER_assigns(g_mm)
__CPROVER_assigns(str != NULL && str_len != NULL : *str_len)
__CPROVER_ensures(RET == AWS_OP_SUCCESS || RET == AWS_OP_ERR)
__CPROVER_ensures(str == NULL || str_len == NULL ==> RET == AWS_OP_ERR)
__CPROVER_ensures(RET == AWS_OP_SUCCESS ==> *str_len < max_read_len && str[*str_len] == 0 && (g_j < *str_len ==> str[g_j] != 0))
__CPROVER_ensures(RET == AWS_OP_ERR && str != NULL && str_len != NULL ==> (g_j < max_read_len ==> str[g_j] != 0))
__CPROVER_ensures(RET == AWS_OP_ERR && str_len != NULL ==> *str_len == OLD(*str_len))
;

#endif
