/* Contracts for property C14 (logging): source/log_formatter.c and source/logging.c.
 *
 * The header is included TWICE by a proof unit:
 *   pass 1 (before `#include "source/<file>.c"`): ghost state, the snprintf hook, contracts of the callees
 *          (libc formatted output, date-time, thread id, level names) and of functions whose contract needs no
 *          file-local symbol;
 *   pass 2 (after the source file, with VERIF_LOGGING_PASS2 defined): contracts that have to name file-local
 *          objects of the source file (tl_logging_thread_id, s_root_logger_ptr).
 *
 * Formatted output (snprintf/vsnprintf) is ASSUMED to obey C99 7.19.6.5/7.19.6.12:
 *   returns the length L the complete text would have (or a negative value on an encoding error; never negative for
 *   a format without conversion specifications, for which L == strlen(format) and the text is the format itself);
 *   when n > 0 it stores min(L, n-1) characters of the text followed by a NUL inside [s, s+n) and nothing else.
 * The contract below havocs all n bytes (a superset of what snprintf may store: sound for the caller's proof).
 * ASSUMED in addition: the text contains no NUL character (true unless a `%c` conversion is given the value 0).
 *
 * `snprintf` is variadic.  DFCC 6.11 passes its write-set as an extra trailing parameter, which collides with the
 * variable arguments of a replaced variadic call (spurious "assigns clause ... included" failure with a garbage
 * write-set pointer).  The unit therefore maps `snprintf(s, n, fmt, args...)` to the three-parameter
 * `verif_snprintf(s, n, fmt)` with a macro (the format arguments are pure expressions in log_formatter.c and are
 * dropped: the model's text is arbitrary anyway).
 *
 * Ghost state (all reset by FMT_GHOST_RESET()):
 *   g_w        arbitrary index into the line buffer ("for all positions" witness, DESIGN §4.3)
 *   g_end      offset in the line buffer where the text stored so far ends (= where its terminating NUL is)
 *   g_trunc    some piece did not fit into the size it was given (its text was cut)
 *   g_err      some callee reported an error
 *   g_pieces   the sequence of pieces stored so far, one octal digit each:
 *              1 "[LEVEL] ["  2 timestamp  3 "] [thread] "  4 "[subject]"  5 " - "  6 user message  7 "\n"
 *   g_strict   off: contiguity/newline/no-NUL are demanded only while nothing was truncated
 *              on : they are demanded always (the property statement: a cut line is still newline-terminated)
 *   g_msg_fmt  the format handed to vsnprintf
 */
#ifndef VERIF_CONTRACTS_LOGGING_H
#define VERIF_CONTRACTS_LOGGING_H
#include "contracts/common.h"
#include "contracts/allocator.h"

#include <aws/common/date_time.h>
#include <aws/common/log_channel.h>
#include <aws/common/log_formatter.h>
#include <aws/common/log_writer.h>
#include <aws/common/logging.h>
#include <aws/common/string.h>
#include <aws/common/thread.h>
#include <stdarg.h>
#include <stdio.h>

#ifndef RET
#    define RET __CPROVER_return_value
#endif
#ifndef OLD
#    define OLD __CPROVER_old
#endif
#define POFF(p) ((size_t)__CPROVER_POINTER_OFFSET(p))

bool g_fmt_on;
bool g_strict;
size_t g_w;
size_t g_end;
bool g_trunc;
bool g_err;
uint64_t g_pieces;
const char *g_msg_fmt;

#define FMT_GHOST_RESET()                                                                                              \
    do {                                                                                                               \
        GHOST_RESET_COMMON();                                                                                          \
        GHOST_RESET_ALLOC();                                                                                           \
        g_fmt_on = false;                                                                                              \
        g_strict = false;                                                                                              \
        g_end = 0;                                                                                                     \
        g_trunc = false;                                                                                               \
        g_err = false;                                                                                                 \
        g_pieces = 0;                                                                                                  \
        g_msg_fmt = NULL;                                                                                              \
    } while (0)

/* the five format strings of aws_format_standard_log_line, recognised character by character */
#define F_NL(f) ((f)[0] == '\n' && (f)[1] == 0)
#define F_SEP(f) ((f)[0] == ' ' && (f)[1] == '-' && (f)[2] == ' ' && (f)[3] == 0)
#define F_LEVEL(f) ((f)[0] == '[' && (f)[1] == '%' && (f)[2] == 's' && (f)[3] == ']' && (f)[4] == ' ' && (f)[5] == '[' && (f)[6] == 0)
#define F_THREAD(f)                                                                                                    \
    ((f)[0] == ']' && (f)[1] == ' ' && (f)[2] == '[' && (f)[3] == '%' && (f)[4] == 's' && (f)[5] == ']' && (f)[6] == ' ' && (f)[7] == 0)
#define F_SUBJ(f) ((f)[0] == '[' && (f)[1] == '%' && (f)[2] == 's' && (f)[3] == ']' && (f)[4] == 0)
/* (no ?: here: ternaries are not allowed in assigns-clause conditions; the five tests are mutually exclusive) */
#define F_ID(f) (1u * F_LEVEL(f) + 3u * F_THREAD(f) + 4u * F_SUBJ(f) + 5u * F_SEP(f) + 7u * F_NL(f))
#define P_TIMESTAMP 2u
#define P_MESSAGE 6u

/* number of characters actually stored for a text of length L in a buffer of n > 0 bytes */
#define STORED(L, n) ((size_t)(L) < (n)-1 ? (size_t)(L) : (n)-1)
/* every piece starts where the text stored so far ends (on its terminator): no gap, no overlap */
#define PIECE_STARTS_AT_END(p) (g_fmt_on && (g_strict || !g_trunc) ==> POFF(p) == g_end)

/* Oracle ("prophecy") ghosts: the harness chooses, before the call, the length every piece's complete text will have
 * (g_L[piece], any int; negative = the call fails) and the outcome of the timestamp conversion (g_dlen characters, or
 * failure g_derr).  They are unconstrained, so every behaviour of the callees is covered, and they make the bytes a
 * callee stores expressible in the pre-state.
 *
 * Stores are modelled PROJECTED ONTO THE WITNESS POSITION g_w: a callee that stores the text t[0..K) and a NUL at
 * [s, s+K] changes line[g_w] iff g_w lies in that range, to 0 if it is the terminator's position, to '\n' if it is the
 * first character of the "\n" piece, and to some non-NUL value otherwise.  g_w is arbitrary, and the postconditions of
 * aws_format_standard_log_line read the line buffer at g_w only, so this is the for-all-positions statement (§4.3).
 * (Havocking [s, s+n) or naming the terminator/newline bytes separately was tried first: symbolic-length havoc and
 * ~40 symbolic byte indices cost > 7 min in the SAT back end; this form takes seconds.)
 * What the projection gives up: bytes other than line[g_w] keep their arbitrary initial value in the model, i.e. the
 * proof is for code that does not READ the line buffer (log_formatter.c only passes pointers into it).
 * That the whole range [s, s+n) handed to a callee lies inside the line buffer is demanded by LINE_RANGE. */
int g_L[8];
size_t g_dlen;
bool g_derr;
char *g_line; /* == fd->log_line_buffer (requires of aws_format_standard_log_line) */

#define LINE_RANGE(s, n) ((n) == 0 || (__CPROVER_w_ok((s), (n)) && (g_fmt_on ==> __CPROVER_same_object((s), g_line))))
/* g_w lies in [s, s+k] */
#define WITNESS_IN(s, k) (g_w >= POFF(s) && g_w - POFF(s) <= (k))
#define WITNESS_AT(s, k) (g_w >= POFF(s) && g_w - POFF(s) == (k))
#define WITNESS_BELOW(s, k) (g_w >= POFF(s) && g_w - POFF(s) < (k))

#define TEXT_CONTRACT(L, id, is_nl)                                                                                    \
    __CPROVER_requires(LINE_RANGE(s, n))                                                                               \
    __CPROVER_requires(PIECE_STARTS_AT_END(s))                                                                         \
    __CPROVER_assigns(g_fmt_on && n > 0 && (L) >= 0 && WITNESS_IN(s, (size_t)(L)) && WITNESS_IN(s, n - 1) : g_line[g_w])          \
    __CPROVER_assigns(g_end, g_trunc, g_err, g_pieces)                                                                 \
    __CPROVER_ensures(RET == (L))                                                                                      \
    __CPROVER_ensures(g_fmt_on && n > 0 && RET >= 0 && WITNESS_AT(s, STORED(RET, n)) ==> g_line[g_w] == 0)                         \
    __CPROVER_ensures(g_fmt_on && n > 0 && RET >= 0 && WITNESS_BELOW(s, STORED(RET, n)) ==> g_line[g_w] != 0)                      \
    __CPROVER_ensures(g_fmt_on && n >= 2 && (is_nl) && WITNESS_AT(s, 0) ==> g_line[g_w] == '\n')                                   \
    __CPROVER_ensures(g_err == (OLD(g_err) || RET < 0))                                                                \
    __CPROVER_ensures(g_trunc == (OLD(g_trunc) || (RET >= 0 && (size_t)RET >= n)))                                     \
    __CPROVER_ensures(g_pieces == OLD(g_pieces) * 8 + (id))                                                            \
    __CPROVER_ensures(n > 0 && RET >= 0 ==> g_end == POFF(s) + STORED(RET, n))                                         \
    __CPROVER_ensures(!(n > 0 && RET >= 0) ==> g_end == OLD(g_end))

#ifdef VERIF_HOOK_SNPRINTF
/* g_L[5] == 3 and g_L[7] == 1 (formats without conversions yield their own length) is a requires of the caller */
int verif_snprintf(char *s, size_t n, const char *fmt)
__CPROVER_requires(fmt != NULL && F_ID(fmt) != 0 && "one of the five formats of the standard log line")
TEXT_CONTRACT(g_L[F_ID(fmt)], F_ID(fmt), F_NL(fmt))
;
#    define VERIF_FIRST_ARG(a, ...) a
#    define snprintf(s, n, ...) verif_snprintf((s), (n), VERIF_FIRST_ARG(__VA_ARGS__, 0))
#endif

int vsnprintf(char *s, size_t n, const char *fmt, va_list ap)
TEXT_CONTRACT(g_L[P_MESSAGE], P_MESSAGE, false)
__CPROVER_assigns(g_msg_fmt)
__CPROVER_ensures(g_msg_fmt == fmt)
;

/* ---- date_time.c (ASSUMED; derived from strftime, C99 7.23.3.5: on success w >= 1 characters plus a NUL are stored
 *      in the remaining space, otherwise AWS_OP_ERR and len is unchanged).  The documented upper bound of a date
 *      string, AWS_DATE_TIME_STR_MAX_LEN, is part of the assumption. */
void aws_date_time_init_now(struct aws_date_time *dt)
__CPROVER_requires(__CPROVER_w_ok(dt, sizeof(*dt)))
__CPROVER_assigns(*dt)
__CPROVER_ensures(1)
;

#define D_OK(ob) (!g_derr && g_dlen >= 1 && g_dlen <= AWS_DATE_TIME_STR_MAX_LEN && g_dlen < (ob)->capacity - (ob)->len)
#define D_POS(ob) (POFF((ob)->buffer) + OLD((ob)->len))
int aws_date_time_to_utc_time_str(const struct aws_date_time *dt, enum aws_date_format fmt, struct aws_byte_buf *output_buf)
__CPROVER_requires(__CPROVER_r_ok(dt, sizeof(*dt)))
__CPROVER_requires(__CPROVER_rw_ok(output_buf, sizeof(*output_buf)))
__CPROVER_requires(output_buf->len <= output_buf->capacity)
__CPROVER_requires(LINE_RANGE(output_buf->buffer + output_buf->len, output_buf->capacity - output_buf->len))
__CPROVER_requires(output_buf->capacity > output_buf->len ==> PIECE_STARTS_AT_END(output_buf->buffer + output_buf->len))
__CPROVER_assigns(D_OK(output_buf) : output_buf->len)
__CPROVER_assigns(g_fmt_on && D_OK(output_buf) && g_w >= POFF(output_buf->buffer) + output_buf->len &&
                  g_w <= POFF(output_buf->buffer) + output_buf->len + g_dlen : g_line[g_w])
__CPROVER_assigns(g_end, g_err, g_pieces)
__CPROVER_ensures(RET == AWS_OP_SUCCESS || RET == AWS_OP_ERR)
__CPROVER_ensures((RET == AWS_OP_SUCCESS) == (!g_derr && g_dlen >= 1 && g_dlen <= AWS_DATE_TIME_STR_MAX_LEN &&
                                             g_dlen < output_buf->capacity - OLD(output_buf->len)))
__CPROVER_ensures(RET != AWS_OP_SUCCESS ==> output_buf->len == OLD(output_buf->len))
__CPROVER_ensures(RET == AWS_OP_SUCCESS ==> output_buf->len == OLD(output_buf->len) + g_dlen)
__CPROVER_ensures(g_fmt_on && RET == AWS_OP_SUCCESS && g_w == D_POS(output_buf) + g_dlen ==> g_line[g_w] == 0)
__CPROVER_ensures(g_fmt_on && RET == AWS_OP_SUCCESS && g_w >= D_POS(output_buf) && g_w < D_POS(output_buf) + g_dlen ==> g_line[g_w] != 0)
__CPROVER_ensures(g_err == (OLD(g_err) || RET != AWS_OP_SUCCESS))
__CPROVER_ensures(g_pieces == OLD(g_pieces) * 8 + P_TIMESTAMP)
__CPROVER_ensures(RET == AWS_OP_SUCCESS ==> g_end == POFF(output_buf->buffer) + output_buf->len)
__CPROVER_ensures(RET != AWS_OP_SUCCESS ==> g_end == OLD(g_end))
;

/* ---- thread.c / logging.c helpers used by the formatter */
aws_thread_id_t aws_thread_current_thread_id(void)
__CPROVER_requires(1)
__CPROVER_assigns()
__CPROVER_ensures(1)
;

#ifndef VERIF_LOGGING_TU
int aws_thread_id_t_to_string(aws_thread_id_t thread_id, char *buffer, size_t bufsz)
__CPROVER_requires(bufsz == AWS_THREAD_ID_T_REPR_BUFSZ && __CPROVER_w_ok(buffer, bufsz))
__CPROVER_assigns(__CPROVER_object_upto(buffer, bufsz))
__CPROVER_assigns(g_err)
__CPROVER_ensures(RET == AWS_OP_SUCCESS || RET == AWS_OP_ERR)
__CPROVER_ensures(RET == AWS_OP_SUCCESS ==> buffer[bufsz - 1] == 0)
__CPROVER_ensures(g_err == (OLD(g_err) || RET != AWS_OP_SUCCESS))
;
#endif

/* level names (logging.c): success exactly for the seven levels */
int aws_log_level_to_string(enum aws_log_level log_level, const char **level_string)
__CPROVER_requires(level_string == NULL || __CPROVER_w_ok(level_string, sizeof(*level_string)))
__CPROVER_assigns(level_string != NULL && log_level < AWS_LL_COUNT : *level_string)
__CPROVER_ensures((RET == AWS_OP_SUCCESS) == (log_level < AWS_LL_COUNT))
__CPROVER_ensures(RET == AWS_OP_SUCCESS || RET == AWS_OP_ERR)
#ifdef VERIF_LOGGING_TU
__CPROVER_ensures(RET == AWS_OP_SUCCESS && level_string != NULL ==> *level_string == g_level_names[log_level])
#endif
;

#endif /* VERIF_CONTRACTS_LOGGING_H */

/* ============================================================================================ pass 2 */
#if defined(VERIF_LOGGING_PASS2) && !defined(VERIF_CONTRACTS_LOGGING_H_PASS2)
#    define VERIF_CONTRACTS_LOGGING_H_PASS2

#    ifdef VERIF_FORMATTER_TU
/* aws_format_standard_log_line: the line is assembled inside log_line_buffer[0, total_length).
 *   success  <=>  the level is one of the seven, total_length > 0 and no callee reported an error;
 *   failure leaves amount_written alone;
 *   success: 1 <= amount_written <= total_length, amount_written is where the stored text ends,
 *            the last byte of the line is '\n', no byte of the line is NUL (witness g_w),
 *            the pieces are level, timestamp, thread id, [subject], " - ", message, newline - each once, in this order,
 *            the message format is the caller's format.
 * (g_strict || !g_trunc) - see the top of the file. */
#        define LINE_CLAIMED (RET == AWS_OP_SUCCESS && fd->total_length >= 2 && (g_strict || !g_trunc))
int aws_format_standard_log_line(struct aws_logging_standard_formatting_data *fd, va_list args)
__CPROVER_requires(__CPROVER_is_fresh(fd, sizeof(*fd)))
__CPROVER_requires(fd->total_length == 0 || __CPROVER_is_fresh(fd->log_line_buffer, fd->total_length))
__CPROVER_requires(g_fmt_on && g_end == 0 && !g_trunc && !g_err && g_pieces == 0)
__CPROVER_requires(g_L[5] == 3 && g_L[7] == 1)
__CPROVER_requires(fd->total_length > 0 ==> __CPROVER_pointer_equals(g_line, fd->log_line_buffer))
__CPROVER_assigns(fd->amount_written)
__CPROVER_assigns(fd->total_length > 0 : __CPROVER_object_upto(fd->log_line_buffer, fd->total_length))
__CPROVER_assigns(__CPROVER_object_whole(&tl_logging_thread_id))
__CPROVER_assigns(g_end, g_trunc, g_err, g_pieces, g_msg_fmt)
/* exact result */
__CPROVER_ensures(RET == AWS_OP_SUCCESS || RET == AWS_OP_ERR)
__CPROVER_ensures((RET == AWS_OP_SUCCESS) == (fd->level < AWS_LL_COUNT && fd->total_length > 0 && !g_err))
__CPROVER_ensures(RET != AWS_OP_SUCCESS ==> fd->amount_written == OLD(fd->amount_written))
/* inside the buffer */
__CPROVER_ensures(RET == AWS_OP_SUCCESS ==> fd->amount_written >= 1 && fd->amount_written <= fd->total_length)
/* the line */
__CPROVER_ensures(LINE_CLAIMED ==> fd->amount_written == g_end)
__CPROVER_ensures(LINE_CLAIMED && g_w == fd->amount_written - 1 ==> fd->log_line_buffer[g_w] == '\n')
__CPROVER_ensures(LINE_CLAIMED && g_w < fd->amount_written ==> fd->log_line_buffer[g_w] != 0)
/* the pieces */
__CPROVER_ensures(RET == AWS_OP_SUCCESS && !g_trunc ==> g_pieces == (fd->subject_name != NULL ? 01234567u : 0123567u))
__CPROVER_ensures(RET == AWS_OP_SUCCESS ==> g_pieces % 8 == 7)
__CPROVER_ensures(RET == AWS_OP_SUCCESS && !g_trunc ==> g_msg_fmt == fd->format)
;
#    endif

#endif
