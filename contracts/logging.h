/* Contracts for property C14 (logging): source/log_formatter.c, source/logging.c, source/log_channel.c.
 *
 * The header is included TWICE by a proof unit:
 *   pass 1 (before `#include "source/<file>.c"`): ghost state, the snprintf hook, contracts of the callees
 *          (libc formatted output, date-time, thread id, level names, mutex/condition variable/thread) and of functions
 *          whose contract needs no file-local symbol;
 *   pass 2 (after the source file, with VERIF_LOGGING_PASS2 defined): contracts that have to name file-local
 *          objects or types of the source file (tl_logging_thread_id, s_root_logger_ptr, struct aws_logger_noalloc,
 *          struct aws_log_foreground_channel / aws_log_background_channel).  A contract on a re-declaration AFTER the
 *          definition works for static functions too.
 * Unit selectors: VERIF_FORMATTER_TU (+ VERIF_HOOK_SNPRINTF), VERIF_LOGGING_TU, VERIF_CHANNEL_TU.
 *
 * Formatted output (snprintf/vsnprintf) is ASSUMED to obey C99 7.19.6.5/7.19.6.12:
 *   returns the length L the complete text would have (or a negative value on an encoding error; never negative for
 *   a format without conversion specifications, for which L == strlen(format) and the text is the format itself);
 *   when n > 0 it stores min(L, n-1) characters of the text followed by a NUL inside [s, s+n) and nothing else.
 * ASSUMED in addition: the text contains no NUL character (true unless a `%c` conversion is given the value 0).
 * How the stores are modelled (oracle lengths, projection onto the witness position): see below at g_L.
 *
 * `snprintf` is variadic.  DFCC 6.11 passes its write-set as an extra trailing parameter, which collides with the
 * variable arguments of a replaced variadic call (spurious "assigns clause ... included" failure with a garbage
 * write-set pointer).  The unit therefore maps `snprintf(s, n, fmt, args...)` to the four-parameter
 * `verif_snprintf(s, n, fmt, first_arg)` with a macro (the formats of log_formatter.c have at most one conversion and
 * their arguments are pure expressions).
 *
 * Ghost state (all reset by FMT_GHOST_RESET()):
 *   g_w        arbitrary index into the line buffer ("for all positions" witness, DESIGN §4.3)
 *   g_end      offset in the line buffer where the text stored so far ends (= where its terminating NUL is)
 *   g_trunc    some piece did not fit into the size it was given (its text was cut)
 *   g_err      some callee reported an error
 *   g_pieces   the sequence of pieces stored so far, one octal digit each:
 *              1 "[LEVEL] ["  2 timestamp  3 "] [thread] "  4 "[subject]"  5 " - "  6 user message  7 "\n"
 *   g_strict   off: contiguity/newline/no-NUL are demanded only while nothing was truncated
 *              on : they are demanded always (the property statement: a cut line is still newline-terminated)
 *   g_msg_fmt  the format handed to vsnprintf; g_arg[piece] the string printed by each snprintf piece
 */
#ifndef VERIF_CONTRACTS_LOGGING_H
#define VERIF_CONTRACTS_LOGGING_H
#include "contracts/common.h"
#include "contracts/allocator.h"

#include <aws/common/date_time.h>
#include <aws/common/log_channel.h>
#include <aws/common/log_formatter.h>
#include <aws/common/log_writer.h>
#include <aws/common/logging.h>
#include <aws/common/string.h>
#include <aws/common/thread.h>
#include <stdarg.h>
#include <stdio.h>

#ifndef RET
#    define RET __CPROVER_return_value
#endif
#ifndef OLD
#    define OLD __CPROVER_old
#endif
#define POFF(p) ((size_t)__CPROVER_POINTER_OFFSET(p))

bool g_fmt_on;
bool g_strict;
size_t g_w;
size_t g_end;
bool g_trunc;
bool g_err;
uint64_t g_pieces;
const char *g_msg_fmt;

#define FMT_GHOST_RESET()                                                                                              \
    do {                                                                                                               \
        GHOST_RESET_COMMON();                                                                                          \
        GHOST_RESET_ALLOC();                                                                                           \
        g_fmt_on = false;                                                                                              \
        g_strict = false;                                                                                              \
        g_end = 0;                                                                                                     \
        g_trunc = false;                                                                                               \
        g_err = false;                                                                                                 \
        g_pieces = 0;                                                                                                  \
        g_msg_fmt = NULL;                                                                                              \
    } while (0)

/* the five format strings of aws_format_standard_log_line, recognised character by character */
#define F_NL(f) ((f)[0] == '\n' && (f)[1] == 0)
#define F_SEP(f) ((f)[0] == ' ' && (f)[1] == '-' && (f)[2] == ' ' && (f)[3] == 0)
#define F_LEVEL(f) ((f)[0] == '[' && (f)[1] == '%' && (f)[2] == 's' && (f)[3] == ']' && (f)[4] == ' ' && (f)[5] == '[' && (f)[6] == 0)
#define F_THREAD(f)                                                                                                    \
    ((f)[0] == ']' && (f)[1] == ' ' && (f)[2] == '[' && (f)[3] == '%' && (f)[4] == 's' && (f)[5] == ']' && (f)[6] == ' ' && (f)[7] == 0)
#define F_SUBJ(f) ((f)[0] == '[' && (f)[1] == '%' && (f)[2] == 's' && (f)[3] == ']' && (f)[4] == 0)
/* (no ?: here: ternaries are not allowed in assigns-clause conditions; the five tests are mutually exclusive) */
#define F_ID(f) (1u * F_LEVEL(f) + 3u * F_THREAD(f) + 4u * F_SUBJ(f) + 5u * F_SEP(f) + 7u * F_NL(f))
#define P_TIMESTAMP 2u
#define P_MESSAGE 6u

/* number of characters actually stored for a text of length L in a buffer of n > 0 bytes */
#define STORED(L, n) ((size_t)(L) < (n)-1 ? (size_t)(L) : (n)-1)
/* every piece starts where the text stored so far ends (on its terminator): no gap, no overlap */
#define PIECE_STARTS_AT_END(p) (g_fmt_on && (g_strict || !g_trunc) ==> POFF(p) == g_end)

/* Oracle ("prophecy") ghosts: the harness chooses, before the call, the length every piece's complete text will have
 * (g_L[piece], any int; negative = the call fails) and the outcome of the timestamp conversion (g_dlen characters, or
 * failure g_derr).  They are unconstrained, so every behaviour of the callees is covered, and they make the bytes a
 * callee stores expressible in the pre-state.
 *
 * Stores are modelled PROJECTED ONTO THE WITNESS POSITION g_w: a callee that stores the text t[0..K) and a NUL at
 * [s, s+K] changes line[g_w] iff g_w lies in that range, to 0 if it is the terminator's position, to '\n' if it is the
 * first character of the "\n" piece, and to some non-NUL value otherwise.  g_w is arbitrary, and the postconditions of
 * aws_format_standard_log_line read the line buffer at g_w only, so this is the for-all-positions statement (§4.3).
 * (Havocking [s, s+n) or naming the terminator/newline bytes separately was tried first: symbolic-length havoc and
 * ~40 symbolic byte indices cost > 7 min in the SAT back end; this form takes seconds.)
 * What the projection gives up: bytes other than line[g_w] keep their arbitrary initial value in the model, i.e. the
 * proof is for code that does not READ the line buffer (log_formatter.c only passes pointers into it).
 * That the whole range [s, s+n) handed to a callee lies inside the line buffer is demanded by LINE_RANGE. */
int g_L[8];
const char *g_arg[8];          /* first format argument of each snprintf piece */
enum aws_date_format g_date_fmt; /* format handed to the timestamp conversion */
enum aws_log_level g_level_arg;  /* level whose name was asked for */
const char g_level_name[8];      /* stands for the name aws_log_level_to_string returned (replaced calls) */
aws_thread_id_t g_tid;           /* what aws_thread_current_thread_id returns */
size_t g_dlen;
bool g_derr;
char *g_line; /* == fd->log_line_buffer (requires of aws_format_standard_log_line) */

#define LINE_RANGE(s, n) ((n) == 0 || (__CPROVER_w_ok((s), (n)) && (g_fmt_on ==> __CPROVER_same_object((s), g_line))))
/* g_w lies in [s, s+k] */
#define WITNESS_IN(s, k) (g_w >= POFF(s) && g_w - POFF(s) <= (k))
#define WITNESS_AT(s, k) (g_w >= POFF(s) && g_w - POFF(s) == (k))
#define WITNESS_BELOW(s, k) (g_w >= POFF(s) && g_w - POFF(s) < (k))

#define TEXT_CONTRACT(L, id, is_nl)                                                                                    \
    __CPROVER_requires(LINE_RANGE(s, n))                                                                               \
    __CPROVER_requires(PIECE_STARTS_AT_END(s))                                                                         \
    __CPROVER_assigns(g_fmt_on && n > 0 && (L) >= 0 && WITNESS_IN(s, (size_t)(L)) && WITNESS_IN(s, n - 1) : g_line[g_w])          \
    __CPROVER_assigns(g_end, g_trunc, g_err, g_pieces)                                                                 \
    __CPROVER_ensures(RET == (L))                                                                                      \
    __CPROVER_ensures(g_fmt_on && n > 0 && RET >= 0 && WITNESS_AT(s, STORED(RET, n)) ==> g_line[g_w] == 0)                         \
    __CPROVER_ensures(g_fmt_on && n > 0 && RET >= 0 && WITNESS_BELOW(s, STORED(RET, n)) ==> g_line[g_w] != 0)                      \
    __CPROVER_ensures(g_fmt_on && n >= 2 && (is_nl) && WITNESS_AT(s, 0) ==> g_line[g_w] == '\n')                                   \
    __CPROVER_ensures(g_err == (OLD(g_err) || RET < 0))                                                                \
    __CPROVER_ensures(g_trunc == (OLD(g_trunc) || (RET >= 0 && (size_t)RET >= n)))                                     \
    __CPROVER_ensures(g_pieces == OLD(g_pieces) * 8 + (id))                                                            \
    __CPROVER_ensures(n > 0 && RET >= 0 ==> g_end == POFF(s) + STORED(RET, n))                                         \
    __CPROVER_ensures(!(n > 0 && RET >= 0) ==> g_end == OLD(g_end))

#ifdef VERIF_HOOK_SNPRINTF
/* g_L[5] == 3 and g_L[7] == 1 (formats without conversions yield their own length) is a requires of the caller */
/* `arg` is the call's first format argument (the string behind the single %s of the three formats that have one;
 * NULL for " - " and "\n"); it is recorded in g_arg[piece] so that the caller's contract can say WHAT was printed */
int verif_snprintf(char *s, size_t n, const char *fmt, const char *arg)
__CPROVER_requires(fmt != NULL && F_ID(fmt) != 0 && "one of the five formats of the standard log line")
TEXT_CONTRACT(g_L[F_ID(fmt)], F_ID(fmt), F_NL(fmt))
__CPROVER_assigns(g_arg[F_ID(fmt)])
/* (pointer_equals, not ==: a havocked pointer that is only constrained by == has no value set, and `== NULL` is then
 * unsatisfiable - the path silently becomes vacuous; caught by the canaries) */
__CPROVER_ensures(__CPROVER_pointer_equals(g_arg[F_ID(fmt)], arg))
;
#    define VERIF_FIRST_ARG(a, ...) a
#    define VERIF_SECOND_ARG(a, b, ...) b
#    define snprintf(s, n, ...) verif_snprintf((s), (n), VERIF_FIRST_ARG(__VA_ARGS__, 0), VERIF_SECOND_ARG(__VA_ARGS__, 0, 0))
#endif

int vsnprintf(char *s, size_t n, const char *fmt, va_list ap)
TEXT_CONTRACT(g_L[P_MESSAGE], P_MESSAGE, false)
__CPROVER_assigns(g_msg_fmt)
__CPROVER_ensures(__CPROVER_pointer_equals(g_msg_fmt, fmt))
;

/* ---- date_time.c (ASSUMED; derived from strftime, C99 7.23.3.5: on success w >= 1 characters plus a NUL are stored
 *      in the remaining space, otherwise AWS_OP_ERR and len is unchanged).  The documented upper bound of a date
 *      string, AWS_DATE_TIME_STR_MAX_LEN, is part of the assumption. */
void aws_date_time_init_now(struct aws_date_time *dt)
__CPROVER_requires(__CPROVER_w_ok(dt, sizeof(*dt)))
__CPROVER_assigns(*dt)
__CPROVER_ensures(1)
;

#define D_OK(ob) (!g_derr && g_dlen >= 1 && g_dlen <= AWS_DATE_TIME_STR_MAX_LEN && g_dlen < (ob)->capacity - (ob)->len)
#define D_POS(ob) (POFF((ob)->buffer) + OLD((ob)->len))
int aws_date_time_to_utc_time_str(const struct aws_date_time *dt, enum aws_date_format fmt, struct aws_byte_buf *output_buf)
__CPROVER_requires(__CPROVER_r_ok(dt, sizeof(*dt)))
__CPROVER_requires(__CPROVER_rw_ok(output_buf, sizeof(*output_buf)))
__CPROVER_requires(output_buf->len <= output_buf->capacity)
__CPROVER_requires(LINE_RANGE(output_buf->buffer + output_buf->len, output_buf->capacity - output_buf->len))
__CPROVER_requires(output_buf->capacity > output_buf->len ==> PIECE_STARTS_AT_END(output_buf->buffer + output_buf->len))
__CPROVER_assigns(D_OK(output_buf) : output_buf->len)
__CPROVER_assigns(g_fmt_on && D_OK(output_buf) && g_w >= POFF(output_buf->buffer) + output_buf->len &&
                  g_w <= POFF(output_buf->buffer) + output_buf->len + g_dlen : g_line[g_w])
__CPROVER_assigns(g_end, g_err, g_pieces, g_date_fmt)
__CPROVER_ensures(g_date_fmt == fmt)
__CPROVER_ensures(RET == AWS_OP_SUCCESS || RET == AWS_OP_ERR)
__CPROVER_ensures((RET == AWS_OP_SUCCESS) == (!g_derr && g_dlen >= 1 && g_dlen <= AWS_DATE_TIME_STR_MAX_LEN &&
                                             g_dlen < output_buf->capacity - OLD(output_buf->len)))
__CPROVER_ensures(RET != AWS_OP_SUCCESS ==> output_buf->len == OLD(output_buf->len))
__CPROVER_ensures(RET == AWS_OP_SUCCESS ==> output_buf->len == OLD(output_buf->len) + g_dlen)
__CPROVER_ensures(g_fmt_on && RET == AWS_OP_SUCCESS && g_w == D_POS(output_buf) + g_dlen ==> g_line[g_w] == 0)
__CPROVER_ensures(g_fmt_on && RET == AWS_OP_SUCCESS && g_w >= D_POS(output_buf) && g_w < D_POS(output_buf) + g_dlen ==> g_line[g_w] != 0)
__CPROVER_ensures(g_err == (OLD(g_err) || RET != AWS_OP_SUCCESS))
__CPROVER_ensures(g_pieces == OLD(g_pieces) * 8 + P_TIMESTAMP)
__CPROVER_ensures(RET == AWS_OP_SUCCESS ==> g_end == POFF(output_buf->buffer) + output_buf->len)
__CPROVER_ensures(RET != AWS_OP_SUCCESS ==> g_end == OLD(g_end))
;

/* ---- thread.c / logging.c helpers used by the formatter */
aws_thread_id_t aws_thread_current_thread_id(void)
__CPROVER_requires(1)
__CPROVER_assigns()
__CPROVER_ensures(RET == g_tid)
;

#ifndef VERIF_LOGGING_TU
int aws_thread_id_t_to_string(aws_thread_id_t thread_id, char *buffer, size_t bufsz)
__CPROVER_requires(bufsz == AWS_THREAD_ID_T_REPR_BUFSZ && __CPROVER_w_ok(buffer, bufsz))
__CPROVER_requires(g_fmt_on ==> thread_id == g_tid && "the id that is printed is the current thread's")
__CPROVER_assigns(__CPROVER_object_upto(buffer, bufsz))
__CPROVER_assigns(g_err)
__CPROVER_ensures(RET == AWS_OP_SUCCESS || RET == AWS_OP_ERR)
__CPROVER_ensures(RET == AWS_OP_SUCCESS ==> buffer[bufsz - 1] == 0)
__CPROVER_ensures(g_err == (OLD(g_err) || RET != AWS_OP_SUCCESS))
;
#endif

#ifdef VERIF_LOGGING_TU
static const char *s_log_level_strings[AWS_LL_COUNT]; /* tentative definition; the real one follows in logging.c */
#endif
/* enum aws_log_level has no negative enumerator: GCC/Clang (the real build) give it the type unsigned int, CBMC's
 * front end models it as signed int.  Negative values do not exist in the real build and are excluded here.
 * (With a compiler that makes enums signed - MSVC - a negative level passes `log_level < AWS_LL_COUNT` in
 * aws_log_level_to_string and indexes s_log_level_strings[] below 0: reported as an observation, outside C14.) */
#define LEVEL_REPRESENTABLE(l) ((int)(l) >= 0)
/* level names (logging.c): success exactly for the seven levels */
int aws_log_level_to_string(enum aws_log_level log_level, const char **level_string)
__CPROVER_requires(LEVEL_REPRESENTABLE(log_level))
__CPROVER_requires(level_string == NULL || __CPROVER_is_fresh(level_string, sizeof(*level_string)))
__CPROVER_assigns(level_string != NULL && log_level < AWS_LL_COUNT : *level_string)
#ifdef VERIF_FORMATTER_TU
__CPROVER_assigns(g_level_arg)
__CPROVER_ensures(g_level_arg == log_level)
__CPROVER_ensures(RET == AWS_OP_SUCCESS && level_string != NULL ==> __CPROVER_pointer_equals(*level_string, g_level_name))
#endif
#ifdef VERIF_TRACK_ERRORS
__CPROVER_assigns(log_level >= AWS_LL_COUNT : g_last_error, g_raise_count)
__CPROVER_ensures(RET != AWS_OP_SUCCESS ==> g_last_error == AWS_ERROR_INVALID_ARGUMENT)
#endif
__CPROVER_ensures((RET == AWS_OP_SUCCESS) == (log_level < AWS_LL_COUNT))
__CPROVER_ensures(RET == AWS_OP_SUCCESS || RET == AWS_OP_ERR)
#ifdef VERIF_LOGGING_TU
/* the name is the table entry of that level (that the table holds the right words: plain unit level_names) */
__CPROVER_ensures(log_level < AWS_LL_COUNT && level_string != NULL ==> *level_string == s_log_level_strings[log_level])
#endif
;

#ifdef VERIF_LOGGING_TU
/* ---------------------------------------------------------------- level gate (logging.c)
 * g_level: ghost view of "the level the root logger reports" for loggers behind a vtable. */
enum aws_log_level g_level;
enum aws_log_level vt_get_log_level_contract(struct aws_logger *logger, aws_log_subject_t subject)
__CPROVER_requires(1)
__CPROVER_assigns()
__CPROVER_ensures(RET == g_level)
;
int g_set_result;
int vt_set_log_level_contract(struct aws_logger *logger, enum aws_log_level level)
__CPROVER_requires(1)
__CPROVER_assigns(g_level)
__CPROVER_ensures(RET == g_set_result && (RET == AWS_OP_SUCCESS ==> g_level == level))
;

#    define PIPELINE_OF(logger) ((struct aws_logger_pipeline *)(logger)->p_impl)
#    define LOGGER_WITH_PIPELINE(logger)                                                                               \
        (__CPROVER_is_fresh((logger), sizeof(*(logger))) && __CPROVER_is_fresh((logger)->p_impl, sizeof(struct aws_logger_pipeline)))

/* the pipeline logger's level is the word stored in impl->level; a change is what every later read returns */
static enum aws_log_level s_aws_logger_pipeline_get_log_level(struct aws_logger *logger, aws_log_subject_t subject)
__CPROVER_requires(LOGGER_WITH_PIPELINE(logger))
__CPROVER_assigns()
__CPROVER_ensures(RET == (enum aws_log_level)(size_t)PIPELINE_OF(logger)->level.value)
;
static int s_aws_logger_pipeline_set_log_level(struct aws_logger *logger, enum aws_log_level level)
__CPROVER_requires(LOGGER_WITH_PIPELINE(logger))
__CPROVER_assigns(PIPELINE_OF(logger)->level)
__CPROVER_ensures(RET == AWS_OP_SUCCESS)
__CPROVER_ensures((size_t)PIPELINE_OF(logger)->level.value == (size_t)level)
;

/* public setter: NULL logger / no vtable -> INVALID_ARGUMENT, no set_log_level -> UNIMPLEMENTED, else the vtable's result */
int aws_logger_set_log_level(struct aws_logger *logger, enum aws_log_level level)
__CPROVER_requires(logger == NULL || (__CPROVER_is_fresh(logger, sizeof(*logger)) &&
                   (logger->vtable == NULL || (__CPROVER_is_fresh(logger->vtable, sizeof(*logger->vtable)) &&
                    (logger->vtable->set_log_level == NULL ||
                     __CPROVER_obeys_contract(logger->vtable->set_log_level, vt_set_log_level_contract))))))
__CPROVER_assigns(g_level, g_last_error, g_raise_count)
__CPROVER_ensures(logger == NULL || logger->vtable == NULL ==> RET == AWS_OP_ERR && g_last_error == AWS_ERROR_INVALID_ARGUMENT && g_level == OLD(g_level))
__CPROVER_ensures(logger != NULL && logger->vtable != NULL && logger->vtable->set_log_level == NULL ==>
                  RET == AWS_OP_ERR && g_last_error == AWS_ERROR_UNIMPLEMENTED && g_level == OLD(g_level))
__CPROVER_ensures(logger != NULL && logger->vtable != NULL && logger->vtable->set_log_level != NULL ==>
                  RET == g_set_result && (RET == AWS_OP_SUCCESS ==> g_level == level) && g_raise_count == OLD(g_raise_count))
;
#endif

#ifdef VERIF_CHANNEL_TU
#    include <aws/common/array_list.h>
#    include <aws/common/condition_variable.h>
#    include <aws/common/mutex.h>
/* ---------------------------------------------------------------- channels (log_channel.c), sequential facts only
 * Ghost view of the channel's mutex and of the calls that must happen under it:
 *   g_locked                    the channel mutex is held by this thread
 *   g_lock_calls/g_unlock_calls
 *   g_write_calls, g_written    calls of the writer's write function, the line of the last one
 *   g_destroy_calls, g_destroyed calls of aws_string_destroy, its last argument
 *   g_notify_calls              aws_condition_variable_notify_one calls (made while the mutex is held)
 *   g_len_at_lock/g_len_at_unlock  length of the pending-lines list when the mutex was taken / given back
 *   g_push_calls, g_pushed, g_push_pos  appends to the pending list: how many, the last line appended, its index
 * aws_mutex_lock is a synchronisation point: other senders and the background thread may have changed the pending
 * list before the lock is granted, so the lock contract HAVOCS the list's length.
 * The pending list is seen through an ABSTRACT contract of aws_array_list_push_back (bg_push_back_contract: on a
 * dynamic list the call succeeds, the length grows by one and the new last element is *val; the byte-level contract
 * is the subject of C09).  Replacing the call by the full C09 contract was tried first: > 5 min (4M clauses). */
bool g_locked;
size_t g_lock_calls, g_unlock_calls, g_write_calls, g_destroy_calls, g_notify_calls;
const struct aws_string *g_written;
struct aws_string *g_destroyed;
struct aws_log_writer *g_write_writer;
struct aws_mutex *g_mutex;                    /* the channel's mutex */
struct aws_condition_variable *g_signal;      /* the channel's condition variable */
struct aws_array_list *g_pending;             /* the background channel's pending list, NULL for the foreground channel */
size_t g_len_at_lock, g_len_at_unlock;
size_t g_push_calls, g_push_pos;
struct aws_string *g_pushed;
#define CH_GHOST_RESET()                                                                                               \
    do {                                                                                                               \
        g_locked = false;                                                                                              \
        g_lock_calls = g_unlock_calls = g_write_calls = g_destroy_calls = g_notify_calls = 0;                          \
        g_written = NULL;                                                                                              \
        g_destroyed = NULL;                                                                                            \
        g_write_writer = NULL;                                                                                         \
        g_pending = NULL;                                                                                              \
        g_push_calls = 0;                                                                                              \
        g_pushed = NULL;                                                                                               \
    } while (0)

int bg_push_back_contract(struct aws_array_list *list, const void *val)
__CPROVER_requires(list == g_pending && g_locked && "the pending list is only touched while the channel mutex is held")
__CPROVER_requires(list->alloc != NULL && list->item_size == sizeof(struct aws_string *) && __CPROVER_r_ok(val, sizeof(struct aws_string *)))
__CPROVER_assigns(list->length, g_push_calls, g_pushed, g_push_pos)
__CPROVER_ensures(RET == AWS_OP_SUCCESS && list->length == OLD(list->length) + 1)
__CPROVER_ensures(g_push_calls == OLD(g_push_calls) + 1 && g_push_pos == OLD(list->length) && g_pushed == *(struct aws_string *const *)val)
;

int aws_mutex_lock(struct aws_mutex *mutex)
__CPROVER_requires(mutex == g_mutex && !g_locked && "the channel's own mutex, not held yet")
__CPROVER_assigns(g_locked, g_lock_calls, g_len_at_lock)
__CPROVER_assigns(g_pending != NULL : g_pending->length)
__CPROVER_ensures(RET == AWS_OP_SUCCESS && g_locked && g_lock_calls == OLD(g_lock_calls) + 1)
__CPROVER_ensures(g_pending != NULL ==> g_len_at_lock == g_pending->length)
;
int aws_mutex_unlock(struct aws_mutex *mutex)
__CPROVER_requires(mutex == g_mutex && g_locked && "the channel's own mutex, held")
__CPROVER_assigns(g_locked, g_unlock_calls, g_len_at_unlock)
__CPROVER_ensures(RET == AWS_OP_SUCCESS && !g_locked && g_unlock_calls == OLD(g_unlock_calls) + 1)
__CPROVER_ensures(g_pending != NULL ==> g_len_at_unlock == g_pending->length)
;
int aws_condition_variable_notify_one(struct aws_condition_variable *condition_variable)
__CPROVER_requires(condition_variable == g_signal && g_locked && "the channel's signal, while the mutex is held")
__CPROVER_assigns(g_notify_calls)
__CPROVER_ensures(g_notify_calls == OLD(g_notify_calls) + 1)
;
/* what every writer is assumed to do: it is called under the channel mutex with a line that is still alive */
int vt_write_contract(struct aws_log_writer *writer, const struct aws_string *output)
__CPROVER_requires(g_locked && g_destroy_calls == 0 && "write is serialised by the channel mutex, the line is alive")
__CPROVER_assigns(g_write_calls, g_written, g_write_writer)
__CPROVER_ensures(g_write_calls == OLD(g_write_calls) + 1 && g_written == output && g_write_writer == writer)
;
void aws_string_destroy(struct aws_string *str)
__CPROVER_requires(str == NULL || __CPROVER_is_freeable(str))
__CPROVER_assigns(g_destroy_calls, g_destroyed)
__CPROVER_frees(str)
__CPROVER_ensures(g_destroy_calls == OLD(g_destroy_calls) + 1 && g_destroyed == str)
;

/* clean-up of the background channel: the thread is joined only after `finished` was set and signalled under the
 * mutex and the mutex was released; nothing the thread uses is torn down before the join has returned */
bool *g_finished_flag;      /* &impl->finished */
struct aws_thread *g_thread; /* &impl->background_thread */
size_t g_join_calls, g_teardown_calls;
#define CH_CLEANUP_GHOST_RESET() do { g_join_calls = 0; g_teardown_calls = 0; } while (0)
int aws_thread_join(struct aws_thread *thread)
__CPROVER_requires(thread == g_thread && !g_locked && g_unlock_calls >= 1 && g_notify_calls >= 1 && *g_finished_flag &&
                   "join after finished was set and signalled, with the mutex released")
__CPROVER_assigns(g_join_calls)
__CPROVER_ensures(RET == AWS_OP_SUCCESS && g_join_calls == OLD(g_join_calls) + 1)
;
#define TEARDOWN_CONTRACT                                                                                              \
    __CPROVER_requires(g_join_calls == 1 && !g_locked && "torn down only after the background thread was joined")      \
    __CPROVER_assigns(g_teardown_calls)                                                                                \
    __CPROVER_ensures(g_teardown_calls == OLD(g_teardown_calls) + 1)
void aws_thread_clean_up(struct aws_thread *thread)
__CPROVER_requires(thread == g_thread)
TEARDOWN_CONTRACT
;
void aws_condition_variable_clean_up(struct aws_condition_variable *condition_variable)
__CPROVER_requires(condition_variable == g_signal)
TEARDOWN_CONTRACT
;
void aws_mutex_clean_up(struct aws_mutex *mutex)
__CPROVER_requires(mutex == g_mutex)
TEARDOWN_CONTRACT
;
void bg_list_clean_up_contract(struct aws_array_list *list)
__CPROVER_requires(list == g_pending)
TEARDOWN_CONTRACT
;

/* ---------------------------------------------------------------- body of the background thread (sequential form)
 * aws_background_logger_thread is proved against the contract in pass 2 with every mutex / condition-variable /
 * array-list / string operation replaced by the bgt_* contracts below (replace "real_name/bgt_..._contract").
 *
 * Model.  Every line the channel ever accepted has a SEQUENCE NUMBER 0, 1, 2, ... (its position in the order in which
 * the senders appended it under the mutex).  A list is seen abstractly as the run of sequence numbers
 * [base, base + length): g_base_p for the pending list, g_base_l for the thread's private list.
 *   g_accepted        number of lines accepted so far (the next sequence number)
 *   g_sync_calls      synchronisation points passed so far (aws_mutex_lock and aws_condition_variable_wait_pred)
 *   g_wseq, g_wline   an ARBITRARY sequence number and the aws_string that carries it ("for all lines" witness: the
 *                     harness leaves both unconstrained).  Assumed: accepted lines are pairwise different live strings
 *                     (send transfers ownership), so an element is g_wline exactly when its number is g_wseq.
 *   g_write_calls / g_destroy_calls   calls of the writer's write function / of aws_string_destroy
 * A synchronisation point (other threads run) appends an ARBITRARY number of new lines to the pending list and leaves
 * `finished` with an ARBITRARY value; it never removes lines (only this thread does).
 * Exactly once and in order are stated per call, as preconditions of the write / destroy contracts:
 *   the n-th write call (n = g_write_calls) is handed g_wline if and only if n == g_wseq,
 *   the n-th destroy call destroys g_wline if and only if n == g_wseq, and only after the n-th write,
 * and the thread's postcondition says g_write_calls == g_destroy_calls == g_accepted.  As g_wseq is arbitrary: line n
 * is written by write call n and by no other, destroyed by destroy call n and by no other, for every n < g_accepted.
 * (Unwinding the thread's loops under these contracts does not scale - every replaced call adds write-set objects,
 * 15 unwound iterations exceed 2^10 objects - so the bounded companion unit, units/C14/log_channel_thread.c, uses C stubs
 * with the same abstract view instead.) */
size_t g_accepted, g_base_p, g_base_l, g_sync_calls, g_wseq, g_local_inits, g_local_cleanups;
struct aws_string *g_wline;
struct aws_array_list *g_local;     /* the thread's private list (set by the init contract) */
struct aws_log_writer *g_bgt_writer; /* the channel's writer */
#define BGT_GHOST_RESET()                                                                                              \
    do {                                                                                                               \
        g_accepted = g_base_p = g_base_l = g_sync_calls = g_local_inits = g_local_cleanups = 0;                        \
        g_local = NULL;                                                                                                \
    } while (0)
#define BGT_LINE_SZ (sizeof(struct aws_string *))
#define BGT_IS_LIST(l) ((l) == g_local || ((l) == g_pending && g_locked))
#define BGT_BASE(l) ((l) == g_local ? g_base_l : g_base_p)

/* what a synchronisation point does to the channel (see above).  The precondition is the model's consistency: the
 * pending list is the tail of the accepted sequence (everything accepted and not yet taken by this thread). */
#define BGT_SYNC_POINT                                                                                                 \
    __CPROVER_requires((g_pending->length == 0 || g_base_p + g_pending->length == g_accepted) &&                      \
                       "the pending list holds exactly the accepted lines this thread has not taken yet")             \
    __CPROVER_assigns(g_pending->length, *g_finished_flag, g_accepted, g_base_p, g_sync_calls)                         \
    __CPROVER_ensures(g_sync_calls == OLD(g_sync_calls) + 1)                                                           \
    __CPROVER_ensures(g_pending->length >= OLD(g_pending->length) && g_accepted >= OLD(g_accepted))                    \
    __CPROVER_ensures(g_accepted - OLD(g_accepted) == g_pending->length - OLD(g_pending->length))                      \
    __CPROVER_ensures(OLD(g_pending->length) == 0 ? g_base_p == OLD(g_accepted) : g_base_p == OLD(g_base_p))

int bgt_lock_contract(struct aws_mutex *mutex)
__CPROVER_requires(mutex == g_mutex && !g_locked && "the channel's own mutex, not held yet")
BGT_SYNC_POINT
__CPROVER_assigns(g_locked, g_lock_calls)
__CPROVER_ensures(RET == AWS_OP_SUCCESS && g_locked && g_lock_calls == OLD(g_lock_calls) + 1)
;
int bgt_unlock_contract(struct aws_mutex *mutex)
__CPROVER_requires(mutex == g_mutex && g_locked && "the channel's own mutex, held")
__CPROVER_assigns(g_locked, g_unlock_calls)
__CPROVER_ensures(RET == AWS_OP_SUCCESS && !g_locked && g_unlock_calls == OLD(g_unlock_calls) + 1)
;
/* The wait gives the mutex up and gets it back: a synchronisation point.  Nothing is promised about the predicate
 * (the call may fail or wake spuriously): the thread has to re-read the state, which is what is proved. */
int bgt_wait_pred_contract(
    struct aws_condition_variable *condition_variable,
    struct aws_mutex *mutex,
    aws_condition_predicate_fn *pred,
    void *pred_ctx)
__CPROVER_requires(condition_variable == g_signal && mutex == g_mutex && g_locked && "the channel's signal, waited on with the channel mutex held")
BGT_SYNC_POINT
__CPROVER_ensures(g_locked)
;

/* abstract list operations (byte-level contracts: C09) */
int bgt_init_dynamic_contract(struct aws_array_list *list, struct aws_allocator *alloc, size_t initial_item_allocation, size_t item_size)
__CPROVER_requires(__CPROVER_w_ok(list, sizeof(*list)) && alloc != NULL && item_size == BGT_LINE_SZ && initial_item_allocation <= 1024)
__CPROVER_requires(g_local_inits == 0)
__CPROVER_assigns(*list, g_local, g_local_inits, g_base_l)
/* cannot fail: 10 * 8 does not overflow and aws_mem_acquire aborts instead of returning NULL in this library version */
__CPROVER_ensures(RET == AWS_OP_SUCCESS && list->length == 0 && list->alloc == alloc && list->item_size == item_size)
__CPROVER_ensures(__CPROVER_pointer_equals(g_local, list) && g_local_inits == 1)
;
size_t bgt_length_contract(const struct aws_array_list *list)
__CPROVER_requires(BGT_IS_LIST(list) && "the thread's private list, or the pending list while the channel mutex is held")
__CPROVER_assigns()
__CPROVER_ensures(RET == list->length)
;
void bgt_swap_contract(struct aws_array_list *list_a, struct aws_array_list *list_b)
__CPROVER_requires(g_locked && "the pending list is only touched while the channel mutex is held")
__CPROVER_requires((list_a == g_pending && list_b == g_local) || (list_a == g_local && list_b == g_pending))
/* the real function's fatal preconditions */
__CPROVER_requires(list_a->alloc != NULL && list_a->alloc == list_b->alloc && list_a->item_size == list_b->item_size)
__CPROVER_assigns(*list_a, *list_b, g_base_p, g_base_l)
__CPROVER_ensures(list_a->length == OLD(list_b->length) && list_b->length == OLD(list_a->length))
__CPROVER_ensures(list_a->alloc == OLD(list_a->alloc) && list_b->alloc == OLD(list_b->alloc))
__CPROVER_ensures(list_a->item_size == OLD(list_a->item_size) && list_b->item_size == OLD(list_b->item_size))
__CPROVER_ensures(g_base_p == OLD(g_base_l) && g_base_l == OLD(g_base_p))
;
int bgt_get_at_contract(const struct aws_array_list *list, void *val, size_t index)
__CPROVER_requires(BGT_IS_LIST(list) && "the thread's private list, or the pending list while the channel mutex is held")
__CPROVER_requires(list->item_size == BGT_LINE_SZ && __CPROVER_w_ok(val, BGT_LINE_SZ))
__CPROVER_assigns(index < list->length : __CPROVER_object_upto(val, BGT_LINE_SZ))
__CPROVER_assigns(index >= list->length : g_last_error, g_raise_count)
__CPROVER_ensures(RET == AWS_OP_SUCCESS || RET == AWS_OP_ERR)
__CPROVER_ensures((RET == AWS_OP_SUCCESS) == (index < list->length))
/* the element is the witness line exactly when its sequence number is the witness number */
__CPROVER_ensures(RET == AWS_OP_SUCCESS ==> ((*(struct aws_string **)val == g_wline) == (BGT_BASE(list) + index == g_wseq)))
;
void bgt_clear_contract(struct aws_array_list *list)
__CPROVER_requires(BGT_IS_LIST(list))
__CPROVER_assigns(list->length)
__CPROVER_ensures(list->length == 0)
;
/* only for changed code that takes lines off the front of a list: the first n elements go, the rest keep their numbers */
void bgt_pop_front_n_contract(struct aws_array_list *list, size_t n)
__CPROVER_requires(BGT_IS_LIST(list))
__CPROVER_assigns(list->length, g_base_p, g_base_l)
__CPROVER_ensures(list->length == (n >= OLD(list->length) ? 0 : OLD(list->length) - n))
__CPROVER_ensures(list == g_local ? g_base_p == OLD(g_base_p) : g_base_l == OLD(g_base_l))
__CPROVER_ensures(BGT_BASE(list) == (list == g_local ? OLD(g_base_l) : OLD(g_base_p)) + (n >= OLD(list->length) ? OLD(list->length) : n))
;
void bgt_local_clean_up_contract(struct aws_array_list *list)
__CPROVER_requires(list == g_local && g_local_inits == 1 && g_local_cleanups == 0)
__CPROVER_assigns(*list, g_local_cleanups)
__CPROVER_ensures(g_local_cleanups == 1)
;

/* the writer: call number n is handed line number n, which has not been destroyed yet */
int bgt_write_contract(struct aws_log_writer *writer, const struct aws_string *output)
__CPROVER_requires(writer == g_bgt_writer && "the channel's writer")
__CPROVER_requires(g_write_calls < g_accepted && "no more write calls than accepted lines")
__CPROVER_requires(g_destroy_calls <= g_write_calls && "the line handed to the writer is still alive")
__CPROVER_requires(((output == g_wline) == (g_write_calls == g_wseq)) && "write call n is handed line n (in order, exactly once)")
__CPROVER_assigns(g_write_calls)
__CPROVER_ensures(g_write_calls == OLD(g_write_calls) + 1)
;
void bgt_string_destroy_contract(struct aws_string *str)
__CPROVER_requires(g_destroy_calls < g_write_calls && "a line is destroyed only after it was written")
__CPROVER_requires(((str == g_wline) == (g_destroy_calls == g_wseq)) && "destroy call n destroys line n (exactly once)")
__CPROVER_assigns(g_destroy_calls)
__CPROVER_ensures(g_destroy_calls == OLD(g_destroy_calls) + 1)
;
void bgt_fatal_assert_contract(const char *cond_str, const char *file, int line)
__CPROVER_requires(0 && "the thread never aborts")
__CPROVER_assigns()
__CPROVER_ensures(1)
;
#endif

#endif /* VERIF_CONTRACTS_LOGGING_H */

/* ============================================================================================ pass 2 */
#if defined(VERIF_LOGGING_PASS2) && !defined(VERIF_CONTRACTS_LOGGING_H_PASS2)
#    define VERIF_CONTRACTS_LOGGING_H_PASS2

#    ifdef VERIF_FORMATTER_TU
/* aws_format_standard_log_line: the line is assembled inside log_line_buffer[0, total_length).
 *   success  <=>  the level is one of the seven, total_length > 0 and no callee reported an error;
 *   failure leaves amount_written alone;
 *   success: 1 <= amount_written <= total_length, amount_written is where the stored text ends,
 *            the last byte of the line is '\n', no byte of the line is NUL (witness g_w),
 *            the pieces are level, timestamp, thread id, [subject], " - ", message, newline - each once, in this order,
 *            the message format is the caller's format.
 * (g_strict || !g_trunc) - see the top of the file. */
/* The formatting data and the line buffer are two separate live objects, the buffer starts its object (offset 0, so
 * that positions in the line are pointer offsets) and has total_length bytes.  rw_ok/w_ok instead of is_fresh: the
 * harness owns the two objects (one malloc each), which keeps the points-to sets exact; with is_fresh the same unit
 * costs 4x the solver time.  total_length <= 2^31: the pieces' lengths travel through `int` (snprintf), longer lines
 * cannot be described by the interface; the bound also keeps all index arithmetic below 2^33 (3x solver time). */
#        define FMT_MAX_TOTAL ((size_t)1 << 31)
#        define FD_OK(fd)                                                                                             \
            (__CPROVER_rw_ok((fd), sizeof(*(fd))) && (fd)->total_length <= FMT_MAX_TOTAL &&                            \
             __CPROVER_r_ok((fd)->format, 1) && ((fd)->subject_name == NULL || __CPROVER_r_ok((fd)->subject_name, 1)) && \
             ((fd)->total_length == 0 ||                                                                               \
              (__CPROVER_w_ok((fd)->log_line_buffer, (fd)->total_length) && POFF((fd)->log_line_buffer) == 0 &&        \
               !__CPROVER_same_object((fd), (fd)->log_line_buffer))))
#        define LINE_CLAIMED (RET == AWS_OP_SUCCESS && fd->total_length >= 2 && (g_strict || !g_trunc))
int aws_format_standard_log_line(struct aws_logging_standard_formatting_data *fd, va_list args)
__CPROVER_requires(FD_OK(fd) && LEVEL_REPRESENTABLE(fd->level))
__CPROVER_requires(g_fmt_on && g_end == 0 && !g_trunc && !g_err && g_pieces == 0)
__CPROVER_requires(g_L[5] == 3 && g_L[7] == 1)
__CPROVER_requires(fd->total_length > 0 ==> g_line == fd->log_line_buffer)
__CPROVER_assigns(fd->amount_written)
__CPROVER_assigns(fd->total_length > 0 : __CPROVER_object_upto(fd->log_line_buffer, fd->total_length))
__CPROVER_assigns(__CPROVER_object_whole(&tl_logging_thread_id))
__CPROVER_assigns(g_end, g_trunc, g_err, g_pieces, g_msg_fmt, g_date_fmt, g_level_arg)
__CPROVER_assigns(__CPROVER_object_whole(g_arg))
/* exact result */
__CPROVER_ensures(RET == AWS_OP_SUCCESS || RET == AWS_OP_ERR)
__CPROVER_ensures((RET == AWS_OP_SUCCESS) == (fd->level < AWS_LL_COUNT && fd->total_length > 0 && !g_err))
__CPROVER_ensures(RET != AWS_OP_SUCCESS ==> fd->amount_written == OLD(fd->amount_written))
/* inside the buffer */
__CPROVER_ensures(RET == AWS_OP_SUCCESS ==> fd->amount_written >= 1 && fd->amount_written <= fd->total_length)
/* the line */
__CPROVER_ensures(LINE_CLAIMED ==> fd->amount_written == g_end)
__CPROVER_ensures(LINE_CLAIMED && g_w == fd->amount_written - 1 ==> fd->log_line_buffer[g_w] == '\n')
__CPROVER_ensures(LINE_CLAIMED && g_w < fd->amount_written ==> fd->log_line_buffer[g_w] != 0)
/* the pieces */
__CPROVER_ensures(RET == AWS_OP_SUCCESS && !g_trunc ==> g_pieces == (fd->subject_name != NULL ? 01234567u : 0123567u))
__CPROVER_ensures(RET == AWS_OP_SUCCESS ==> g_pieces % 8 == 7)
__CPROVER_ensures(RET == AWS_OP_SUCCESS && !g_trunc ==> g_msg_fmt == fd->format)
/* what the prefix shows: the name of the call's level, the time in the requested format, the current thread's id
 * string (cached per thread in tl_logging_thread_id.repr), the call's subject */
__CPROVER_ensures(RET == AWS_OP_SUCCESS ==> g_level_arg == fd->level && g_arg[1] == g_level_name)
__CPROVER_ensures(RET == AWS_OP_SUCCESS && !g_trunc ==> g_date_fmt == fd->date_format)
__CPROVER_ensures(RET == AWS_OP_SUCCESS && !g_trunc ==> g_arg[3] == tl_logging_thread_id.repr && tl_logging_thread_id.is_valid)
__CPROVER_ensures(RET == AWS_OP_SUCCESS && !g_trunc && fd->subject_name != NULL ==> g_arg[4] == fd->subject_name)
;
#    endif

#    ifdef VERIF_LOGGING_TU
/* The gate's function twin.  NULL <=> there is no root logger or the logger's level is below the call's level. */
#        define ROOT_LOGGER_OK                                                                                         \
            (s_root_logger_ptr == NULL ||                                                                              \
             (__CPROVER_is_fresh(s_root_logger_ptr, sizeof(struct aws_logger)) &&                                      \
              __CPROVER_is_fresh(s_root_logger_ptr->vtable, sizeof(struct aws_logger_vtable)) &&                       \
              __CPROVER_obeys_contract(s_root_logger_ptr->vtable->get_log_level, vt_get_log_level_contract)))
struct aws_logger *aws_logger_get_conditional(aws_log_subject_t subject, enum aws_log_level level)
__CPROVER_requires(ROOT_LOGGER_OK)
__CPROVER_assigns()
__CPROVER_ensures((RET != NULL) == (OLD(s_root_logger_ptr) != NULL && g_level >= level))
__CPROVER_ensures(RET != NULL ==> RET == OLD(s_root_logger_ptr))
__CPROVER_ensures(s_root_logger_ptr == OLD(s_root_logger_ptr))
;

/* installing a logger: NULL installs the null logger (whose level is NONE), never a NULL root */
void aws_logger_set(struct aws_logger *logger)
__CPROVER_requires(1)
__CPROVER_assigns(s_root_logger_ptr)
__CPROVER_ensures(s_root_logger_ptr == (logger != NULL ? logger : &s_null_logger))
;
struct aws_logger *aws_logger_get(void)
__CPROVER_requires(1)
__CPROVER_assigns()
__CPROVER_ensures(RET == s_root_logger_ptr)
;

/* the no-alloc logger keeps its level the same way as the pipeline logger */
#        define NOALLOC_OF(logger) ((struct aws_logger_noalloc *)(logger)->p_impl)
#        define LOGGER_WITH_NOALLOC(logger)                                                                            \
            (__CPROVER_is_fresh((logger), sizeof(*(logger))) && __CPROVER_is_fresh((logger)->p_impl, sizeof(struct aws_logger_noalloc)))
static enum aws_log_level s_noalloc_stderr_logger_get_log_level(struct aws_logger *logger, aws_log_subject_t subject)
__CPROVER_requires(LOGGER_WITH_NOALLOC(logger))
__CPROVER_assigns()
__CPROVER_ensures(RET == (enum aws_log_level)(size_t)NOALLOC_OF(logger)->level.value)
;
int s_no_alloc_stderr_logger_set_log_level(struct aws_logger *logger, enum aws_log_level level)
__CPROVER_requires(LOGGER_WITH_NOALLOC(logger))
__CPROVER_assigns(NOALLOC_OF(logger)->level)
__CPROVER_ensures(RET == AWS_OP_SUCCESS)
__CPROVER_ensures((size_t)NOALLOC_OF(logger)->level.value == (size_t)level)
;
#    endif

#    ifdef VERIF_CHANNEL_TU
/* Foreground channel: the line is written exactly once, by the channel's writer, while the channel mutex is held, and
 * destroyed exactly once afterwards (send is a transfer of ownership); the mutex is released; always AWS_OP_SUCCESS. */
static int s_foreground_channel_send(struct aws_log_channel *channel, struct aws_string *log_line)
__CPROVER_requires(__CPROVER_is_fresh(channel, sizeof(*channel)))
__CPROVER_requires(__CPROVER_is_fresh(channel->impl, sizeof(struct aws_log_foreground_channel)))
__CPROVER_requires(__CPROVER_is_fresh(channel->writer, sizeof(*channel->writer)))
__CPROVER_requires(__CPROVER_is_fresh(channel->writer->vtable, sizeof(*channel->writer->vtable)))
__CPROVER_requires(__CPROVER_obeys_contract(channel->writer->vtable->write, vt_write_contract))
__CPROVER_requires(__CPROVER_is_fresh(log_line, sizeof(struct aws_string)))
__CPROVER_requires(g_mutex == &((struct aws_log_foreground_channel *)channel->impl)->sync && g_pending == NULL)
__CPROVER_requires(!g_locked && g_write_calls == 0 && g_destroy_calls == 0)
__CPROVER_assigns(g_locked, g_lock_calls, g_unlock_calls, g_len_at_lock, g_len_at_unlock)
__CPROVER_assigns(g_write_calls, g_written, g_write_writer, g_destroy_calls, g_destroyed)
__CPROVER_frees(log_line)
__CPROVER_ensures(RET == AWS_OP_SUCCESS)
__CPROVER_ensures(g_write_calls == 1 && g_written == log_line && g_write_writer == channel->writer)
__CPROVER_ensures(g_destroy_calls == 1 && g_destroyed == log_line)
__CPROVER_ensures(!g_locked && g_lock_calls == OLD(g_lock_calls) + 1 && g_unlock_calls == OLD(g_unlock_calls) + 1)
;

/* Background channel, sender side: under the channel mutex exactly one element - this line - is appended at the end
 * of the pending list as it is at that moment (whatever other threads did before the lock was granted), the
 * background thread is notified while the mutex is held, the mutex is released; always AWS_OP_SUCCESS.
 * The pending list is the dynamic list aws_log_channel_init_background creates (alloc != NULL: growing cannot fail,
 * OOM aborts in this library version). */
#        define BG(channel) ((struct aws_log_background_channel *)(channel)->impl)
static int s_background_channel_send(struct aws_log_channel *channel, struct aws_string *log_line)
__CPROVER_requires(__CPROVER_is_fresh(channel, sizeof(*channel)))
__CPROVER_requires(__CPROVER_is_fresh(channel->impl, sizeof(struct aws_log_background_channel)))
__CPROVER_requires(BG(channel)->pending_log_lines.alloc != NULL && BG(channel)->pending_log_lines.item_size == sizeof(struct aws_string *))
__CPROVER_requires(__CPROVER_pointer_equals(g_pending, &BG(channel)->pending_log_lines))
__CPROVER_requires(g_mutex == &BG(channel)->sync && g_signal == &BG(channel)->pending_line_signal)
__CPROVER_requires(!g_locked && g_push_calls == 0)
__CPROVER_assigns(BG(channel)->pending_log_lines.length)
__CPROVER_assigns(g_locked, g_lock_calls, g_unlock_calls, g_len_at_lock, g_len_at_unlock, g_notify_calls, g_push_calls, g_pushed, g_push_pos)
__CPROVER_ensures(RET == AWS_OP_SUCCESS)
__CPROVER_ensures(!g_locked && g_lock_calls == OLD(g_lock_calls) + 1 && g_unlock_calls == OLD(g_unlock_calls) + 1)
__CPROVER_ensures(g_notify_calls == OLD(g_notify_calls) + 1)
/* exactly one append, of this line, at the end of the list as it was when the lock was granted */
__CPROVER_ensures(g_push_calls == 1 && g_pushed == log_line && g_push_pos == g_len_at_lock)
__CPROVER_ensures(g_len_at_unlock == g_len_at_lock + 1 && BG(channel)->pending_log_lines.length == g_len_at_unlock)
;

/* Background channel clean-up (sequential protocol; that the joined thread has by then written every accepted line is
 * a fact about the thread body under interleavings and is NOT decided here). */
static void s_background_channel_clean_up(struct aws_log_channel *channel)
__CPROVER_requires(__CPROVER_is_fresh(channel, sizeof(*channel)) && channel->allocator != NULL)
__CPROVER_requires(__CPROVER_is_fresh(channel->impl, sizeof(struct aws_log_background_channel)))
__CPROVER_requires(__CPROVER_pointer_equals(g_pending, &BG(channel)->pending_log_lines))
__CPROVER_requires(__CPROVER_pointer_equals(g_finished_flag, &BG(channel)->finished))
__CPROVER_requires(g_mutex == &BG(channel)->sync && g_signal == &BG(channel)->pending_line_signal && g_thread == &BG(channel)->background_thread)
__CPROVER_requires(!g_locked && g_lock_calls == 0 && g_unlock_calls == 0 && g_notify_calls == 0 && g_join_calls == 0 && g_teardown_calls == 0)
__CPROVER_assigns(BG(channel)->finished, BG(channel)->pending_log_lines.length)
__CPROVER_assigns(g_locked, g_lock_calls, g_unlock_calls, g_len_at_lock, g_len_at_unlock, g_notify_calls, g_join_calls, g_teardown_calls)
__CPROVER_frees(channel->impl)
__CPROVER_ensures(!g_locked && g_lock_calls == 1 && g_unlock_calls == 1 && g_notify_calls == 1)
__CPROVER_ensures(g_join_calls == 1 && g_teardown_calls == 4)
/* clean-up does not add or remove pending lines itself */
__CPROVER_ensures(g_len_at_unlock == g_len_at_lock)
;

/* Body of the background thread, SEQUENTIAL form of "none is lost ... clean-up flushes everything already accepted"
 * (model and ghosts: pass 1, "body of the background thread").  For every number of wake-ups, every number of lines
 * that arrive at each synchronisation point and every value `finished` shows there:
 * when the thread function returns
 *   - `finished` is set (the last thing it saw under the mutex; nothing else writes the flag in this model),
 *   - the pending list is empty,
 *   - the writer was called exactly g_accepted times and aws_string_destroy exactly g_accepted times, where g_accepted
 *     is the number of lines accepted up to the synchronisation point at which it saw `finished` - and, by the
 *     preconditions of bgt_write_contract / bgt_string_destroy_contract checked at every call, call n was for line n:
 *     each accepted line written exactly once, in acceptance order, and destroyed exactly once, after its write,
 *   - the mutex is released (as many unlocks as locks), the private list was initialised and cleaned up once,
 *   - aws_fatal_assert is never reached.
 * The channel is as aws_log_channel_init_background leaves it: the pending list is a dynamic list of string pointers
 * on the channel's allocator; lines queued before the thread first runs are numbers 0 .. length-1. */
#        define BGT_CH(p) ((struct aws_log_channel *)(p))
#        define BGT(p) BG(BGT_CH(p))
static void aws_background_logger_thread(void *thread_data)
__CPROVER_requires(__CPROVER_is_fresh(thread_data, sizeof(struct aws_log_channel)) && BGT_CH(thread_data)->allocator != NULL)
__CPROVER_requires(__CPROVER_is_fresh(BGT_CH(thread_data)->impl, sizeof(struct aws_log_background_channel)))
__CPROVER_requires(__CPROVER_is_fresh(BGT_CH(thread_data)->writer, sizeof(struct aws_log_writer)))
__CPROVER_requires(__CPROVER_is_fresh(BGT_CH(thread_data)->writer->vtable, sizeof(struct aws_log_writer_vtable)))
__CPROVER_requires(__CPROVER_obeys_contract(BGT_CH(thread_data)->writer->vtable->write, bgt_write_contract))
__CPROVER_requires(BGT(thread_data)->pending_log_lines.alloc == BGT_CH(thread_data)->allocator)
__CPROVER_requires(BGT(thread_data)->pending_log_lines.item_size == BGT_LINE_SZ)
__CPROVER_requires(__CPROVER_pointer_equals(g_pending, &BGT(thread_data)->pending_log_lines))
__CPROVER_requires(__CPROVER_pointer_equals(g_finished_flag, &BGT(thread_data)->finished))
__CPROVER_requires(g_mutex == &BGT(thread_data)->sync && g_signal == &BGT(thread_data)->pending_line_signal)
__CPROVER_requires(g_bgt_writer == BGT_CH(thread_data)->writer)
__CPROVER_requires(!g_locked && g_lock_calls == 0 && g_unlock_calls == 0 && g_sync_calls == 0)
__CPROVER_requires(g_write_calls == 0 && g_destroy_calls == 0 && g_local_inits == 0 && g_local_cleanups == 0)
__CPROVER_requires(g_base_p == 0 && g_accepted == BGT(thread_data)->pending_log_lines.length)
__CPROVER_assigns(BGT(thread_data)->pending_log_lines, BGT(thread_data)->finished)
__CPROVER_assigns(g_locked, g_lock_calls, g_unlock_calls, g_sync_calls, g_accepted, g_base_p, g_base_l)
__CPROVER_assigns(g_local, g_local_inits, g_local_cleanups, g_write_calls, g_destroy_calls, g_last_error, g_raise_count)
__CPROVER_ensures(BGT(thread_data)->finished && "returns only after it has seen finished")
__CPROVER_ensures(BGT(thread_data)->pending_log_lines.length == 0 && "nothing is left pending")
__CPROVER_ensures(g_write_calls == g_accepted && "every accepted line was handed to the writer")
__CPROVER_ensures(g_destroy_calls == g_accepted && "every accepted line was destroyed")
__CPROVER_ensures(!g_locked && g_lock_calls == g_unlock_calls)
__CPROVER_ensures(g_local_inits == 1 && g_local_cleanups == 1)
;
#    endif

#endif
