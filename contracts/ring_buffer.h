/* Function contracts for source/ring_buffer.c (property C15).
 *
 * Abstract state.  The ring is one storage object of S bytes; head and tail are kept as OFFSETS h, t in [0, S]
 * into it.  A byte offset x is "outstanding" (inside a buffer that may not have been released yet) iff OUT(x,h,t):
 *       t <= h :  t <= x < h            (unwrapped)
 *       t >  h :  x >= t  or  x < h     (wrapped)
 * h == t  <=>  nothing outstanding.  Every "for all bytes" clause is stated for ONE arbitrary ghost offset g_x
 * (set nondeterministically by the harness, DESIGN §4.3) - no quantifiers.
 *
 * Two threads.  head is written only by the acquiring thread, tail only by the releasing thread (except the reset of
 * an EMPTY ring by the acquirer, when the releaser has nothing to release).  The releaser never reads head or tail.
 * The interleavings of one acquire call with any number of release calls are therefore fixed by
 *     - which published tail each atomic load of tail inside acquire observes        (g_tobs, g_tobs2)
 *     - where the releaser's tail stands when acquire returns                       (g_tfin)
 * These are ghost "schedule" variables chosen arbitrarily by the harness, constrained only by what a FIFO releaser can
 * do: each is reachable from the previous one by releasing buffers that were outstanding at entry (ADV).  The load of
 * tail inside acquire is replaced by the rely stub rb_rely_load below, which returns the scheduled value (a fresh one
 * for every load).  The sequential contract is the instance g_tobs == g_tfin == tail at entry.
 */
#ifndef VERIF_CONTRACTS_RING_BUFFER_H
#define VERIF_CONTRACTS_RING_BUFFER_H
#define VERIF_TRACK_ERRORS
#include "contracts/common.h"
#include "contracts/allocator.h"
#include <aws/common/ring_buffer.h>

#ifndef RET
#    define RET __CPROVER_return_value
#    define OLD __CPROVER_old
#    define PEQ(p, q) __CPROVER_pointer_equals((p), (q))
#endif

/* ---- ghost state ---- */
struct aws_ring_buffer *g_rb; /* the ring under proof (set by the harness)                                   */
size_t g_S;                   /* its size                                                                     */
size_t g_x;                   /* an arbitrary byte offset                                                     */
size_t g_tobs;                /* tail offset returned by the first load of tail inside the call               */
size_t g_tobs2;               /* tail offset returned by every further load of tail (a later published value) */
size_t g_tfin;                /* the releaser's published tail offset when the call returns                   */
size_t g_nload;               /* number of tail loads so far                                                  */
size_t g_hfin;                /* release: the acquirer's head offset when release returns                     */

/* replay witnesses (DESIGN 3.5): head/tail offsets at entry and the released buffer's place are pointer-valued inputs
 * created by the requires clauses, so they do not show up as scalars in a trace.  An enforcing harness sets r_cap and
 * gives r_h, r_t, r_boff, r_bcap arbitrary values; the clauses below tie them to the inputs.  Being equalities with
 * otherwise unconstrained ghosts they exclude no input; with r_cap off (replaced calls: cycle, drain) they are vacuous. */
bool r_cap;
size_t r_h, r_t, r_boff, r_bcap;

/* DFCC starts every harness with NONDET statics: each harness begins with RB_GHOST_RESET() */
#define RB_GHOST_RESET() do { GHOST_RESET_COMMON(); GHOST_RESET_ALLOC(); g_nload = 0; r_cap = false; } while (0)

#define POFF(p) ((size_t)__CPROVER_POINTER_OFFSET(p))
#define OUT(x, h, t) ((t) <= (h) ? ((t) <= (x) && (x) < (h)) : ((x) >= (t) || (x) < (h)))
#define INSIDE(x, d, n) ((d) <= (x) && (x) - (d) < (n))

/* t2 is a tail a FIFO releaser can have published, starting from tail t, while the head is h:
 * t itself, or the end of an outstanding buffer: a position after t inside the outstanding region (ends are >= 1). */
#define ADV(t, t2, h, S)                                                                                               \
    ((t2) == (t) || ((t) < (h) && (t) < (t2) && (t2) <= (h)) ||                                                        \
     ((t) > (h) && (((t) < (t2) && (t2) <= (S)) || (1 <= (t2) && (t2) <= (h)))))

/* h2 is a head the acquirer can have published, starting from head h, while the tail is t and something is
 * outstanding (t != h): h itself, or further into the free region, never reaching t */
#define HADV(h, h2, t, S)                                                                                              \
    ((h2) == (h) || ((t) < (h) && (((h) < (h2) && (h2) <= (S)) || (1 <= (h2) && (h2) < (t)))) ||                       \
     ((t) > (h) && (h) < (h2) && (h2) < (t)))

/* is_fresh can create objects of at most __CPROVER_max_malloc_size bytes (2^55 with the default 8 object bits); the
 * ring size is kept strictly below it so that the one-past-the-end offset S is representable too (tool limit, stated
 * as an assumption in units.json). */
#define RB_MAX_SIZE __CPROVER_max_malloc_size

/* shape of a valid ring (aws_ring_buffer_is_valid + the facts it cannot test) */
#define RING_SHAPE_REQ(rb)                                                                                             \
    __CPROVER_requires((rb) == g_rb && __CPROVER_rw_ok((rb), sizeof(*(rb))))                                           \
    __CPROVER_requires(g_S > 0 && g_S < RB_MAX_SIZE && __CPROVER_is_fresh((rb)->allocation, g_S))                      \
    __CPROVER_requires(PEQ((rb)->allocation_end, (rb)->allocation + g_S))                                              \
    __CPROVER_requires(__CPROVER_pointer_in_range_dfcc((rb)->allocation, (uint8_t *)(rb)->head.value, (rb)->allocation_end)) \
    __CPROVER_requires(__CPROVER_pointer_in_range_dfcc((rb)->allocation, (uint8_t *)(rb)->tail.value, (rb)->allocation_end)) \
    __CPROVER_requires((rb)->allocator != NULL)                                                                        \
    __CPROVER_requires(POFF((rb)->head.value) != 0 || POFF((rb)->tail.value) == 0)                                     \
    __CPROVER_requires(g_x < g_S)                                                                                      \
    __CPROVER_requires(r_cap ==> (r_h == POFF((rb)->head.value) && r_t == POFF((rb)->tail.value)))

#define H0(rb) POFF(OLD((rb)->head.value))
#define T0(rb) POFF(OLD((rb)->tail.value))
#define H1(rb) POFF((rb)->head.value)
#define T1MEM(rb) POFF((rb)->tail.value)
#define DOFF(dest) POFF((dest)->buffer)

/* ---- exact behaviour of acquire as a function of (head h, observed tail t, size S, request n) ---- */
#define ACQ_OK(h, t, S, n)                                                                                             \
    ((n) != 0 && ((h) == (t) ? (n) <= (S) : (t) > (h) ? (n) <= (t) - (h)-1 : ((n) <= (S) - (h) || (n) < (t))))
/* the same without ?: (assigns-clause conditions may not contain ternaries); a divergence from ACQ_OK fails the proof */
#define ACQ_OK_B(h, t, S, n)                                                                                           \
    ((n) != 0 && (((h) == (t) && (n) <= (S)) || ((t) > (h) && (n) <= (t) - (h)-1) ||                                   \
                  ((t) < (h) && ((n) <= (S) - (h) || (n) < (t)))))
#define ACQ_AT(h, t, S, n) ((h) == (t) ? 0 : (t) > (h) ? (h) : ((n) <= (S) - (h) ? (h) : 0))

/* ---- exact behaviour of acquire_up_to: granted size and place (mn <= n) ---- */
#define MIN2(a, b) ((a) < (b) ? (a) : (b))
#define UPTO_SIZE(h, t, S, mn, n)                                                                                      \
    ((h) == (t)  ? MIN2((S), (n))                                                                                      \
     : (t) > (h) ? MIN2((t) - (h)-1, (n))                                                                              \
     : ((S) - (h) >= (n) || (t) > (n))                     ? (n)                                                       \
     : ((S) - (h) >= (mn) && (S) - (h) >= (t))             ? (S) - (h)                                                 \
     : (t) > (mn)                                          ? (t)-1                                                     \
                                                           : 0)
#define UPTO_AT(h, t, S, mn, n)                                                                                        \
    ((h) == (t)  ? 0                                                                                                   \
     : (t) > (h) ? (h)                                                                                                 \
     : (S) - (h) >= (n)                                    ? (h)                                                       \
     : (t) > (n)                                           ? 0                                                         \
     : ((S) - (h) >= (mn) && (S) - (h) >= (t))             ? (h)                                                       \
                                                           : 0)
#define UPTO_OK(h, t, S, mn, n) ((mn) != 0 && (n) != 0 && UPTO_SIZE(h, t, S, mn, n) >= (mn))
#define UPTO_OK_B(h, t, S, mn, n)                                                                                      \
    ((mn) != 0 && (n) != 0 &&                                                                                          \
     (((h) == (t) && (S) >= (mn) && (n) >= (mn)) || ((t) > (h) && (t) - (h)-1 >= (mn) && (n) >= (mn)) ||               \
      ((t) < (h) && ((S) - (h) >= (n) || (t) > (n) || (S) - (h) >= (mn) || (t) > (mn)))))

/* The post-state clauses shared by both acquire forms.
 *   OKC    success condition (pre-state expression)          SZ   granted size        AT  granted offset
 *   TOBS   tail offset the call observed                      TFIN tail offset of the releaser at return
 *   RESET  the call observed an empty ring (then it resets head/tail to the start and the releaser is idle)
 *   TNOW   the tail offset that is current at return: 0 after a reset, else TFIN                                   */
#define RB_TNOW(rb, TOBS, TFIN) ((RET == AWS_OP_SUCCESS && H0(rb) == (TOBS)) ? T1MEM(rb) : (TFIN))
#define RB_ACQUIRE_POST(rb, dest, OKC, SZ, AT, TOBS, TFIN)                                                             \
    __CPROVER_ensures(RET == AWS_OP_SUCCESS || RET == AWS_OP_ERR)                                                      \
    /* exact success condition */                                                                                      \
    __CPROVER_ensures((RET == AWS_OP_SUCCESS) == (OKC))                                                                \
    /* the buffer handed out: empty, exactly the granted size, inside the ring's storage, at the expected place */     \
    __CPROVER_ensures(RET == AWS_OP_SUCCESS ==> (dest)->len == 0 && (dest)->allocator == NULL)                         \
    __CPROVER_ensures(RET == AWS_OP_SUCCESS ==> (dest)->capacity == (SZ))                                              \
    __CPROVER_ensures(RET == AWS_OP_SUCCESS ==> __CPROVER_same_object((dest)->buffer, (rb)->allocation) &&             \
                      DOFF(dest) <= g_S && (dest)->capacity <= g_S - DOFF(dest))                                       \
    __CPROVER_ensures(RET == AWS_OP_SUCCESS ==> DOFF(dest) == (AT))                                                    \
    /* head is published as the end of the new buffer; tail is written only by the reset of an empty ring */           \
    __CPROVER_ensures(RET == AWS_OP_SUCCESS ==> __CPROVER_same_object((rb)->head.value, (rb)->allocation) &&           \
                      H1(rb) == DOFF(dest) + (dest)->capacity)                                                         \
    __CPROVER_ensures(RET == AWS_OP_SUCCESS && H0(rb) == (TOBS) ==>                                                    \
                      __CPROVER_same_object((rb)->tail.value, (rb)->allocation) && T1MEM(rb) == 0)                     \
    /* NO OVERLAP: a byte that was outstanding when tail was observed is not in the new buffer */                      \
    __CPROVER_ensures(RET == AWS_OP_SUCCESS && OUT(g_x, H0(rb), (TOBS)) ==> !INSIDE(g_x, DOFF(dest), (dest)->capacity)) \
    /* what is still unreleased at return stays outstanding, and so does the new buffer */                             \
    __CPROVER_ensures(RET == AWS_OP_SUCCESS && OUT(g_x, H0(rb), (TFIN)) ==> OUT(g_x, H1(rb), RB_TNOW(rb, TOBS, TFIN))) \
    __CPROVER_ensures(RET == AWS_OP_SUCCESS && INSIDE(g_x, DOFF(dest), (dest)->capacity) ==>                           \
                      OUT(g_x, H1(rb), RB_TNOW(rb, TOBS, TFIN)))                                                       \
    /* the ring invariant is re-established (so the contract applies to the next call) */                              \
    __CPROVER_ensures(RET == AWS_OP_SUCCESS ==> H1(rb) >= 1 && H1(rb) <= g_S && H1(rb) != RB_TNOW(rb, TOBS, TFIN))     \
    /* the releaser can go on from where it stands: its position is still reachable in the new state */               \
    __CPROVER_ensures(RET == AWS_OP_SUCCESS ==> ADV((TFIN), H0(rb), H1(rb), g_S))                                                                                                    \
    /* guarantee towards a releaser that is still busy: head only moves further into the free region */                \
    __CPROVER_ensures(RET == AWS_OP_SUCCESS && H0(rb) != (TOBS) && H0(rb) != (TFIN) ==> HADV(H0(rb), H1(rb), (TFIN), g_S)) \
    /* failure changes nothing (also enforced by the conditional frame) */                                             \
    __CPROVER_ensures(RET != AWS_OP_SUCCESS ==> (rb)->head.value == OLD((rb)->head.value) &&                           \
                      (rb)->tail.value == OLD((rb)->tail.value))                                                       \
    __CPROVER_ensures((rb)->allocation == OLD((rb)->allocation) && (rb)->allocation_end == OLD((rb)->allocation_end) && \
                      (rb)->allocator == OLD((rb)->allocator))

#define RB_ACQUIRE_FRAME(rb, dest, OKC, TOBS)                                                                          \
    __CPROVER_assigns((OKC) : (rb)->head.value, *(dest))                                                               \
    __CPROVER_assigns((OKC) && POFF((rb)->head.value) == (TOBS) : (rb)->tail.value)                                    \
    __CPROVER_assigns(g_last_error, g_raise_count)

/* ================================================================== sequential contracts (no concurrent release) */

#define SEQ_T(rb) POFF((rb)->tail.value) /* pre-state expression, for the frame */

int aws_ring_buffer_acquire(struct aws_ring_buffer *ring_buf, size_t requested_size, struct aws_byte_buf *dest)
RING_SHAPE_REQ(ring_buf)
__CPROVER_requires(__CPROVER_is_fresh(dest, sizeof(*dest)))
RB_ACQUIRE_FRAME(ring_buf, dest, ACQ_OK_B(POFF(ring_buf->head.value), SEQ_T(ring_buf), g_S, requested_size), SEQ_T(ring_buf))
RB_ACQUIRE_POST(ring_buf, dest,
                ACQ_OK(H0(ring_buf), T0(ring_buf), g_S, requested_size), requested_size,
                ACQ_AT(H0(ring_buf), T0(ring_buf), g_S, requested_size), T0(ring_buf), T0(ring_buf))
/* nothing outstanding: every request that fits succeeds */
__CPROVER_ensures(H0(ring_buf) == T0(ring_buf) && requested_size >= 1 && requested_size <= g_S ==> RET == AWS_OP_SUCCESS)
__CPROVER_ensures(RET != AWS_OP_SUCCESS ==> g_last_error == (requested_size == 0 ? AWS_ERROR_INVALID_ARGUMENT : AWS_ERROR_OOM))
;

int aws_ring_buffer_acquire_up_to(
    struct aws_ring_buffer *ring_buf,
    size_t minimum_size,
    size_t requested_size,
    struct aws_byte_buf *dest)
RING_SHAPE_REQ(ring_buf)
__CPROVER_requires(__CPROVER_is_fresh(dest, sizeof(*dest)))
__CPROVER_requires(requested_size >= minimum_size)
RB_ACQUIRE_FRAME(ring_buf, dest,
                 UPTO_OK_B(POFF(ring_buf->head.value), SEQ_T(ring_buf), g_S, minimum_size, requested_size), SEQ_T(ring_buf))
RB_ACQUIRE_POST(ring_buf, dest,
                UPTO_OK(H0(ring_buf), T0(ring_buf), g_S, minimum_size, requested_size),
                UPTO_SIZE(H0(ring_buf), T0(ring_buf), g_S, minimum_size, requested_size),
                UPTO_AT(H0(ring_buf), T0(ring_buf), g_S, minimum_size, requested_size), T0(ring_buf), T0(ring_buf))
/* the granted size lies between the minimum and the request */
__CPROVER_ensures(RET == AWS_OP_SUCCESS ==> minimum_size <= dest->capacity && dest->capacity <= requested_size)
/* nothing outstanding: a request whose minimum fits succeeds, and it gets min(request, ring size) */
__CPROVER_ensures(H0(ring_buf) == T0(ring_buf) && minimum_size >= 1 && minimum_size <= g_S ==>
                  RET == AWS_OP_SUCCESS && dest->capacity == MIN2(g_S, requested_size))
__CPROVER_ensures(RET != AWS_OP_SUCCESS ==>
                  g_last_error == ((requested_size == 0 || minimum_size == 0) ? AWS_ERROR_INVALID_ARGUMENT : AWS_ERROR_OOM))
;

/* ================================================================== one acquire call against a concurrent releaser */

#define ORDER_AT_LEAST_ACQUIRE(mo) ((mo) == aws_memory_order_acquire || (mo) == aws_memory_order_acq_rel || (mo) == aws_memory_order_seq_cst)
#define ORDER_AT_LEAST_RELEASE(mo) ((mo) == aws_memory_order_release || (mo) == aws_memory_order_acq_rel || (mo) == aws_memory_order_seq_cst)
#define IS_HEAD(var) ((const volatile void *)(var) == (const volatile void *)&g_rb->head)
#define IS_TAIL(var) ((const volatile void *)(var) == (const volatile void *)&g_rb->tail)

/* RELY STUB for aws_atomic_load_ptr_explicit inside acquire: head (written by this thread only) is read exactly;
 * tail yields the value the schedule prescribes - g_tobs for the first load, the later value g_tobs2 afterwards.
 * Obligation at every call site: tail is loaded with acquire ordering (or stronger). */
void *rb_rely_load(volatile const struct aws_atomic_var *var, enum aws_memory_order memory_order)
__CPROVER_requires(IS_HEAD(var) || IS_TAIL(var))
__CPROVER_requires(IS_TAIL(var) ==> ORDER_AT_LEAST_ACQUIRE(memory_order))
__CPROVER_assigns(IS_TAIL(var) : g_nload)
__CPROVER_ensures(IS_HEAD(var) ==> PEQ(RET, g_rb->head.value))
__CPROVER_ensures(IS_TAIL(var) ==> PEQ(RET, g_rb->allocation + (OLD(g_nload) == 0 ? g_tobs : g_tobs2)) && g_nload == OLD(g_nload) + 1)
;

/* stub for code that must not load head or tail at all (release) */
void *rb_no_load(volatile const struct aws_atomic_var *var, enum aws_memory_order memory_order)
__CPROVER_requires(0 && "release performs no atomic load")
__CPROVER_assigns()
__CPROVER_ensures(1)
;

/* stub for aws_atomic_store_ptr_explicit: performs the store; obligation: tail is stored with release ordering */
void rb_store(volatile struct aws_atomic_var *var, void *p, enum aws_memory_order memory_order)
__CPROVER_requires(IS_HEAD(var) || IS_TAIL(var))
__CPROVER_requires(IS_TAIL(var) ==> ORDER_AT_LEAST_RELEASE(memory_order))
__CPROVER_assigns(var->value)
__CPROVER_ensures(PEQ(var->value, p))
;

/* the schedule is one a FIFO releaser can produce: observed tails and the final tail advance monotonically through
 * what was outstanding at entry, never past the head at entry (the new buffer is not in the releaser's hands yet) */
#define RB_SCHEDULE_REQ(rb)                                                                                            \
    __CPROVER_requires(g_nload == 0)                                                                                   \
    __CPROVER_requires(ADV(POFF((rb)->tail.value), g_tobs, POFF((rb)->head.value), g_S))                               \
    __CPROVER_requires(ADV(g_tobs, g_tobs2, POFF((rb)->head.value), g_S))                                              \
    __CPROVER_requires(ADV(g_tobs2, g_tfin, POFF((rb)->head.value), g_S))

int acquire_interleaved(struct aws_ring_buffer *ring_buf, size_t requested_size, struct aws_byte_buf *dest)
RING_SHAPE_REQ(ring_buf)
RB_SCHEDULE_REQ(ring_buf)
__CPROVER_requires(__CPROVER_is_fresh(dest, sizeof(*dest)))
RB_ACQUIRE_FRAME(ring_buf, dest, ACQ_OK_B(POFF(ring_buf->head.value), g_tobs, g_S, requested_size), g_tobs)
__CPROVER_assigns(g_nload)
RB_ACQUIRE_POST(ring_buf, dest,
                ACQ_OK(H0(ring_buf), g_tobs, g_S, requested_size), requested_size,
                ACQ_AT(H0(ring_buf), g_tobs, g_S, requested_size), g_tobs, g_tfin)
__CPROVER_ensures(H0(ring_buf) == g_tobs && requested_size >= 1 && requested_size <= g_S ==> RET == AWS_OP_SUCCESS)
;

int acquire_up_to_interleaved(
    struct aws_ring_buffer *ring_buf,
    size_t minimum_size,
    size_t requested_size,
    struct aws_byte_buf *dest)
RING_SHAPE_REQ(ring_buf)
RB_SCHEDULE_REQ(ring_buf)
__CPROVER_requires(__CPROVER_is_fresh(dest, sizeof(*dest)))
__CPROVER_requires(requested_size >= minimum_size)
RB_ACQUIRE_FRAME(ring_buf, dest, UPTO_OK_B(POFF(ring_buf->head.value), g_tobs, g_S, minimum_size, requested_size), g_tobs)
__CPROVER_assigns(g_nload)
RB_ACQUIRE_POST(ring_buf, dest,
                UPTO_OK(H0(ring_buf), g_tobs, g_S, minimum_size, requested_size),
                UPTO_SIZE(H0(ring_buf), g_tobs, g_S, minimum_size, requested_size),
                UPTO_AT(H0(ring_buf), g_tobs, g_S, minimum_size, requested_size), g_tobs, g_tfin)
__CPROVER_ensures(RET == AWS_OP_SUCCESS ==> minimum_size <= dest->capacity && dest->capacity <= requested_size)
__CPROVER_ensures(H0(ring_buf) == g_tobs && minimum_size >= 1 && minimum_size <= g_S ==>
                  RET == AWS_OP_SUCCESS && dest->capacity == MIN2(g_S, requested_size))
;

/* ================================================================== release (sequential and against a concurrent acquirer) */

/* buf = [b, b+c) lies inside the outstanding region without crossing the end of the storage (it was handed out) */
#define REL_IN(b, c, h, t) (((t) < (h) && (t) <= (b) && (b) <= (h) && (c) <= (h) - (b)) || ((t) > (h) && ((t) <= (b) || ((b) <= (h) && (c) <= (h) - (b)))))
#define BOFF(buf) POFF(OLD((buf)->buffer))
#define BEND(buf) (POFF(OLD((buf)->buffer)) + OLD((buf)->capacity))

/* g_hfin: where the acquirer's head stands when release returns (release neither reads nor writes head, so the
 * in-memory head is the value at entry).  FIFO order: everything from the old tail up to the end of buf counts as
 * released - that is the region OUT(x, end, old tail). */
void aws_ring_buffer_release(struct aws_ring_buffer *ring_buffer, struct aws_byte_buf *buf)
RING_SHAPE_REQ(ring_buffer)
__CPROVER_requires(__CPROVER_is_fresh(buf, sizeof(*buf)))
__CPROVER_requires(__CPROVER_pointer_in_range_dfcc(ring_buffer->allocation, buf->buffer, ring_buffer->allocation_end))
__CPROVER_requires(buf->capacity >= 1 && buf->capacity <= g_S - POFF(buf->buffer))
__CPROVER_requires(REL_IN(POFF(buf->buffer), buf->capacity, POFF(ring_buffer->head.value), POFF(ring_buffer->tail.value)))
__CPROVER_requires(HADV(POFF(ring_buffer->head.value), g_hfin, POFF(ring_buffer->tail.value), g_S))
__CPROVER_requires(r_cap ==> (r_boff == POFF(buf->buffer) && r_bcap == buf->capacity))
__CPROVER_assigns(ring_buffer->tail.value, *buf)
/* the end of the buffer is published as the new tail; head untouched */
__CPROVER_ensures(__CPROVER_same_object(ring_buffer->tail.value, ring_buffer->allocation) && T1MEM(ring_buffer) == BEND(buf))
__CPROVER_ensures(ring_buffer->head.value == OLD(ring_buffer->head.value))
/* ring invariant re-established (tail >= 1 below, so head must not be 0) */
__CPROVER_ensures(H1(ring_buffer) != 0 && H1(ring_buffer) <= g_S)
__CPROVER_ensures(buf->buffer == NULL && buf->len == 0 && buf->capacity == 0 && buf->allocator == NULL)
/* the published tail is one the acquirer's rely admits */
__CPROVER_ensures(T1MEM(ring_buffer) >= 1 && T1MEM(ring_buffer) <= g_S && ADV(T0(ring_buffer), T1MEM(ring_buffer), H0(ring_buffer), g_S))
/* ... also with respect to the head the acquirer has reached meanwhile */
__CPROVER_ensures(ADV(T0(ring_buffer), T1MEM(ring_buffer), g_hfin, g_S))
/* the bytes of buf are no longer outstanding ... */
__CPROVER_ensures(INSIDE(g_x, BOFF(buf), OLD(buf->capacity)) ==> !OUT(g_x, g_hfin, T1MEM(ring_buffer)))
/* ... and outstanding_new = outstanding_old minus the FIFO prefix that ends with buf: later buffers stay outstanding */
__CPROVER_ensures(OUT(g_x, g_hfin, T1MEM(ring_buffer)) == (OUT(g_x, g_hfin, T0(ring_buffer)) && !OUT(g_x, BEND(buf), T0(ring_buffer))))
;

/* ================================================================== init: establishes the invariant, empty */
int aws_ring_buffer_init(struct aws_ring_buffer *ring_buf, struct aws_allocator *allocator, size_t size)
__CPROVER_requires(__CPROVER_is_fresh(ring_buf, sizeof(*ring_buf)))
__CPROVER_requires(allocator != NULL && size > 0)
__CPROVER_assigns(*ring_buf)
__CPROVER_ensures(RET == AWS_OP_SUCCESS)
__CPROVER_ensures(__CPROVER_is_fresh(ring_buf->allocation, size))
__CPROVER_ensures(PEQ(ring_buf->allocation_end, ring_buf->allocation + size))
__CPROVER_ensures(PEQ(ring_buf->head.value, ring_buf->allocation) && PEQ(ring_buf->tail.value, ring_buf->allocation))
__CPROVER_ensures(ring_buf->allocator == allocator)
;

#endif
