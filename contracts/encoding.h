/* Function contracts for source/encoding.c (property C05).
 *
 * The postconditions are taken from the property statement and from RFC 4648 / RFC 3629, not from the code:
 *   - the spec functions below (SPEC_*) define the hex and base64 alphabets and their inverses arithmetically,
 *     they never look at the library's tables;
 *   - "for every output byte" is stated for ONE arbitrary ghost position (block index g_blk + offset g_sub inside the
 *     block, or g_j / g_k), DESIGN.md 4.3;
 *   - frames (assigns) say which bytes may change: exactly the predicted output range and output->len.
 */
#ifndef VERIF_CONTRACTS_ENCODING_H
#define VERIF_CONTRACTS_ENCODING_H
#include "contracts/common.h"
#include <aws/common/encoding.h>

#include "contracts/byte_buf.h" /* RET, OLD, PEQ, REQ_WITNESS_BUF, ENS_PREFIX_KEPT */

/* ---- ghost witnesses of this module (set by the harness, 0 otherwise) ---- */
size_t g_blk;  /* index of an arbitrary 3-byte/4-char quantum (base64), or of an arbitrary byte (hex)  */
size_t g_sub;  /* offset inside that quantum (0..3 text side, 0..2 byte side)                          */
size_t g_out;  /* index of an arbitrary byte of the output storage outside the predicted output range  */
uint8_t g_outv; /* its value before the call                                                            */

/* ------------------------------------------------------------------ spec: alphabets (RFC 4648 sections 4 and 8) */
#define SPEC_INVALID 0xFF
#define SPEC_HEX_CHAR(v) ((uint8_t)((v) < 10 ? '0' + (v) : 'a' + ((v)-10)))
#define SPEC_HEX_VAL(c)                                                                                                \
    ((uint8_t)(((c) >= '0' && (c) <= '9')   ? (c) - '0'                                                                \
               : ((c) >= 'a' && (c) <= 'f') ? (c) - 'a' + 10                                                           \
               : ((c) >= 'A' && (c) <= 'F') ? (c) - 'A' + 10                                                           \
                                            : SPEC_INVALID))
#define SPEC_B64_CHAR(v)                                                                                               \
    ((uint8_t)((v) < 26 ? 'A' + (v) : (v) < 52 ? 'a' + ((v)-26) : (v) < 62 ? '0' + ((v)-52) : (v) == 62 ? '+' : '/'))
#define SPEC_B64_VAL(c)                                                                                                \
    ((uint8_t)(((c) >= 'A' && (c) <= 'Z')   ? (c) - 'A'                                                                \
               : ((c) >= 'a' && (c) <= 'z') ? (c) - 'a' + 26                                                           \
               : ((c) >= '0' && (c) <= '9') ? (c) - '0' + 52                                                           \
               : (c) == '+'                 ? 62                                                                       \
               : (c) == '/'                 ? 63                                                                       \
                                            : SPEC_INVALID))
/* membership tests without ?: (assigns-clause conditions must not contain ternaries) */
#define SPEC_IS_HEX(c) (((c) >= '0' && (c) <= '9') || ((c) >= 'a' && (c) <= 'f') || ((c) >= 'A' && (c) <= 'F'))
#define B64_IS_ALPHA(c)                                                                                                \
    (((c) >= 'A' && (c) <= 'Z') || ((c) >= 'a' && (c) <= 'z') || ((c) >= '0' && (c) <= '9') || (c) == '+' || (c) == '/')

/* ------------------------------------------------------------------ length prediction */

/* 2n, error exactly when 2n does not fit; a failing call leaves *encoded_length alone */
int aws_hex_compute_encoded_len(size_t to_encode_len, size_t *encoded_length)
__CPROVER_requires(__CPROVER_is_fresh(encoded_length, sizeof(*encoded_length)))
__CPROVER_assigns(to_encode_len <= SIZE_MAX / 2 : *encoded_length)
__CPROVER_ensures(RET == (to_encode_len <= SIZE_MAX / 2 ? AWS_OP_SUCCESS : AWS_OP_ERR))
__CPROVER_ensures(RET == AWS_OP_SUCCESS ==> *encoded_length == to_encode_len + to_encode_len)
;

/* ceil(n/2), error exactly when n + 1 does not fit */
int aws_hex_compute_decoded_len(size_t to_decode_len, size_t *decoded_len)
__CPROVER_requires(__CPROVER_is_fresh(decoded_len, sizeof(*decoded_len)))
__CPROVER_assigns(to_decode_len != SIZE_MAX : *decoded_len)
__CPROVER_ensures(RET == (to_decode_len != SIZE_MAX ? AWS_OP_SUCCESS : AWS_OP_ERR))
__CPROVER_ensures(RET == AWS_OP_SUCCESS ==> *decoded_len == (to_decode_len >> 1) + (to_decode_len & 1))
;

/* 4*ceil(n/3); the largest n whose encoding fits in size_t is 3*(2^62-1) */
#define B64_MAX_ENCODABLE ((size_t)0xBFFFFFFFFFFFFFFDULL)
#define B64_ENC_LEN(n) (4 * (((n) + 2) / 3))
int aws_base64_compute_encoded_len(size_t to_encode_len, size_t *encoded_len)
__CPROVER_requires(__CPROVER_is_fresh(encoded_len, sizeof(*encoded_len)))
__CPROVER_assigns(to_encode_len <= B64_MAX_ENCODABLE : *encoded_len)
__CPROVER_ensures(RET == (to_encode_len <= B64_MAX_ENCODABLE ? AWS_OP_SUCCESS : AWS_OP_ERR))
/* division-free characterisation of r = 4*ceil(n/3), evaluated in 128 bits: r = 4q with 3q >= n > 3q - 3 */
__CPROVER_ensures(RET == AWS_OP_SUCCESS ==> (*encoded_len & 3) == 0 &&
                  (__uint128_t)3 * (*encoded_len >> 2) >= (__uint128_t)to_encode_len &&
                  (__uint128_t)3 * (*encoded_len >> 2) < (__uint128_t)to_encode_len + 3)
/* the same value in the form callers use */
__CPROVER_ensures(RET == AWS_OP_SUCCESS ==> *encoded_len == B64_ENC_LEN(to_encode_len))
/* lemmas for callers (proved here once, so that a caller's proof needs no reasoning about dividers): the number of
 * quanta, and the size of the final quantum expressed through the result */
__CPROVER_ensures(RET == AWS_OP_SUCCESS ==> (*encoded_len >> 2) == (to_encode_len + 2) / 3)
__CPROVER_ensures(RET == AWS_OP_SUCCESS ==> (to_encode_len % 3 == 0) == ((__uint128_t)3 * (*encoded_len >> 2) == (__uint128_t)to_encode_len))
__CPROVER_ensures(RET == AWS_OP_SUCCESS ==> (to_encode_len % 3 == 1) == ((__uint128_t)3 * (*encoded_len >> 2) == (__uint128_t)to_encode_len + 2))
__CPROVER_ensures(RET == AWS_OP_SUCCESS ==> (to_encode_len % 3 == 2) == ((__uint128_t)3 * (*encoded_len >> 2) == (__uint128_t)to_encode_len + 1))
;

/* number of '=' at the end of a text whose length is a positive multiple of 4 */
#define B64_PAD(p, n) ((size_t)((p)[(n)-1] == '=') + (size_t)((p)[(n)-1] == '=' && (p)[(n)-2] == '='))
#define B64_DEC_LEN(p, n) ((n) == 0 ? (size_t)0 : 3 * ((n) >> 2) - B64_PAD(p, n))
int aws_base64_compute_decoded_len(const struct aws_byte_cursor *AWS_RESTRICT to_decode, size_t *decoded_len)
__CPROVER_requires(CUR_OK(to_decode))
__CPROVER_requires(__CPROVER_is_fresh(decoded_len, sizeof(*decoded_len)))
__CPROVER_assigns((to_decode->len & 3) == 0 : *decoded_len)
__CPROVER_ensures(RET == ((to_decode->len & 3) == 0 ? AWS_OP_SUCCESS : AWS_OP_ERR))
__CPROVER_ensures(RET == AWS_OP_SUCCESS ==> *decoded_len == B64_DEC_LEN(to_decode->ptr, to_decode->len))
;

/* ------------------------------------------------------------------ per-character decoders (static) */

/* accepts exactly 0-9 a-f A-F, with the RFC 4648 value; *int_val is left alone otherwise */
static int s_hex_decode_char_to_int(char character, uint8_t *int_val)
__CPROVER_requires(__CPROVER_is_fresh(int_val, 1))
__CPROVER_assigns(SPEC_IS_HEX(character) : *int_val)
__CPROVER_ensures(RET == (SPEC_IS_HEX(character) ? 0 : AWS_OP_ERR))
__CPROVER_ensures(RET == 0 ==> *int_val == SPEC_HEX_VAL((uint8_t)character))
;

/* accepts exactly the 64 alphabet characters (value 0..63) and, when allowed, '=' (reported as 0xFF) */
#define B64_CHAR_ACCEPTED(c, allow) (B64_IS_ALPHA(c) || ((c) == '=' && (allow)))
static inline int s_base64_get_decoded_value(unsigned char to_decode, uint8_t *value, int8_t allow_sentinel)
__CPROVER_requires(__CPROVER_is_fresh(value, 1))
__CPROVER_assigns(B64_CHAR_ACCEPTED(to_decode, allow_sentinel) : *value)
__CPROVER_ensures(RET == (B64_CHAR_ACCEPTED(to_decode, allow_sentinel) ? AWS_OP_SUCCESS : AWS_OP_ERR))
__CPROVER_ensures(RET == AWS_OP_SUCCESS ==> *value == (to_decode == '=' ? 0xFF : SPEC_B64_VAL(to_decode)))
;

/* ------------------------------------------------------------------ hex encode */

/* aws_hex_encode overwrites the buffer from offset 0 (it does not append) */
#define HEX_ENC_OK(c, o) ((c)->len <= SIZE_MAX / 2 && (o)->capacity >= 2 * (c)->len)
/* hex digit g_sub (0 = high nibble, 1 = low nibble) of byte b */
#define SPEC_HEX_DIGIT(b, sub) SPEC_HEX_CHAR((sub) == 0 ? ((b) >> 4) : ((b)&0x0f))

int aws_hex_encode(const struct aws_byte_cursor *AWS_RESTRICT to_encode, struct aws_byte_buf *AWS_RESTRICT output)
__CPROVER_requires(CUR_OK(to_encode))
__CPROVER_requires(BUF_OK(output))
__CPROVER_assigns(HEX_ENC_OK(to_encode, output) : output->len)
__CPROVER_assigns(HEX_ENC_OK(to_encode, output) && to_encode->len > 0 : __CPROVER_object_upto(output->buffer, 2 * to_encode->len))
__CPROVER_ensures(RET == (HEX_ENC_OK(to_encode, output) ? AWS_OP_SUCCESS : AWS_OP_ERR))
__CPROVER_ensures(RET == AWS_OP_SUCCESS ==> output->len == 2 * to_encode->len)
__CPROVER_ensures(RET != AWS_OP_SUCCESS ==> output->len == OLD(output->len))
__CPROVER_ensures(BUF_SHAPE_KEPT(output))
/* every character below the reported length is the canonical lowercase digit of its nibble */
__CPROVER_ensures(g_on && RET == AWS_OP_SUCCESS && g_blk < to_encode->len && g_sub < 2 ==>
                  output->buffer[2 * g_blk + g_sub] == SPEC_HEX_DIGIT(to_encode->ptr[g_blk], g_sub))
;

/* ------------------------------------------------------------------ base64 encode (appends at output->len) */

#define B64_ENC_FITS(c, o) ((c)->len <= B64_MAX_ENCODABLE && (o)->capacity - (o)->len >= B64_ENC_LEN((c)->len))
/* input byte idx, zero beyond the end (RFC 4648: "padded with zero bits") */
#define B64_IN(p, n, idx) ((idx) < (n) ? (p)[idx] : (uint8_t)0)
/* 6-bit group number sub (0..3) of quantum blk */
#define B64_SEXTET(p, n, blk, sub)                                                                                     \
    ((uint8_t)((sub) == 0   ? (B64_IN(p, n, 3 * (blk)) >> 2)                                                           \
               : (sub) == 1 ? (((B64_IN(p, n, 3 * (blk)) & 0x03) << 4) | (B64_IN(p, n, 3 * (blk) + 1) >> 4))          \
               : (sub) == 2 ? (((B64_IN(p, n, 3 * (blk) + 1) & 0x0f) << 2) | (B64_IN(p, n, 3 * (blk) + 2) >> 6))      \
                            : (B64_IN(p, n, 3 * (blk) + 2) & 0x3f)))
/* is text position (blk, sub) a padding position? */
#define B64_IS_PAD_POS(n, blk, sub) (((sub) == 3 && 3 * (blk) + 2 >= (n)) || ((sub) == 2 && 3 * (blk) + 1 >= (n)))
/* the canonical character at text position 4*blk+sub of the encoding of p[0..n) */
#define B64_CANON(p, n, blk, sub) (B64_IS_PAD_POS(n, blk, sub) ? (uint8_t)'=' : SPEC_B64_CHAR(B64_SEXTET(p, n, blk, sub)))

/* ASSUMPTION of the portable-path units: the run-time dispatch answers "no AVX2" (cpuid.c is not examined;
 * the vector path is compared natively, unit avx2_differential) */
bool aws_common_private_has_avx2(void)
__CPROVER_requires(1)
__CPROVER_assigns()
__CPROVER_ensures(RET == false)
;

int aws_base64_encode(const struct aws_byte_cursor *AWS_RESTRICT to_encode, struct aws_byte_buf *AWS_RESTRICT output)
__CPROVER_requires(CUR_OK(to_encode))
__CPROVER_requires(BUF_OK(output))
REQ_WITNESS_BUF(output)
__CPROVER_assigns(B64_ENC_FITS(to_encode, output) : output->len)
__CPROVER_assigns(B64_ENC_FITS(to_encode, output) && to_encode->len > 0 :
                  __CPROVER_object_upto(output->buffer + output->len, B64_ENC_LEN(to_encode->len)))
__CPROVER_ensures(RET == (to_encode->len <= B64_MAX_ENCODABLE && output->capacity - OLD(output->len) >= B64_ENC_LEN(to_encode->len)
                              ? AWS_OP_SUCCESS : AWS_OP_ERR))
__CPROVER_ensures(RET == AWS_OP_SUCCESS ==> output->len == OLD(output->len) + B64_ENC_LEN(to_encode->len))
__CPROVER_ensures(RET != AWS_OP_SUCCESS ==> output->len == OLD(output->len))
__CPROVER_ensures(BUF_SHAPE_KEPT(output))
/* every character between the old and the new length is the canonical RFC 4648 character of its position */
__CPROVER_ensures(g_on && RET == AWS_OP_SUCCESS && g_sub < 4 && g_blk < (to_encode->len + 2) / 3 ==>
                  output->buffer[OLD(output->len) + 4 * g_blk + g_sub] == B64_CANON(to_encode->ptr, to_encode->len, g_blk, g_sub))
ENS_PREFIX_KEPT(output)
;

#endif
