/* Function contracts for source/encoding.c (property C05).
 *
 * The postconditions are taken from the property statement and from RFC 4648 / RFC 3629, not from the code:
 *   - the spec functions below (SPEC_*) define the hex and base64 alphabets and their inverses arithmetically,
 *     they never look at the library's tables;
 *   - "for every output byte" is stated for ONE arbitrary ghost position (block index g_blk + offset g_sub inside the
 *     block, or g_j / g_k), DESIGN.md 4.3;
 *   - frames (assigns) say which bytes may change: exactly the predicted output range and output->len.
 */
#ifndef VERIF_CONTRACTS_ENCODING_H
#define VERIF_CONTRACTS_ENCODING_H
#include "contracts/common.h"
#include <aws/common/encoding.h>

#include "contracts/byte_buf.h" /* RET, OLD, PEQ, REQ_WITNESS_BUF, ENS_PREFIX_KEPT */

/* ---- ghost witnesses of this module (every harness sets them; DFCC starts globals as nondet) ----
 * One arbitrary quantum of the input is captured BEFORE the call (requires clauses), so that the postconditions can
 * speak about plain variables instead of re-reading the input through pointers. */
size_t g_blk;                 /* index of an arbitrary quantum: 3 bytes <-> 4 chars (base64), 1 byte <-> 2 chars (hex) */
size_t g_sub;                 /* offset inside that quantum on the OUTPUT side                                         */
uint8_t g_b0, g_b1, g_b2;     /* encoders: the input bytes of quantum g_blk (those that exist)                         */
uint8_t g_c0, g_c1, g_c2, g_c3; /* decoders: the input characters of quantum g_blk (those that exist)                  */
#define GHOST_RESET_ENC() do { GHOST_RESET(); g_blk = 0; g_sub = 0; } while (0)
#define GHOSTS_ENC()                                                                                                   \
    do {                                                                                                               \
        GHOST_RESET();                                                                                                 \
        g_on = true;                                                                                                   \
        g_k = nondet_size_t(); g_old = nondet_u8(); g_j = nondet_size_t(); g_src = nondet_u8();                       \
        g_blk = nondet_size_t(); g_sub = nondet_size_t();                                                              \
        g_b0 = nondet_u8(); g_b1 = nondet_u8(); g_b2 = nondet_u8();                                                    \
        g_c0 = nondet_u8(); g_c1 = nondet_u8(); g_c2 = nondet_u8(); g_c3 = nondet_u8();                                \
    } while (0)

/* ------------------------------------------------------------------ spec: alphabets (RFC 4648 sections 4 and 8) */
#define SPEC_INVALID 0xFF
#define SPEC_HEX_CHAR(v) ((uint8_t)((v) < 10 ? '0' + (v) : 'a' + ((v)-10)))
#define SPEC_HEX_VAL(c)                                                                                                \
    ((uint8_t)(((c) >= '0' && (c) <= '9')   ? (c) - '0'                                                                \
               : ((c) >= 'a' && (c) <= 'f') ? (c) - 'a' + 10                                                           \
               : ((c) >= 'A' && (c) <= 'F') ? (c) - 'A' + 10                                                           \
                                            : SPEC_INVALID))
#define SPEC_B64_CHAR(v)                                                                                               \
    ((uint8_t)((v) < 26 ? 'A' + (v) : (v) < 52 ? 'a' + ((v)-26) : (v) < 62 ? '0' + ((v)-52) : (v) == 62 ? '+' : '/'))
#define SPEC_B64_VAL(c)                                                                                                \
    ((uint8_t)(((c) >= 'A' && (c) <= 'Z')   ? (c) - 'A'                                                                \
               : ((c) >= 'a' && (c) <= 'z') ? (c) - 'a' + 26                                                           \
               : ((c) >= '0' && (c) <= '9') ? (c) - '0' + 52                                                           \
               : (c) == '+'                 ? 62                                                                       \
               : (c) == '/'                 ? 63                                                                       \
                                            : SPEC_INVALID))
/* membership tests without ?: (assigns-clause conditions must not contain ternaries) */
#define SPEC_IS_HEX(c) (((c) >= '0' && (c) <= '9') || ((c) >= 'a' && (c) <= 'f') || ((c) >= 'A' && (c) <= 'F'))
#define B64_IS_ALPHA(c)                                                                                                \
    (((c) >= 'A' && (c) <= 'Z') || ((c) >= 'a' && (c) <= 'z') || ((c) >= '0' && (c) <= '9') || (c) == '+' || (c) == '/')

/* ------------------------------------------------------------------ length prediction */

/* 2n, error exactly when 2n does not fit; a failing call leaves *encoded_length alone */
int aws_hex_compute_encoded_len(size_t to_encode_len, size_t *encoded_length)
__CPROVER_requires(__CPROVER_is_fresh(encoded_length, sizeof(*encoded_length)))
__CPROVER_assigns(to_encode_len <= SIZE_MAX / 2 : *encoded_length)
__CPROVER_ensures(RET == (to_encode_len <= SIZE_MAX / 2 ? AWS_OP_SUCCESS : AWS_OP_ERR))
__CPROVER_ensures(RET == AWS_OP_SUCCESS ==> *encoded_length == to_encode_len + to_encode_len)
;

/* ceil(n/2), error exactly when n + 1 does not fit */
int aws_hex_compute_decoded_len(size_t to_decode_len, size_t *decoded_len)
__CPROVER_requires(__CPROVER_is_fresh(decoded_len, sizeof(*decoded_len)))
__CPROVER_assigns(to_decode_len != SIZE_MAX : *decoded_len)
__CPROVER_ensures(RET == (to_decode_len != SIZE_MAX ? AWS_OP_SUCCESS : AWS_OP_ERR))
__CPROVER_ensures(RET == AWS_OP_SUCCESS ==> *decoded_len == (to_decode_len >> 1) + (to_decode_len & 1))
;

/* 4*ceil(n/3); the largest n whose encoding fits in size_t is 3*(2^62-1) */
#define B64_MAX_ENCODABLE ((size_t)0xBFFFFFFFFFFFFFFDULL)
#define B64_ENC_LEN(n) (4 * (((n) + 2) / 3))
int aws_base64_compute_encoded_len(size_t to_encode_len, size_t *encoded_len)
__CPROVER_requires(__CPROVER_is_fresh(encoded_len, sizeof(*encoded_len)))
__CPROVER_assigns(to_encode_len <= B64_MAX_ENCODABLE : *encoded_len)
__CPROVER_ensures(RET == (to_encode_len <= B64_MAX_ENCODABLE ? AWS_OP_SUCCESS : AWS_OP_ERR))
/* division-free characterisation of r = 4*ceil(n/3), evaluated in 128 bits: r = 4q with 3q >= n > 3q - 3 */
__CPROVER_ensures(RET == AWS_OP_SUCCESS ==> (*encoded_len & 3) == 0 &&
                  (__uint128_t)3 * (*encoded_len >> 2) >= (__uint128_t)to_encode_len &&
                  (__uint128_t)3 * (*encoded_len >> 2) < (__uint128_t)to_encode_len + 3)
/* the same value in the form callers use */
__CPROVER_ensures(RET == AWS_OP_SUCCESS ==> *encoded_len == B64_ENC_LEN(to_encode_len))
/* lemmas for callers (proved here once, so that a caller's proof needs no reasoning about dividers): the number of
 * quanta, and the size of the final quantum expressed through the result */
__CPROVER_ensures(RET == AWS_OP_SUCCESS ==> (*encoded_len >> 2) == (to_encode_len + 2) / 3)
__CPROVER_ensures(RET == AWS_OP_SUCCESS ==> (to_encode_len % 3 == 0) == ((__uint128_t)3 * (*encoded_len >> 2) == (__uint128_t)to_encode_len))
__CPROVER_ensures(RET == AWS_OP_SUCCESS ==> (to_encode_len % 3 == 1) == ((__uint128_t)3 * (*encoded_len >> 2) == (__uint128_t)to_encode_len + 2))
__CPROVER_ensures(RET == AWS_OP_SUCCESS ==> (to_encode_len % 3 == 2) == ((__uint128_t)3 * (*encoded_len >> 2) == (__uint128_t)to_encode_len + 1))
;

/* number of '=' at the end of a text whose length is a positive multiple of 4 */
#define B64_PAD(p, n) ((size_t)((p)[(n)-1] == '=') + (size_t)((p)[(n)-1] == '=' && (p)[(n)-2] == '='))
#define B64_DEC_LEN(p, n) ((n) == 0 ? (size_t)0 : 3 * ((n) >> 2) - B64_PAD(p, n))
int aws_base64_compute_decoded_len(const struct aws_byte_cursor *AWS_RESTRICT to_decode, size_t *decoded_len)
__CPROVER_requires(CUR_OK(to_decode))
__CPROVER_requires(__CPROVER_is_fresh(decoded_len, sizeof(*decoded_len)))
__CPROVER_assigns((to_decode->len & 3) == 0 : *decoded_len)
__CPROVER_ensures(RET == ((to_decode->len & 3) == 0 ? AWS_OP_SUCCESS : AWS_OP_ERR))
__CPROVER_ensures(RET == AWS_OP_SUCCESS ==> *decoded_len == B64_DEC_LEN(to_decode->ptr, to_decode->len))
;

/* ------------------------------------------------------------------ per-character decoders (static) */

/* accepts exactly 0-9 a-f A-F, with the RFC 4648 value; *int_val is left alone otherwise */
static int s_hex_decode_char_to_int(char character, uint8_t *int_val)
__CPROVER_requires(__CPROVER_is_fresh(int_val, 1))
__CPROVER_assigns(SPEC_IS_HEX(character) : *int_val)
__CPROVER_ensures(RET == (SPEC_IS_HEX(character) ? 0 : AWS_OP_ERR))
__CPROVER_ensures(RET == 0 ==> *int_val == SPEC_HEX_VAL((uint8_t)character))
;

/* accepts exactly the 64 alphabet characters (value 0..63) and, when allowed, '=' (reported as 0xFF) */
#define B64_CHAR_ACCEPTED(c, allow) (B64_IS_ALPHA(c) || ((c) == '=' && (allow)))
static inline int s_base64_get_decoded_value(unsigned char to_decode, uint8_t *value, int8_t allow_sentinel)
__CPROVER_requires(__CPROVER_is_fresh(value, 1))
__CPROVER_assigns(B64_CHAR_ACCEPTED(to_decode, allow_sentinel) : *value)
__CPROVER_ensures(RET == (B64_CHAR_ACCEPTED(to_decode, allow_sentinel) ? AWS_OP_SUCCESS : AWS_OP_ERR))
__CPROVER_ensures(RET == AWS_OP_SUCCESS ==> *value == (to_decode == '=' ? 0xFF : SPEC_B64_VAL(to_decode)))
;

/* ------------------------------------------------------------------ hex encode */

/* aws_hex_encode overwrites the buffer from offset 0 (it does not append) */
#define HEX_ENC_OK(c, o) ((c)->len <= SIZE_MAX / 2 && (o)->capacity >= 2 * (c)->len)
/* hex digit sub (0 = high nibble, 1 = low nibble) of byte b */
#define SPEC_HEX_DIGIT(b, sub) SPEC_HEX_CHAR((sub) == 0 ? ((b) >> 4) : ((b)&0x0f))
/* capture input byte g_blk in g_b0 */
#define REQ_WITNESS_HEX_IN(c) __CPROVER_requires(g_on ==> (g_blk < (c)->len ==> g_b0 == (c)->ptr[g_blk]))

int aws_hex_encode(const struct aws_byte_cursor *AWS_RESTRICT to_encode, struct aws_byte_buf *AWS_RESTRICT output)
__CPROVER_requires(CUR_OK(to_encode))
__CPROVER_requires(BUF_OK(output))
REQ_WITNESS_HEX_IN(to_encode)
__CPROVER_assigns(HEX_ENC_OK(to_encode, output) : output->len)
__CPROVER_assigns(HEX_ENC_OK(to_encode, output) && to_encode->len > 0 : __CPROVER_object_upto(output->buffer, 2 * to_encode->len))
__CPROVER_ensures(RET == (HEX_ENC_OK(to_encode, output) ? AWS_OP_SUCCESS : AWS_OP_ERR))
__CPROVER_ensures(RET == AWS_OP_SUCCESS ==> output->len == 2 * to_encode->len)
__CPROVER_ensures(RET != AWS_OP_SUCCESS ==> output->len == OLD(output->len))
__CPROVER_ensures(BUF_SHAPE_KEPT(output))
/* every character below the reported length is the canonical lowercase digit of its nibble */
__CPROVER_ensures(g_on && RET == AWS_OP_SUCCESS && g_blk < to_encode->len && g_sub < 2 ==>
                  output->buffer[2 * g_blk + g_sub] == SPEC_HEX_DIGIT(g_b0, g_sub))
;

/* appends 2n characters, growing the buffer through aws_byte_buf_reserve_relative when needed */
int aws_hex_encode_append_dynamic(const struct aws_byte_cursor *AWS_RESTRICT to_encode, struct aws_byte_buf *AWS_RESTRICT output)
/* the input is backed by memory, or it is a view so long (> SIZE_MAX/2) that 2n overflows: such a view cannot exist in
 * memory, it only exercises the overflow check, which must refuse it before touching ptr */
__CPROVER_requires(__CPROVER_is_fresh(to_encode, sizeof(*to_encode)) &&
                   (to_encode->len > SIZE_MAX / 2 || (to_encode->ptr != NULL && __CPROVER_is_fresh(to_encode->ptr, to_encode->len))))
__CPROVER_requires(BUF_OK(output) && output->allocator != NULL)
__CPROVER_requires(g_on ==> (g_blk < to_encode->len && to_encode->len <= SIZE_MAX / 2 ==> g_b0 == to_encode->ptr[g_blk]))
REQ_WITNESS_BUF(output)
/* growth replaces the storage: the whole buffer object (incl. the struct) is in the frame; what must stay is stated below */
__CPROVER_assigns(*output)
__CPROVER_assigns(output->capacity > 0 : __CPROVER_object_whole(output->buffer))
__CPROVER_frees(output->buffer)
__CPROVER_ensures(RET == AWS_OP_SUCCESS || RET == AWS_OP_ERR)
__CPROVER_ensures((to_encode->len > SIZE_MAX / 2 || 2 * to_encode->len > SIZE_MAX - OLD(output->len)) ==> RET == AWS_OP_ERR)
__CPROVER_ensures(RET == AWS_OP_SUCCESS ==> output->len == OLD(output->len) + 2 * to_encode->len)
__CPROVER_ensures(RET != AWS_OP_SUCCESS ==> output->len == OLD(output->len))
__CPROVER_ensures(output->len <= output->capacity && output->allocator == OLD(output->allocator))
__CPROVER_ensures(g_on && RET == AWS_OP_SUCCESS && g_blk < to_encode->len && g_sub < 2 ==>
                  output->buffer[OLD(output->len) + 2 * g_blk + g_sub] == SPEC_HEX_DIGIT(g_b0, g_sub))
ENS_PREFIX_KEPT(output)
;

/* ------------------------------------------------------------------ base64 encode (appends at output->len) */

#define B64_ENC_FITS(c, o) ((c)->len <= B64_MAX_ENCODABLE && (o)->capacity - (o)->len >= B64_ENC_LEN((c)->len))
/* capture the (up to three) input bytes of quantum g_blk */
#define REQ_WITNESS_B64_IN(c)                                                                                          \
    __CPROVER_requires(g_on ==> (g_blk <= SIZE_MAX / 4 &&                                                              \
                                 (3 * g_blk < (c)->len ==> g_b0 == (c)->ptr[3 * g_blk]) &&                             \
                                 (3 * g_blk + 1 < (c)->len ==> g_b1 == (c)->ptr[3 * g_blk + 1]) &&                     \
                                 (3 * g_blk + 2 < (c)->len ==> g_b2 == (c)->ptr[3 * g_blk + 2])))
/* RFC 4648 section 4: the 24-bit input group of quantum g_blk of an n-byte input; missing bytes are zero bits */
#define B64_GROUP(n)                                                                                                   \
    (((uint32_t)g_b0 << 16) | ((uint32_t)(3 * g_blk + 1 < (n) ? g_b1 : 0) << 8) | (uint32_t)(3 * g_blk + 2 < (n) ? g_b2 : 0))
/* ... treated as 4 concatenated 6-bit groups; group number sub */
#define B64_SEXTET(n, sub) ((uint8_t)((B64_GROUP(n) >> (6 * (3 - (sub)))) & 0x3f))
/* text position (g_blk, sub) is a padding position: the final quantum has 1 byte (two '=') or 2 bytes (one '=') */
#define B64_IS_PAD_POS(n, sub) (((sub) == 3 && 3 * g_blk + 2 >= (n)) || ((sub) == 2 && 3 * g_blk + 1 >= (n)))
/* character c is the canonical character for text position (g_blk, sub) of the encoding of an n-byte input */
#define B64_CHAR_IS_CANON(c, n, sub) (B64_IS_PAD_POS(n, sub) ? (c) == '=' : (c) == SPEC_B64_CHAR(B64_SEXTET(n, sub)))

/* ASSUMPTION of the portable-path units: the run-time dispatch answers "no AVX2" (cpuid.c is not examined;
 * the vector path is compared natively, unit avx2_differential) */
bool aws_common_private_has_avx2(void)
__CPROVER_requires(1)
__CPROVER_assigns()
__CPROVER_ensures(RET == false)
;

int aws_base64_encode(const struct aws_byte_cursor *AWS_RESTRICT to_encode, struct aws_byte_buf *AWS_RESTRICT output)
__CPROVER_requires(CUR_OK(to_encode))
__CPROVER_requires(BUF_OK(output))
REQ_WITNESS_BUF(output)
REQ_WITNESS_B64_IN(to_encode)
__CPROVER_assigns(B64_ENC_FITS(to_encode, output) : output->len)
__CPROVER_assigns(B64_ENC_FITS(to_encode, output) && to_encode->len > 0 :
                  __CPROVER_object_upto(output->buffer + output->len, B64_ENC_LEN(to_encode->len)))
__CPROVER_ensures(RET == (to_encode->len <= B64_MAX_ENCODABLE && output->capacity - OLD(output->len) >= B64_ENC_LEN(to_encode->len)
                              ? AWS_OP_SUCCESS : AWS_OP_ERR))
__CPROVER_ensures(RET == AWS_OP_SUCCESS ==> output->len == OLD(output->len) + B64_ENC_LEN(to_encode->len))
__CPROVER_ensures(RET != AWS_OP_SUCCESS ==> output->len == OLD(output->len))
__CPROVER_ensures(BUF_SHAPE_KEPT(output))
/* every character between the old and the new length is the canonical RFC 4648 character of its position */
__CPROVER_ensures(g_on && RET == AWS_OP_SUCCESS && g_sub < 4 && 3 * g_blk < to_encode->len ==>
                  B64_CHAR_IS_CANON(output->buffer[OLD(output->len) + 4 * g_blk + g_sub], to_encode->len, g_sub))
ENS_PREFIX_KEPT(output)
;

/* ------------------------------------------------------------------ hex decode (overwrites from offset 0) */

#define HEX_DEC_LEN(n) (((n) >> 1) + ((n)&1))
#define HEX_DEC_LEN_OK(c, o) ((c)->len != SIZE_MAX && (o)->capacity >= HEX_DEC_LEN((c)->len))
/* output byte k is made of text positions 2k-odd (high digit; absent for k == 0 of an odd-length text, which is read
 * as if a '0' had been prepended) and 2k+1-odd (low digit).  Capture both in g_c0 / g_c1. */
#define HEX_HI_POS(n) (2 * g_blk - ((n)&1))
#define HEX_LO_POS(n) (2 * g_blk + 1 - ((n)&1))
#define HEX_HAS_HI(n) (!(g_blk == 0 && ((n)&1)))
#define REQ_WITNESS_HEX_TEXT(c)                                                                                        \
    __CPROVER_requires(g_on ==> (g_blk < HEX_DEC_LEN((c)->len) && (c)->len != SIZE_MAX ==>                             \
                                 (HEX_HAS_HI((c)->len) ==> g_c0 == (c)->ptr[HEX_HI_POS((c)->len)]) &&                  \
                                     g_c1 == (c)->ptr[HEX_LO_POS((c)->len)]))

int aws_hex_decode(const struct aws_byte_cursor *AWS_RESTRICT to_decode, struct aws_byte_buf *AWS_RESTRICT output)
__CPROVER_requires(CUR_OK(to_decode))
__CPROVER_requires(BUF_OK(output))
REQ_WITNESS_HEX_TEXT(to_decode)
__CPROVER_assigns(HEX_DEC_LEN_OK(to_decode, output) : output->len)
__CPROVER_assigns(HEX_DEC_LEN_OK(to_decode, output) && to_decode->len > 0 :
                  __CPROVER_object_upto(output->buffer, HEX_DEC_LEN(to_decode->len)))
__CPROVER_ensures(RET == AWS_OP_SUCCESS || RET == AWS_OP_ERR)
__CPROVER_ensures(!HEX_DEC_LEN_OK(to_decode, output) ==> RET == AWS_OP_ERR)
__CPROVER_ensures(RET == AWS_OP_SUCCESS ==> output->len == HEX_DEC_LEN(to_decode->len))
__CPROVER_ensures(RET != AWS_OP_SUCCESS ==> output->len == OLD(output->len))
__CPROVER_ensures(BUF_SHAPE_KEPT(output))
/* accepts only hexadecimal digits: both characters of every quantum */
__CPROVER_ensures(g_on && RET == AWS_OP_SUCCESS && g_blk < HEX_DEC_LEN(to_decode->len) ==>
                  (HEX_HAS_HI(to_decode->len) ==> SPEC_IS_HEX(g_c0)) && SPEC_IS_HEX(g_c1))
/* every byte below the reported length was written with the value of its two digits */
__CPROVER_ensures(g_on && RET == AWS_OP_SUCCESS && g_blk < HEX_DEC_LEN(to_decode->len) ==>
                  output->buffer[g_blk] == (uint8_t)(((HEX_HAS_HI(to_decode->len) ? SPEC_HEX_VAL(g_c0) : 0) << 4) | SPEC_HEX_VAL(g_c1)))
;

/* ------------------------------------------------------------------ base64 decode (overwrites from offset 0) */

/* ternary-free forms for assigns conditions */
#define B64_DEC_FITS(c, o)                                                                                             \
    ((c)->len == 0 || (((c)->len & 3) == 0 && (o)->capacity >= 3 * ((c)->len >> 2) - B64_PAD((c)->ptr, (c)->len)))
/* capture the four characters of quantum g_blk */
#define REQ_WITNESS_B64_TEXT(c)                                                                                        \
    __CPROVER_requires(g_on ==> (g_blk < ((c)->len >> 2) && ((c)->len & 3) == 0 ==>                                    \
                                 g_c0 == (c)->ptr[4 * g_blk] && g_c1 == (c)->ptr[4 * g_blk + 1] &&                     \
                                     g_c2 == (c)->ptr[4 * g_blk + 2] && g_c3 == (c)->ptr[4 * g_blk + 3]))
#define B64_IS_LAST(n) (g_blk + 1 == ((n) >> 2))
/* RFC 4648: quantum g_blk of a well-formed text: four alphabet characters; only the final quantum may end in "=" or
 * "==" */
#define B64_QUANTUM_WF(n)                                                                                              \
    (B64_IS_ALPHA(g_c0) && B64_IS_ALPHA(g_c1) &&                                                                       \
     (B64_IS_ALPHA(g_c2) || (B64_IS_LAST(n) && g_c2 == '=' && g_c3 == '=')) &&                                         \
     (B64_IS_ALPHA(g_c3) || (B64_IS_LAST(n) && g_c3 == '=')))
/* canonical: the bits of the final quantum that do not belong to a decoded byte are zero (RFC 4648 section 3.5) */
#define B64_TRAILING_BITS_ZERO(n)                                                                                      \
    (!B64_IS_LAST(n) || ((g_c3 == '=' && g_c2 != '=' ==> (SPEC_B64_VAL(g_c2) & 0x03) == 0) &&                         \
                         (g_c3 == '=' && g_c2 == '=' ==> (SPEC_B64_VAL(g_c1) & 0x0f) == 0)))
/* the 24-bit group of quantum g_blk ('=' counts as zero bits) and its byte number sub */
#define B64_V0(c) ((uint32_t)((c) == '=' ? 0 : SPEC_B64_VAL(c)))
#define B64_TEXT_GROUP ((B64_V0(g_c0) << 18) | (B64_V0(g_c1) << 12) | (B64_V0(g_c2) << 6) | B64_V0(g_c3))
#define B64_DEC_BYTE(sub) ((uint8_t)((B64_TEXT_GROUP >> (8 * (2 - (sub)))) & 0xff))

int aws_base64_decode(const struct aws_byte_cursor *AWS_RESTRICT to_decode, struct aws_byte_buf *AWS_RESTRICT output)
__CPROVER_requires(CUR_OK(to_decode))
__CPROVER_requires(BUF_OK(output))
REQ_WITNESS_B64_TEXT(to_decode)
__CPROVER_assigns(B64_DEC_FITS(to_decode, output) : output->len)
__CPROVER_assigns(to_decode->len > 0 && B64_DEC_FITS(to_decode, output) :
                  __CPROVER_object_upto(output->buffer, 3 * (to_decode->len >> 2) - B64_PAD(to_decode->ptr, to_decode->len)))
__CPROVER_ensures(RET == AWS_OP_SUCCESS || RET == AWS_OP_ERR)
/* 1: a text whose length is not a multiple of 4, or whose predicted length does not fit, is refused */
__CPROVER_ensures(!B64_DEC_FITS(to_decode, output) ==> RET == AWS_OP_ERR)
__CPROVER_ensures(to_decode->len == 0 ==> RET == AWS_OP_SUCCESS)
/* 2: the reported length is the predicted length */
__CPROVER_ensures(RET == AWS_OP_SUCCESS ==> output->len == B64_DEC_LEN(to_decode->ptr, to_decode->len))
__CPROVER_ensures(RET != AWS_OP_SUCCESS ==> output->len == OLD(output->len))
__CPROVER_ensures(BUF_SHAPE_KEPT(output))
/* 3: accepts only well-formed text (alphabet, padding only at the very end) */
__CPROVER_ensures(g_on && RET == AWS_OP_SUCCESS && g_blk < (to_decode->len >> 2) ==> B64_QUANTUM_WF(to_decode->len))
/* 4: accepts only the canonical form (zero trailing bits) */
__CPROVER_ensures(g_on && RET == AWS_OP_SUCCESS && g_blk < (to_decode->len >> 2) ==> B64_TRAILING_BITS_ZERO(to_decode->len))
/* 5: never reports more bytes than it wrote: every byte below the reported length has the value RFC 4648 gives it */
__CPROVER_ensures(g_on && RET == AWS_OP_SUCCESS && g_blk < (to_decode->len >> 2) && g_sub < 3 && 3 * g_blk + g_sub < output->len ==>
                  output->buffer[3 * g_blk + g_sub] == B64_DEC_BYTE(g_sub))
;

/* ------------------------------------------------------------------ UTF-8 validator: ghost state and state predicate
 * (the function contracts themselves are in contracts/encoding_utf8.h, which must come after source/encoding.c because
 * struct aws_utf8_decoder is private to that file; the loop contract in overlay/encoding.loops needs these names) */
/* ghost record of what the on_codepoint callback has seen */
uint32_t g_cp_count;
uint32_t g_cp_last;
uint32_t g_cp_hash;
/* ghost record of end-of-text checks (aws_utf8_decoder_finalize) */
uint32_t g_fin_count;
bool g_fin_ok;
bool g_fin_track; /* switch: on only in units where aws_utf8_decoder_finalize is replaced by its contract */
#define UTF8_HASH(h, cp) ((uint32_t)((h)*31u + (cp) + 1u))

/* states the validator can be in between two bytes: idle, or 1..3 continuation bytes outstanding with the bits read
 * so far */
#define UTF8_STATE_OK(d)                                                                                               \
    ((d)->remaining == 0 ||                                                                                            \
     ((d)->min == 0x80 && (d)->remaining == 1 && (d)->codepoint < 0x20) ||                                             \
     ((d)->min == 0x800 && (((d)->remaining == 2 && (d)->codepoint < 0x10) || ((d)->remaining == 1 && (d)->codepoint < 0x400))) || \
     ((d)->min == 0x10000 && (((d)->remaining == 3 && (d)->codepoint < 0x8) || ((d)->remaining == 2 && (d)->codepoint < 0x200) ||  \
                              ((d)->remaining == 1 && (d)->codepoint < 0x8000))))

#endif
