/* Contracts for the UTF-8 validator of source/encoding.c (property C05).  Include AFTER "source/encoding.c": the clauses
 * speak about the fields of struct aws_utf8_decoder, which is private to that file (a contract on a re-declaration
 * after the definition is picked up as well).
 *
 * What the property needs ("verdict and reported code points do not depend on how the text is split"):
 *   (a) everything the validator carries from one byte to the next lives in {codepoint, min, remaining} of the decoder
 *       object - the loop frame of aws_utf8_decoder_update is exactly these three fields (+ the callback's own effects);
 *   (b) the effect of one byte on that state is the RFC 3629 step function SPEC_UTF8_* below (unit utf8_step, complete);
 *   (c) the callback is invoked exactly when a code point is complete, with that code point.
 * (a)+(b)+(c) make update() a left fold of the step function over the bytes; a fold over a concatenation is the
 * composition of the folds.  The composition itself is machine-checked for texts up to 5 bytes and every pair of split
 * points (unit utf8_chunking, bounded).
 */
#ifndef VERIF_CONTRACTS_ENCODING_UTF8_H
#define VERIF_CONTRACTS_ENCODING_UTF8_H
#include "contracts/encoding.h"

/* the contract every on_codepoint callback handed to the validator is assumed to obey; its requires clause is what the
 * validator guarantees about the values it reports: complete code points only, never a surrogate, at most 21 bits */
int utf8_on_codepoint_contract(uint32_t codepoint, void *user_data)
__CPROVER_requires(codepoint <= 0x1FFFFF && !(codepoint >= 0xD800 && codepoint <= 0xDFFF))
__CPROVER_assigns(g_cp_count, g_cp_last, g_cp_hash)
__CPROVER_ensures(g_cp_count == OLD(g_cp_count) + 1 && g_cp_last == codepoint && g_cp_hash == UTF8_HASH(OLD(g_cp_hash), codepoint))
;
void *g_keep_utf8_cb = (void *)utf8_on_codepoint_contract; /* the address must be taken for function-pointer removal */

#define UTF8_DECODER_OK(d)                                                                                             \
    (__CPROVER_is_fresh((d), sizeof(*(d))) &&                                                                          \
     ((d)->on_codepoint == NULL || __CPROVER_obeys_contract((d)->on_codepoint, utf8_on_codepoint_contract)))

/* ghost: the last update call seen by a caller that replaces update by its contract */
size_t g_upd_calls;
const uint8_t *g_upd_ptr;
size_t g_upd_len;

int aws_utf8_decoder_update(struct aws_utf8_decoder *decoder, struct aws_byte_cursor bytes)
__CPROVER_requires(UTF8_DECODER_OK(decoder) && UTF8_STATE_OK(decoder))
__CPROVER_requires((bytes.len == 0 && bytes.ptr == NULL) || __CPROVER_is_fresh(bytes.ptr, bytes.len))
/* frame: nothing but the three state fields (and what the callback records) */
__CPROVER_assigns(bytes.len > 0 : decoder->codepoint, decoder->min, decoder->remaining, g_cp_count, g_cp_last, g_cp_hash)
__CPROVER_assigns(g_upd_calls, g_upd_ptr, g_upd_len)
__CPROVER_ensures(RET == AWS_OP_SUCCESS || RET == AWS_OP_ERR)
/* ghost record of the call (for callers that replace it; switched off when the body is checked) */
__CPROVER_ensures(g_fin_track ==> g_upd_calls == OLD(g_upd_calls) + 1 && g_upd_ptr == bytes.ptr && g_upd_len == bytes.len)
__CPROVER_ensures(!g_fin_track ==> g_upd_calls == OLD(g_upd_calls) && g_upd_ptr == OLD(g_upd_ptr) && g_upd_len == OLD(g_upd_len))
__CPROVER_ensures(UTF8_STATE_OK(decoder))
__CPROVER_ensures(bytes.len == 0 ==> RET == AWS_OP_SUCCESS)
__CPROVER_ensures(decoder->on_codepoint == NULL ==> g_cp_count == OLD(g_cp_count) && g_cp_hash == OLD(g_cp_hash))
;

void aws_utf8_decoder_reset(struct aws_utf8_decoder *decoder)
__CPROVER_requires(__CPROVER_is_fresh(decoder, sizeof(*decoder)))
__CPROVER_assigns(decoder->codepoint, decoder->min, decoder->remaining)
__CPROVER_ensures(decoder->codepoint == 0 && decoder->min == 0 && decoder->remaining == 0)
;

/* valid exactly when no code point is left unfinished; the decoder is idle afterwards either way */
int aws_utf8_decoder_finalize(struct aws_utf8_decoder *decoder)
__CPROVER_requires(__CPROVER_is_fresh(decoder, sizeof(*decoder)))
__CPROVER_assigns(decoder->codepoint, decoder->min, decoder->remaining, g_fin_count, g_fin_ok)
__CPROVER_ensures(RET == (OLD(decoder->remaining) == 0 ? AWS_OP_SUCCESS : AWS_OP_ERR))
__CPROVER_ensures(decoder->codepoint == 0 && decoder->min == 0 && decoder->remaining == 0)
/* ghost bookkeeping for callers that replace this call by the contract (switched off when the body is checked:
 * real code cannot update a ghost) */
__CPROVER_ensures(g_fin_track ==> g_fin_count == OLD(g_fin_count) + 1 && g_fin_ok == (RET == AWS_OP_SUCCESS))
__CPROVER_ensures(!g_fin_track ==> g_fin_count == OLD(g_fin_count) && g_fin_ok == OLD(g_fin_ok))
;

/* one-shot form = update on an idle decoder followed by finalize */
int aws_decode_utf8(struct aws_byte_cursor bytes, const struct aws_utf8_decoder_options *options)
__CPROVER_requires((bytes.len == 0 && bytes.ptr == NULL) || __CPROVER_is_fresh(bytes.ptr, bytes.len))
__CPROVER_requires(options == NULL || (__CPROVER_is_fresh(options, sizeof(*options)) &&
                   (options->on_codepoint == NULL || __CPROVER_obeys_contract(options->on_codepoint, utf8_on_codepoint_contract))))
__CPROVER_assigns(g_cp_count, g_cp_last, g_cp_hash, g_fin_count, g_fin_ok, g_upd_calls, g_upd_ptr, g_upd_len)
__CPROVER_ensures(RET == AWS_OP_SUCCESS || RET == AWS_OP_ERR)
__CPROVER_ensures(bytes.len == 0 ==> RET == AWS_OP_SUCCESS)
/* the one-shot form validates (and reports) the WHOLE text: exactly one update call, on exactly the given bytes */
__CPROVER_ensures(g_fin_track ==> g_upd_calls == OLD(g_upd_calls) + 1 && g_upd_ptr == bytes.ptr && g_upd_len == bytes.len)
/* a text is reported valid only after the end-of-text check (finalize) has been made and has passed */
__CPROVER_ensures(g_fin_track && RET == AWS_OP_SUCCESS ==> g_fin_count == OLD(g_fin_count) + 1 && g_fin_ok)
;

/* ------------------------------------------------------------------ RFC 3629 step function (for the harness units) */
struct spec_utf8 { uint32_t cp, min; uint8_t rem; };
/* returns 0 = consumed, 1 = consumed and a code point (s->cp) is complete, -1 = invalid */
static int spec_utf8_step(struct spec_utf8 *s, uint8_t b) {
    if (s->rem == 0) {
        if (b < 0x80) { s->cp = b; s->min = 0; return 1; }
        if (b >= 0xC0 && b <= 0xDF) { s->cp = b & 0x1F; s->min = 0x80; s->rem = 1; return 0; }
        if (b >= 0xE0 && b <= 0xEF) { s->cp = b & 0x0F; s->min = 0x800; s->rem = 2; return 0; }
        if (b >= 0xF0 && b <= 0xF7) { s->cp = b & 0x07; s->min = 0x10000; s->rem = 3; return 0; }
        return -1;
    }
    if (b < 0x80 || b > 0xBF) return -1;
    s->cp = (s->cp << 6) | (b & 0x3F);
    s->rem--;
    if (s->rem > 0) return 0;
    if (s->cp < s->min) return -1;                    /* overlong */
    if (s->cp >= 0xD800 && s->cp <= 0xDFFF) return -1; /* surrogate */
    return 1;
}
#endif
